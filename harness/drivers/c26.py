"""C26 -- time-triggered <-> STN plan conversions are faithful.

Phase 1  TGen (temporal) and Gen (instantaneous) problems, loosened so that enough plans are valid;
         a third of the temporal and half of the instantaneous problems get a timed goal over a
         non-degenerate window on a literal that one of their actions writes (window_goal);
         candidate time-triggered plans on a coarse rational grid (gen.random_tt_plan, an
         overlap-biased variant and a variant whose steps start / end around the absolute times of
         the problem: ends of timed-goal windows, timed effects).  The library's validator is used ONLY to prioritise candidates
         (mostly plans it accepts, plus some it rejects); spec/PlanConvSTN.tla (MODE=P1) decides which
         candidates are VALID by UPTimeSem!TimeVerdict.
Phase 2  real code: plan.convert_to(STN_PLAN), is_consistent(), get_constraints() projected to JSON
         (events: 1 plan start, 2 plan end, 2i+1 / 2i+2 start / end of step i, nodes recognised by the
         identity of their ActionInstance), stn.convert_to(TIME_TRIGGERED_PLAN) projected to steps.
Phase 3  PlanConvSTN (MODE=P3) judges: is_consistent = STNSat (Floyd-Warshall), the original times
         satisfy every constraint, the converted-back plan is a re-timing of the same instances, solves
         the STN and is VALID by UPTimeSem!TimeVerdict.
A secondary sample is converted in a fresh Environment (signature env-mixup:tt-to-stn).
"""
import os
import random
from fractions import Fraction
from math import lcm
from multiprocessing import Pool

from .. import tlc, upj, timeobs
from ..common import MachineryError, ImplTimeout, call_limited
from ..gen import TGen, Gen, random_tt_plan, ground_actions, const_num, T, C, num
from ..upj import NV, BV, E, TRUE_E

CFG = "SPECIFICATION Spec\nCONSTANT MaxEv = %d\nINVARIANT Judge\n"
WORKERS = 8
GRID = [0, 0, Fraction(1, 2), Fraction(1, 2), 1, 1, Fraction(3, 2), 2, Fraction(5, 2), 3]


# ----------------------------------------------------------------------------------------
# generator bias (no verdicts here: only which inputs are tried)
# ----------------------------------------------------------------------------------------
def loosen(rng, P):
    """drop some goals / conditions / preconditions so that more candidate plans are valid"""
    if rng.random() < 0.45:
        P["goals"] = []
    elif len(P["goals"]) > 1 and rng.random() < 0.5:
        P["goals"] = P["goals"][:1]
    for a in P["actions"]:
        if a["kind"] == "dur":
            a["conds"] = [c for c in a["conds"] if rng.random() < 0.65]
        else:
            a["pre"] = [c for c in a["pre"] if rng.random() < 0.65]
    return P


def duration_for(rng, a):
    lo, hi = const_num(a["dur"]["lo"]), const_num(a["dur"]["hi"])
    cands = [Fraction(1, 2), 1, Fraction(3, 2), 2, 3]
    if lo is not None and hi is not None:
        inside = [x for x in (lo, hi, (lo + hi) / 2) if x > 0 and (x > lo or not a["dur"]["lopen"]) and (x < hi or not a["dur"]["ropen"])]
        if inside and rng.random() < 0.9:
            return rng.choice(inside)
    if lo is not None:
        cands += [lo, lo + Fraction(1, 2)]
    if hi is not None:
        cands += [hi, hi - Fraction(1, 2)]
    return rng.choice([c for c in cands if c > 0])


def biased_tt_plan(rng, P, maxlen):
    """distinct action instances, starts close together (overlapping durative actions, coinciding
    happenings), durations mostly inside constant duration bounds"""
    gas = ground_actions(P)
    if not gas:
        return []
    acts = {a["name"]: a for a in P["actions"]}
    k = min(len(gas), rng.choice([1, 2, 2, 3, 3, maxlen]))
    chosen = rng.sample(gas, k) if rng.random() < 0.8 else [rng.choice(gas) for _ in range(k)]
    steps = []
    for g in chosen:
        a = acts[g["a"]]
        st = {"a": g["a"], "args": g["args"], "t": NV(rng.choice(GRID)), "d": NV(0)}
        if a["kind"] == "dur":
            st["d"] = NV(duration_for(rng, a))
        steps.append(st)
    return steps


def _bool_writes(P):
    """(action, effect) pairs: unconditional-or-not Boolean assignments of a constant to a fluent whose arguments are
    objects or parameters (syntactic)"""
    fl = {f["name"]: f for f in P["fluents"]}
    out = []
    for a in P["actions"]:
        if any(p["type"]["k"] != "user" for p in a["params"]):
            continue
        for te in a["effects"]:
            ef = te["e"] if a["kind"] == "dur" else te
            if (fl[ef["f"]["name"]]["type"]["k"] == "bool" and ef["kind"] == "assign" and not ef["forall"]
                    and ef["v"]["op"] == "const" and all(x["op"] in ("obj", "param") for x in ef["f"]["args"])):
                out.append((a, ef))
    return out


def window_goal(rng, P):
    """a timed goal over a non-degenerate window [a, b] (a < b, either end open or closed) on a literal that an action
    of the problem writes, so that BOTH ends of the window constrain where that action's effect may go: mostly the
    action falsifies the literal (it has to stay before a or after b), sometimes it establishes it; sometimes a timed
    effect establishes the literal at or before a"""
    cands = _bool_writes(P)
    if not cands:
        return P
    a, ef = rng.choice(cands)
    ptypes = {p["name"]: p["type"]["name"] for p in a["params"]}
    args = [x if x["op"] == "obj" else E("obj", name=rng.choice(upj.objs_of(P, ptypes[x["name"]]))) for x in ef["f"]["args"]]
    atom = E("fluent", args, name=ef["f"]["name"])
    writes = ef["v"]["v"]["b"]
    holds = (not writes) if rng.random() < 0.75 else writes
    lo = rng.choice([0, Fraction(1, 2), 1, 1, 2])
    hi = lo + rng.choice([Fraction(1, 2), 1, 1, Fraction(3, 2), 2])
    P["timed_goals"].append({"iv": {"lo": T("gstart", lo), "hi": T("gstart", hi), "lopen": rng.random() < 0.25, "ropen": rng.random() < 0.25},
                             "g": atom if holds else E("not", [atom])})
    if lo > 0 and rng.random() < 0.5:
        t = T("gstart", rng.choice([x for x in (Fraction(1, 2), 1, Fraction(3, 2), 2) if x <= lo]))
        key = {"name": atom["name"], "args": args}
        if not any(te["t"] == t and te["e"]["f"] == key for te in P["timed_effects"]):
            P["timed_effects"].append({"t": t, "e": {"kind": "assign", "f": key, "v": C(BV(holds)), "c": TRUE_E, "forall": []}})
    return P


def anchors_of(P):
    """the absolute times the problem itself mentions: ends of timed-goal windows, timed effects"""
    out = []
    for tg in P["timed_goals"]:
        out += [timeobs.frac(tg["iv"]["lo"]["delay"]), timeobs.frac(tg["iv"]["hi"]["delay"])]
    out += [timeobs.frac(te["t"]["delay"]) for te in P["timed_effects"]]
    return out


def anchored_tt_plan(rng, P, maxlen):
    """like biased_tt_plan, but the start or the end of each step lands on / half a unit around one of the absolute
    times of the problem (just before, at, just after the ends of the timed-goal windows and the timed effects)"""
    steps = biased_tt_plan(rng, P, maxlen)
    anchors = anchors_of(P)
    if not anchors:
        return steps
    for st in steps:
        if rng.random() < 0.25:
            continue
        t = rng.choice(anchors) + rng.choice([-1, Fraction(-1, 2), 0, Fraction(1, 2), Fraction(1, 2), 1])
        if rng.random() < 0.5:
            t -= timeobs.frac(st["d"])
        st["t"] = NV(max(Fraction(0), t))
    return steps


def features(P, steps):
    """syntactic input features used in signatures"""
    acts = {a["name"]: a for a in P["actions"]}
    fs = set()
    for st in steps:
        a = acts[st["a"]]
        if a["kind"] == "dur" and (const_num(a["dur"]["lo"]) is None or const_num(a["dur"]["hi"]) is None):
            fs.add("state-dependent-duration")
    if P["invariants"]:
        fs.add("invariant")
    return sorted(fs)


# ----------------------------------------------------------------------------------------
# dependency probes: one tiny problem per channel through which the temporal semantics reads the
# state (a writer W, a reader X); candidate plans and their validity are decided as for every problem
# ----------------------------------------------------------------------------------------
def _fl(name, typ, default):
    return {"name": name, "type": typ, "sig": [], "default": default}


def _fx(name):
    return E("fluent", [], name=name)


def _eff(kind, name, v):
    return {"kind": kind, "f": {"name": name, "args": []}, "v": v, "c": TRUE_E, "forall": []}


def _dur(name, lo, hi, effects, conds=()):
    return {"name": name, "kind": "dur", "params": [], "pre": [], "effects": list(effects), "conds": list(conds),
            "dur": {"lo": lo, "hi": hi, "lopen": False, "ropen": False}, "sim": False}


def _iv(lo, hi):
    return {"lo": lo, "hi": hi, "lopen": False, "ropen": False}


def probes(rng, variants):
    INT = {"k": "int", "lo": upj.NONE, "hi": upj.NONE}
    BOOL = {"k": "bool"}
    out = []

    def base(name, fluents, actions, goals=(), invariants=(), timed_effects=(), timed_goals=()):
        return {"name": name, "types": [{"name": "t0", "parent": ""}], "objects": [{"name": "o0", "type": "t0"}],
                "fluents": list(fluents), "init": [], "ifuns": [], "actions": list(actions), "goals": list(goals),
                "invariants": list(invariants), "traj": [], "timed_goals": list(timed_goals), "timed_effects": list(timed_effects),
                "metric": {"kind": "none", "costs": [], "default": E("none"), "expr": E("none"), "goals": []}, "nmetrics": 0}

    for _ in range(variants):
        tw = rng.choice([T("start"), T("end"), T("end"), T("start", Fraction(1, 2))])  # when the writer writes
        tx = rng.choice([T("start"), T("end"), T("end")])  # when the reader's own effect happens
        dw = num(rng.choice([1, 1, Fraction(3, 2)]))
        done = _eff("assign", "done", C(BV(True)))
        nf, mf, pf, qf, df = _fl("n", INT, NV(0)), _fl("m", INT, NV(0)), _fl("p", BOOL, BV(False)), _fl("q", BOOL, BV(False)), _fl("done", BOOL, BV(False))
        pt = _fl("p", BOOL, BV(True))
        # duration bounds read the state at the start of the action
        out.append(base("dur-hi", [nf, df], [
            _dur("w", dw, dw, [{"t": tw, "e": _eff("assign", "n", num(2))}]),
            _dur("x", num(1), E("plus", [_fx("n"), num(1)]), [{"t": tx, "e": done}])], goals=[_fx("done")]))
        out.append(base("dur-lo", [nf, df], [
            _dur("w", dw, dw, [{"t": tw, "e": _eff("inc", "n", num(2))}]),
            _dur("x", E("plus", [_fx("n"), num(1)]), num(3), [{"t": tx, "e": done}])], goals=[_fx("done")]))
        # state invariants are read in every state
        out.append(base("inv-bool", [pt, qf], [
            _dur("w", dw, dw, [{"t": tw, "e": _eff("assign", "q", C(BV(True)))}]),
            _dur("x", num(1), num(2), [{"t": tx, "e": _eff("assign", "p", C(BV(False)))}])],
            goals=[E("not", [_fx("p")])], invariants=[E("or", [_fx("p"), _fx("q")])]))
        out.append(base("inv-num", [nf, mf], [
            _dur("w", dw, dw, [{"t": tw, "e": _eff("inc", "m", num(1))}]),
            _dur("x", num(1), num(2), [{"t": tx, "e": _eff("inc", "n", num(1))}])],
            goals=[E("le", [num(1), _fx("n")])], invariants=[E("le", [_fx("n"), _fx("m")])]))
        out.append(base("inv-timed", [pt, qf], [
            _dur("x", num(Fraction(1, 2)), num(2), [{"t": tx, "e": _eff("assign", "p", C(BV(False)))}])],
            invariants=[E("or", [_fx("p"), _fx("q")])],
            timed_effects=[{"t": T("gstart", rng.choice([1, Fraction(3, 2), 2])), "e": _eff("assign", "q", C(BV(True)))}]))
        # bounded types
        out.append(base("bounded", [_fl("n", {"k": "int", "lo": NV(0), "hi": NV(2)}, NV(0)), df], [
            _dur("w", dw, dw, [{"t": tw, "e": _eff("inc", "n", num(1))}]),
            _dur("x", num(1), num(2), [{"t": tx, "e": _eff("dec", "n", num(1))}])]))
        # conditions, conditional effects, effect values, goals (the channels deordering knows about)
        out.append(base("cond", [pf, df], [
            _dur("w", dw, dw, [{"t": tw, "e": _eff("assign", "p", C(BV(True)))}]),
            _dur("v", num(1), num(1), [{"t": T("end"), "e": _eff("assign", "p", C(BV(False)))}]),
            _dur("x", num(1), num(2), [{"t": tx, "e": done}],
                 [{"iv": rng.choice([_iv(T("start"), T("start")), _iv(T("start"), T("end")), _iv(T("end"), T("end"))]), "c": _fx("p")}])],
            goals=[_fx("done")]))
        ce = dict(done)
        ce["c"] = _fx("p")
        out.append(base("cond-effect", [pf, df], [
            _dur("w", dw, dw, [{"t": tw, "e": _eff("assign", "p", C(BV(True)))}]),
            _dur("x", num(1), num(2), [{"t": tx, "e": ce}])], goals=[_fx("done")]))
        out.append(base("value", [nf, mf], [
            _dur("w", dw, dw, [{"t": tw, "e": _eff("assign", "n", num(2))}]),
            _dur("x", num(1), num(2), [{"t": tx, "e": _eff("assign", "m", _fx("n"))}])], goals=[E("eq", [_fx("m"), num(2)])]))
        out.append(base("inst-reader", [pf, df], [
            _dur("w", dw, dw, [{"t": tw, "e": _eff("assign", "p", C(BV(True)))}]),
            {"name": "x", "kind": "inst", "params": [], "pre": [_fx("p")], "effects": [done], "conds": [], "dur": upj.NONE, "sim": False}],
            goals=[_fx("done")]))
        out.append(base("timed-goal", [pf, df], [
            _dur("w", dw, dw, [{"t": tw, "e": _eff("assign", "p", C(BV(True)))}]),
            _dur("x", num(1), num(2), [{"t": tx, "e": _eff("assign", "p", C(BV(False)))}])],
            timed_goals=[{"iv": _iv(T("gstart", 2), T("gstart", rng.choice([2, Fraction(5, 2), 3]))), "g": _fx("p")}]))
        out.append(base("timed-effect", [pt, df], [
            _dur("w", dw, dw, [{"t": tw, "e": _eff("assign", "p", C(BV(True)))}]),
            _dur("x", num(1), num(2), [{"t": tx, "e": done}], [{"iv": _iv(T("start"), T("start")), "c": _fx("p")}])],
            goals=[_fx("done")], timed_effects=[{"t": T("gstart", rng.choice([1, 2])), "e": _eff("assign", "p", C(BV(False)))}]))
    return out


# ----------------------------------------------------------------------------------------
# phase 1 worker: candidates
# ----------------------------------------------------------------------------------------
def cand_worker(job):
    pid, P, ncand, keep, maxlen, seed = job
    from unified_planning.engines.plan_validator import TimeTriggeredPlanValidator

    rng = random.Random(seed)
    rec = {"pid": pid, "P": P, "keys": upj.keys_of(P), "plans": [], "skip": ""}
    try:
        problem = call_limited(lambda: upj.build(P), 60, 5)
        if not TimeTriggeredPlanValidator.supports(problem.kind):
            rec["skip"] = "unsupported-kind"
            return rec
    except ImplTimeout:
        rec["skip"] = "timeout"
        return rec
    except Exception as ex:
        rec["skip"] = "build:" + type(ex).__name__
        return rec
    seen, liked, others = set(), [], []
    for k in range(ncand):
        steps = (random_tt_plan, biased_tt_plan, anchored_tt_plan)[k % 3](rng, P, maxlen)
        if not steps or repr(steps) in seen:
            continue
        seen.add(repr(steps))
        st, _, _ = timeobs.validate(TimeTriggeredPlanValidator, problem, timeobs.build_tt_plan(problem, steps))
        (liked if st == "VALID" else others).append(steps)
    # prioritise: longer plans first (ties in generation order), plus one candidate the library rejects
    liked.sort(key=lambda s: -len(s))
    chosen = liked[:keep]
    if others and rng.random() < 0.5:
        chosen.append(rng.choice(others))
    rec["plans"] = [{"steps": s} for s in chosen]
    return rec


# ----------------------------------------------------------------------------------------
# phase 2 worker: the real conversions
# ----------------------------------------------------------------------------------------
def _bound(x):
    if x is None:
        return {"has": False, "n": 0, "d": 1}
    f = Fraction(x)
    return {"has": True, "n": f.numerator, "d": f.denominator}


def convert(problem, steps):
    """TT -> STN -> TT through the public API; pure projection of what comes back"""
    from unified_planning.plans import PlanKind
    from unified_planning.model import TimepointKind

    rec = {"steps": steps, "conv": "ok", "consistent": False, "cons": [], "scale": 1, "backconv": "ok", "back": []}
    plan = timeobs.build_tt_plan(problem, steps)
    ais = [ai for _, ai, _ in plan.timed_actions]

    def index_of(ai):
        for i, x in enumerate(ais):
            if x is ai:
                return i + 1
        return 0

    def event(node):
        if node.kind == TimepointKind.GLOBAL_START:
            return 1
        if node.kind == TimepointKind.GLOBAL_END:
            return 2
        i = index_of(node.action_instance)
        if i == 0:
            return 0
        return 2 * i + (1 if node.kind == TimepointKind.START else 2)

    fracs = [timeobs.frac(s["t"]) for s in steps] + [timeobs.frac(s["d"]) for s in steps]
    try:
        stn = call_limited(lambda: plan.convert_to(PlanKind.STN_PLAN, problem), 30)
        rec["consistent"] = bool(call_limited(stn.is_consistent, 30))
        cons = call_limited(stn.get_constraints, 30)
    except ImplTimeout:
        rec["conv"] = "TIMEOUT"
        return rec
    except Exception as ex:
        rec["conv"] = type(ex).__name__
        rec["detail"] = str(ex)[:300]
        return rec
    for a_node, lst in cons.items():
        for lo, hi, b_node in lst:
            rec["cons"].append({"a": event(a_node), "b": event(b_node), "lo": _bound(lo), "hi": _bound(hi)})
            fracs += [Fraction(x) for x in (lo, hi) if x is not None]
    rec["cons"].sort(key=lambda c: (c["a"], c["b"]))
    try:
        back = call_limited(lambda: stn.convert_to(PlanKind.TIME_TRIGGERED_PLAN, problem), 30)
        for t, ai, d in back.timed_actions:
            dd = Fraction(0) if d is None else Fraction(d)
            rec["back"].append({"a": ai.action.name, "args": [upj.p_const(x) for x in ai.actual_parameters],
                                "t": NV(Fraction(t)), "d": NV(dd), "i": index_of(ai)})
            fracs += [Fraction(t), dd]
    except ImplTimeout:
        rec["backconv"] = "TIMEOUT"
    except Exception as ex:
        rec["backconv"] = type(ex).__name__
        rec["detail"] = str(ex)[:300]
    sc = 1
    for f in fracs:
        sc = lcm(sc, f.denominator)
    rec["scale"] = sc
    return rec


def conv_worker(job):
    pid, P, plans, fresh = job
    rec = {"pid": pid, "P": P, "keys": upj.keys_of(P), "plans": [], "fresh": fresh}
    env = None
    if fresh:
        from unified_planning.environment import Environment

        env = Environment()
    # generous limit: creating an Environment imports every engine module (slow on a busy machine)
    problem = call_limited(lambda: upj.build(P, env) if fresh else upj.build(P), 120, 5)
    for steps in plans:
        rec["plans"].append(convert(problem, steps))
    return rec


# ----------------------------------------------------------------------------------------
def judge(ctx, batch, mode, maxev, label):
    d = ctx.sub("judge-" + label)
    path = os.path.join(d, "batch.ndjson")
    tlc.write_ndjson(path, batch)
    res = tlc.run_tlc("PlanConvSTN", CFG % maxev, d, env={"BATCH": path, "MODE": mode}, timeout=3000, heap="8g", workers=WORKERS)
    if res.error or res.violated:
        raise MachineryError("PlanConvSTN (%s) failed: %s %s" % (mode, res.violated, (res.error or "")[-3000:]))
    n = sum(len(r["plans"]) for r in batch)
    if res.distinct != n + len(batch):
        raise MachineryError("judge %s consumed %d of %d plans" % (label, res.distinct - len(batch), n))
    ctx.add_tlc("PlanConvSTN-" + label, res)
    return res, n


def corpus(ctx, n_t, n_i, nprobe):
    rng = ctx.rng
    out = probes(rng, nprobe)
    tg = [TGen(rng), TGen(rng, fixed_durations=True), TGen(rng, invariants=False, timed=True)]
    for i in range(n_t):
        P = loosen(rng, tg[i % 3 if i % 4 else 0].problem())
        out.append(window_goal(rng, P) if i % 3 == 1 else P)
    ig = Gen(rng, objfluents=False, undefined=False, hier=False, max_objects=2, max_fluents=4, max_actions=3)
    for i in range(n_i):
        P = loosen(rng, ig.problem())
        out.append(window_goal(rng, P) if i % 2 == 1 else P)
    return out


def signature(clause, fresh, feats):
    if fresh and clause.startswith("conv-raises-"):
        return "env-mixup:tt-to-stn"
    keep = []
    if clause == "back-INVALID-steps-duration" and "state-dependent-duration" in feats:
        keep.append("state-dependent-duration")
    return clause + ("|" + ",".join(keep) if keep else "")


def bounds(quick):
    """(max plan length, temporal problems, instantaneous problems, candidates per problem, plans kept per problem,
    fresh-Environment conversions, variants of each dependency probe)"""
    return (3, 150, 40, 30, 3, 6, 1) if quick else (4, 900, 250, 40, 4, 20, 4)


def run(ctx):
    import time

    q = ctx.quick
    t0 = time.time()
    timing = ctx.cov.setdefault("timing_s", {})
    maxlen, n_t, n_i, ncand, keep, nfresh, nprobe = bounds(q)
    maxev = 2 + 2 * maxlen
    probs = corpus(ctx, n_t, n_i, nprobe)
    jobs = [(i + 1, P, ncand, keep, maxlen, ctx.seed * 7919 + i) for i, P in enumerate(probs)]
    with Pool(WORKERS, maxtasksperchild=40) as pool:
        recs = pool.map(cand_worker, jobs, chunksize=2)
    timing["candidates"] = round(time.time() - t0, 1)
    skipped = {}
    for r in recs:
        if r["skip"]:
            skipped[r["skip"]] = skipped.get(r["skip"], 0) + 1
    batch1 = [r for r in recs if not r["skip"] and r["plans"]]
    if not batch1:
        raise MachineryError("no candidate plans: %r" % skipped)
    # ---- phase 1: TLC decides which candidates are VALID ---------------------------------
    res1, ncands = judge(ctx, batch1, "P1", maxev, "select")
    timing["select"] = round(res1.wall, 1)
    t1 = time.time()
    valid = {}
    for p in res1.printed:
        if p and p[0] == "V":
            valid.setdefault(p[1], set()).add(p[2])
    ctx.cov["candidates"] = ncands
    ctx.cov["candidates_unspecified"] = sum(1 for p in res1.printed if p and p[0] == "U")
    # ---- phase 2: the real conversions -----------------------------------------------------
    jobs2 = []
    for r in batch1:
        sel = [pl["steps"] for i, pl in enumerate(r["plans"]) if (i + 1) in valid.get(r["pid"], ())]
        if sel:
            jobs2.append((r["pid"], r["P"], sel, False))
    if not jobs2:
        raise MachineryError("no candidate plan is VALID by UPTimeSem")
    # secondary sample: the same inputs in a fresh Environment (durative plans first)
    dur = [j for j in jobs2 if any(a["kind"] == "dur" for a in j[1]["actions"])]
    fresh_jobs = [(1000000 + j[0], j[1], j[2][:1], True) for j in (dur + jobs2)[:nfresh]]
    with Pool(WORKERS, maxtasksperchild=40) as pool:
        batch3 = pool.map(conv_worker, jobs2 + fresh_jobs, chunksize=2)
    # ---- phase 3: TLC judges ---------------------------------------------------------------
    timing["convert"] = round(time.time() - t1, 1)
    res3, nplans = judge(ctx, batch3, "P3", maxev, "judge")
    timing["judge"] = round(res3.wall, 1)
    byid = {r["pid"]: r for r in batch3}
    for p in res3.printed:
        if p and p[0] == "U":
            ctx.cov["unspecified"] += 1
        elif p and p[0] == "FAIL":
            _, pid, pi, clause = p
            r = byid[pid]
            pl = r["plans"][pi - 1]
            if clause.startswith("MACHINERY") or clause.startswith("premise"):
                raise MachineryError("judge: %s on problem %d plan %d" % (clause, pid, pi))
            feats = features(r["P"], pl["steps"])
            sig = signature(clause, r["fresh"], feats)
            ctx.violation(sig, "C26: %s%s" % (clause, " (problem built in a fresh Environment)" if r["fresh"] else ""),
                          {"clause": clause, "features": feats, "fresh_environment": r["fresh"], "problem": r["P"], "record": pl})
    main = [r for r in batch3 if not r["fresh"]]
    nmain = sum(len(r["plans"]) for r in main)
    ctx.cov["evaluations"] = nplans
    ctx.cov["traces_validated_against_impl"] = nplans
    ctx.cov["valid_plans_converted"] = nmain
    ctx.cov["fresh_environment_conversions"] = nplans - nmain

    def nontrivial(pl):
        # at least one ordering constraint between two different action instances survives deordering
        return any(c["a"] > 2 and c["b"] > 2 and (c["a"] - 1) // 2 != (c["b"] - 1) // 2 for c in pl["cons"])

    ctx.cov["distinct_nontrivial"] = sum(1 for r in main for pl in r["plans"] if nontrivial(pl))
    ctx.cov["plans_by_steps"] = {str(k): sum(1 for r in main for pl in r["plans"] if len(pl["steps"]) == k) for k in range(1, maxlen + 1)}
    ctx.cov["plans_with_timed_effects_or_goals"] = sum(len(r["plans"]) for r in main if r["P"]["timed_effects"] or r["P"]["timed_goals"])

    def after_window(r, pl):
        # some step ends after the end of a non-degenerate timed-goal window
        his = [timeobs.frac(tg["iv"]["hi"]["delay"]) for tg in r["P"]["timed_goals"] if tg["iv"]["lo"]["delay"] != tg["iv"]["hi"]["delay"]]
        return bool(his) and any(timeobs.frac(s["t"]) + timeobs.frac(s["d"]) > min(his) for s in pl["steps"])

    ctx.cov["plans_with_window_timed_goal"] = sum(len(r["plans"]) for r in main if any(tg["iv"]["lo"]["delay"] != tg["iv"]["hi"]["delay"] for tg in r["P"]["timed_goals"]))
    ctx.cov["plans_with_step_after_timed_goal_window"] = sum(1 for r in main for pl in r["plans"] if after_window(r, pl))
    ctx.cov["plans_with_coinciding_starts"] = sum(1 for r in main for pl in r["plans"] if len({repr(s["t"]) for s in pl["steps"]}) < len(pl["steps"]))
    ctx.cov["problems_judged"] = len(main)
    ctx.cov["problems_skipped"] = skipped
    ctx.cov["rule"] = (
        "%d TGen temporal + %d Gen instantaneous problems (goals/conditions randomly dropped; 1/3 resp. 1/2 of them with an added "
        "timed goal over a window [a, b], a < b, on a literal written by an action); up to %d candidate plans each "
        "(<= %d steps, starts and durations on a grid of halves, overlap-biased, or placed around the ends of the timed-goal "
        "windows / timed effects), the library validator only prioritises "
        "candidates; TLC keeps the plans that are VALID by UPTimeSem!TimeVerdict; one evaluation = one VALID plan converted "
        "TT -> STN -> TT by the real code and judged by PlanConvSTN; non-trivial = the STN orders events of two different "
        "action instances." % (n_t, n_i, ncand, maxlen)
    )
    ex = next((r for r in main for pl in r["plans"] if nontrivial(pl)), None) or main[0]
    ctx.sample({"problem": ex["P"], "records": ex["plans"][:2]})
    ctx.assumptions += [
        "TLC, Json reader, harness/upj.py trusted; unspecified zones skipped and counted",
        "dense-time reading of conditions as stated in spec/UPTimeSem.tla; epsilon separation is not part of validity",
        "STN constraints read as lo <= Time(b) - Time(a) <= hi (the code's reading; the STNPlan docstring states the opposite difference)",
        "rational bounds and times are judged after scaling by the lcm of their denominators",
    ]
