"""C07 -- compilers preserve solvability and every original plan (completeness).
Same artefacts as C06; spec/ProductComplete.tla (subset construction over compiled states)."""
from . import c06


def run(ctx):
    c06.run_common(ctx, "ProductComplete", c06.CFG_COMPLETE, "C07")


def replay(ctx, rec):
    return c06.replay_common(ctx, rec, "ProductComplete", c06.CFG_COMPLETE, "C07")
