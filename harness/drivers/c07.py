"""C07 -- compilers preserve solvability and every original plan (completeness).
Same artefacts as C06; spec/ProductComplete.tla (subset construction over compiled states)."""
from . import c06


def run(ctx):
    c06.run_common(ctx, "ProductComplete", c06.CFG_COMPLETE, "C07")
