"""C17 -- linearity and monotonicity analysis is sound.

G1  TLC (spec/LinearEnum.tla) emits the problems (x, y bounded int fluents, static fluent s, action
    a(q) with a bounded int parameter; q strictly negative / sign-straddling / positive / touching 0)
    and every numeric expression up to depth 2 over x, y, s, q, 0, 1, -1, 2, 1/2 and + - * /.
    (thorough: all of depth 2, more configurations, plus seeded random expressions of depth 3-4).
T3  Python builds every problem (upj.build) and expression (upj.b_expr) through the public API,
    calls LinearChecker(problem).get_fluents(e) (a fresh checker per case) and records the
    answer (is_linear, positive fluent names, negative fluent names) or the exception class; on a
    subset also whether problem.kind keeps SIMPLE_NUMERIC_PLANNING once `e <= 0` is a precondition.
    TLC (spec/LinearTrace.tla) judges every record with Linear!Violations: exhaustive evaluation on
    the declared finite domains decides Monotone / Affine.
T1  in the same TLC run: the implementation-shaped model of the algorithm (spec/LinearAnalysis.tla)
    is checked against the same definitions on every judged expression -- the repaired walk_div
    (sign of the divisor from its type bounds) must be sound everywhere, the walk_div as written
    must not be (else the model lost its teeth).
Python contains no oracle: signatures only name the clause TLC reported plus structural features.
"""
import os

from .. import tlc, upj
from ..common import MachineryError, time_limit, ImplTimeout, load_known, match_known

ENUM_CFG = 'INIT Init\nNEXT Next\nCONSTANTS Depth = %d\n Tier = "%s"\n'
TRACE_CFG = "SPECIFICATION TraceSpec\nINVARIANT Verdict\n"
NUM_OPS = ("plus", "minus", "times", "div")


# ----------------------------------------------------------------------------------------
# the real code
# ----------------------------------------------------------------------------------------
class World:
    """One configuration built in a fresh Environment (rebuilt after every exception: what a failed
    walk leaves in the shared walkers of an environment is property C14, not C17)."""

    def __init__(self, cfg):
        self.cfg = cfg
        self.fresh()

    def fresh(self):
        from unified_planning.environment import Environment

        with time_limit(20):
            self.env = Environment()
            self.problem = upj.build(self.cfg["P"], self.env)
            act = self.problem.action(self.cfg["scope"])
            self.scope = upj.Scope(
                self.problem, {}, {f.name: f for f in self.problem.fluents}, {}, params={p.name: p for p in act.parameters}
            )

    def build(self, e):
        """UPJ expression -> FNode, or None when the ExpressionManager refuses it."""
        try:
            with time_limit(5):
                return upj.b_expr(e, self.scope)
        except ImplTimeout:
            self.fresh()
            return None
        except Exception:
            self.fresh()
            return None

    def analyse(self, fn):
        """LinearChecker(problem).get_fluents(fn) projected to names; exceptions are observations."""
        from unified_planning.model.walkers.linear_checker import LinearChecker

        # k: "ok" | "exc"; l: is_linear; p / n: positive / negative fluent names; x: exception class;
        # s: problem.kind keeps SIMPLE_NUMERIC_PLANNING with `e <= 0` as a precondition ("-": not asked)
        res = {"k": "ok", "l": False, "p": [], "n": [], "x": "", "s": "-"}
        try:
            with time_limit(5):
                r = LinearChecker(self.problem).get_fluents(fn)
            lin, pos, neg = r
            if not isinstance(lin, bool):
                raise TypeError("is_linear flag is not a bool")
            res["l"] = lin
            res["p"] = sorted(names(pos))
            res["n"] = sorted(names(neg))
        except ImplTimeout:
            self.fresh()
            return dict(res, k="exc", x="NoReturnWithin5s")
        except Exception as ex:
            self.fresh()
            return dict(res, k="exc", x=type(ex).__name__)
        return res

    def kind_snp(self, fn):
        """Does problem.kind keep SIMPLE_NUMERIC_PLANNING when `fn <= 0` is a precondition of the action?"""
        try:
            with time_limit(10):
                p2 = self.problem.clone()
                p2.action(self.cfg["scope"]).add_precondition(self.env.expression_manager.LE(fn, 0))
                return "T" if p2.kind.has_simple_numeric_planning() else "F"
        except ImplTimeout:
            self.fresh()
            return "E"
        except Exception:
            self.fresh()
            return "E"


def names(fnodes):
    out = []
    for f in fnodes:
        out.append(f.fluent().name if f.is_fluent_exp() and not f.args else "<%s>" % (f,))
    return out


# ----------------------------------------------------------------------------------------
# structural helpers (naming of signatures and samples only -- never a verdict)
# ----------------------------------------------------------------------------------------
def show(e):
    op = e["op"]
    if op == "const":
        v = e["v"]
        return str(v["n"]) if v.get("d", 1) == 1 else "%d/%d" % (v["n"], v["d"])
    if op in ("fluent", "param"):
        return e["name"]
    sym = {"plus": " + ", "minus": " - ", "times": " * ", "div": " / "}[op]
    return "(" + sym.join(show(a) for a in e["args"]) + ")"


def leaves(e):
    if e["op"] in ("fluent", "param"):
        return {e["name"]}
    out = set()
    for a in e["args"]:
        out |= leaves(a)
    return out


def size(e):
    return 1 + sum(size(a) for a in e["args"])


def features(e):
    """which kinds of sign sources the expression contains (for violation signatures)"""
    out = set()

    def rec(x):
        if x["op"] == "div":
            lv = leaves(x["args"][1])
            if "x" in lv or "y" in lv:
                out.add("div-by-fluent")
            elif "q" in lv:
                out.add("div-by-param")
            elif lv:
                out.add("div-by-static")
            else:
                out.add("div-by-literal")
        if x["op"] == "times":
            nf = sum(1 for a in x["args"] if leaves(a) & {"x", "y"})
            out.add("times-%d-fluent-factors" % min(nf, 2))
        for a in x["args"]:
            rec(a)

    rec(e)
    return out


# ----------------------------------------------------------------------------------------
# G2: seeded random deeper expressions (thorough tier)
# ----------------------------------------------------------------------------------------
def _leaf(rng):
    r = rng.random()
    if r < 0.45:
        return upj.E("fluent", name=rng.choice(["x", "y", "s"]))
    if r < 0.65:
        return upj.E("param", name="q")
    return upj.E("const", v=upj.NV(rng.choice([0, 1, -1, 2, "1/2", -2, 3])))


def random_expr(rng, depth):
    if depth == 0 or rng.random() < 0.15:
        return _leaf(rng)
    op = rng.choice(NUM_OPS)
    n = 3 if op in ("plus", "times") and rng.random() < 0.15 else 2
    return upj.E(op, [random_expr(rng, depth - 1) for _ in range(n)])


# ----------------------------------------------------------------------------------------
# pipeline
# ----------------------------------------------------------------------------------------
def enumerate_cases(ctx, depth, tier):
    d = ctx.sub("enum")
    cfgs_path = os.path.join(d, "cfgs.ndjson")
    out = os.path.join(d, "cases.ndjson")
    res = tlc.run_tlc("LinearEnum", ENUM_CFG % (depth, tier), d, env={"CFGS": cfgs_path, "CASES": out}, workers=1, timeout=3000)
    if res.error or res.violated:
        raise MachineryError("LinearEnum failed: %s %s" % (res.violated, res.error))
    cfgs = tlc.read_ndjson(cfgs_path)
    cases = tlc.read_ndjson(out)  # {e: UPJ expression, cfgs: configurations (1-based) it is run on}
    em = [p for p in res.printed if p and p[0] == "EMITTED"]
    if not em or em[0][1] != len(cfgs) or em[0][2] != len(cases) or not cases:
        raise MachineryError("LinearEnum: emitted %r, read %d configurations and %d expressions" % (em, len(cfgs), len(cases)))
    ctx.add_tlc("enum depth=%d tier=%s" % (depth, tier), res)
    return cfgs, cfgs_path, cases


def observe(ctx, cfgs, cases, kind_rate, first_id=0):
    """run every case on the configurations it names, on the real code; returns (observations, statistics, last id)"""
    obs = []
    st = {"unbuilt": 0, "exc": 0, "nontrivial": 0, "lin": 0, "nonlin": 0, "pos_only": 0, "neg_only": 0, "both": 0, "absent": 0, "kind": 0, "kind_snp": 0}
    oid = first_id
    for ci, cfg in enumerate(cfgs):
        w = None
        for c in cases:
            if ci + 1 not in c["cfgs"]:
                continue
            e = c["e"]
            w = w or World(cfg)
            oid += 1
            fn = w.build(e)
            if fn is None:
                st["unbuilt"] += 1
                continue
            pe = upj.p_expr(fn)
            res = w.analyse(fn)
            if res["k"] == "ok" and (size(e) <= 3 or ctx.rng.random() < kind_rate):
                res["s"] = w.kind_snp(fn)
                st["kind"] += 1
                st["kind_snp"] += res["s"] == "T"
            if res["k"] == "exc":
                st["exc"] += 1
            elif res["l"]:
                st["lin"] += 1
                p, n = set(res["p"]), set(res["n"])
                st["pos_only"] += bool(p - n)
                st["neg_only"] += bool(n - p)
                st["both"] += bool(p & n)
                st["absent"] += bool((leaves(pe) & {"x", "y"}) - p - n)
                st["nontrivial"] += bool(p | n)
            else:
                st["nonlin"] += 1
                st["nontrivial"] += 1
            obs.append({"id": oid, "cfg": ci + 1, "e": pe, "res": res})
    return obs, st, oid


class NodeTable:
    """hash-consed table of UPJ expression nodes (the judge rebuilds the expressions from it): the
    JSON the judge has to parse is ~10x smaller than with nested expression records"""

    def __init__(self):
        self.rows = []
        self.index = {}

    def add(self, e):
        args = [self.add(a) for a in e["args"]]
        key = (e["op"], tuple(args), e["name"], repr(sorted(e["v"].items())))
        if key not in self.index:
            self.rows.append({"op": e["op"], "a": args, "name": e["name"], "v": e["v"]})
            self.index[key] = len(self.rows)
        return self.index[key]


NCHUNKS = 64  # = LinearTrace!NChunks


def judge(ctx, label, cfgs_path, obs, t1):
    """TLC judges the observations; returns {id: [(tag, a, b)]}"""
    d = ctx.sub("judge-" + label)
    path = os.path.join(d, "obs.ndjson")
    npath = os.path.join(d, "nodes.ndjson")
    table = NodeTable()
    tlc.write_ndjson(path, [{"id": o["id"], "cfg": o["cfg"], "e": table.add(o["e"]), "res": o["res"]} for o in obs])
    tlc.write_ndjson(npath, table.rows)
    res = tlc.run_tlc("LinearTrace", TRACE_CFG, d, env={"CFGS": cfgs_path, "NODES": npath, "OBS": path, "T1": "1" if t1 else "0"}, timeout=3000)
    if res.error or res.violated:
        raise MachineryError("LinearTrace failed: %s %s" % (res.violated, res.error))
    if res.distinct != NCHUNKS + len(obs):
        raise MachineryError("judge consumed %d states, expected %d" % (res.distinct, NCHUNKS + len(obs)))
    ctx.add_tlc("judge-" + label, res)
    ctx.cov["traces_validated_against_impl"] += len(obs)
    out = {}
    for p in res.printed:
        if p and isinstance(p[0], str) and p[0] in ("FAIL", "FEAT", "U", "T1-REPAIR", "T1-ASWRITTEN", "T1-DIFF") and len(p) == 4:
            t = (p[0], p[2], p[3])
            if t not in out.setdefault(p[1], []):
                out[p[1]].append(t)
    return out


def report(ctx, cfgs, obs, verdicts, t1, tally):
    byid = {o["id"]: o for o in obs}
    for oid, vs in sorted(verdicts.items()):
        o = byid[oid]
        cfg = cfgs[o["cfg"] - 1]
        feat = [a for tag, a, b in vs if tag == "FEAT"]
        if len(feat) != (1 if any(tag == "FAIL" for tag, a, b in vs) else 0):
            raise MachineryError("judge: observation %d has FAIL lines without exactly one FEAT line: %r" % (oid, vs))
        for tag, a, b in vs:
            tally[tag] = tally.get(tag, 0) + 1
            if tag == "U":
                ctx.cov["unspecified"] += 1
            elif tag == "FAIL":
                if a == "raises-on-defined-expression":
                    sig = "%s|%s" % (a, b)
                    what = "get_fluents raises %s on %s, which has a value on the whole grid [%s]" % (b, show(o["e"]), cfg["tag"])
                else:
                    sig = "%s|%s" % (a, feat[0])
                    what = "get_fluents(%s) = (%s, %s, %s) with %s: clause %s%s" % (
                        show(o["e"]), o["res"]["l"], o["res"]["p"], o["res"]["n"], cfg["tag"], a, " for fluent " + b if b else "")
                    if a.startswith("kind-"):
                        what = "problem.kind keeps SIMPLE_NUMERIC_PLANNING with precondition %s <= 0 [%s]: %s" % (show(o["e"]), cfg["tag"], a)
                ctx.violation(sig, what, {"cfg": cfg, "e": o["e"], "res": o["res"], "clause": a, "fluent": b, "feature": feat[0],
                                          "expr": show(o["e"]), "shape": sorted(features(o["e"]))})
            elif tag == "T1-REPAIR":
                raise MachineryError(
                    "T1: the repaired design (LinearAnalysis, mode bounds) violates %s (%s) on %s [%s]" % (a, b, show(o["e"]), cfg["tag"]))
            elif tag == "T1-ASWRITTEN":
                tally.setdefault("aswritten_witnesses", set()).add(show(o["e"]))


def run(ctx):
    q = ctx.quick
    tier = "quick" if q else "thorough"
    cfgs, cfgs_path, cases = enumerate_cases(ctx, 2 if q else 3, tier)
    tally = {}
    stats = {}
    total = 0

    def batch(label, sel, kind_rate, first_id):
        obs, st, last = observe(ctx, cfgs, sel, kind_rate, first_id)
        verdicts = judge(ctx, label, cfgs_path, obs, True)
        report(ctx, cfgs, obs, verdicts, True, tally)
        for k, v in st.items():
            stats[k] = stats.get(k, 0) + v
        mid = obs[len(obs) // 2]
        ctx.sample({"kind": label + " case", "cfg": cfgs[mid["cfg"] - 1]["tag"], "e": show(mid["e"]), "res": mid["res"]})
        return len(obs), last

    nrandom = 0
    if q:
        n, last = batch("enumerated", cases, 0.04, 0)
        total += n
    else:
        small = [c for c in cases if size(c["e"]) <= 5]
        big = [c for c in cases if size(c["e"]) > 5]
        n, last = batch("enumerated", small, 0.05, 0)
        total += n
        step = 50000
        for k in range(0, len(big), step):
            n, last = batch("enumerated-depth2-%d" % (k // step + 1), big[k : k + step], 0.01, last)
            total += n
        allc = list(range(1, len(cfgs) + 1))
        rnd = [random_expr(ctx.rng, ctx.rng.choice([3, 3, 4])) for _ in range(3000)]
        rnd = [{"e": e, "cfgs": allc} for e in rnd if leaves(e) & {"x", "y"}]
        nrandom = len(rnd)
        n, last = batch("random", rnd, 0.02, last)
        total += n

    # ---- vacuity guards (exit 2, never a verdict) ------------------------------------------
    # The statistics depend on the answers of the code under test: when they are degenerate AND the
    # judge found violations that are not known findings, the violations are the result (exit 1).
    known = load_known()
    has_new = any(match_known(ctx.pid, v.sig, known) is None for v in ctx.violations)
    for k in ("lin", "nonlin", "pos_only", "neg_only", "both", "kind", "kind_snp"):
        if stats.get(k, 0) == 0 and not has_new:
            raise MachineryError("vacuous run: no observation with %s (statistics %r)" % (k, stats))
    wit = tally.get("aswritten_witnesses", set())
    if "(x / q)" not in wit:
        raise MachineryError("T1: the as-written model of walk_div no longer violates Linear!Sound on x / q (model lost its teeth)")
    ctx.cov["evaluations"] += total
    ctx.cov["unspecified"] += stats["unbuilt"]
    ctx.cov["distinct_nontrivial"] = stats["nontrivial"]
    ctx.cov["exhaustive"] = True
    ctx.notes["stats"] = stats
    ctx.cov["c17_statistics"] = dict(stats, t1_aswritten_unsound=tally.get("T1-ASWRITTEN", 0), t1_repair_unsound=tally.get("T1-REPAIR", 0),
                                     t1_model_differs_from_impl=tally.get("T1-DIFF", 0), fail_lines=tally.get("FAIL", 0))
    ctx.cov["rule"] = (
        "G1: every numeric expression %s over x, y, s, q, 0, 1, -1, 2, 1/2 with + - * / that mentions x or y and has no literally "
        "zero divisor (%d expressions, emitted by TLC) on %d configurations%s; each (configuration, expression) is built through the "
        "ExpressionManager, analysed by a fresh LinearChecker(problem) and the recorded answer judged by TLC (Linear!Violations: "
        "exhaustive evaluation on the grid of declared domains). Non-trivial = reported non-linear, or linear with a fluent in "
        "the positive/negative sets. Unspecified = refused by the ExpressionManager, raising on a partially undefined expression, "
        "or undefined on the whole grid."
        % ("of depth <= 2 with a leaf on one side of the root" if q else "of depth <= 2 (op(D1, D1): only those mentioning q, on configuration 1)",
           len(cases), len(cfgs),
           " (an expression is run once per class of configurations that declare everything it mentions identically)"
           + ("" if q else ", plus %d seeded random expressions of depth 3-4 with n-ary + and * on every configuration" % nrandom))
    )
    ctx.assumptions += [
        "TLC and the CommunityModules Json reader are trusted; upj.build / b_expr / p_expr only transcribe structure",
        "monotonicity and affinity are decided on the declared finite integer domains (3-4 values per fluent, 3 parameter values); "
        "points where the expression has no value (division by zero) carry no claim",
        "a fresh Environment is built after every exception so that C14/C16 effects (dirty walkers) are not attributed to C17",
        "the clause absent-but-dependent and raises-on-defined-expression follow the docstring of get_fluents, not the literal statement",
    ]


def _one(ctx, cfg, e):
    w = World(cfg)
    fn = w.build(e)
    if fn is None:
        return None
    res = w.analyse(fn)
    if res["k"] == "ok":
        res["s"] = w.kind_snp(fn)
    return {"id": 1, "cfg": 1, "e": upj.p_expr(fn), "res": res}


def replay(ctx, data):
    """./check C17 --replay FILE : re-run one recorded case against the current tree"""
    d = data["data"]
    o = _one(ctx, d["cfg"], d["e"])
    if o is None:
        print("the ExpressionManager refuses %s" % show(d["e"]))
        return 0
    dd = ctx.sub("replay")
    cp = os.path.join(dd, "cfgs.ndjson")
    tlc.write_ndjson(cp, [d["cfg"]])
    v = judge(ctx, "replay", cp, [o], False)
    fails = [t for t in v.get(1, []) if t[0] == "FAIL"]
    print("feature: %s" % [t[1] for t in v.get(1, []) if t[0] == "FEAT"])
    print("get_fluents(%s) [%s] = %r" % (show(o["e"]), d["cfg"]["tag"], o["res"]))
    for t in fails:
        print("still failing: %s %s" % (t[1], t[2]))
    return 1 if fails else 0


def selftest(ctx):
    """the judge rejects corrupted answers (each clause can fire) and accepts the correct ones"""
    cfgs, cfgs_path, _ = enumerate_cases(ctx, 1, "quick")
    X, Y, Qp = upj.E("fluent", name="x"), upj.E("fluent", name="y"), upj.E("param", name="q")
    two = upj.E("const", v=upj.NV(2))

    def ob(i, e, lin, pos, neg, snp="-", k="ok", exc=""):
        return {"id": i, "cfg": 1, "e": e, "res": {"k": k, "l": lin, "p": pos, "n": neg, "x": exc, "s": snp}}

    xq = upj.E("div", [X, Qp])
    obs = [
        ob(1, xq, True, [], ["x"]),  # correct answer for q < 0
        ob(2, xq, True, ["x"], []),  # the defect
        ob(3, upj.E("minus", [X, Y]), True, ["x"], ["y"]),
        ob(4, upj.E("minus", [X, Y]), True, ["x", "y"], []),
        ob(5, upj.E("minus", [X, Y]), True, ["x"], []),
        ob(6, upj.E("times", [X, Y]), True, ["x", "y"], ["x", "y"]),
        ob(7, upj.E("times", [X, Y]), False, [], []),
        ob(8, upj.E("times", [X, Y]), False, [], [], snp="T"),
        ob(9, upj.E("times", [X, two]), True, [], [], k="exc", exc="KeyError"),
        ob(10, upj.E("div", [X, upj.E("minus", [Qp, Qp])]), True, [], [], k="exc", exc="ZeroDivisionError"),
        ob(11, upj.E("times", [X, two]), True, [], ["x"]),
    ]
    v = judge(ctx, "selftest", cfgs_path, obs, False)
    got = {i: sorted((t[0], t[1], t[2]) for t in v.get(i, []) if t[0] != "FEAT") for i in range(1, 12)}
    feats = {i: [t[1] for t in v.get(i, []) if t[0] == "FEAT"] for i in range(1, 12)}
    if feats[2] != ["nonliteral-divisor-can-be-negative"] or feats[4] != ["no-negative-nonliteral-divisor"]:
        print("BAD features %r" % feats)
        return 2
    want = {
        1: [], 2: [("FAIL", "pos-only-not-nondecreasing", "x")], 3: [],
        4: [("FAIL", "pos-only-not-nondecreasing", "y")], 5: [("FAIL", "absent-but-dependent", "y")],
        6: [("FAIL", "linear-not-affine", "")], 7: [], 8: [("FAIL", "kind-simple-numeric-not-affine", "")],
        9: [("FAIL", "raises-on-defined-expression", "KeyError")],
        10: [("U", "raises-ZeroDivisionError", "")], 11: [("FAIL", "neg-only-not-nonincreasing", "x")],
    }
    ok = True
    for i in sorted(want):
        flag = "ok " if got[i] == want[i] else "BAD"
        ok = ok and got[i] == want[i]
        print("%s %2d %-28s %s -> %s" % (flag, i, show(obs[i - 1]["e"]), obs[i - 1]["res"], got[i]))
    return 0 if ok else 2
