"""C27 -- deordering a valid sequential plan keeps every linearisation valid.

G2' (independence-biased variant of the G2 grammar: more fluents than actions, every action
draws its conditions and effects from a small "home" footprint, a few deliberate overlaps;
conditional / forall / numeric effects, quantified conditions)
 -> phase 1: TLC (spec/DeorderPlans.tla) explores UPSeqSem on every problem and emits every
    executable sequence of pairwise distinct ground action instances up to length 5
 -> a seeded sample of them; the goal is the generated goal when the sequence reaches it, else a
    transcription of the final state TLC computed (so that every sampled plan is VALID)
 -> real code: SequentialPlan(...).convert_to(PARTIAL_ORDER_PLAN, problem); adjacency projected on
    plan indices; all_sequential_plans(); convert_to(SEQUENTIAL_PLAN) of the result
 -> phase 2: TLC (spec/Deorder.tla) explores the down-set lattice of every recorded order and
    judges applicability of every enabled step, the final state, the footprint clause and the
    enumerated linearisations.
T1: spec/MCDeorder.tla (order utilities) and Deorder's "design" mode (the specification's own
minimal order put through the same exploration).
"""
import os
import random
import re
from multiprocessing import Pool

from .. import tlc, upj, simobs
from ..common import MachineryError, time_limit, ImplTimeout, call_limited
from ..gen import Gen, ground_actions, num
from ..upj import E, OV, TRUE_E

WORKERS = 8
PLAN_CFG = "SPECIFICATION Spec\n"
JUDGE_CFG = "SPECIFICATION Spec\nINVARIANT Judge\nCONSTANT Modes = %s\n"
MC_CFG = ("SPECIFICATION Spec\nCONSTANTS n = %d\nINVARIANT PrefixDownSet\nINVARIANT NeverStuck\n"
          "INVARIANT RunsAreLinExt\nINVARIANT Complete\n")


# ----------------------------------------------------------------------------------------
# G2': independence-biased problems
# ----------------------------------------------------------------------------------------
class IGen(Gen):
    """Gen whose actions see only a small 'home' subset of the fluents (least used first), plus,
    with probability p_overlap, one foreign fluent.  Everything else is the G2 grammar."""

    def __init__(self, rng, p_overlap=0.3, p_nested=0.03, **opts):
        base = dict(max_fluents=8, max_actions=4, max_objects=3, invariants=False, undefined=False)
        base.update(opts)
        Gen.__init__(self, rng, **base)
        self.p_overlap = p_overlap
        self.p_nested = p_nested
        self._usage = None
        self._usage_of = None

    def gen_fluents(self):
        # at least as many fluents as the grammar allows actions, and always a Boolean one
        o = self.o
        lo = min(o["max_fluents"], o["max_actions"] + 1)
        for _ in range(20):
            Gen.gen_fluents(self)
            if len(self.P["fluents"]) >= lo:
                break

    def obj_term(self, tname, params, vs, depth=1):
        # fluents as arguments of fluents are rejected by the deordering: rare on purpose
        if depth > 0 and self.r.random() >= self.p_nested:
            depth = 0
        return Gen.obj_term(self, tname, params, vs, depth)

    def action(self, name):
        r, P = self.r, self.P
        if self._usage_of is not P:
            self._usage_of = P
            self._usage = {f["name"]: 0 for f in P["fluents"]}
        allf = P["fluents"]
        order = sorted(allf, key=lambda f: (self._usage[f["name"]], r.random()))
        home = order[: r.choice([1, 2, 2, 3])]
        if r.random() < self.p_overlap:
            extra = r.choice(allf)
            if extra not in home:
                home.append(extra)
        for f in home:
            self._usage[f["name"]] += 1
        P["fluents"] = [f for f in allf if f in home]
        try:
            a = Gen.action(self, name)
        finally:
            P["fluents"] = allf
        # few preconditions: the point is long executable plans
        if len(a["pre"]) > 1 and r.random() < 0.7:
            a["pre"] = a["pre"][:1]
        if a["pre"] and r.random() < 0.4:
            a["pre"] = []
        # a deliberate overlap: a quantified precondition over a parameterised fluent of the whole problem
        wide = [f for f in allf if f["sig"] and f["type"]["k"] in ("bool", "int", "real")]
        if wide and self.o["quantifiers"] and r.random() < 0.2:
            f = r.choice(wide)
            vt = f["sig"][0]["type"]
            params = {p["name"]: p["type"] for p in a["params"]}
            P["fluents"] = [f]
            try:
                body = self.bool_expr(r.choice([0, 0, 1]), params, {"q": vt}, noconst=True)
            finally:
                P["fluents"] = allf
            if "'q'" in repr(body):
                a["pre"].append(E(r.choice(["exists", "exists", "forall"]), [body], vars_=[{"name": "q", "type": vt}]))
        return a


def coupled_invariant(rng, P):
    """a state invariant that couples two fluents written by two different actions (the deliberate
    overlap that footprints of actions do not show): two fresh fluents, two fresh parameterless
    actions, one invariant; three shapes"""
    from ..gen import num
    from ..upj import NV, BV, NONE

    shape = rng.choice(["le", "le", "implies", "sum"])
    fx, fy = E("fluent", [], name="ix"), E("fluent", [], name="iy")
    it = {"k": "int", "lo": NONE, "hi": NONE}

    def act(name, target, kind, v, pre=()):
        return {"name": name, "kind": "inst", "params": [], "pre": list(pre), "conds": [], "dur": NONE, "sim": False,
                "effects": [{"kind": kind, "f": {"name": target, "args": []}, "v": v, "c": TRUE_E, "forall": []}]}

    if shape == "implies":
        P["fluents"] += [{"name": "ix", "type": {"k": "bool"}, "sig": [], "default": BV(False)},
                         {"name": "iy", "type": {"k": "bool"}, "sig": [], "default": BV(False)}]
        P["actions"] += [act("ia", "iy", "assign", E("const", v=BV(True))), act("ib", "ix", "assign", E("const", v=BV(True)))]
        P["invariants"].append(E("implies", [fx, fy]))
    else:
        P["fluents"] += [{"name": "ix", "type": it, "sig": [], "default": NV(0)},
                         {"name": "iy", "type": it, "sig": [], "default": NV(rng.choice([0, 0, 1]))}]
        k = rng.choice([1, 2])
        P["actions"] += [act("ia", "iy", "inc", num(k)), act("ib", "ix", "inc", num(rng.choice([1, k])))]
        if shape == "le":
            P["invariants"].append(E("le", [fx, fy]))
        else:
            P["invariants"].append(E("le", [E("minus", [fx, fy]), num(0)]))


def _fluent_names(e, acc):
    if e["op"] == "fluent":
        acc.add(e["name"])
    for x in e["args"]:
        _fluent_names(x, acc)


def _mentions(a):
    """names of the fluents an action mentions anywhere"""
    acc = set()
    for e in a["pre"]:
        _fluent_names(e, acc)
    for ef in a["effects"]:
        acc.add(ef["f"]["name"])
        for x in ef["f"]["args"]:
            _fluent_names(x, acc)
        _fluent_names(ef["c"], acc)
        _fluent_names(ef["v"], acc)
    return acc


def forall_overlap(g, P):
    """a deliberate overlap that exists only after the expansion of a forall effect (the counterpart, for
    effects, of the quantified precondition of IGen.action): some action A gets one more effect
        forall w: [if c] tf(.., w, ..) := / += / -= v
    where v and/or c read rf(.., w, ..) -- a parameterised fluent that ANOTHER action writes and that A
    does not mention otherwise, so that the ground reads rf(o1), rf(o2), .. of A exist only through the
    quantified variable.  All shapes the grammar has: Boolean / numeric / object-valued targets, assign /
    increase / decrease, the read in the value, in the condition or in both, other arguments objects or
    parameters.  Returns (name of A, names of the other writers of rf) or None."""
    r = g.r
    g.P = P
    fl = {f["name"]: f for f in P["fluents"]}
    writers = {}
    for a in P["actions"]:
        for ef in a["effects"]:
            writers.setdefault(ef["f"]["name"], set()).add(a["name"])
    cands = []
    for a in P["actions"]:
        seen = _mentions(a)
        for tf in P["fluents"]:
            for k, tp in enumerate(tf["sig"]):
                vt = tp["type"]
                for rf in P["fluents"]:
                    if rf["name"] == tf["name"] or rf["name"] in seen or not (writers.get(rf["name"], set()) - {a["name"]}):
                        continue
                    for j, rp in enumerate(rf["sig"]):
                        if not g.compatible(rp["type"]["name"], vt["name"]):
                            continue
                        tk, rk = tf["type"]["k"], rf["type"]["k"]
                        value_ok = (tk == "bool" or (tk == "int" and rk == "int") or (tk == "real" and rk in ("int", "real"))
                                    or (tk == "user" and rk == "user" and g.compatible(tf["type"]["name"], rf["type"]["name"])))
                        # targets that the action writes already, or that nobody else writes, first
                        own = tf["name"] in seen or not (writers.get(tf["name"], set()) - {a["name"]})
                        cands += [(a, tf, k, rf, j, value_ok)] * ((3 if own else 1) * (3 if value_ok else 1))
    r.shuffle(cands)
    for a, tf, k, rf, j, value_ok in cands[:6]:
        params = {p["name"]: p["type"] for p in a["params"]}
        vt = tf["sig"][k]["type"]

        def app(f, pos):
            args = []
            for i, p in enumerate(f["sig"]):
                x = E("var", name="w") if i == pos else g.obj_term(p["type"]["name"], params, {}, 0)
                if x is None:
                    return None
                args.append(x)
            return E("fluent", args, name=f["name"])

        target, read = app(tf, k), app(rf, j)
        if target is None or read is None:
            continue
        rk, tk = rf["type"]["k"], tf["type"]["k"]
        if rk == "bool":
            atom = read if r.random() < 0.6 else E("not", [read])
        elif rk == "user":
            o = g.obj_term(rf["type"]["name"], params, {}, 0)
            if o is None:
                continue
            atom = E("eq", [read, o])
        else:
            c0 = num(r.choice([0, 1, 1, 2]))
            atom = E(r.choice(["le", "lt"]), r.choice([[read, c0], [c0, read]]))
        channel = r.choice(["value", "value", "value", "value", "cond", "both"])
        if not value_ok:
            channel = "cond"
        kind = "assign"
        if tk in ("int", "real") and r.random() < 0.5:
            kind = r.choice(["inc", "dec"])
        if channel == "cond":
            if tk in ("int", "real") and kind != "assign":
                v = num(r.choice([1, 1, 2]))
            else:
                v = E("const", v=g.const_of_type(tf["type"]))
        elif tk == "bool":
            v = atom if rk != "bool" or r.random() < 0.5 else read
        elif tk == "user":
            v = read
        else:
            q = r.random()
            v = read if q < 0.5 else (E("plus", [read, num(r.choice([1, 2]))]) if q < 0.75 else
                                      (E("minus", [num(r.choice([1, 3])), read]) if q < 0.9 else E("times", [read, num(2)])))
        c = atom if channel in ("cond", "both") else TRUE_E
        ef = {"kind": kind, "f": {"name": target["name"], "args": target["args"]}, "v": v, "c": c,
              "forall": [{"name": "w", "type": vt}]}
        effects = g.drop_static_conflicts(a["effects"] + [ef])
        if not any(x is ef for x in effects):
            continue
        a["effects"] = effects
        return a["name"], sorted(writers[rf["name"]] - {a["name"]})
    return None


def gen_corpus(rng, n):
    """the corpus: mostly invariant-free problems; every 6th has state invariants (the grammar's own
    and/or one coupling two actions), every 7th undefined initial values; every 3rd gets a forall effect
    that reads, through its quantified variable, a fluent another action writes (forall_overlap).
    Returns the problems and, per id(problem), the action names find_plans keeps in the menu."""
    out = []
    hints = {}
    for i in range(n):
        opts = {}
        if i % 6 == 5:
            opts["invariants"] = True
        if i % 7 == 6:
            opts["undefined"] = True
        # every 9th problem: fluents applied to fluents are frequent (the documented rejection)
        g = IGen(rng, p_overlap=rng.choice([0.15, 0.3, 0.5]), p_nested=0.6 if i % 9 == 8 else 0.03,
                 max_actions=rng.choice([4, 5]), **opts)
        for _ in range(30):
            P = g.problem()
            if len(ground_actions(P)) >= 5 and all(a["effects"] for a in P["actions"]):
                break
        if i % 3 == 1:
            h = forall_overlap(g, P)
            if h:
                hints[id(P)] = h
        if opts.get("invariants"):
            if not P["invariants"] or rng.random() < 0.7:
                coupled_invariant(rng, P)
        out.append(P)
    return out, hints


def _try_build(P):
    try:
        call_limited(lambda: upj.build(P), 60, 10)
        return ""
    except ImplTimeout:
        return "build-timeout"
    except Exception as ex:
        return "build:" + type(ex).__name__


def buildable(corpus):
    """drop the problems the model-building API rejects (the grammar is not perfectly well-typed:
    e.g. an increase by 2 of an integer[-1, 0] fluent) -- they are not inputs of the property"""
    with Pool(WORKERS, maxtasksperchild=100) as pool:
        why = pool.map(_try_build, corpus, chunksize=4)
    skipped = {}
    for w in why:
        if w:
            skipped[w] = skipped.get(w, 0) + 1
    return [P for P, w in zip(corpus, why) if not w], skipped


# ----------------------------------------------------------------------------------------
# phase 1: plans found by TLC
# ----------------------------------------------------------------------------------------
_DUMP_STATE = re.compile(r"^State \d+:\s*$", re.M)


def find_plans(ctx, corpus, L, M, hints=None):
    """returns probs (the table handed to both TLC runs) and, per pid, the list of
    (plan as menu indices, goal reached, final state as TLA+ text)"""
    rng = ctx.rng
    probs = []
    for i, P in enumerate(corpus):
        gas = ground_actions(P)
        if len(gas) > M:
            # the two actions of a coupled invariant stay in the menu
            keep = [j for j, g in enumerate(gas) if g["a"] in ("ia", "ib")]
            # and so do one instance of the action with the forall overlap and one of a writer of what it reads
            h = (hints or {}).get(id(P))
            if h:
                for names in ([h[0]], h[1]):
                    js = [j for j, g in enumerate(gas) if g["a"] in names and j not in keep]
                    if js and len(keep) < M:
                        keep.append(rng.choice(js))
            rest = [j for j in range(len(gas)) if j not in keep]
            gas = [gas[j] for j in sorted(keep + rng.sample(rest, M - len(keep)))]
        probs.append({"pid": i + 1, "P": P, "keys": upj.keys_of(P), "menu": gas, "L": L})
    d = ctx.sub("plans")
    path = os.path.join(d, "probs.ndjson")
    tlc.write_ndjson(path, probs)
    dump = os.path.join(d, "states.dump")
    res = tlc.run_tlc("DeorderPlans", PLAN_CFG, d, env={"PROBS": path}, workers=WORKERS, timeout=3000, dump=dump, heap="8g")
    if res.error or res.violated:
        raise MachineryError("DeorderPlans failed: %s %s" % (res.violated, (res.error or "")[-3000:]))
    ctx.add_tlc("plans (UPSeqSem explored by TLC)", res)
    text = open(dump).read()
    found = {}
    nstates = 0
    for chunk in _DUMP_STATE.split(text)[1:]:
        nstates += 1
        m = re.search(r"/\\ pid = (\d+)", chunk)
        m2 = re.search(r"/\\ plan = <<([^>]*)>>", chunk)
        m3 = re.search(r"/\\ g = (TRUE|FALSE)", chunk)
        m4 = re.search(r"/\\ st = (.*?)(?=\n/\\ |\Z)", chunk, re.S)
        if not (m and m2 and m3 and m4):
            raise MachineryError("cannot parse dumped state: %r" % chunk[:300])
        plan = [int(x) for x in m2.group(1).replace(" ", "").split(",") if x]
        found.setdefault(int(m.group(1)), []).append((plan, m3.group(1) == "TRUE", m4.group(1)))
    if nstates != res.distinct:
        raise MachineryError("dump has %d states, TLC reports %d" % (nstates, res.distinct))
    return probs, found


def pinned_goals(P, keys, st_text):
    """goal = transcription of the final state computed by TLC (structure only)"""
    vals = tlc.parse_value(st_text.strip())
    if len(vals) != len(keys):
        raise MachineryError("state vector length mismatch")
    goals = []
    for (name, args), v in zip(keys, vals):
        fe = E("fluent", [E("obj", name=a) for a in args], name=name)
        if v["k"] == "b":
            goals.append(fe if v["b"] else E("not", [fe]))
        elif v["k"] == "n":
            goals.append(E("eq", [fe, E("const", v={"k": "n", "n": v["n"], "d": v["d"]})]))
        elif v["k"] == "o":
            goals.append(E("eq", [fe, E("obj", name=v["o"])]))
    return goals or [TRUE_E]


def select_plans(rng, probs, found, per_problem, minlen):
    """seeded sample: per problem group the executable sequences by their SET of instances, keep at
    most two orderings per set, prefer long ones"""
    recs = []
    for pr in probs:
        cands = sorted((p for p in found.get(pr["pid"], []) if len(p[0]) >= minlen), key=lambda p: p[0])
        if not cands:
            continue
        groups = {}
        for c in cands:
            groups.setdefault(tuple(sorted(c[0])), []).append(c)
        pool = []
        for k in sorted(groups):
            g = groups[k]
            rng.shuffle(g)
            pool += g[:2]
        rng.shuffle(pool)
        pool.sort(key=lambda c: -len(c[0]))
        nlong = (per_problem * 3 + 3) // 4
        chosen = pool[:nlong]
        rest = pool[nlong:]
        rng.shuffle(rest)
        chosen += rest[: per_problem - len(chosen)]
        for plan, g, st in chosen:
            keep = g and rng.random() < 0.8
            goals = pr["P"]["goals"] if keep else pinned_goals(pr["P"], pr["keys"], st)
            recs.append({"id": len(recs) + 1, "pid": pr["pid"], "plan": [pr["menu"][m - 1] for m in plan],
                         "goals": goals, "goalmode": "generated" if keep else "final-state"})
    return recs


# ----------------------------------------------------------------------------------------
# phase 2: the real code
# ----------------------------------------------------------------------------------------
def convert(problem, steps):
    """the calls under test; returns the projection of what they returned"""
    from unified_planning.plans import SequentialPlan, ActionInstance, PlanKind

    ais = []
    for g in steps:
        a = problem.action(g["a"])
        ais.append(ActionInstance(a, simobs._params(problem, a, g["args"])))
    index = {id(ai): i + 1 for i, ai in enumerate(ais)}
    pop = SequentialPlan(ais).convert_to(PlanKind.PARTIAL_ORDER_PLAN, problem)
    adj = pop.get_adjacency_list
    out = {"kind": pop.kind.name}
    out["nodes"] = sorted(index.get(id(ai), 0) for ai in adj.keys())
    out["edges"] = sorted([index.get(id(a), 0), index.get(id(b), 0)] for a, succ in adj.items() for b in succ)
    lins = []
    for sp in pop.all_sequential_plans():
        lins.append([index.get(id(ai), 0) for ai in sp.actions])
        if len(lins) > 130:
            break
    out["lins"] = lins
    back = pop.convert_to(PlanKind.SEQUENTIAL_PLAN, problem)
    out["back"] = [index.get(id(ai), 0) for ai in back.actions]
    return out


def worker(job):
    P, recs = job
    out = []
    built = {}
    for rec in recs:
        r = dict(rec, exc="", detail="", nodes=[], edges=[], lins=[], back=[])
        try:
            key = repr(rec["goals"])
            if key not in built:
                built[key] = call_limited(lambda: upj.build(dict(P, goals=rec["goals"])), 60, 10)
            problem = built[key]
        except ImplTimeout:
            r["exc"] = "HARNESS-build-timeout"
            out.append(r)
            continue
        except Exception as ex:
            r["exc"] = "HARNESS-build:" + type(ex).__name__
            r["detail"] = str(ex)[:300]
            out.append(r)
            continue
        try:
            o = call_limited(lambda: convert(problem, rec["plan"]), 20)
            if o.pop("kind") != "PARTIAL_ORDER_PLAN":
                r["exc"] = "WrongPlanKind"
            r.update(o)
        except ImplTimeout:
            r["exc"] = "TIMEOUT"
        except Exception as ex:
            r["exc"] = type(ex).__name__
            r["detail"] = str(ex)[:300]
        out.append(r)
    return out


def run_real_code(probs, recs):
    bypid = {}
    for r in recs:
        bypid.setdefault(r["pid"], []).append(r)
    jobs = [(pr["P"], bypid[pr["pid"]]) for pr in probs if pr["pid"] in bypid]
    with Pool(WORKERS, maxtasksperchild=60) as pool:
        res = pool.map(worker, jobs, chunksize=2)
    out = [r for chunk in res for r in chunk]
    out.sort(key=lambda r: r["id"])
    return out


# ----------------------------------------------------------------------------------------
# phase 3: TLC judges
# ----------------------------------------------------------------------------------------
JUDGE_FIELDS = ("id", "pid", "plan", "goals", "exc", "nodes", "edges", "lins", "back")


def _has(e, ops):
    return e["op"] in ops or any(_has(a, ops) for a in e["args"])


def features(P, rec):
    """coarse syntactic features of the actions of a plan (evidence and vacuity only)"""
    acts = {a["name"]: a for a in P["actions"]}
    fs = set()
    for g in rec["plan"]:
        a = acts[g["a"]]
        exprs = list(a["pre"])
        for ef in a["effects"]:
            exprs += [ef["c"], ef["v"]]
            if ef["forall"]:
                fs.add("forall-effect")
            if ef["c"] != TRUE_E:
                fs.add("conditional-effect")
            if ef["kind"] != "assign":
                fs.add("increase-decrease")
            if _has(ef["v"], ("fluent",)):
                fs.add("value-reads-fluent")
        if any(_has(e, ("exists", "forall")) for e in exprs):
            fs.add("quantified-condition")
    return fs


def judge(ctx, label, probs, recs, modes):
    d = ctx.sub("judge-" + label)
    ppath = os.path.join(d, "probs.ndjson")
    bpath = os.path.join(d, "batch.ndjson")
    tlc.write_ndjson(ppath, [{"pid": p["pid"], "P": p["P"], "keys": p["keys"]} for p in probs])
    tlc.write_ndjson(bpath, [{k: r[k] for k in JUDGE_FIELDS} for r in recs])
    cfg = JUDGE_CFG % ("{" + ", ".join('"%s"' % m for m in modes) + "}")
    res = tlc.run_tlc("Deorder", cfg, d, env={"PROBS": ppath, "BATCH": bpath}, workers=WORKERS, timeout=3000, heap="12g")
    if res.error or res.violated:
        raise MachineryError("Deorder judge failed: %s %s" % (res.violated, (res.error or "")[-3000:]))
    ctx.add_tlc("judge-" + label, res)
    return res


def digest(ctx, probs, recs, res, label=""):
    """turn the judge's printed verdicts into violations / evidence; returns per-record info"""
    byid = {r["id"]: r for r in recs}
    pof = {p["pid"]: p for p in probs}
    info = {}
    fails = []
    unspec = set()
    sole = {}
    for p in res.printed:
        if not p:
            continue
        if p[0] == "REC":
            if p[1] in info:
                raise MachineryError("record %s classified twice" % p[1])
            info[p[1]] = {"cls": p[2], "nlin": p[3], "ndown": p[4]}
        elif p[0] == "FAIL":
            fails.append(p)
        elif p[0] == "U":
            unspec.add((p[1], p[2]))
        elif p[0] == "SOLE":
            sole.setdefault(p[2], set()).add(p[1])
        elif p[0] == "CHERR":
            raise MachineryError("Deorder.tla: the channel split of Reads does not add up (record %s, step %s)" % (p[1], p[2]))
    if set(info) != set(byid):
        raise MachineryError("judge classified %d of %d records" % (len(info), len(byid)))
    bad = [i for i, x in info.items() if x["cls"] in ("not-valid", "unspec-plan", "not-distinct")]
    if bad:
        raise MachineryError("phase 1 emitted plans that SeqVerdict does not accept: %r" % [(i, info[i]["cls"]) for i in bad[:5]])
    design_fails = {p[1] for p in fails if str(p[2]).startswith("T1-")}
    seen = set()
    for p in fails:
        rid, clause = p[1], p[2]
        r = byid[rid]
        P = pof[r["pid"]]["P"]
        if (rid, clause) in seen:
            continue
        seen.add((rid, clause))
        feat = "invariant" if P["invariants"] else "plain"
        data = {"clause": clause, "detail": p[3:], "problem": dict(P, goals=r["goals"]), "plan": r["plan"],
                "observed": {k: r[k] for k in ("exc", "detail", "nodes", "edges", "lins", "back")}}
        if clause.startswith("T1-") and P["invariants"]:
            # footprints of actions cannot see the coupling a state invariant creates: that the minimal
            # order is insufficient there is a fact about the statement, not about the code (counted)
            ctx.cov["minimal_order_insufficient_with_invariants"] = ctx.cov.get("minimal_order_insufficient_with_invariants", 0) + 1
        elif clause.startswith("T1-"):
            ctx.violation("T1|%s|%s" % (clause[3:], feat),
                          "design level: the specification's own minimal order (exactly the dependent pairs) has a "
                          "linearisation violating %s" % clause[3:], data)
        else:
            sig = "%s|%s" % (clause, feat)
            if rid in design_fails:
                sig += "|minimal-order-fails-too"
            ctx.violation(sig, "deordered plan: %s" % clause, data)
    # evidence printed by TLC: records with a dependent pair that is dependent through one channel alone
    ctx.cov["sole_channel_witnesses" + label] = {ch: len(ids) for ch, ids in sorted(sole.items())}
    ctx.cov["unspecified"] += len(unspec) + sum(1 for x in info.values() if x["cls"] == "nested-rejected")
    return info


def pipeline(ctx, n, M, per_problem, L=5):
    corpus, hints = gen_corpus(ctx.rng, n)
    corpus, skipped = buildable(corpus)     # the same objects: hints stay valid
    if not corpus:
        raise MachineryError("no generated problem could be built")
    probs, found = find_plans(ctx, corpus, L, M, hints)
    recs = select_plans(ctx.rng, probs, found, per_problem, 2)
    if not recs:
        raise MachineryError("TLC found no executable plan of length >= 2")
    # only the problems that have a selected plan go on
    usedp = {r["pid"] for r in recs}
    recs = run_real_code(probs, recs)
    dropped = [r for r in recs if r["exc"].startswith("HARNESS")]
    recs = [r for r in recs if not r["exc"].startswith("HARNESS")]
    return probs, found, recs, skipped, dropped


def run(ctx):
    q = ctx.quick
    # ---- T1: the order utilities ----------------------------------------------------------
    d = ctx.sub("t1")
    for n in ([4] if q else [4, 5]):
        res = tlc.run_tlc("MCDeorder", MC_CFG % n, d, workers=WORKERS, timeout=3000)
        if res.error:
            raise MachineryError(res.error)
        ctx.add_tlc("T1 order utilities n=%d" % n, res)
        if res.violated:
            ctx.violation("T1|orders|" + res.violated, "the order utilities of Deorder.tla disagree (%s)" % res.violated,
                          {"n": n, "trace": [s["vars"] for s in res.trace]})
    # ---- corpus, plans, real code -----------------------------------------------------------
    n, M, per = (96, 5, 7) if q else (400, 6, 10)
    probs, found, recs, skipped, dropped = pipeline(ctx, n, M, per)
    res = judge(ctx, "deorder", probs, recs, ["impl", "design"])
    info = digest(ctx, probs, recs, res)
    # ---- evidence -----------------------------------------------------------------------------
    pof = {p["pid"]: p for p in probs}
    judged = [r for r in recs if info[r["id"]]["cls"] == "judged"]
    feats = {}
    for r in judged:
        for f in features(pof[r["pid"]]["P"], r):
            feats[f] = feats.get(f, 0) + 1
    nontrivial = [r for r in judged if info[r["id"]]["nlin"] > 1]
    ctx.cov["evaluations"] = len(recs)
    ctx.cov["traces_validated_against_impl"] = len(judged)
    ctx.cov["distinct_nontrivial"] = len(nontrivial)
    ctx.cov["linearisations_covered"] = sum(info[r["id"]]["nlin"] for r in judged)
    ctx.cov["down_sets_explored"] = sum(info[r["id"]]["ndown"] for r in judged)
    ctx.cov["record_classes"] = {}
    for x in info.values():
        ctx.cov["record_classes"][x["cls"]] = ctx.cov["record_classes"].get(x["cls"], 0) + 1
    ctx.cov["plan_lengths"] = {}
    for r in recs:
        k = str(len(r["plan"]))
        ctx.cov["plan_lengths"][k] = ctx.cov["plan_lengths"].get(k, 0) + 1
    ctx.cov["plan_features"] = feats
    ctx.cov["goal_modes"] = {m: sum(1 for r in recs if r["goalmode"] == m) for m in ("generated", "final-state")}
    ctx.cov["problems"] = {"generated": n, "unbuildable": skipped, "with_selected_plan": len({r["pid"] for r in recs}),
                           "with_invariant": sum(1 for p in probs if p["P"]["invariants"]),
                           "executable_sequences_found_by_TLC": sum(len(v) for v in found.values())}
    ctx.cov["dropped_records"] = {}
    for r in dropped:
        k = r["exc"] + " " + r["detail"][:120]
        ctx.cov["dropped_records"][k] = ctx.cov["dropped_records"].get(k, 0) + 1
    if len(dropped) * 20 > len(recs) + len(dropped):
        raise MachineryError("%d of %d records could not be built: %r" % (len(dropped), len(recs) + len(dropped), ctx.cov["dropped_records"]))
    ctx.cov["exhaustive"] = False
    ctx.cov["rule"] = (
        "%d independence-biased G2 problems; TLC (DeorderPlans) emits every executable sequence of <= 5 pairwise distinct "
        "instances over a menu of <= %d ground actions; per problem <= %d of them are sampled (two orderings per set of "
        "instances, long ones first); the goal is the generated one when reached, else the final state computed by TLC. "
        "One evaluation = one (problem, plan) converted by the real code; for each, TLC explores the whole down-set "
        "lattice of the recorded order (all linearisations) and, as a design check, of the specification's own minimal "
        "order. Non-trivial = the recorded order has more than one linearisation." % (n, M, per)
    )
    if judged:
        ex = max(nontrivial or judged, key=lambda r: (len(r["plan"]), info[r["id"]]["nlin"] < 20, info[r["id"]]["nlin"]))
        ctx.sample({"plan": ex["plan"], "edges": ex["edges"], "linearisations": len(ex["lins"]), "goal": ex["goalmode"]})
    ctx.assumptions += [
        "TLC, the Json reader and harness/upj.py build (structure only) are trusted",
        "plans of <= 5 pairwise distinct instances; problems of <= 12 ground fluents",
        "plans whose actions apply a fluent to an argument that reads the state are rejected by the deordering with "
        "UPUsageError (documented by its message): counted as unspecified, not judged",
        "steps inside the unspecified zones of DESIGN.md 7.1 are not compared (counted)",
    ]
    # ---- vacuity ------------------------------------------------------------------------------
    if len(judged) < 20 or len(nontrivial) * 5 < len(judged):
        raise MachineryError("vacuous run: %d judged records, %d with more than one linearisation" % (len(judged), len(nontrivial)))
    for f in ("forall-effect", "conditional-effect", "increase-decrease", "quantified-condition", "value-reads-fluent"):
        if not feats.get(f):
            raise MachineryError("vacuous run: no judged plan with feature %s" % f)
    if res.distinct <= 2 * len(recs):
        raise MachineryError("vacuous run: the lattice exploration visited %d states for %d records" % (res.distinct, len(recs)))
    # every read channel of the footprints (and write-write) has records on which losing that channel alone is
    # caught by OrderKept (computed and printed by TLC: SoleWitnesses in Deorder.tla); "cond" is rare in the quick
    # tier and "incdec" cannot be alone (the target of an increase is written too), so they are not demanded
    for ch in ("pre", "value", "forall-cond", "forall-value", "write"):
        if not ctx.cov["sole_channel_witnesses"].get(ch):
            raise MachineryError("vacuous run: no record whose order depends on the channel %r alone" % ch)


def selftest(ctx):
    """corrupting one recorded field makes the judge reject (DESIGN.md 7.3 a)"""
    probs, found, recs, skipped, dropped = pipeline(ctx, 30, 6, 6)
    res = judge(ctx, "clean", probs, recs, ["impl"])
    clean = [p for p in res.printed if p and p[0] == "FAIL"]
    dirty = {p[1] for p in clean}          # records that fail already (known finding): left alone
    bad = []
    want = {}
    for r in recs:
        r = dict(r)
        if r["exc"]:
            continue
        if r["id"] in dirty:
            bad.append(r)
            continue
        if r["edges"] and len(want) % 3 == 0:
            r["edges"] = r["edges"][1:]          # an ordering constraint is lost
            want[r["id"]] = "edge dropped"
        elif len(r["lins"]) > 1 and len(want) % 3 == 1:
            r["lins"] = r["lins"][:-1]           # a linearisation is lost
            want[r["id"]] = "linearisation dropped"
        elif len(want) % 3 == 2 and len(r["plan"]) >= 2 and [1, 2] not in r["edges"]:
            r["edges"] = sorted(r["edges"] + [[2, 1]])   # a constraint against the plan order
            want[r["id"]] = "edge reversed"
        bad.append(r)
    res2 = judge(ctx, "corrupted", probs, bad, ["impl"])
    flagged = {p[1] for p in res2.printed if p and p[0] == "FAIL"} - dirty
    kinds = {}
    for i, k in want.items():
        kinds.setdefault(k, [0, 0])
        kinds[k][0] += 1
        kinds[k][1] += 1 if i in flagged else 0
    print("selftest: corrupted records flagged by the judge (kind: corrupted, flagged): %r" % kinds)
    print("selftest: records flagged without corruption: %d" % len(flagged - set(want)))
    ok = all(v[1] > 0 for v in kinds.values()) and kinds.get("linearisation dropped", [0, 0])[0] == kinds.get("linearisation dropped", [0, 0])[1]
    return 0 if ok and not (flagged - set(want)) else 1
