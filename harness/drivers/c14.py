"""C14 -- shared environment walkers are history-independent, even after failures.

T1  spec/DagWalker.tla (the memo/stack discipline of unified_planning.model.walkers.dag.DagWalker,
    written as the code is: memo keyed by the expression only, one shared work stack, the walk()
    shortcut, one-shot memo cleared only on success) is model-checked with ResetOnRaise in
    {FALSE (as written), TRUE (repaired)}.  TRUE must satisfy HistoryIndependent, CleanBetweenCalls,
    MemoSound, NoKeyError on the whole space; FALSE must produce a counterexample (the design-level
    form of the defect).  The counterexample history is replayed on the real Substituter: only if the
    real code misbehaves in the same way it is reported (signature T1|as-written|...).
T2  TLC (DagWalkerEnum) defines the vocabulary, the expression DAG table, the substitution maps and
    the calls, and emits every call history of length <= L.  Python rebuilds every expression from
    the abstract table in each Environment, replays each history on ONE shared Environment and
    records, call by call, the projected outcome, the outcome of the same single call on a FRESH
    Environment, and len(stack)/len(memoization) of every shared walker.
T3  DagWalkerTrace judges every recorded history: Agree(shared outcome, fresh outcome) and
    Clean(stack, memo, oneShot) for every shared walker after every call.

Python holds no oracle: it builds objects, calls the public API, and prints projections.
"""
import os
from collections import OrderedDict
from fractions import Fraction

from .. import tlc
from ..common import MachineryError, time_limit, ImplTimeout

# ----------------------------------------------------------------------------------------
# building UP objects from the abstract description emitted by TLC
# ----------------------------------------------------------------------------------------


def _g_fun(a):
    """the interpreted function `g` of the vocabulary: raises ZeroDivisionError on 0"""
    return 10 // a


# where the walkers named in DagWalkerMenu!Walkers live (public attributes)
WALKER_ATTRS = {
    "substituter": lambda w: w.env.substituter,
    "simplifier": lambda w: w.env.simplifier,
    "type_checker": lambda w: w.env.type_checker,
    "free_vars_extractor": lambda w: w.env.free_vars_extractor,
    "free_vars_oracle": lambda w: w.env.free_vars_oracle,
    "names_extractor": lambda w: w.env.names_extractor,
    "interpreted_functions_extractor": lambda w: w.env.interpreted_functions_extractor,
    "quantifiers_remover": lambda w: w.eqr,
}


class World:
    """One Environment with the vocabulary of the abstract description built in it."""

    def __init__(self, desc):
        import unified_planning as up
        from unified_planning.environment import Environment
        from unified_planning.model.walkers import ExpressionQuantifiersRemover

        self.desc = desc
        self.env = env = Environment()
        tm = env.type_manager
        self.em = env.expression_manager
        self.utypes = {}
        self.fluents = {}
        self.objects = {}
        self.variables = {}
        self.ifuns = {}
        self.problem = up.model.Problem("c14", env)

        def ty(s):
            if s["ty"] == "bool":
                return tm.BoolType()
            if s["ty"] == "int":
                return tm.IntType(s["lo"], s["hi"]) if s["bounded"] else tm.IntType()
            if s["ty"] == "real":
                return tm.RealType(Fraction(s["lo"]), Fraction(s["hi"])) if s["bounded"] else tm.RealType()
            if s["ty"] not in self.utypes:
                self.utypes[s["ty"]] = tm.UserType(s["ty"])
            return self.utypes[s["ty"]]

        for s in desc["syms"]:
            k = s["kind"]
            if k == "fluent":
                sig = OrderedDict()
                if s["arg"] != "":
                    sig["a"] = ty({"ty": s["arg"], "bounded": False})
                self.fluents[s["name"]] = up.model.Fluent(s["name"], ty(s), sig, environment=env)
            elif k == "object":
                o = up.model.Object(s["name"], ty(s), env)
                self.objects[s["name"]] = o
                self.problem.add_object(o)
            elif k == "variable":
                self.variables[s["name"]] = up.model.Variable(s["name"], ty(s), env)
            elif k == "ifun":
                sig = OrderedDict()
                sig["a"] = ty({"ty": s["arg"], "bounded": False})
                self.ifuns[s["name"]] = up.model.InterpretedFunction(s["name"], ty(s), sig, _g_fun, env)
            else:
                raise MachineryError("unknown symbol kind %r" % (s,))
        self.eqr = ExpressionQuantifiersRemover(env)

    def build(self, i):
        """FNode for node i (1-based) of the DAG table, built through the ExpressionManager."""
        n = self.desc["nodes"][i - 1]
        em = self.em
        op = n["op"]
        if op == "fl":
            return em.FluentExp(self.fluents[n["name"]], tuple(self.build(k) for k in n["kids"]))
        if op == "int":
            return em.Int(n["val"])
        if op == "bool":
            return em.Bool(n["val"] != 0)
        if op == "var":
            return em.VariableExp(self.variables[n["name"]])
        if op == "obj":
            return em.ObjectExp(self.objects[n["name"]])
        kids = [self.build(k) for k in n["kids"]]
        if op == "ifn":
            return em.InterpretedFunctionExp(self.ifuns[n["name"]], tuple(kids))
        if op == "exists":
            return em.Exists(kids[0], self.variables[n["name"]])
        if op == "forall":
            return em.Forall(kids[0], self.variables[n["name"]])
        f = {
            "plus": em.Plus,
            "minus": em.Minus,
            "times": em.Times,
            "div": em.Div,
            "le": em.LE,
            "lt": em.LT,
            "eq": em.Equals,
            "and": em.And,
            "or": em.Or,
            "not": em.Not,
            "implies": em.Implies,
            "iff": em.Iff,
        }.get(op)
        if f is None:
            raise MachineryError("unknown operator %r" % (n,))
        return f(*kids)

    def walker_state(self):
        """[len(stack), len(memoization)] of every shared walker, in the order of DagWalkerMenu!Walkers"""
        out = []
        for wk in self.desc["walkers"]:
            obj = WALKER_ATTRS[wk["name"]](self)
            out.append([len(obj.stack), len(obj.memoization)])
        return out


# ----------------------------------------------------------------------------------------
# projections (no judgement: canonical strings of what the library returned)
# ----------------------------------------------------------------------------------------


def proj_expr(e):
    """Structural canonical string of an FNode (independent of the Environment)."""
    t = e.node_type.name
    if e.is_fluent_exp():
        p = e.fluent().name
    elif e.is_constant():
        p = str(e.constant_value())
    elif e.is_variable_exp():
        p = e.variable().name
    elif e.is_object_exp():
        p = e.object().name
    elif e.is_parameter_exp():
        p = e.parameter().name
    elif e.is_exists() or e.is_forall():
        p = ",".join(v.name for v in e.variables())
    elif e.is_interpreted_function_exp():
        p = e.interpreted_function().name
    else:
        p = ""
    return "%s[%s](%s)" % (t, p, ",".join(proj_expr(a) for a in e.args))


def do_call(world, call):
    """Build the arguments of one abstract call in `world` and perform it through the public API.

    Returns the projected outcome {k: val|exc, v, cls, phase}."""
    phase = "build"
    try:
        e = world.build(call["e"])
        w = call["w"]
        if w == "substitute":
            m = world.desc["maps"][call["m"] - 1]
            subs = {}
            for p in m["pairs"]:
                subs[world.build(p[0])] = world.build(p[1])
            phase = "walk"
            v = proj_expr(e.substitute(subs))
        elif w == "simplify":
            phase = "walk"
            v = proj_expr(e.simplify())
        elif w == "type":
            phase = "walk"
            v = str(e.type)
        elif w == "fve":
            phase = "walk"
            v = ";".join(sorted(proj_expr(x) for x in world.env.free_vars_extractor.get(e)))
        elif w == "fvo":
            phase = "walk"
            v = ";".join(sorted(x.name for x in world.env.free_vars_oracle.get_free_variables(e)))
        elif w == "names":
            phase = "walk"
            v = ";".join(sorted(e.get_contained_names()))
        elif w == "ife":
            phase = "walk"
            v = ";".join(sorted(proj_expr(x) for x in world.env.interpreted_functions_extractor.get(e)))
        elif w == "eqr":
            phase = "walk"
            v = proj_expr(world.eqr.remove_quantifiers(e, world.problem))
        else:
            raise MachineryError("unknown walker call %r" % (call,))
        return {"k": "val", "v": v, "cls": "", "phase": phase}
    except MachineryError:
        raise
    except Exception as ex:  # an exception of the library is an observation
        return {"k": "exc", "v": "", "cls": type(ex).__name__, "phase": phase}


class TooManyTimeouts(Exception):
    pass


_timeouts = [0]


def guarded_call(world, call):
    """a call that does not return within 5 s is the observation 'ImplTimeout'; after 5 of them the
    replay is abandoned (a looping mutant must not cost hours)"""
    try:
        with time_limit(5):
            return do_call(world, call)
    except ImplTimeout:
        _timeouts[0] += 1
        if _timeouts[0] > 5:
            raise TooManyTimeouts("%r" % (call,))
        return {"k": "exc", "v": "", "cls": "ImplTimeout", "phase": "walk"}


class Replayer:
    def __init__(self, desc):
        self.desc = desc
        self.fresh = {}

    def fresh_outcome(self, ci):
        """the same single call on a fresh Environment (computed once per distinct call; the
        length-1 histories re-run it on another fresh Environment and TLC compares the two)"""
        if ci not in self.fresh:
            self.fresh[ci] = guarded_call(World(self.desc), self.desc["calls"][ci - 1])
        return self.fresh[ci]

    def replay(self, hist):
        """hist: sequence of call indices (1-based).  One shared World for the whole history."""
        world = World(self.desc)
        steps = []
        for ci in hist:
            call = self.desc["calls"][ci - 1]
            sh = guarded_call(world, call)
            steps.append({"c": ci, "w": call["w"], "sh": sh, "fr": self.fresh_outcome(ci), "st": world.walker_state()})
        return steps


def _replay_chunk(arg):
    desc, items = arg
    rp = Replayer(desc)
    out = []
    try:
        for i, h in items:
            out.append({"id": i, "steps": rp.replay(h)})
    except TooManyTimeouts as ex:
        return out, rp.fresh, str(ex)
    return out, rp.fresh, None


def replay_all(ctx, desc, items, nproc):
    """replay (id, history) pairs, in `nproc` forked worker processes; returns traces sorted by id"""
    import multiprocessing

    if nproc <= 1 or len(items) < 200:
        res = [_replay_chunk((desc, items))]
    else:
        n = 4 * nproc
        chunks = [(desc, items[k::n]) for k in range(n)]
        with multiprocessing.get_context("fork").Pool(nproc) as pool:
            res = pool.map(_replay_chunk, chunks, chunksize=1)
    traces, fresh = [], {}
    for tr, fr, err in res:
        traces += tr
        for k, v in fr.items():
            fresh.setdefault(k, v)
        if err:
            ctx.violation("Terminates", "walker calls do not return within 5 s (replay abandoned after 5 time-outs): %s" % err, {"call": err})
    traces.sort(key=lambda t: t["id"])
    return traces, fresh


# ----------------------------------------------------------------------------------------
# TLC runs
# ----------------------------------------------------------------------------------------
MC_CFG = """SPECIFICATION Spec
CONSTANTS ResetOnRaise = %(reset)s
 OneShot = %(oneshot)s
 MaxCalls = %(calls)d
 BadSets <- %(bad)s
 Nodes <- %(nodes)s
 Roots <- %(roots)s
 Kids <- %(kids)s
 Maps <- %(maps)s
"""
ALL_INV = ["HistoryIndependent", "CleanBetweenCalls", "MemoSound", "NoKeyError", "StackTyped"]

TRACE_CFG = """SPECIFICATION TraceSpec
CONSTANTS ResetOnRaise = TRUE
 OneShot = TRUE
 MaxCalls = 0
 BadSets <- BadT
 Nodes <- NodesT
 Roots <- NodesT
 Kids <- NoKidsT
 Maps <- MapsT
INVARIANT Verdict
"""

T1_ID = 9000000  # ids of the replayed T1 counterexamples


def mc(ctx, label, c, invariants, coverage=False):
    cfg = MC_CFG % c + "".join("INVARIANT %s\n" % i for i in invariants)
    res = tlc.run_tlc("MCDagWalker", cfg, ctx.sub("t1"), timeout=3000, workers=8, coverage=coverage)
    if res.error:
        raise MachineryError("T1 %s: %s" % (label, res.error))
    ctx.add_tlc("T1 " + label, res)
    return res


def line_coverage(res, needle):
    """largest TLC coverage count of an expression on the line of DagWalker.tla containing `needle`"""
    import re

    with open(os.path.join(tlc.SPEC_DIR, "DagWalker.tla")) as fh:
        lines = [i + 1 for i, l in enumerate(fh) if needle in l]
    if len(lines) != 1:
        raise MachineryError("coverage needle %r matches %d lines of DagWalker.tla" % (needle, len(lines)))
    cnt = [int(m.group(1)) for m in re.finditer(r"line %d, col \d+ to line \d+, col \d+ of module DagWalker: (\d+)" % lines[0], res.stdout)]
    if not cnt:
        raise MachineryError("no coverage information for line %d of DagWalker.tla" % lines[0])
    return max(cnt)


def cfgd(reset, oneshot, calls, bad, nodes, kids, maps, roots=None):
    return dict(
        reset="TRUE" if reset else "FALSE",
        oneshot="TRUE" if oneshot else "FALSE",
        calls=calls,
        bad=bad,
        nodes=nodes,
        roots=roots or nodes,
        kids=kids,
        maps=maps,
    )


def calls_of_counterexample(res):
    """the public calls <<root, map>> of a TLC counterexample of DagWalker, in order"""
    out = []
    prev = 0
    for s in res.trace:
        v = s["vars"]
        if v.get("calls", 0) > prev:
            out.append((v["root"], v["map"]))
            prev = v["calls"]
    return out


def t1(ctx, desc):
    """Design checks.  Returns the histories (sequences of call indices) of the as-written
    counterexamples of the concrete configurations, to be replayed on the real walkers."""
    q = ctx.quick
    # ---- the repair: every invariant on the whole space ---------------------------------
    repaired = [
        ("one-shot, DAG A, 2 maps", cfgd(True, True, 3 if q else 4, "BadA1Two" if q else "BadA2Two", "NodesA", "KidsA", "MapsTwo")),
        ("persistent, DAG A, no kwargs", cfgd(True, False, 3 if q else 4, "BadA1One" if q else "BadA2One", "NodesA", "KidsA", "MapsOne")),
    ]
    if not q:
        repaired += [
            ("one-shot, DAG B, 2 maps", cfgd(True, True, 3, "BadB1Two", "NodesB", "KidsB", "MapsTwo")),
            ("persistent, DAG B, no kwargs", cfgd(True, False, 3, "BadB1One", "NodesB", "KidsB", "MapsOne")),
            ("one-shot, Substituter sub-DAG of the menu", cfgd(True, True, 4, "BadSub", "NodesSub", "MenuKids", "MapsSub", "RootsSub")),
            ("persistent, Simplifier sub-DAG of the menu", cfgd(True, False, 4, "BadSimp", "NodesSimp", "MenuKids", "MapsSimp", "RootsSimp")),
        ]
    for label, c in repaired:
        res = mc(ctx, "repaired: " + label, c, ALL_INV, coverage=True)
        if res.violated:
            ctx.violation(
                "T1|repaired|" + res.violated,
                "the exception-safe DagWalker model (ResetOnRaise = TRUE; %s) violates %s" % (label, res.violated),
                {"config": c, "trace": [s["vars"] for s in res.trace]},
            )
        for act in ("Call", "Pop", "Finish", "Return"):
            if res.coverage.get(act, (0, 0))[1] == 0:
                raise MachineryError("T1 vacuous: action %s never taken (%s)" % (act, label))
        needles = ["ret' = Exc(cls)"] + (["walk() shortcut"] if c["oneshot"] == "FALSE" else [])
        for needle in needles:
            if line_coverage(res, needle) == 0:
                raise MachineryError("T1 vacuous: the branch %r is never taken (%s)" % (needle, label))
    # ---- sanity of the invariants: a persistent memo with keyword arguments is history dependent
    if not q:
        res = mc(ctx, "control: persistent memo with 2 maps, no failure", cfgd(True, False, 2, "BadA0Two", "NodesA", "KidsA", "MapsTwo"), ["HistoryIndependent"])
        if res.violated != "HistoryIndependent":
            raise MachineryError("T1 control: HistoryIndependent cannot fail (the invariant lost its teeth)")
    # ---- the code as written: expected counterexamples, on the concrete sub-DAGs of the menu
    out = []
    written = [
        ("substituter", "substitute", cfgd(False, True, 3, "BadSub", "NodesSub", "MenuKids", "MapsSub", "RootsSub")),
        ("simplifier", "simplify", cfgd(False, False, 3, "BadSimp", "NodesSimp", "MenuKids", "MapsSimp", "RootsSimp")),
    ]
    for n, (walker, w, c) in enumerate(written):
        for inv in ("HistoryIndependent",) if q else ("HistoryIndependent", "CleanBetweenCalls"):
            res = mc(ctx, "as written: %s, %s" % (walker, inv), c, [inv])
            if res.violated != inv:
                raise MachineryError("T1: the as-written DagWalker model (%s) no longer violates %s" % (walker, inv))
            calls = calls_of_counterexample(res)
            hist = []
            for root, m in calls:
                want = {"w": w, "e": root, "m": m}
                if want not in desc["calls"]:
                    raise MachineryError("T1 counterexample call %r is not a call of the menu" % (want,))
                hist.append(desc["calls"].index(want) + 1)
            out.append({"id": T1_ID + len(out), "walker": walker, "inv": inv, "hist": hist, "calls": calls, "states": len(res.trace)})
    return out


def enumerate_histories(ctx):
    q = ctx.quick
    d = ctx.sub("enum")
    out = os.path.join(d, "hist.ndjson")
    dsc = os.path.join(d, "desc.json")
    cfg = "INIT Init\nNEXT Next\nCONSTANTS Thorough = %s\n LAll = %d\n LCore = %d\n LTiny = %d\n" % (
        ("FALSE", 2, 3, 3) if q else ("TRUE", 2, 3, 4)
    )
    res = tlc.run_tlc("DagWalkerEnum", cfg, d, env={"OUT": out, "DESC": dsc}, workers=1, timeout=3000)
    if res.error:
        raise MachineryError(res.error)
    desc = tlc.read_ndjson(dsc)[0]
    hist = [h["h"] for h in tlc.read_ndjson(out)]
    emitted = [p for p in res.printed if p and p[0] == "EMITTED"]
    if not emitted or emitted[0][1] != len(hist) or emitted[0][2] != len(desc["calls"]):
        raise MachineryError("enumerator output is inconsistent: %r vs %d histories" % (emitted, len(hist)))
    return desc, hist


def judge(ctx, label, traces):
    """TLC judges the recorded histories; returns {trace id: [violation tuples]}"""
    d = ctx.sub("judge-" + label)
    path = os.path.join(d, "traces.ndjson")
    tlc.write_ndjson(path, traces)
    res = tlc.run_tlc("DagWalkerTrace", TRACE_CFG, d, env={"TRACES": path}, timeout=3000)
    if res.error or res.violated:
        raise MachineryError("DagWalkerTrace failed: %s %s" % (res.violated, res.error))
    expected = sum(len(t["steps"]) + 1 for t in traces)
    if res.distinct != expected:
        raise MachineryError("trace judge consumed %d states, expected %d" % (res.distinct, expected))
    ctx.add_tlc("trace-" + label, res)
    out = {}
    for line in res.stdout.splitlines():
        line = line.strip()
        if line.startswith('"C14FAIL|') and line.endswith('"') and line.count("C14FAIL|") == 1:
            _, tid, val = line[1:-1].split("|", 2)
            out[int(tid)] = tlc.parse_value(val.replace('\\"', '"'))
        elif "C14FAIL|" in line:
            raise MachineryError("garbled verdict line from TLC: %r" % line[:200])
    return out


def call_str(desc, ci):
    c = desc["calls"][ci - 1]
    return "%s(e%d%s)" % (c["w"], c["e"], ", m%d" % c["m"] if c["m"] else "")


def report(ctx, desc, traces, verdicts):
    byid = {t["id"]: t for t in traces}
    for tid, bads in sorted(verdicts.items()):
        t = byid[tid]
        for b in bads:
            clause, step = b[0], b[1]
            sig = "|".join([clause] + [x for x in b[2:] if x != ""])
            ctx.violation(
                sig,
                "history %s: %s fails at call %d (%s)" % ([call_str(desc, s["c"]) for s in t["steps"]], clause, step, ", ".join(x for x in b[2:] if x)),
                {"hist": [s["c"] for s in t["steps"]], "calls": [desc["calls"][s["c"] - 1] for s in t["steps"]], "steps": t["steps"], "clause": clause, "step": step, "features": b[2:], "desc": desc},
            )


def random_history(rng, ncalls, lo, hi):
    return [rng.randint(1, ncalls) for _ in range(rng.randint(lo, hi))]


def run(ctx):
    q = ctx.quick
    desc, hist = enumerate_histories(ctx)
    # ---- T1 -----------------------------------------------------------------------------
    cex = t1(ctx, desc)
    # ---- T2: replay on the real walkers ----------------------------------------------------
    items = list(enumerate(hist))
    nr = 300 if q else 4000
    for i in range(nr):
        items.append((1000000 + i, random_history(ctx.rng, len(desc["calls"]), 4, 8 if q else 12)))
    items += [(c["id"], c["hist"]) for c in cex]
    alltr, fresh = replay_all(ctx, desc, items, 4 if q else 8)
    traces = [t for t in alltr if t["id"] < T1_ID]
    t1traces = [t for t in alltr if t["id"] >= T1_ID]
    # vacuity of the generator: failure modes must actually occur
    fresh = list(fresh.values())
    if not any(o["k"] == "exc" and o["phase"] == "walk" for o in fresh):
        raise MachineryError("vacuous: no call of the menu fails inside a walk")
    if not any(o["k"] == "exc" and o["phase"] == "build" for o in fresh):
        raise MachineryError("vacuous: no ill-typed construction in the menu raises")
    if not any(o["k"] == "val" for o in fresh):
        raise MachineryError("vacuous: no call of the menu succeeds")
    ctx.cov["evaluations"] += sum(len(t["steps"]) for t in traces + t1traces) + len(fresh)
    ctx.cov["traces_validated_against_impl"] += len(traces) + len(t1traces)
    ctx.cov["distinct_nontrivial"] = sum(
        1 for t in traces if any(s["sh"]["k"] == "exc" for s in t["steps"][:-1])
    )
    mid = traces[len(hist) // 2]
    ctx.sample({"kind": "enumerated history", "calls": [call_str(desc, s["c"]) for s in mid["steps"]], "steps": mid["steps"]})
    # ---- T3: TLC judges ---------------------------------------------------------------------
    verdicts = judge(ctx, "all", traces + t1traces)
    t1ids = {c["id"]: c for c in cex}
    report(ctx, desc, traces, {k: v for k, v in verdicts.items() if k not in t1ids})
    for c in cex:
        bads = verdicts.get(c["id"], [])
        confirmed = [b for b in bads if b[0] == c["inv"]]
        info = {"model": "as written (ResetOnRaise = FALSE)", "walker": c["walker"], "invariant": c["inv"], "tlc_states": c["states"],
                "calls": [call_str(desc, ci) for ci in c["hist"]], "confirmed_on_real_code": bool(confirmed)}
        ctx.sample(info, cap=8)
        if confirmed:
            tr = [t for t in t1traces if t["id"] == c["id"]][0]
            ctx.violation(
                "T1|as-written|%s|%s" % (c["inv"], c["walker"]),
                "DagWalker as written violates %s (TLC counterexample of %d states); the same history %s misbehaves on the real %s"
                % (c["inv"], c["states"], info["calls"], c["walker"]),
                {"hist": c["hist"], "model_calls": c["calls"], "steps": tr["steps"], "verdict": confirmed, "desc": desc},
            )
    ctx.cov["rule"] = (
        "T1: exhaustive BFS of DagWalker (repaired model: all invariants; as-written model: expected counterexamples, replayed on "
        "the real walkers). T2: every history emitted by DagWalkerEnum (all of length <= 2 over %d calls, longer ones over the core "
        "calls) plus %d seeded random histories of length 4..%d, each replayed on one shared Environment with every call compared "
        "with the same call on a fresh Environment. A history is counted non-trivial when a call other than the last raises."
        % (len(desc["calls"]), nr, 8 if q else 12)
    )
    ctx.cov["exhaustive"] = True
    ctx.assumptions += [
        "TLC and the CommunityModules Json reader are trusted",
        "the fresh-Environment outcome of a call is computed once per distinct call; the length-1 histories recompute it on another fresh Environment and TLC compares the two",
        "outcomes are compared as canonical structural strings of expressions / str() of types / sorted name lists; exceptions by class",
        "walker state is observed through the public attributes stack and memoization (lengths only)",
    ]


def replay(ctx, data):
    """./check C14 --replay FILE : re-run the recorded history against the current tree"""
    d = data["data"]
    desc = d["desc"]
    rp = Replayer(desc)
    tr = [{"id": 0, "steps": rp.replay(d["hist"])}]
    verdicts = judge(ctx, "replay", tr)
    for b in verdicts.get(0, []):
        print("still failing: %s" % (b,))
    print("history %s: %d violation(s)" % ([call_str(desc, c) for c in d["hist"]], len(verdicts.get(0, []))))
    return 1 if verdicts.get(0) else 0


def selftest(ctx):
    """the judge rejects a corrupted observation (one result, one walker state)"""
    desc, hist = enumerate_histories(ctx)
    rp = Replayer(desc)
    good = [h for h in hist if len(h) == 1][:40]
    traces = [{"id": i, "steps": rp.replay(h)} for i, h in enumerate(good)]
    base = judge(ctx, "self0", traces)
    ok = [t for t in traces if t["id"] not in base and t["steps"][0]["sh"]["k"] == "val"]
    if len(ok) < 2:
        raise MachineryError("selftest: no clean trace to corrupt")
    ok[0]["steps"][0]["sh"]["v"] += "#"
    ok[1]["steps"][0]["st"][1][0] += 1
    after = judge(ctx, "self1", traces)
    a = [b[0] for b in after.get(ok[0]["id"], [])]
    b = [b[0] for b in after.get(ok[1]["id"], [])]
    print("corrupted result   ->", a)
    print("corrupted stack len ->", b)
    return 0 if a == ["HistoryIndependent"] and b == ["CleanBetweenCalls"] else 2
