"""C06 -- plans of compiled problems map back to valid plans (compiler soundness).
(also the engine of C07: ProductComplete)

G2 problems per compiler (feature masks) -> real compile() -> compiled problem projected to UPJ and
the map-back table tabulated by calling the real map_back_action_instance on every ground action ->
spec/ProductSound.tla explores every compiled plan up to the depth bound together with the original
behaviour it maps back to.
"""
import os
from multiprocessing import Pool

from .. import tlc, compobs
from ..common import MachineryError
from ..gen import Gen

CFG_SOUND = "SPECIFICATION Spec\nINVARIANT Sound\n"
CFG_COMPLETE = "SPECIFICATION Spec\nINVARIANT Complete\n"


WEIGHT = {"dcrm": 3, "tcrm": 5}


def corpus_for(ctx, cname, n):
    g = Gen(ctx.rng, **compobs.MASKS[cname])
    return [g.problem() for _ in range(n)]


def compile_corpus(ctx, per_compiler, compilers=None):
    jobs = []
    cid = 0
    for cname in (compilers or compobs.COMPILERS):
        # the compilers with the richest case analysis get a larger share of the corpus
        per_c = per_compiler * WEIGHT.get(cname, 1)
        half = per_compiler // 2 + per_compiler % 2
        for i, P in enumerate(corpus_for(ctx, cname, half + per_c)):
            # `half` problems with random goals; `per_compiler` further problems, each in two variants whose goals are
            # taken from a state that a short random walk reaches (compobs.goal_directed, seeded by cid): these have
            # short valid plans that depend on the effects along them, and are explored one step less deep
            for _ in range(1 if i < half else (4 if cname in WEIGHT else 2)):
                cid += 1
                jobs.append((cid, P, cname, False if i < half else "goal-directed"))
    with Pool(14, maxtasksperchild=40) as pool:
        recs = pool.map(compobs.worker, jobs, chunksize=2)
    for r in recs:
        if r["skip"].startswith("HARNESS"):
            raise MachineryError("harness error: %s" % r.get("detail"))
    compobs.require_coverage(recs)
    return recs


def small_enough(r, max_gacts=40, max_keys=24):
    return r["Q"] is not None and len(r["back"]) <= max_gacts and len(r["qkeys"]) <= max_keys


def run_product(ctx, recs, module, cfg, depth, label):
    batch = [dict(r, depth=depth - 1 if r.get("gd") else depth) for r in recs if not r["skip"] and r["raised"] == "none" and small_enough(r)]
    if not batch:
        raise MachineryError("no compilation succeeded")
    slim = [{k: r[k] for k in ("cid", "comp", "P", "Q", "pkeys", "qkeys", "back", "depth")} for r in batch]
    d = ctx.sub("product-" + label)
    path = os.path.join(d, "batch.ndjson")
    tlc.write_ndjson(path, slim)
    res = tlc.run_tlc(module, cfg, d, env={"BATCH": path}, timeout=3000, heap="24g")
    if res.error or res.violated:
        raise MachineryError("%s failed: %s %s" % (module, res.violated, (res.error or "")[-3000:]))
    if res.distinct < len(batch):
        raise MachineryError("product visited %d states for %d compilations" % (res.distinct, len(batch)))
    ctx.add_tlc(module, res)
    fails = {}
    for p in res.printed:
        if p and p[0] == "FAIL":
            _, cid, clause, plan = p
            # keep the shortest counterexample per compilation and clause
            k = (cid, clause)
            if k not in fails or len(plan) < len(fails[k]):
                fails[k] = plan
    return batch, fails


def run_common(ctx, module, cfg, label):
    q = ctx.quick
    per = 14 if q else 40
    depth = 4 if q else 5
    recs = compile_corpus(ctx, per)
    batch, fails = run_product(ctx, recs, module, cfg, depth, label)
    byid = {r["cid"]: r for r in batch}
    for (cid, clause), plan in sorted(fails.items()):
        r = byid[cid]
        sig = compobs.signature(r["comp"], clause, r["P"])
        ctx.violation(sig, "%s: %s (%s)" % (label, clause, r["comp"]),
                      {"compiler": r["comp"], "clause": clause, "problem": r["P"], "compiled": r["Q"], "back": r["back"], "plan": plan})
    stats = {}
    for r in recs:
        s = stats.setdefault(r["comp"], {"compiled": 0, "skipped": 0, "raised": 0, "judged": 0})
        if r["skip"]:
            s["skipped"] += 1
        elif r["raised"] != "none":
            s["raised"] += 1
        else:
            s["compiled"] += 1
            if small_enough(r):
                s["judged"] += 1
    ctx.cov["per_compiler"] = stats
    ctx.cov["evaluations"] = len(batch)
    ctx.cov["traces_validated_against_impl"] = len(batch)
    ctx.cov["distinct_nontrivial"] = sum(1 for r in batch if any(b["pa"] for b in r["back"]))
    ctx.cov["rule"] = (
        "per compiler %d G2 problems (feature mask per compiler; half as many again with random goals, the others in two "
        "variants with goals taken from a state reached by a random walk of at most 3 steps), compiled by the real compiler; "
        "one evaluation = one (original, compiled, map-back table) product explored exhaustively by TLC to depth %d (random "
        "goals) or one less (goal-directed); non-trivial = the compiled "
        "problem has at least one ground action mapping back to an original action. Compilations that raise are the "
        "subject of C08 and are only counted here." % (per, depth)
    )
    ex = batch[0]
    ctx.sample({"compiler": ex["comp"], "original": ex["P"], "compiled_actions": [a["name"] for a in ex["Q"]["actions"]], "back": ex["back"][:6]})
    ctx.assumptions += ["TLC, Json reader, harness/upj.py build/project (structure only) trusted",
                        "depth-bounded: counterexamples longer than the bound are missed",
                        "unspecified zones (DESIGN.md 7.1) are not judged"]


def run(ctx):
    run_common(ctx, "ProductSound", CFG_SOUND, "C06")


def replay_common(ctx, rec, module, cfg, label):
    """Re-run the real compiler on the recorded problem and let TLC judge the product again."""
    d = rec["data"]
    r = compobs.worker((1, d["problem"], d["compiler"], False))
    if r["skip"] or r["raised"] != "none":
        print("replay: the compiler did not produce a problem on the current tree (%s %s)" % (r["skip"], r["raised"]))
        return 0
    _, fails = run_product(ctx, [r], module, cfg, max(len(d.get("plan", [])), 1) + 1, label + "-replay")
    for (cid, clause), plan in sorted(fails.items()):
        print("REPRODUCED property=%s clause=%s plan=%s" % (label, clause, list(plan)))
    if not fails:
        print("replay: no violation on the current tree")
    return 1 if fails else 0


def replay(ctx, rec):
    return replay_common(ctx, rec, "ProductSound", CFG_SOUND, "C06")
