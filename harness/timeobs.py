"""Run the real plan validators on time-triggered plans (shared by C04, C05, C26, C28, C29)."""
import random
from fractions import Fraction

from . import upj, simobs
from .common import time_limit, ImplTimeout


def frac(v):
    return Fraction(v["n"], v["d"])


def build_tt_plan(problem, steps):
    from unified_planning.plans import TimeTriggeredPlan, ActionInstance
    from unified_planning.model import DurativeAction

    out = []
    for s in steps:
        a = problem.action(s["a"])
        ai = ActionInstance(a, simobs._params(problem, a, s["args"]))
        d = frac(s["d"]) if isinstance(a, DurativeAction) else None
        out.append((frac(s["t"]), ai, d))
    return TimeTriggeredPlan(out)


def build_seq_plan(problem, steps):
    from unified_planning.plans import SequentialPlan, ActionInstance

    ais = []
    for s in steps:
        a = problem.action(s["a"])
        ais.append(ActionInstance(a, simobs._params(problem, a, s["args"])))
    return SequentialPlan(ais)


def validate(validator_cls, problem, plan, limit=20):
    try:
        with time_limit(limit):
            res = validator_cls().validate(problem, plan)
        return res.status.name, (res.reason.name if res.reason is not None else ""), res
    except ImplTimeout:
        if limit < 200:
            # the machine may simply be busy: a time-out only counts when it is reproducible
            return validate(validator_cls, problem, plan, limit * 15)
        return "X:TIMEOUT", "", None
    except Exception as ex:
        return "X:" + type(ex).__name__, str(ex)[:200], None


def plan_features(P, steps):
    """deterministic syntactic features of the actions used by a plan (for known-finding signatures)"""
    acts = {a["name"]: a for a in P["actions"]}
    fs = set()
    for st in steps:
        a = acts[st["a"]]
        effs = [e if a["kind"] == "inst" else e["e"] for e in a["effects"]]
        names = [e["f"]["name"] for e in effs if e["kind"] == "assign"]
        if len(names) != len(set(names)):
            fs.add("dupassign")
        if any(e["forall"] for e in effs):
            fs.add("foralleff")
        for c in a.get("conds", []):
            if c["iv"]["lopen"]:
                fs.add("lopen-cond")
            if c["iv"]["ropen"]:
                fs.add("ropen-cond")
            # a condition interval that contains no instant under this step's duration: [t, t) or (t, t]
            if a["kind"] != "inst" and (c["iv"]["lopen"] or c["iv"]["ropen"]):
                def at(tm):
                    base = {"start": frac(st["t"]), "end": frac(st["t"]) + frac(st["d"])}.get(tm["from"])
                    return None if base is None else base + frac(tm["delay"])
                lo, hi = at(c["iv"]["lo"]), at(c["iv"]["hi"])
                if lo is not None and lo == hi:
                    fs.add("empty-cond-interval")
    for tg in P.get("timed_goals", []):
        if tg["iv"]["lopen"]:
            fs.add("lopen-tgoal")
    if any(f["type"]["k"] in ("int", "real") and (f["type"]["lo"]["k"] != "none" or f["type"]["hi"]["k"] != "none") for f in P["fluents"]):
        fs.add("bounded")
    if P["invariants"]:
        fs.add("invariant")
    return sorted(fs)
