"""Observation graphs of the real UPSequentialSimulator (shared by C01, C02 and others).

For one UPJ problem: build it, run the simulator breadth-first from the initial state using the
IMPLEMENTATION's successors, and record, for every visited state and every ground action instance,
what the public calls returned.  No verdicts here: the graphs are judged by spec/SeqSemObs.tla.
"""
import random
import traceback

from . import upj
from .common import time_limit, ImplTimeout, call_limited
from .gen import ground_actions


def _exc(ex):
    return type(ex).__name__


def _params(problem, act, args):
    em = problem.environment.expression_manager
    out = []
    for p, a in zip(act.parameters, args):
        if a["k"] == "o":
            out.append(em.ObjectExp(problem.object(a["o"])))
        elif a["k"] == "b":
            out.append(em.Bool(a["b"]))
        else:
            out.append(em.Int(a["n"]))
    return tuple(out)


MAG = 200


def _big(vec):
    return any(v["k"] == "n" and (abs(v["n"]) > MAG or v["d"] > MAG) for v in vec)


def observe(P, depth, cap, mode, seed=0, fresh_env=False):
    """Returns the batch record for problem P (dict) -- see spec/SeqSemObs.tla."""
    import unified_planning as up
    from unified_planning.engines.sequential_simulator import UPSequentialSimulator

    rng = random.Random(seed)
    rec = {"P": P, "keys": upj.keys_of(P), "depth": 0, "init": {"built": False, "exc": "none"}, "obs": [], "skip": ""}
    env = up.environment.Environment() if fresh_env else None
    try:
        problem = call_limited(lambda: upj.build(P, env), 20, 10)
    except ImplTimeout:
        rec["skip"] = "build-timeout"
        return rec
    except Exception as ex:
        rec["skip"] = "build:" + _exc(ex)
        rec["skip_detail"] = str(ex)[:200]
        return rec
    keys = rec["keys"]
    gas = ground_actions(P)

    def mk():
        return UPSequentialSimulator(problem, error_on_failed_checks=True)

    try:
        if not UPSequentialSimulator.supports(problem.kind):
            rec["skip"] = "unsupported-kind"
            return rec
    except Exception as ex:
        rec["skip"] = "kind:" + _exc(ex)
        return rec
    try:
        def _init():
            sim_ = mk()
            return sim_, sim_.get_initial_state()

        sim, s0 = call_limited(_init, 30, 10)
        rec["init"] = {"built": True, "exc": "none"}
    except ImplTimeout:
        rec["init"] = {"built": False, "exc": "TIMEOUT"}
        return rec
    except Exception as ex:
        rec["init"] = {"built": False, "exc": _exc(ex)}
        rec["init_detail"] = str(ex)[:300]
        return rec
    acts = [(problem.action(g["a"]), _params(problem, problem.action(g["a"]), g["args"])) for g in gas]
    vec0 = upj.state_vector(s0, problem, keys)
    seen = {repr(vec0): 0}
    states = [(s0, vec0)]
    frontier = [0]
    obs = []
    level = 0
    big = _big(vec0)
    if big:
        rec["skip"] = "magnitude"
        return rec
    try:
        with time_limit(120):
            while True:
                # observe every state of the current frontier
                nxt = []
                for si in frontier:
                    st, vec = states[si]
                    o = {"s": vec, "acts": []}
                    succ_states = []
                    if mode == "C01":
                        sim = _obs_c01(sim, mk, st, acts, gas, o, succ_states, problem, keys)
                    else:
                        _obs_c02(sim, st, acts, gas, o, succ_states, problem, keys, rng)
                    obs.append(o)
                    for (sst, svec) in succ_states:
                        k = repr(svec)
                        if k not in seen:
                            seen[k] = len(states)
                            states.append((sst, svec))
                            nxt.append(seen[k])
                            if _big(svec):
                                big = True
                # TLC integers are 32 bit: never let the judge expand a state with large numbers
                if level >= depth or not nxt or len(states) > cap or big:
                    break
                level += 1
                frontier = nxt
    except ImplTimeout:
        rec["skip"] = "simulate-timeout"
        return rec
    rec["depth"] = level
    rec["obs"] = obs
    rec["nstates"] = len(obs)
    return rec


def _obs_c01(sim, mk, st, acts, gas, o, succ_states, problem, keys):
    """C01: only apply() and is_goal(); a raising call is recorded and the simulator recreated so that
    the following observations are not contaminated by the failure."""
    for (a, params), g in zip(acts, gas):
        r = {"a": g["a"], "args": g["args"], "app": "F", "succ": []}
        try:
            ns = sim.apply(st, a, params)
            if ns is not None:
                r["app"] = "T"
                r["succ"] = upj.state_vector(ns, problem, keys)
                succ_states.append((ns, r["succ"]))
        except ImplTimeout:
            raise
        except Exception as ex:
            r["app"] = "X:" + _exc(ex)
            sim = mk()
        o["acts"].append(r)
    try:
        o["goal"] = "T" if sim.is_goal(st) else "F"
    except ImplTimeout:
        raise
    except Exception as ex:
        o["goal"] = "X:" + _exc(ex)
        sim = mk()
    return sim


def _q(fn):
    try:
        return fn()
    except ImplTimeout:
        raise
    except Exception as ex:
        return "X:" + _exc(ex)


def _obs_c02(sim, st, acts, gas, o, succ_states, problem, keys, rng):
    """C02: every query kind on ONE simulator instance, in a seeded random order, repeated, with the
    state re-read after the queries."""
    n = len(acts)
    recs = [{"a": g["a"], "args": g["args"]} for g in gas]
    for r in recs:
        r.update({"isapp": "", "app": "", "succ": [], "isapp2": "", "app2": "", "succ2": [], "after": []})
    order = []
    for j in range(n):
        order += [("isapp", j), ("app", j), ("isapp2", j), ("app2", j)]
    order += [("yield", -1), ("goal", -1), ("unsat", -1), ("goal2", -1)]
    # keep "first" queries before "second" ones per item, otherwise random
    rng.shuffle(order)
    pos = {k: i for i, k in enumerate(order)}
    for j in range(n):
        for a, b in (("isapp", "isapp2"), ("app", "app2")):
            if pos[(a, j)] > pos[(b, j)]:
                ia, ib = pos[(a, j)], pos[(b, j)]
                order[ia], order[ib] = order[ib], order[ia]
                pos[(a, j)], pos[(b, j)] = ib, ia
    if pos[("goal", -1)] > pos[("goal2", -1)]:
        ia, ib = pos[("goal", -1)], pos[("goal2", -1)]
        order[ia], order[ib] = order[ib], order[ia]
    o["order"] = ["%s%d" % (k, j) for k, j in order]

    def _match(v):
        ys = []
        for (ya, yp) in v:
            for jj, (a, params) in enumerate(acts):
                if a.name == ya.name and tuple(str(x) for x in params) == tuple(str(x) for x in yp):
                    ys.append(jj + 1)
        return sorted(ys)

    # an enumeration of the applicable actions that is left open while all the other queries run
    # (consumed partly before, drained after them): it must yield the same set as a fresh one
    open_it, open_prefix = None, []
    if rng.random() < 0.6:
        try:
            open_it = iter(sim.get_applicable_actions(st))
            for _ in range(rng.randint(0, 2)):
                x = next(open_it, None)
                if x is not None:
                    open_prefix.append(x)
        except ImplTimeout:
            raise
        except Exception as ex:
            open_it = None
            o["yield_exc"] = "X:" + _exc(ex)
    for kind, j in order:
        if kind in ("isapp", "isapp2"):
            a, params = acts[j]
            v = _q(lambda: sim.is_applicable(st, a, params))
            recs[j][kind] = v if isinstance(v, str) else ("T" if v else "F")
        elif kind in ("app", "app2"):
            a, params = acts[j]
            v = _q(lambda: sim.apply(st, a, params))
            sk = "succ" if kind == "app" else "succ2"
            if isinstance(v, str):
                recs[j][kind] = v
            elif v is None:
                recs[j][kind] = "F"
            else:
                recs[j][kind] = "T"
                recs[j][sk] = upj.state_vector(v, problem, keys)
                if kind == "app":
                    succ_states.append((v, recs[j][sk]))
        elif kind == "yield":
            v = _q(lambda: list(sim.get_applicable_actions(st)))
            if isinstance(v, str):
                o["yielded"] = []
                o["yield_exc"] = v
            else:
                ys = []
                for (ya, yp) in v:
                    for jj, (a, params) in enumerate(acts):
                        if a.name == ya.name and tuple(str(x) for x in params) == tuple(str(x) for x in yp):
                            ys.append(jj + 1)
                o["yielded"] = sorted(ys)
                o["yield_exc"] = "none"
                o["yield_count"] = len(v)
        elif kind in ("goal", "goal2"):
            v = _q(lambda: sim.is_goal(st))
            o[kind] = v[:1] if isinstance(v, str) else ("T" if v else "F")
        elif kind == "unsat":
            v = _q(lambda: sim.get_unsatisfied_goals(st))
            # -1: raised UPStateMissingFluentError (documented for this call); -2: any other exception
            o["unsat"] = (-1 if v == "X:UPStateMissingFluentError" else -2) if isinstance(v, str) else len(v)
            o["unsat_exc"] = v if isinstance(v, str) else "none"
    o["yielded2"] = o.get("yielded", [])
    if open_it is not None:
        v = _q(lambda: open_prefix + list(open_it))
        o["yielded2"] = [] if isinstance(v, str) else _match(v)
        if isinstance(v, str):
            o["yield_exc"] = v
    vec_after = upj.state_vector(st, problem, keys)
    for r in recs:
        r["after"] = vec_after
    o["after"] = vec_after
    o["acts"] = recs


def worker(job):
    """multiprocessing entry point: job = (pid, P, depth, cap, mode, seed, fresh_env)"""
    pid, P, depth, cap, mode, seed, fresh = job
    try:
        rec = observe(P, depth, cap, mode, seed, fresh)
    except Exception as ex:  # harness error: reported as machinery failure by the driver
        rec = {"P": P, "keys": [], "depth": 0, "init": {"built": False, "exc": "none"}, "obs": [], "skip": "HARNESS:" + _exc(ex), "skip_detail": traceback.format_exc()[-1500:]}
    rec["pid"] = pid
    return rec
