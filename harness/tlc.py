"""TLC runner and output parsers used by every driver.

All oracles of this framework are TLA+ definitions evaluated by TLC; this module
only starts TLC, hands it JSON files through environment variables (read in the
specifications with IOEnv.<NAME>), and parses what TLC prints.
"""
import json
import os
import re
import shutil
import subprocess
import time

SPEC_DIR = os.path.join(os.path.dirname(os.path.dirname(os.path.abspath(__file__))), "spec")
JAR = "/opt/veriftools/tla/tla2tools.jar"


class TLCError(Exception):
    """Machinery failure (exit 2): TLC could not evaluate the specification."""


class TLCResult:
    def __init__(self):
        self.stdout = ""
        self.generated = 0
        self.distinct = 0
        self.printed = []  # parsed values of PrintT lines
        self.violated = None  # name of violated invariant / property
        self.trace = []  # counterexample states (raw text per state)
        self.error = None
        self.wall = 0.0
        self.coverage = {}  # action name -> (distinct, total)
        self.postcondition_failed = False

    @property
    def ok(self):
        return self.error is None and self.violated is None and not self.postcondition_failed


# ----------------------------------------------------------------------------------------
# TLA+ value parser (for PrintT output, -dump files, counterexample traces)
# ----------------------------------------------------------------------------------------
_TOK = re.compile(
    r"""\s*(?:(<<|>>|\|->|:>|@@|\[|\]|\{|\}|\(|\)|,)|(-?\d+)|"((?:[^"\\]|\\.)*)"|([A-Za-z_][A-Za-z0-9_!]*))"""
)


def _tokens(s):
    pos = 0
    out = []
    n = len(s)
    while pos < n:
        m = _TOK.match(s, pos)
        if not m:
            if s[pos:].strip() == "":
                break
            raise ValueError("cannot tokenize TLA+ value at %r" % s[pos : pos + 40])
        pos = m.end()
        if m.group(1) is not None:
            out.append(("p", m.group(1)))
        elif m.group(2) is not None:
            out.append(("i", int(m.group(2))))
        elif m.group(3) is not None:
            out.append(("s", m.group(3).replace('\\"', '"').replace("\\\\", "\\")))
        else:
            out.append(("id", m.group(4)))
    return out


class _P:
    def __init__(self, toks):
        self.t = toks
        self.i = 0

    def peek(self):
        return self.t[self.i] if self.i < len(self.t) else (None, None)

    def eat(self, v=None):
        k = self.t[self.i]
        if v is not None and k[1] != v:
            raise ValueError("expected %r got %r" % (v, k))
        self.i += 1
        return k

    def value(self):
        v = self.atom()
        # function constructors a :> b @@ c :> d
        if self.peek() == ("p", ":>"):
            d = {}
            key = v
            while True:
                self.eat(":>")
                val = self.atom()
                d[_hashable(key)] = val
                if self.peek() == ("p", "@@"):
                    self.eat("@@")
                    key = self.atom()
                else:
                    break
            return d
        return v

    def atom(self):
        k, v = self.peek()
        if k == "i" or k == "s":
            self.eat()
            return v
        if k == "id":
            self.eat()
            if v == "TRUE":
                return True
            if v == "FALSE":
                return False
            return {"$mv": v}
        if v == "<<":
            self.eat()
            out = []
            while self.peek() != ("p", ">>"):
                out.append(self.value())
                if self.peek() == ("p", ","):
                    self.eat()
            self.eat(">>")
            return out
        if v == "{":
            self.eat()
            out = []
            while self.peek() != ("p", "}"):
                out.append(self.value())
                if self.peek() == ("p", ","):
                    self.eat()
            self.eat("}")
            return {"$set": out}
        if v == "(":
            self.eat()
            x = self.value()
            self.eat(")")
            return x
        if v == "[":
            self.eat()
            rec = {}
            while self.peek() != ("p", "]"):
                name = self.eat()[1]
                self.eat("|->")
                rec[name] = self.value()
                if self.peek() == ("p", ","):
                    self.eat()
            self.eat("]")
            return rec
        raise ValueError("unexpected token %r" % (self.peek(),))


def _hashable(x):
    if isinstance(x, list):
        return tuple(_hashable(y) for y in x)
    if isinstance(x, dict):
        return tuple(sorted((k, _hashable(v)) for k, v in x.items()))
    return x


def parse_value(text):
    p = _P(_tokens(text))
    v = p.value()
    if p.i != len(p.t):
        raise ValueError("trailing tokens in TLA+ value: %r" % text[:80])
    return v


# ----------------------------------------------------------------------------------------
# running TLC
# ----------------------------------------------------------------------------------------
_GEN = re.compile(r"(\d+) states generated, (\d+) distinct states found")
_INV = re.compile(r"Error: Invariant (\S+) is violated")
_PROP = re.compile(r"Error: (Action property|Temporal properties|Action property) (\S+)? ?(?:was|were) violated")
_COV = re.compile(r"^<(\w+) line \d+, col \d+ to line \d+, col \d+ of module (\w+)>: (\d+):(\d+)", re.M)


def _depth(text):
    """bracket depth of << >> [ ] { } ( ) outside string literals"""
    d = 0
    instr = False
    k = 0
    while k < len(text):
        c = text[k]
        if instr:
            if c == "\\":
                k += 1
            elif c == '"':
                instr = False
        elif c == '"':
            instr = True
        elif text.startswith("<<", k):
            d += 1
            k += 1
        elif text.startswith(">>", k):
            d -= 1
            k += 1
        elif c in "[{(":
            d += 1
        elif c in "]})":
            d -= 1
        k += 1
    return d


def run_tlc(
    module,
    cfg,
    workdir,
    env=None,
    workers=16,
    timeout=1200,
    simulate=None,
    depth=None,
    seed=None,
    coverage=False,
    dump=None,
    deadlock=False,
    extra=None,
    heap="8g",
    spec_dir=SPEC_DIR,
    continue_=False,
    dfs=False,
):
    """Run TLC on spec/<module>.tla with configuration text `cfg`.

    Files are copied to `workdir` (so that TLC's states/ directories and the generated
    cfg never touch /verif/spec).  `env` is added to the environment (JSON file paths
    read with IOEnv).  Returns a TLCResult; raises TLCError on machinery failure.
    """
    # on a busy machine more worker threads than free cores only add contention
    try:
        load = os.getloadavg()[0]
        if load > 48:
            workers = min(workers, 4)
        elif load > 20:
            workers = min(workers, 8)
    except OSError:
        pass
    os.makedirs(workdir, exist_ok=True)
    for f in os.listdir(spec_dir):
        if f.endswith(".tla"):
            shutil.copy(os.path.join(spec_dir, f), os.path.join(workdir, f))
    cfgpath = os.path.join(workdir, module + "_run.cfg")
    with open(cfgpath, "w") as fh:
        fh.write(cfg)
    meta = os.path.join(workdir, "meta")
    shutil.rmtree(meta, ignore_errors=True)
    jopts = "-Xmx%s -XX:+UseParallelGC" % heap
    if dfs:
        jopts += " -Dtlc2.tool.queue.IStateQueue=StateDeque"
    cmd = ["java"] + jopts.split() + ["-cp", JAR + ":/opt/veriftools/tla/CommunityModules-deps.jar", "tlc2.TLC"]
    args = ["-workers", str(workers), "-metadir", meta, "-noGenerateSpecTE", "-config", cfgpath]
    if not deadlock:
        args += ["-deadlock"]
    if simulate:
        args += ["-simulate", simulate]
    if depth is not None:
        args += ["-depth", str(depth)]
    if seed is not None:
        args += ["-seed", str(seed)]
    if coverage:
        args += ["-coverage", "1"]
    if dump:
        args += ["-dump", dump]
    if continue_:
        args += ["-continue"]
    if extra:
        args += list(extra)
    args += [module]
    e = dict(os.environ)
    if env:
        e.update({k: str(v) for k, v in env.items()})
    t0 = time.time()
    try:
        pr = subprocess.run(
            cmd + args, cwd=workdir, env=e, stdout=subprocess.PIPE, stderr=subprocess.STDOUT, timeout=timeout, text=True
        )
        out = pr.stdout
        rc = pr.returncode
    except subprocess.TimeoutExpired as ex:
        subprocess.run(["pkill", "-f", "tlc2[.]TLC.*" + re.escape(meta)], check=False)
        out = (ex.stdout or "") if isinstance(ex.stdout, str) else (ex.stdout or b"").decode("utf8", "replace")
        if simulate:
            rc = 0  # simulation runs until stopped
        else:
            raise TLCError("TLC timeout after %ss on %s\n%s" % (timeout, module, out[-2000:]))
    res = TLCResult()
    res.wall = time.time() - t0
    res.stdout = out
    res.rc = rc
    for m in _GEN.finditer(out):
        res.generated, res.distinct = int(m.group(1)), int(m.group(2))
    if simulate:
        m = re.search(r"The number of states generated: (\d+)", out)
        if m:
            res.generated = int(m.group(1))
            res.distinct = res.distinct or 0
    m = _INV.search(out)
    if m:
        res.violated = m.group(1)
    m2 = re.search(r"Error: Action property (\S+) is violated", out) or re.search(
        r"Error: Temporal properties were violated", out
    )
    if m2 and not res.violated:
        res.violated = m2.group(1) if m2.groups() else "temporal"
    if "Error: Deadlock reached" in out and not res.violated:
        res.violated = "Deadlock"
    if re.search(r"POSTCONDITION.*(violated|false)|Postcondition.*violated|Error: The postcondition", out, re.I):
        res.postcondition_failed = True
    # PrintT output: tuples; TLC wraps values longer than ~80 columns over several lines, so a
    # tuple is assembled by bracket matching.  A tuple that cannot be parsed is a machinery failure
    # (never silently dropped): see TLCResult.unparsed.
    res.unparsed = []
    lines = out.splitlines()
    i = 0
    while i < len(lines):
        ls = lines[i].strip()
        if ls.startswith("<<"):
            buf = ls
            j = i
            while _depth(buf) > 0 and j + 1 < len(lines) and j - i < 400:
                j += 1
                buf += " " + lines[j].strip()
            if _depth(buf) == 0:
                try:
                    res.printed.append(parse_value(buf))
                except ValueError:
                    res.unparsed.append(buf[:300])
                i = j
            else:
                res.unparsed.append(ls[:300])
        i += 1
    if res.violated:
        res.trace = _parse_trace(out)
    for m in _COV.finditer(out):
        res.coverage[m.group(1)] = (int(m.group(3)), int(m.group(4)))
    fatal = None
    if not res.violated:
        for pat in (
            r"Error: (.*)",
            r"Parsing or semantic analysis failed",
            r"\*\*\* Errors:",
            r"TLC threw an unexpected exception",
        ):
            mm = re.search(pat, out)
            if mm:
                fatal = out[max(0, mm.start() - 200) : mm.start() + 3000]
                break
    if fatal and not res.postcondition_failed:
        res.error = fatal
    if res.unparsed and not res.error and not res.violated:
        res.error = "unparsable PrintT output (verdict lines would be lost): %r" % res.unparsed[:3]
    if rc not in (0, 12, 13, 10, 11) and not res.violated and not res.error and not simulate:
        res.error = "TLC exit code %s\n%s" % (rc, out[-3000:])
    return res


def _parse_trace(out):
    states = []
    cur = None
    for line in out.splitlines():
        if re.match(r"^State \d+: ", line):
            if cur is not None:
                states.append(cur)
            cur = {"header": line, "text": ""}
        elif cur is not None:
            if line.strip() == "" or re.match(r"^\d+ states generated", line) or line.startswith("Finished"):
                states.append(cur)
                cur = None
            else:
                cur["text"] += line + "\n"
    if cur is not None:
        states.append(cur)
    for s in states:
        s["vars"] = parse_state(s["text"])
    return states


def parse_state(text):
    """Parse '/\\ x = v' conjunct lists (as printed in traces and -dump files)."""
    out = {}
    parts = re.split(r"^/\\ ", text, flags=re.M)
    if len(parts) == 1:
        parts = ["", text]
    for p in parts[1:]:
        m = re.match(r"(\w+) = (.*)$", p.strip(), flags=re.S)
        if not m:
            continue
        try:
            out[m.group(1)] = parse_value(m.group(2))
        except ValueError:
            out[m.group(1)] = {"$raw": m.group(2)}
    return out


def sany(module, spec_dir=SPEC_DIR):
    pr = subprocess.run(["tla-sany", module + ".tla"], cwd=spec_dir, stdout=subprocess.PIPE, stderr=subprocess.STDOUT, text=True)
    ok = pr.returncode == 0 and "Semantic errors" not in pr.stdout and "***Parse Error***" not in pr.stdout and "Fatal errors" not in pr.stdout
    return ok, pr.stdout


def read_ndjson(path):
    with open(path) as fh:
        return [json.loads(l) for l in fh if l.strip()]


def write_json(path, obj):
    with open(path, "w") as fh:
        json.dump(obj, fh, separators=(",", ":"))


def write_ndjson(path, rows):
    with open(path, "w") as fh:
        for r in rows:
            fh.write(json.dumps(r, separators=(",", ":")))
            fh.write("\n")
