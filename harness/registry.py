"""Registry of built checks (source of MANIFEST.json; run tools/mkmanifest.py)."""

ENGINES = [
    {"name": "tlc", "path": "/usr/local/bin/tlc", "serves_properties": [], "kind_free_text": "TLC 1.8 explicit-state model checker: exhaustive design checks, case enumeration, trace/observation judging"},
]

TRUST = "Trusted: TLC + CommunityModules Json/IOUtils; the TLA+ definitions; the Python driver that calls the public API and projects results to JSON (no oracle logic in Python)."

CHECKS = {
    "C25": {
        "text": "T1: TLC exhaustively checks that the implementation-shaped DeltaSTN layer (adjacency lists, _is_subsumed, incremental Bellman-Ford) satisfies the declarative layer (Floyd-Warshall consistency, least non-negative model, independent copies) within small constants. T2/T3: every TLC-enumerated call history of length 3 over 3 events and thousands of seeded long rational histories are replayed on the real DeltaSimpleTemporalNetwork and each recorded trace is validated step by step against the specification's actions and both layers' predicates.",
        "note": TRUST + " Bounds: 3-4 events and <=4 calls exhaustive, 6 events/40 calls sampled; epsilon=0; rationals judged after scaling by the lcm of denominators.",
        "technique": "TLA+ refinement check (TLC) + trace validation of TLC-enumerated and random histories replayed on the real class",
    },
}

NOT_APPLICABLE = {}
