"""Registry of built checks (source of MANIFEST.json; run tools/mkmanifest.py)."""

ENGINES = [
    {"name": "tlc", "path": "/usr/local/bin/tlc", "serves_properties": [], "kind_free_text": "TLC 1.8 explicit-state model checker: exhaustive design checks, case enumeration, trace/observation judging"},
]

TRUST = "Trusted: TLC + CommunityModules Json/IOUtils; the TLA+ definitions; the Python driver that calls the public API and projects results to JSON (no oracle logic in Python)."

CHECKS = {
    "C24": {
        "text": "EffectConflicts.tla: Impl layer (effects, assigned, incdec, sim bookkeeping updated in the code's order, one action per outcome) against the Spec layer (a collection conflicts iff some pair conflicts; a rejected call changes nothing); T1: TLC checks VerdictOK, BookkeepingOK, RejectUnchanged, OrderFree for all call sequences within bounds. T2/T3: every TLC-enumerated call history over a 33-call universe (assign/increase/decrease, conditional or not, several fluents and values, simulated effects) is replayed on InstantaneousAction, DurativeAction timings and Problem timed effects; after every call the exception class, stored effects and probe answers (cloned container + each candidate effect) are recorded; TLC judges each step and order independence of whole histories.",
        "note": TRUST + " Histories of <= 3 calls exhaustive over the full universe (4 over the core), longer ones sampled.",
        "technique": "TLA+ two-layer model of the conflict bookkeeping (TLC) + trace validation of TLC-enumerated insertion histories on the real containers",
    },
    "C25": {
        "text": "T1: TLC exhaustively checks that the implementation-shaped DeltaSTN layer (adjacency lists, _is_subsumed, incremental Bellman-Ford) satisfies the declarative layer (Floyd-Warshall consistency, least non-negative model, independent copies) within small constants. T2/T3: every TLC-enumerated call history of length 3 over 3 events and thousands of seeded long rational histories are replayed on the real DeltaSimpleTemporalNetwork and each recorded trace is validated step by step against the specification's actions and both layers' predicates.",
        "note": TRUST + " Bounds: 3-4 events and <=4 calls exhaustive, 6 events/40 calls sampled; epsilon=0; rationals judged after scaling by the lcm of denominators.",
        "technique": "TLA+ refinement check (TLC) + trace validation of TLC-enumerated and random histories replayed on the real class",
    },
}

M1NOTE = TRUST + " Bounds: generated problems have <= ~12 ground fluents, <= ~16 ground actions, <= 3 objects per type; depth 4 (quick) / 6 (thorough); the unspecified zones of DESIGN.md 7.1 are not compared (counted in evidence)."

CHECKS.update({
    "C01": {
        "text": "TLC explores the SPECIFICATION's transition system (UPSeqSem!Step: the documented successor semantics as one TLA+ definition) of hundreds of generated problems to a depth bound and checks in every state it reaches that the observation graph recorded from the real UPSequentialSimulator (apply on every ground action of every visited state, is_goal, initial-state rejection) agrees with Step. A simulator that loses, invents or alters a transition is reported at the first state where it shows.",
        "note": M1NOTE,
        "technique": "TLA+ reference semantics (UPSeqSem) explored by TLC; recorded simulator observation graphs validated against it in every reachable state",
    },
    "C02": {
        "text": "Same corpus and exploration as C01; on ONE simulator instance every query kind is issued for every ground action of every visited state in a seeded random interleaving, each twice, and the state is re-read. TLC judges: is_applicable = (apply # None) = membership in get_applicable_actions; is_goal = (get_unsatisfied_goals empty); repeated answers equal; state unchanged; and outside the unspecified zones all equal UPSeqSem's verdicts.",
        "note": M1NOTE,
        "technique": "trace validation of query interleavings against UPSeqSem (queries are stuttering steps) with TLC exploring the specification's reachable states",
    },
    "C03": {
        "text": "Thousands of (problem, plan) pairs -- the empty plan, all short plans, simulator walks with an arbitrary last step, random plans; problems with none or one quality metric of every kind -- validated by the real SequentialPlanValidator; TLC judges each recorded status / metric value / exception against UPSeqSem!SeqVerdict (fold of Step, then Goal) and MetricValue.",
        "note": M1NOTE + " Which failure reason is reported is not judged.",
        "technique": "recorded validator verdicts judged by the TLA+ plan semantics (SeqVerdict, MetricValue) evaluated by TLC",
    },
    "C04": {
        "text": "Instantaneous generated problems x plans scheduled at pairwise distinct rational start times (listed in shuffled order): TLC checks on every case that the two specifications agree (UPTimeSem!TimeVerdict = UPSeqSem!SeqVerdict of the start-time ordering, a spec-level theorem checked on the corpus), that each real validator returns its specification's verdict, and that the two recorded verdicts are equal.",
        "note": M1NOTE,
        "technique": "two TLA+ semantics (temporal, sequential) checked equivalent by TLC on the corpus and both validators' recorded verdicts judged against them",
    },
    "C05": {
        "text": "Generated temporal problems (open/closed constant or fluent-dependent duration intervals, conditions over open/closed/delayed intervals, start/end/intermediate effects, timed effects and goals, invariants, bounded types) x seeded time-triggered plans on a coarse rational grid forcing coinciding happenings; the real TimeTriggeredPlanValidator's status is judged by TLC against UPTimeSem!TimeVerdict (dense-time reading of conditions, all effects of an instant applied together).",
        "note": M1NOTE + " Dense-time reading as stated in spec/UPTimeSem.tla; plans of <= 3 steps.",
        "technique": "recorded validator verdicts judged by the TLA+ temporal semantics (UPTimeSem) evaluated by TLC",
    },
    "C11": {
        "text": "SimplifyJudge.tla decides, with the shared expression semantics (UPExpr!Eval), for every recorded simplification: equal value under ALL interpretations of the leaves on a finite grid (static fluents pinned to their initial values for the problem-relative simplifier), no new free variable, idempotence; large constants (2^53+1, 2^60+2, 10^30, 10^20/3, ...) are judged with BigArith (limb arithmetic in TLA+, checked against native arithmetic by TLC). TLC enumerates typed expressions to depth 2 (Boolean connectives, quantifiers over a type hierarchy incl. capture and sub-typing families, equalities, comparisons, + - * /, static and unary fluents, parameters, variables); e.simplify() and Simplifier(env, problem).simplify(e) are run on each.",
        "note": TRUST + " Infinite domains are sampled on a finite grid, not decided (no SMT); trajectory operators, Dot and interpreted functions are not in the grammar.",
        "technique": "TLA+ expression semantics + BigArith evaluated by TLC over TLC-enumerated expressions; recorded simplifications judged on all interpretations of a finite grid",
    },
    "C12": {
        "text": "NormalForms.tla: IsLiteral / IsNNF / IsDNF and truth-table equivalence over all states of the atoms' fluents, plus a model of dnf.py (as written vs repaired) that TLC checks against the declarative layer. TLC enumerates Boolean expressions (all of depth <= 1 over 8 leaves, all not/binary depth-2 over 4 leaves, a slice of ternary and/or, seeded depth 3; constant-only atoms, equalities, comparisons, implies, iff); Nnf and Dnf are run on each; TLC judges shape and equivalence of both outputs.",
        "note": TRUST + " Depth-2 ternary and depth-3 expressions are sampled, not exhaustive.",
        "technique": "TLA+ normal-form predicates and truth-table equivalence evaluated by TLC over TLC-enumerated expressions; recorded conversions judged",
    },
    "C13": {
        "text": "Subst.tla defines the reference substitution (top-down, maximal occurrences, no re-substitution inside inserted values, binder-aware, rebuilt through Not(Not x)=x) in two independent readings that TLC checks equal on every case (T1), plus the semantic corollary Eval(Subst(e,m)) = Eval(e) under the updated interpretation. TLC enumerates the (expression, map) case space (15k quick / 106k thorough: nested keys, keys under binders, keys inside inserted values, wrong-sort values); each case runs through FNode.substitute, env.substituter and a fresh Substituter; TLC judges syntactic equality with Subst(e,m), rejection of sort-incompatible maps and that a rejected call leaves the expression manager unchanged.",
        "note": TRUST + " Dot/timing/trajectory operators and interpreted functions are not enumerated; numeric types unbounded; acceptance of interval-dependent numeric pairs is not judged.",
        "technique": "TLA+ reference substitution evaluated by TLC over a TLC-enumerated case space; recorded results judged syntactically and semantically",
    },
    "C15": {
        "text": "TypeInfer.tla: reference interval inference with exact rational arithmetic (information only) and the soundness judge: for all valuations of the leaves on a critical-point grid the exact value of the expression (UPExpr!Eval) lies in the inferred interval and is integral when the inferred type is int; unbounded sides decided by hull clauses; Boolean/user types exact; EqWellFormed symmetric by definition. TLC enumerates numeric expressions over every bound form x {int, real}, non-dyadic and negative constants, BigArith magnitudes, and ALL ordered pairs of typed operands for Equals; each is built on a fresh Environment; recorded types (exact Fractions) and accept/reject are judged.",
        "note": TRUST + " Soundness judged on critical points, not by SMT (exact when each fluent occurs once and divisors are constants); integrality not judged for big constants; fluents 0-ary.",
        "technique": "TLA+ interval semantics evaluated by TLC over TLC-enumerated expressions and operand pairs; recorded inferred types judged",
    },
    "C19": {
        "text": "Generated classical/numeric/temporal problems (with adversarial identifiers) are written by the real ANMLWriter and read back by the real ANMLReader; the re-read problem is renamed back with the writer's own name table. TLC judges: the reader must parse the writer's output; Bisim (same objects, initial state, applicability, successors, goal verdicts on all states reachable to a depth bound) for the instantaneous behaviour; AnmlRoundTrip!SameTemporalStructure (durations with openness, condition intervals, effect timings, timed effects/goals as normalised sets; expressions compared by value on sample states) and agreement of UPTimeSem!TimeVerdict on seeded plans for temporal problems.",
        "note": M1NOTE + " The ANML text itself is not modelled; parse failures are keyed by the offending construct class computed from the original problem.",
        "technique": "TLC bisimulation / temporal-structure comparison of the original and the re-read problem (Bisim, AnmlRoundTrip, UPTimeSem)",
    },
    "C21": {
        "text": "PDDL domain/problem TEXTS are printed by the harness's own printer from generated problems in the common fragment, deliberately using surface forms the UP writer never emits (multi-typed object lists, :constants, nested and/or, either operand order, imply, multi-variable quantifiers, action costs), plus the shipped .pddl files both readers accept; both real readers parse each text; PddlReaders.tla classifies texts (outside the fragment / compare) and Bisim judges the two results: same objects, initial state, applicability, successors, goal verdicts, action costs and metric on all reachable states to a depth bound.",
        "note": M1NOTE + " Only lower-casing of identifiers is applied as renaming. Texts the third-party reader rejects are outside the common fragment (tallied).",
        "technique": "TLC bisimulation (Bisim) of the problems produced by the two readers from harness-printed PDDL texts",
    },
    "C23": {
        "text": "ModelStore.tla: value-level invariant StoreOK (every value a stored expression can take lies in the target type's domain; defaults and initial values are constants) and a call layer with a type-level Verdict in {yes, no, unspec}; T1 checks Stored / RejectJustified / AcceptSafe / RejectUnchanged over every history of the case space. TLC enumerates the full cross product 13 storing calls x 7 target types x 24 values; each is performed on fresh objects in a fresh Environment with the model projected before and after; ModelStoreTrace judges accept = Verdict, reject => unchanged, stored = given.",
        "note": TRUST + " Unspecified: numeric effect values whose bounds are not contained in the fluent's bounds, non-constant ActionInstance parameters of a compatible type.",
        "technique": "TLA+ typed-store model (TLC) + exhaustive TLC-enumerated storing calls replayed on the real model classes and judged",
    },
    "C20": {
        "text": "ProtoForms.tla defines the form space (numeric type forms, constants up to and beyond int64 via BigArith limbs, timepoint kinds x delays, interval openness, effect kinds, metric kinds, plan kinds, result kinds): TLC emits 657 minimal artefacts, one per combination; plus generated problems with plans/results and the bundled examples. Each goes through ProtobufWriter -> bytes -> ProtobufReader; ProtoJudge.tla decides NormUPJ(project(read(write(x)))) = NormUPJ(project(x)) by TLC value equality (bags where the model holds unordered collections), kind equality, and the implementation's own ==.",
        "note": TRUST + " Thinnest use of the technique (a codec has one transition): the specification contributes the exhaustive form space and the independent notion of equality. Scheduling problems, hierarchical plans and schedules are judged by == and kind only.",
        "technique": "TLC-enumerated form space; round-trip results judged by TLC value equality on the abstract projection",
    },
    "C16": {
        "text": "ExprManager.tla: variables table (content -> id) and nextId, actions Mk / MkReject with exactly the documented normalisations (And/Or/Plus/Times with 0 or 1 argument, double negation, GE/GT mirrored, canonical Int/Real constants) and typing over bool/int/real; invariants: ids injective, same content => same id, the table only grows and keeps its entries, only well-typed nodes stored; T1 relates the id layer to a declarative term layer (NormalForm, HashCons, AcceptIffWellTyped, RejectRepeatable, RejectKeepsTable). T2/T3: TLC-enumerated construction histories (every call over 17 constructors made twice and re-spelt, ill-typed attempts repeated) are replayed on a fresh Environment each; returned node ids, operators, children and payloads are recorded after every call and all earlier nodes re-read at the end; the trace spec judges 18 clauses.",
        "note": TRUST + " Fragment: bool/int/real constructors; XOr, EqualsOrIff, quantifiers, Dot, parameters, objects, timings and bounded numeric types are not covered.",
        "technique": "TLA+ hash-consing model checked by TLC + trace validation of TLC-enumerated construction histories on fresh environments",
    },
    "C17": {
        "text": "Linear.tla decides semantic monotonicity and affinity of a numeric expression by exhaustive evaluation on the finite declared domains (exact rationals via UPExpr!Eval); LinearAnalysis.tla models the checker's walk rules (as written and repaired) and TLC compares both with the real answers. TLC enumerates expressions to depth 2 (3-4 thorough) over bounded int fluents, a bounded parameter (negative and sign-straddling ranges), a static fluent and constants; LinearChecker.get_fluents (and Problem.kind's SIMPLE_NUMERIC_PLANNING decision) are recorded and judged: only-positive => non-decreasing, only-negative => non-increasing, linear => affine.",
        "note": TRUST + " Domains are small integer boxes (3-4 values per fluent); nullary fluents; soundness only (an over-conservative analysis passes).",
        "technique": "TLA+ semantic monotonicity/affinity decided by TLC on finite domains over TLC-enumerated expressions; recorded analysis results judged",
    },
    "C26": {
        "text": "Valid time-triggered plans are SELECTED by TLC (UPTimeSem!TimeVerdict = VALID) from generated temporal/instantaneous problems and dependency-probe problems; the real conversions TT -> STN -> TT are recorded; PlanConvSTN.tla (reusing DeltaSTN's Floyd-Warshall) judges: is_consistent = satisfiability of the recorded difference constraints, the original times satisfy every constraint, the converted-back plan is a re-timing of the same instances, solves the STN and has TimeVerdict VALID.",
        "note": M1NOTE + " Rational times scaled to integers by the lcm of denominators.",
        "technique": "TLC-selected valid plans; recorded STN constraints judged by Floyd-Warshall in TLA+ and the converted-back plan by the TLA+ temporal semantics",
    },
    "C27": {
        "text": "Phase 1: TLC explores UPSeqSem!Step on independence-biased generated problems and emits executable sequences of distinct ground instances; the real SequentialPlan.convert_to(PARTIAL_ORDER_PLAN) is recorded. Deorder.tla: TLC explores the DOWN-SET LATTICE of the recorded partial order (executed set + current state; covers all linearisations with 2^n states): every enabled node is Step-applicable, every maximal behaviour ends in the original final state with the goal holding; instances where one writes a ground fluent the other reads or writes (syntactic Reads/Writes after expansion) stay ordered; all_sequential_plans() equals the set of linear extensions. MCDeorder checks the order utilities themselves.",
        "note": M1NOTE + " Plans of <= 5 distinct instances; trajectory constraints other than invariants and simulated effects are not generated.",
        "technique": "TLC exploration of the down-set lattice of the recorded partial order with the TLA+ sequential semantics",
    },
    "C28": {
        "text": "Durative problems inside TimedToSequential.supported_kind() are compiled by the real compiler; compiled plans (short sequences and simulator walks) are converted back by the real plan_back_conversion; TimedToSeqJudge.tla: SeqVerdict(compiled problem, plan) = VALID implies the conversion does not raise and UPTimeSem!TimeVerdict(original problem, converted plan) = VALID, with a dedicated clause for a duration outside its (possibly open, possibly fluent-dependent) interval.",
        "note": M1NOTE,
        "technique": "recorded compilation + plan back-conversion judged by the TLA+ sequential and temporal semantics (TLC)",
    },
    "C29": {
        "text": "PlanConvProc.tla states time-triggered plans as bags of timed instances with exact rationals and declarative Forward/Back conversions (k-th end pairs with k-th start); T1: TLC checks the round-trip theorem on every plan of <= L steps over a 9-ground-action problem covering each duration kind (and that it fails outside the zone where the forward plan determines the original). T2/T3: the same plans and seeded plans over generated problems are run through the real plan_forward_conversion / plan_back_conversion; TLC judges Back(Forward(p)) = p as bags and that each compiled end event lies inside its action's duration.",
        "note": TRUST + " For fixed-duration actions the compiler emits no end event, so the end-event clause is exercised on variable-duration actions inside the stated zone (signatures carry |variable-duration).",
        "technique": "TLA+ declarative plan conversions checked by TLC + recorded forward/back conversions judged on TLC-enumerated and seeded plans",
    },
    "C32": {
        "text": "Factory.tla: declarative Select (the first engine in preference order that implements the mode, supports the kind and every requested requirement; none <=> no-suitable-engine error; pipelines thread the resulting kinds) and an implementation-shaped layer mirroring _engine_satisfies_conditions / _get_engine_class / the pipeline loop; T1: TLC checks them equal on exhaustive small registries. TLC enumerates requests (kind x operation mode x compilation kind / plan kind / optimality / anytime guarantee, pipelines, mock capability configurations and preference-list schemes); the registry (supported kinds, plan kinds, guarantees, resulting kinds) is READ FROM THE REAL CLASSES; every request goes through the real public entry points on fresh Environments with harness-registered mock engines; FactoryJudge judges the returned engine or exception.",
        "note": TRUST + " Only UP's own engines plus harness mocks are registered (no external planner in this sandbox).",
        "technique": "TLA+ selection model (TLC, two layers) + exhaustive TLC-enumerated requests replayed through the real Factory and judged",
    },
    "C33": {
        "text": "T1: TLC checks the lattice laws of ProblemKindLattice (order, lub/glb, hash key, upgrade monotone, tables well-formed) instantiated with the REAL version tables read from problem_kind_versioning. T2/T3: every TLC-enumerated ordered pair of kinds over a 6-feature universe with deprecated and version-2/3 features x versions (thorough: more universes, same-version triples) is run on real ProblemKind objects; each operand's version, features and hash are recorded before and after every query (comparisons are query steps: operands unchanged) and judged by ProblemKindLatticeTrace.",
        "note": TRUST + " The 7-feature universe is in the thorough tier only.",
        "technique": "TLA+ lattice laws over the real tables (TLC) + exhaustive enumerated-case replay + trace judging",
    },
    "C30": {
        "text": "Belief.tla: TLC explores every behaviour of the compiled classical problem K together with the belief (set of states of the original conformant problem, initially the possible initial states given explicitly or derived by the specification from oneof/or/unknown constraints) of the mapped-back plan: a compiled goal state implies no mapped-back step was inapplicable in any possible state and every possible state is a goal state (soundness); full belief-space exploration of the original from the given states and from the states the compiler kept decides 'a conformant plan exists', full exploration of K decides 'compiled goal reachable', and BeliefJudge compares the answers (completeness, dropping dominated states, duplicate/added-state variants, kept tags are possible initial states).",
        "note": M1NOTE + " Boolean problems with <= 6 ground fluents; both spaces are finite and fully explored (cap 2*10^5 states).",
        "technique": "TLC belief-space exploration of the original problem vs exploration of the compiled problem, over artefacts recorded from the real Ks0Compiler",
    },
    "C34": {
        "text": "HTNOrder.tla: Impl layer models ordering()/_build_total_order as written; Spec layer: Qualitative (every temporal constraint is a strict end-before-start precedence between subtasks), linear extensions, PartialOrder = exactly the given precedences, TotalOrder = the unique linear extension; T1 invariants DesignOK, PrecAgree, QualAgree. TLC enumerates every precedence relation (cyclic, redundant, duplicated, self-loops) over <= 4 subtasks (5 in the thorough tier) plus each mixed with one of 27 'other kind' constraints per ordered pair; real TaskNetwork / Method objects are built and partial_order()/total_order() recorded; the trace spec judges 9 clauses.",
        "note": TRUST + " Unspecified zone (DESIGN 7.1-9, made smaller): a total order stated with a redundant pair, where the returned set R must satisfy R subset of P and TC(R) = TC(P).",
        "technique": "TLA+ two-layer ordering model (TLC) + exhaustive TLC-enumerated relations replayed on real task networks and judged",
    },
    "C31": {
        "text": "Generated finite-state problems with interpreted functions (finite tables) in conditions/effects, or with an oversubscription metric, are solved through interpreted_functions_planning[bfs] / oversubscription[bfs] (bfs = the exact breadth-first planner the property assumes, registered by the harness). TLC judges every returned plan with UPSeqSem!SeqVerdict on the original problem and explores the problem's whole reachable state space: a reported SOLVED_OPTIMALLY must have maximal gain among reachable goal states, and an UNSOLVABLE status / missing plan is only accepted when no reachable goal state exists.",
        "note": M1NOTE + " Assumes harness/bfsplanner.py is a correct underlying planner; state spaces are finite (Boolean/object fluents, bounded ints). The adversarial inner-status sequences of DESIGN.md (scripted engine) are not built.",
        "technique": "meta-engine results judged by the TLA+ plan semantics and by exhaustive TLC exploration of the problem's reachable states",
    },
    "C35": {
        "text": "Trace validation over UPSeqSem: generated contingent problems (hidden fluents under oneof/or/unknown constraints incl. negated literals, explicit values, per-fluent and per-type defaults, sensing and ordinary actions) x random seeds; every run of the real SimulatedExecutionEnvironment is validated as a behaviour Pick;Do*: the picked initial state satisfies every constraint and gives every non-hidden fluent its declared value, each applied action is a Step of the sequential semantics (the environment raises iff Step says inapplicable), and returned observations equal the current values.",
        "note": M1NOTE + " The state is observed through a sensing action observing every ground fluent.",
        "technique": "trace validation of recorded environment runs against the TLA+ sequential semantics (UPSeqSem) by TLC",
    },
    "C06": {
        "text": "Product exploration: for every recorded compilation P -> Q by a real compiler (grounder; conditional-effects, disjunctive-conditions, negative-conditions, quantifiers, usertype-fluents, bounded-types, state-invariants, trajectory-constraints, undefined-initial-numeric removers) with the map-back table obtained by calling the real map_back_action_instance on every ground action of Q, TLC explores every Q-behaviour (UPSeqSem!Step on Q) to a depth bound together with the P-behaviour it maps back to and checks: Q reached a goal state => the mapped-back plan was executable in P, reached a P goal state and satisfies P's trajectory constraints (PDDL3 monitors in TLA+).",
        "note": M1NOTE + " Counterexamples longer than the depth bound are missed; compilations that raise are C08's subject.",
        "technique": "TLC product exploration of compiled and original transition systems (ProductSound) over artefacts recorded from the real compilers",
    },
    "C07": {
        "text": "Same artefacts as C06; ProductComplete: TLC explores every P-behaviour to the depth bound while maintaining by subset construction the set of Q-states reachable by Q-sequences mapping back to the P-sequence so far (closed under <= 2 steps that map back to nothing); P reached a goal state => some Q-state of the closure is a Q goal state. No-op steps may be absent from the compiled counterpart.",
        "note": M1NOTE + " Depth-bounded; problems with trajectory constraints are judged for soundness only.",
        "technique": "TLC subset-construction exploration (ProductComplete) over artefacts recorded from the real compilers",
    },
    "C08": {
        "text": "Generated problems with adversarial identifiers inside each compiler's supports(kind) are compiled by the real compilers; CompilerJudge.tla (MODE=C08): the compiler must not raise (documented rejections excepted) and the projected compiled problem must be WellFormed: names unique per namespace, every referenced fluent/object/type declared, parameters bound, no free variable, and a plan back-conversion available.",
        "note": M1NOTE + " Every exception inside supports(kind) is reported with its raising site as signature; only the trajectory-constraints remover's 'PROBLEM NOT SOLVABLE' is treated as documented rejection.",
        "technique": "recorded compilation results judged by a TLA+ well-formedness definition (TLC)",
    },
    "C09": {
        "text": "For every recorded compilation TLC compares feature by feature the kind of the compiled problem with compiler.resulting_problem_kind(input kind) (which must not raise); factory-selected pipelines over ordered subsets of the compilation kinds must accept every intermediate problem they produce.",
        "note": M1NOTE + " The kind of the compiled problem is the implementation's own Problem.kind (C10 checks that kind against an independent extractor). The many (compiler, feature) pairs found on the pinned tree are listed one by one as known findings.",
        "technique": "recorded declared/actual kinds and pipeline runs judged by TLC (CompilerJudge)",
    },
    "C10": {
        "text": "UPKinds!FeaturesOf is an independent syntactic feature extractor over the abstract model, transcribed clause by clause from the documented meaning of each feature (docs/problem_representation.rst), not from _KindFactory. TLC enumerates 778 (problem class, feature, syntactic position, variant) cases; each becomes a minimal problem built through the public API; plus random classical/numeric/temporal problems and the bundled example problems. TLC judges that the recorded Problem.kind contains every feature FeaturesOf demands.",
        "note": TRUST + " One-directional (the computed kind must contain every used feature). Covers classical, numeric, temporal, HTN, multi-agent, scheduling and contingent per-position cases; TAMP/SAMP and up_test_cases are not covered.",
        "technique": "TLA+ reference feature extractor evaluated by TLC over TLC-enumerated per-position problems and generated problems; recorded kinds judged against it",
    },
    "C36": {
        "text": "T1: UPStateSM.tla models UPState as the Python object is shaped (father pointer, own values, ancestor counter, MAX_ANCESTORS condensation exactly where the code condenses: hash, repr, eq, failed get_value) and TLC checks that it refines a finite map (GetOK, EqOK, HashOK, ChainBounded, Immutable) for all make_child trees within bounds and limits {1, 2, None}. T2/T3: every TLC-enumerated call history of length 4 (5 thorough) and seeded histories of up to 60 calls are replayed on real UPState subclasses with ancestor limits 1, 2, 3, 20, None; after each call get_value of every fluent, pairwise == and hash equality are recorded (on a replica, because queries mutate) and the trace spec judges them against the finite-map layer.",
        "note": TRUST + " Whole trees are put under a limit by setting the class attribute UPState.MAX_ANCESTORS during a replay. An __eq__ that trusted hash equality alone could only be exposed by a real 64-bit collision (refuted at design level only).",
        "technique": "TLA+ refinement check (TLC) + trace validation of TLC-enumerated and random histories replayed on the real class",
    },
    "C14": {
        "text": "T1: DagWalker.tla models memo/stack handling of the shared walkers as written; TLC checks HistoryIndependent and CleanBetweenCalls for all call histories within bounds (and that the unrepaired model has a counterexample, which is replayed on the real walkers). T2/T3: thousands of TLC-enumerated call histories over substituter, simplifier, type checker, free-vars/names extractors and quantifier remover, with failures injected mid-walk, are replayed on one shared Environment and call by call on fresh Environments; the trace spec judges result equality and walker cleanliness after every call.",
        "note": TRUST + " Histories of <= 3-4 calls exhaustive over a 28-node expression menu, longer ones sampled.",
        "technique": "TLA+ model of the walker mechanism checked by TLC + trace validation of TLC-enumerated call histories replayed on shared vs fresh environments",
    },
    "C37": {
        "text": "MASem.tla extends the sequential semantics (UPSeqSem, unchanged) with multi-agent scoping (own fluent, environment fluent, Dot(agent, fluent)) and a pure-renaming flattening of a MultiAgentProblem. For generated multi-agent problems the real MAConditionalEffectsRemover / MADisjunctiveConditionsRemover are run, original and compiled problem are transcribed (not flattened by Python), map_back_action_instance is tabulated for every compiled ground action, and TLC judges in EVERY total state over the compiled ground fluents: a compiled variant is applicable only where its original action is, some variant is applicable where the original action is (and changes the state), successors agree on the original fluents, at most one variant (conditional effects), auxiliary fake-goal actions touch no original fluent, goals are equivalent up to auxiliary steps, initial states agree, no dangling fluent reference in compiled actions or goals.",
        "note": TRUST + " Problems with at most 8 ground fluents (+2 auxiliary), all total states up to a cap per compilation; the MA-PDDL writer is not part of the check.",
        "technique": "TLA+ specification of multi-agent action semantics (TLC) judging, state by state, compilations produced by the real multi-agent compilers",
    },
    "C22": {
        "text": "ModelClone.tla has two layers: a content-only specification of Problem / ContingentProblem / HierarchicalProblem / MultiAgentProblem as edited through the public mutators (fluents, defaults, initial values, actions and their effects, timed effects with the conflict rule, goals, timed goals, trajectory constraints, metrics, time model, agents), and an implementation-shaped layer with the conflict bookkeeping (_fluents_assigned / _fluents_inc_dec) in which clone() copies a configurable set of fields. T1: TLC checks that the repaired configuration refines the content layer and reports, for each as-written configuration, which invariant breaks (with a counterexample trace). T2: TLC enumerates connected edit histories (clone at any point, then edits of original and clone, equality / hash / acceptance probes); Python replays them on the real classes and records a digest of both objects after every call; ModelCloneTrace judges call by call: clone == original right after cloning, later edits of one do not show in the other, both accept and reject the same later edits.",
        "note": TRUST + " 88 edit instances, histories up to the stated length; aliasing of objects the property's operations never edit (HTN methods, task network) is not reachable.",
        "technique": "TLA+ refinement check of clone() against a content-only model (TLC) + trace validation of TLC-enumerated edit histories replayed on the real problem classes",
    },
    "C18": {
        "text": "Generated problems (four slices: classical/numeric, temporal with timed initial literals, adversarial identifiers applied by pure renaming, third-party-reader friendly) are written by the real PDDLWriter, read back by UPPDDLReader and by the third-party reader, renamed back through get_item_named, and TLC judges the pair (original, re-read) with Bisim.tla (same objects, ground fluents, initial state, applicability, successors and goal verdicts over the reachable states within a bound, action costs, metric kind; plan length compared as unit costs) and PddlRoundTrip.tla (exception rules: writer rejection vs crash, no failure of UP's own reader on the writer's output, third-party failures only for a missing :requirements flag; temporal structure slot by slot on sample states; plan round trip through write_plan / parse_plan with equal SeqVerdict / TimeVerdict and MetricValue).",
        "note": TRUST + " Each problem is written in a fresh process (the writer's keyword set was process-global before the fix). PDDL has no bounded numeric types: the dropped bounds are a known finding; the third-party pddl package's de-duplication of repeated operands is a known finding outside unified_planning.",
        "technique": "TLA+ bisimulation / round-trip specification (TLC) judging problems and plans written and re-read by the real PDDL writer and readers",
    },
    "C38": {
        "text": "Renamer.tla states the property over names as code-point sequences with the writers' real keyword sets (read from the writer modules in a fresh process): every emitted name is valid for the target language, is no keyword, distinct items get distinct names (PDDL: ignoring ASCII case), get_item_named inverts get_pddl_name / the ANML name map, the names found in the emitted text agree with the look-ups, and the names of a problem do not depend on what the process wrote before (HistoryIndependent, keyword set as a state variable). T1: RenamerImpl.tla models both naming mechanisms as written (with a switch per repair) and TLC checks them against Renamer over a universe of adversarial names. T2: TLC-enumerated problem skeletons are written by the real PDDLWriter and ANMLWriter, on first use and after a writer for a temporal, constrained problem. T3: generated problems whose identifiers are replaced from pools of case variants, keywords, symbols, unicode, leading digits and already-mangled forms. RenamerJudge decides every clause on the recorded look-ups and harvested text names.",
        "note": TRUST + " 'First use' is a reload of the writer modules; a sample is also run in new processes and compared. Only names are judged here; the semantics of the written files is C18/C19.",
        "technique": "TLA+ specification of the renaming contract + model of the naming mechanisms (TLC), judging names produced by the real PDDL and ANML writers on TLC-enumerated and generated problems",
    },
})

NOT_APPLICABLE = {}
