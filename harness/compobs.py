"""Run the real problem-transforming compilers and record the artefacts the specifications judge:
original UPJ, compiled UPJ, the map-back table, declared / actual kinds, exceptions.
Shared by C06, C07, C08, C09.
"""
import random
import traceback

from . import upj, simobs
from .common import time_limit, ImplTimeout, call_limited
from .gen import ground_actions

COMPILERS = {
    # short name: (module, class, CompilationKind)
    "grounder": ("unified_planning.engines.compilers.grounder", "Grounder", "GROUNDING"),
    "cerm": ("unified_planning.engines.compilers.conditional_effects_remover", "ConditionalEffectsRemover", "CONDITIONAL_EFFECTS_REMOVING"),
    "dcrm": ("unified_planning.engines.compilers.disjunctive_conditions_remover", "DisjunctiveConditionsRemover", "DISJUNCTIVE_CONDITIONS_REMOVING"),
    "ncrm": ("unified_planning.engines.compilers.negative_conditions_remover", "NegativeConditionsRemover", "NEGATIVE_CONDITIONS_REMOVING"),
    "qrm": ("unified_planning.engines.compilers.quantifiers_remover", "QuantifiersRemover", "QUANTIFIERS_REMOVING"),
    "utfrm": ("unified_planning.engines.compilers.usertype_fluents_remover", "UsertypeFluentsRemover", "USERTYPE_FLUENTS_REMOVING"),
    "btrm": ("unified_planning.engines.compilers.bounded_types_remover", "BoundedTypesRemover", "BOUNDED_TYPES_REMOVING"),
    "sirm": ("unified_planning.engines.compilers.state_invariants_remover", "StateInvariantsRemover", "STATE_INVARIANTS_REMOVING"),
    "tcrm": ("unified_planning.engines.compilers.trajectory_constraints_remover", "TrajectoryConstraintsRemover", "TRAJECTORY_CONSTRAINTS_REMOVING"),
    "uinrm": ("unified_planning.engines.compilers.undefined_initial_numeric_remover", "UndefinedInitialNumericRemover", "UNDEFINED_INITIAL_NUMERIC_REMOVING"),
}

# generator masks that keep the corpus mostly inside each compiler's supported kind and make the
# compiler's own feature frequent
MASKS = {
    "grounder": dict(static_guards=0.6),
    "cerm": dict(conditional=True, cond_prob=0.6),
    "dcrm": dict(disjunction=True, cond_prob=0.5, op_bias={"or": 4, "implies": 1}, incdec_plain_cond=0.85),
    "ncrm": dict(negation=True, numeric=False, objfluents=False, implies=False, equality=False, bool_expr_assign=False, op_bias={"not": 3}),
    "qrm": dict(quantifiers=True, op_bias={"exists": 2, "forall": 2}),
    "utfrm": dict(objfluents=True),
    "btrm": dict(bounded=True),
    "sirm": dict(invariants=True, inv_prob=1.0, inv_forall=0.6),
    "tcrm": dict(invariants=False, traj=True, numeric=False, objfluents=False, static_guards=0.3, bool_expr_assign=0.03),
    "uinrm": dict(undefined=True, numeric=True),
}


def get_compiler(cname):
    import importlib

    mod, cls, kind = COMPILERS[cname]
    C = getattr(importlib.import_module(mod), cls)
    from unified_planning.engines.mixins.compiler import CompilationKind

    return C, getattr(CompilationKind, kind)


def _site(ex):
    tb = traceback.extract_tb(ex.__traceback__)
    for fr in reversed(tb):
        if "/unified_planning/" in fr.filename:
            return "%s:%s" % (fr.filename.split("/unified_planning/")[-1], fr.name)
    return "?"


def compile_one(cid, P, cname, fresh_env=False, reuse=False):
    import unified_planning as up
    from unified_planning.plans import ActionInstance

    rec = {"cid": cid, "comp": cname, "P": P, "Q": None, "pkeys": upj.keys_of(P), "qkeys": [], "back": [],
           "skip": "", "raised": "none", "site": "", "detail": "", "declared": [], "qkind": [], "pkind": [],
           "has_back_conversion": False}
    env = up.environment.Environment() if fresh_env else None
    try:
        problem = call_limited(lambda: upj.build(P, env), 20, 10)
    except ImplTimeout:
        rec["skip"] = "build-timeout"
        return rec
    except Exception as ex:
        rec["skip"] = "build:" + type(ex).__name__
        return rec
    C, ckind = get_compiler(cname)
    try:
        kind = problem.kind
        rec["pkind"] = sorted(kind.features)
        if not C.supports(kind):
            rec["skip"] = "unsupported-kind"
            return rec
    except Exception as ex:
        rec["skip"] = "kind:" + type(ex).__name__
        return rec
    def _compile():
        inst = C()
        if reuse:
            # "every compiler and every problem": the result of the SECOND compilation through one compiler
            # instance is the one that is judged (state kept by the instance must not leak into it)
            inst.compile(problem, ckind)
        return inst.compile(problem, ckind)

    try:
        res = call_limited(_compile, 40, 8)
    except ImplTimeout:
        rec["raised"] = "TIMEOUT"
        return rec
    except Exception as ex:
        rec["raised"] = type(ex).__name__
        rec["site"] = _site(ex)
        rec["detail"] = str(ex)[:300]
        return rec
    try:
        rec["declared_exc"] = "none"
        rec["declared"] = sorted(C.resulting_problem_kind(kind, ckind).features)
    except Exception as ex:
        rec["declared_exc"] = type(ex).__name__ + "@" + _site(ex)
    q = res.problem
    try:
        rec["qkind"] = sorted(q.kind.features)
    except Exception as ex:
        rec["qkind_exc"] = type(ex).__name__
    try:
        Q = upj.project(q)
    except Exception as ex:
        rec["raised"] = "PROJECT:" + type(ex).__name__
        rec["detail"] = str(ex)[:300]
        return rec
    rec["Q"] = Q
    rec["qkeys"] = upj.keys_of(Q)
    rec["has_back_conversion"] = res.plan_back_conversion is not None
    rec["has_map_back"] = res.map_back_action_instance is not None
    rec["qnames"] = {
        "actions": [a.name for a in q.actions],
        "fluents": [f.name for f in q.fluents],
        "objects": [o.name for o in q.all_objects],
        "types": [t.name for t in q.user_types],
    }
    # the map-back table, from the real map_back_action_instance on every ground action of Q
    try:
        with time_limit(60):
            for g in ground_actions(Q):
                qa = q.action(g["a"])
                ai = ActionInstance(qa, simobs._params(q, qa, g["args"]))
                b = res.map_back_action_instance(ai) if res.map_back_action_instance is not None else None
                if b is None:
                    rec["back"].append({"qa": g["a"], "qargs": g["args"], "pa": "", "pargs": []})
                else:
                    rec["back"].append({"qa": g["a"], "qargs": g["args"], "pa": b.action.name,
                                        "pargs": [upj.p_const(x) for x in b.actual_parameters]})
    except ImplTimeout:
        rec["raised"] = "TIMEOUT-mapback"
    except Exception as ex:
        rec["raised"] = "MAPBACK:" + type(ex).__name__
        rec["site"] = _site(ex)
        rec["detail"] = str(ex)[:300]
    return rec


def compile_pipeline(cid, P, cnames):
    """factory-selected pipeline over the compilation kinds of `cnames` (C09, second sentence)"""
    import unified_planning as up
    from unified_planning.engines.mixins.compiler import CompilationKind

    rec = {"cid": cid, "comp": "+".join(cnames), "P": P, "Q": None, "pkeys": upj.keys_of(P), "qkeys": [], "back": [],
           "skip": "", "raised": "none", "site": "", "detail": "", "declared": [], "qkind": [], "pkind": [],
           "has_back_conversion": False, "pipeline": True, "declared_exc": "none", "stage_rejected": False,
           "qnames": {"actions": [], "fluents": [], "objects": [], "types": []}}
    try:
        with time_limit(20):
            problem = upj.build(P)
        kinds = [getattr(CompilationKind, COMPILERS[c][2]) for c in cnames]
        env = problem.environment
        with time_limit(60):
            try:
                comp = env.factory.Compiler(problem_kind=problem.kind, compilation_kinds=kinds)
            except up.exceptions.UPNoSuitableEngineAvailableException:
                rec["skip"] = "no-pipeline"
                return rec
    except ImplTimeout:
        rec["skip"] = "timeout"
        return rec
    except Exception as ex:
        rec["skip"] = "build:" + type(ex).__name__
        return rec
    try:
        def _run():
            with comp:
                return comp.compile(problem)

        res = call_limited(_run, 60, 6)
        rec["stages"] = comp.name
        q = res.problem
        rec["qkind"] = sorted(q.kind.features)
        rec["has_back_conversion"] = res.plan_back_conversion is not None
    except ImplTimeout:
        rec["raised"] = "TIMEOUT"
    except Exception as ex:
        rec["raised"] = type(ex).__name__
        rec["site"] = _site(ex)
        rec["detail"] = str(ex)[:300]
        rec["stage_rejected"] = "cannot handle this kind of problem" in str(ex)
    return rec


def goal_directed(P, seed, L=3):
    """Corpus generator only (no verdict depends on it): replace P's goals by 1-2 ground literals that a random
    walk of at most L steps of the real simulator made true and that do not hold initially, so that P has a short
    valid plan whose success depends on the effects along it.  Any failure leaves P unchanged."""
    import copy

    import warnings

    rng = random.Random(seed)
    try:
        with time_limit(30), warnings.catch_warnings():
            warnings.simplefilter("ignore")
            from unified_planning.engines.sequential_simulator import UPSequentialSimulator

            problem = upj.build(P)
            sim = UPSequentialSimulator(problem, error_on_failed_checks=False)
            s0 = sim.get_initial_state()
            s = s0
            for _ in range(rng.randint(1, L)):
                acts = list(sim.get_applicable_actions(s))
                if not acts:
                    break
                a, ps = rng.choice(acts)
                s2 = sim.apply(s, a, ps)
                if s2 is None:
                    break
                s = s2
            changed = []
            for fe, v0 in problem.initial_values.items():
                v1 = s.get_value(fe)
                if v1 != v0 and fe.type.is_bool_type():
                    changed.append(upj.p_expr(fe) if v1.bool_constant_value() else upj.E("not", [upj.p_expr(fe)]))
                elif v1 != v0 and "EQUALITIES" in str(problem.kind):
                    changed.append(upj.E("eq", [upj.p_expr(fe), upj.p_expr(v1)]))
            if not changed:
                return P
            rng.shuffle(changed)
            # prefer literals on fluents that some CONDITIONAL effect writes: whether they hold depends on the
            # conditions, which is where the compilers' case analysis lives
            ctargets = {(e if a["kind"] == "inst" else e["e"])["f"]["name"] for a in P["actions"] for e in a["effects"]
                        if (e if a["kind"] == "inst" else e["e"])["c"] != upj.TRUE_E}

            def lit_fluent(l):
                x = l["args"][0] if l["op"] in ("not", "eq") else l
                return x["name"]

            changed.sort(key=lambda l: lit_fluent(l) not in ctargets)
            Q = copy.deepcopy(P)
            Q["goals"] = changed[: rng.randint(1, 2)]
            upj.build(Q)  # the variant must still be a well-formed problem
            return Q
    except (ImplTimeout, Exception):
        return P


def require_coverage(recs):
    """A run in which (almost) nothing was compiled -- e.g. every build timing out on an overloaded machine --
    must not pass as "ok": fewer than 20 % of the jobs carried out is a machinery failure."""
    from .common import MachineryError

    done = sum(1 for r in recs if not r["skip"])
    if done * 5 < len(recs):
        raise MachineryError("only %d of %d compilations were carried out: %s" % (done, len(recs), sorted({r["skip"] for r in recs})))


def worker(job):
    cid, P, cname, fresh = job
    gd = fresh == "goal-directed"
    reuse = fresh == "reuse"
    if reuse:
        fresh = False
    if gd:
        P = goal_directed(P, cid)
        fresh = False
    try:
        if isinstance(cname, (list, tuple)):
            return compile_pipeline(cid, P, list(cname))
        r = compile_one(cid, P, cname, fresh, reuse)
        r.setdefault("pipeline", False)
        r["gd"] = gd
        r.setdefault("stage_rejected", False)
        r.setdefault("declared_exc", "none")
        r.setdefault("qnames", {"actions": [], "fluents": [], "objects": [], "types": []})
        return r
    except Exception as ex:
        return {"cid": cid, "comp": cname, "P": P, "Q": None, "skip": "HARNESS:" + type(ex).__name__,
                "detail": traceback.format_exc()[-1500:], "raised": "none", "back": [], "pkeys": [], "qkeys": []}


# ----------------------------------------------------------------------------------------
# deterministic syntactic features of the ORIGINAL problem, used in known-finding signatures
# ----------------------------------------------------------------------------------------
def _walk(e):
    yield e
    for a in e.get("args", []):
        yield from _walk(a)


def _exprs(P):
    for a in P["actions"]:
        for c in a["pre"]:
            yield c
        for e in a["effects"]:
            ef = e if a["kind"] == "inst" else e["e"]
            yield ef["c"]
            yield ef["v"]
        for c in a.get("conds", []):
            yield c["c"]
    for g in P["goals"]:
        yield g
    for g in P["invariants"]:
        yield g
    for g in P.get("traj", []):
        yield g


def problem_features(P):
    fs = set()
    ftype = {f["name"]: f["type"]["k"] for f in P["fluents"]}
    for a in P["actions"]:
        effs = [e if a["kind"] == "inst" else e["e"] for e in a["effects"]]
        bassign = [e["f"]["name"] for e in effs if e["kind"] == "assign" and ftype[e["f"]["name"]] == "bool"]
        if len(bassign) != len(set(bassign)):
            fs.add("aad")  # several assignments to one Boolean fluent in one action (add-after-delete)
        if any(e["kind"] == "assign" and ftype[e["f"]["name"]] == "bool" and e["v"]["op"] != "const" for e in effs):
            fs.add("boolexprassign")  # a Boolean fluent is assigned a non-constant value
        oassign = [e["f"]["name"] for e in effs if e["kind"] == "assign" and ftype[e["f"]["name"]] == "user"]
        if len(oassign) != len(set(oassign)):
            fs.add("objmultiassign")  # several assignments to one object-valued fluent (possibly the same ground fluent) in one action
        nassign = [e["f"]["name"] for e in effs if e["kind"] == "assign" and ftype[e["f"]["name"]] != "bool" and e["c"]["op"] != "const"]
        if len(nassign) != len(set(nassign)):
            fs.add("multicondassign")
        for e in effs:
            if e["kind"] != "assign" and any(n["op"] in ("or", "implies", "iff", "exists") or
                                             (n["op"] == "not" and n["args"][0]["op"] in ("and", "or", "not", "implies", "iff", "exists", "forall"))
                                             for n in _walk(e["c"])):
                fs.add("disjcondinc")  # a conditional increase/decrease whose condition is (or normalises to) a disjunction
    for e in _exprs(P):
        for n in _walk(e):
            if n["op"] in ("eq", "le", "lt") and all(x["op"] in ("const", "obj") for x in n["args"]):
                fs.add("constatom")
            if n["op"] == "const" and n["v"]["k"] == "b" and n is not e:
                fs.add("constatom")
    return sorted(fs)


def disjunction_sites(Q):
    """Where the compiled problem Q still has an Or / Implies node: 'quantified' (under Exists/Forall),
    'value' (in an assigned value), 'cond' (anywhere else in a condition, goal or constraint)."""
    sites = set()

    def visit(e, where):
        if e["op"] in ("or", "implies"):
            sites.add(where)
        w = "quantified" if e["op"] in ("exists", "forall") else where
        for a in e.get("args", []):
            visit(a, w)

    def eff(ef):
        visit(ef["c"], "cond")
        visit(ef["v"], "value")

    for a in Q["actions"]:
        for c in a["pre"]:
            visit(c, "cond")
        for e in a["effects"]:
            eff(e if a["kind"] == "inst" else e["e"])
        for c in a.get("conds", []):
            visit(c["c"], "cond")
    for k in ("goals", "invariants", "traj"):
        for g_ in Q.get(k, []):
            visit(g_, "cond")
    for tg_ in Q.get("timed_goals", []):
        visit(tg_["g"], "cond")
    for te in Q.get("timed_effects", []):
        eff(te["e"])
    return sorted(sites)


def quantified_connective(P):
    """The input problem has a quantifier whose body contains a Boolean connective (the one place where
    DisjunctiveConditionsRemover is known to leave a disjunction: Dnf treats a quantifier as an atom)."""
    def has_conn(e):
        return e["op"] in ("and", "or", "not", "implies", "iff") or any(has_conn(a) for a in e.get("args", []))

    def visit(e):
        if e["op"] in ("exists", "forall") and any(has_conn(a) for a in e["args"]):
            return True
        return any(visit(a) for a in e.get("args", []))

    es = list(_exprs(P)) + [t["g"] for t in P.get("timed_goals", [])]
    for te in P.get("timed_effects", []):
        es += [te["e"]["c"], te["e"]["v"]]
    return any(visit(e) for e in es)


RELEVANT = {"ncrm": ["aad"], "dcrm": ["constatom", "disjcondinc"], "cerm": ["multicondassign"], "utfrm": ["objmultiassign"], "tcrm": ["boolexprassign"]}


def signature(comp, clause, P):
    fs = [f for f in problem_features(P) if f in RELEVANT.get(comp, [])]
    return "%s|%s%s" % (comp, clause, ("|" + ",".join(fs)) if fs else "")
