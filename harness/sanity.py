"""setup step: every specification module must parse (tla-sany)."""
import os, sys, subprocess
from concurrent.futures import ThreadPoolExecutor
from . import tlc

def main():
    mods = sorted(f[:-4] for f in os.listdir(tlc.SPEC_DIR) if f.endswith(".tla"))
    bad = []
    with ThreadPoolExecutor(8) as ex:
        for m, (ok, out) in zip(mods, ex.map(tlc.sany, mods)):
            if not ok:
                bad.append(m)
                print(out[-1500:])
    print("sany: %d modules parsed, %d failed %s" % (len(mods), len(bad), bad))
    # a module that does not parse makes the checks that use it fail with exit 2 (machinery failure);
    # setup itself only fails when nothing parses (broken tool chain)
    return 1 if bad and len(bad) == len(mods) else 0

if __name__ == "__main__":
    sys.exit(main())
