"""Shared check machinery: run context, violations, known findings, evidence, exit codes.

Contract (MANIFEST.json):  ./check CNN [--tier quick|thorough]
  exit 0  property held on everything explored (listed known findings are printed as
          "KNOWN-FINDING: property=CNN <what fails>")
  exit 1  + "VIOLATION property=CNN replay=<path>" for every violation whose signature
          is not listed in known_findings.json
  exit 2  machinery failure (TLC error, vacuous run, schema error) -- never a verdict.
"""
import fnmatch
import hashlib
import json
import os
import random
import shutil
import sys
import time
import traceback

ROOT = os.path.dirname(os.path.dirname(os.path.abspath(__file__)))
KNOWN = os.path.join(ROOT, "known_findings.json")


class MachineryError(Exception):
    pass


class Violation:
    """One disagreement between the implementation and the specification.

    sig     deterministic signature: '<clause>|<feature>|...' (property id is implicit)
    what    one-line human description
    data    JSON-serialisable replay data (input, call sequence, observed, specified)
    """

    def __init__(self, sig, what, data):
        self.sig = sig
        self.what = what
        self.data = data


class Ctx:
    def __init__(self, pid, tier, seed):
        self.pid = pid
        self.tier = tier
        self.seed = seed
        self.rng = random.Random("%s-%s" % (pid, seed))
        self.work = os.path.join(ROOT, ".work", "%s-%d" % (pid, os.getpid()))
        shutil.rmtree(self.work, ignore_errors=True)
        os.makedirs(self.work)
        self.t0 = time.time()
        self.violations = []
        self.cov = {
            "states": 0,
            "transitions": 0,
            "traces_validated_against_impl": 0,
            "evaluations": 0,
            "distinct_nontrivial": 0,
            "samples": [],
            "rule": "",
            "exhaustive": False,
            "tlc_runs": [],
            "unspecified": 0,
        }
        self.assumptions = []
        self.level = "model_checking"
        self.notes = {}

    @property
    def quick(self):
        return self.tier == "quick"

    def sub(self, name):
        d = os.path.join(self.work, name)
        os.makedirs(d, exist_ok=True)
        return d

    def add_tlc(self, label, res):
        """Account a TLC run in the evidence."""
        self.cov["states"] += res.distinct
        self.cov["transitions"] += res.generated
        self.cov["tlc_runs"].append(
            {"label": label, "generated": res.generated, "distinct": res.distinct, "wall_s": round(res.wall, 2)}
        )

    def violation(self, sig, what, data):
        self.violations.append(Violation(sig, what, data))

    def sample(self, x, cap=4):
        if len(self.cov["samples"]) < cap:
            self.cov["samples"].append(x)


def load_known():
    out = {"known": [], "fixed": []}
    if os.path.exists(KNOWN):
        with open(KNOWN) as fh:
            out = json.load(fh)
    # per-property fragments (development convenience; consolidated into known_findings.json)
    d = os.path.join(ROOT, "known_findings.d")
    if os.path.isdir(d):
        for f in sorted(os.listdir(d)):
            if f.endswith(".json"):
                with open(os.path.join(d, f)) as fh:
                    frag = json.load(fh)
                out["known"] += frag.get("known", [])
                out["fixed"] += frag.get("fixed", [])
    return out


def match_known(pid, sig, known):
    for k in known["known"]:
        if k["property"] != pid:
            continue
        if k["signature"] == sig or fnmatch.fnmatchcase(sig, k["signature"]):
            return k
    return None


def finish(ctx):
    """Print verdict lines, write evidence, return exit code."""
    known = load_known()
    new = []
    seen_known = {}
    for v in ctx.violations:
        k = match_known(ctx.pid, v.sig, known)
        if k is None:
            new.append(v)
        else:
            seen_known.setdefault(k["signature"], [k, 0])
            seen_known[k["signature"]][1] += 1
    for sig, (k, n) in sorted(seen_known.items()):
        print("KNOWN-FINDING: property=%s %s [signature %s, %d occurrence(s) this run]" % (ctx.pid, k["what"], sig, n))
    rdir = os.path.join(ROOT, "replay", ctx.pid)
    reported = {}
    for v in new:
        if v.sig in reported:
            reported[v.sig][1] += 1
            continue
        os.makedirs(rdir, exist_ok=True)
        h = hashlib.sha1((v.sig + json.dumps(v.data, sort_keys=True, default=str)).encode()).hexdigest()[:10]
        path = os.path.join(rdir, "%s.json" % h)
        with open(path, "w") as fh:
            json.dump({"property": ctx.pid, "signature": v.sig, "what": v.what, "data": v.data}, fh, indent=1, default=str)
        reported[v.sig] = [path, 1, v]
    for sig, (path, n, v) in sorted(reported.items()):
        print("VIOLATION property=%s replay=%s" % (ctx.pid, path))
        print("  signature: %s (%d occurrence(s))" % (sig, n))
        print("  what: %s" % v.what)
    cov = dict(ctx.cov)
    cov["known_findings_seen"] = {s: n for s, (k, n) in seen_known.items()}
    cov["new_violation_signatures"] = sorted(reported)
    if not cov["samples"]:
        cov["samples"] = ["(no sample recorded)"]
    cov["states"] = max(cov["states"], 0)
    ev = {
        "property_id": ctx.pid,
        "tier": ctx.tier,
        "seed": ctx.seed,
        "level": ctx.level,
        "coverage": cov,
        "assumptions": ctx.assumptions,
        "wall_s": round(time.time() - ctx.t0, 2),
        "violations": len(new),
    }
    # evidence/ describes runs against /repo itself; a run against a scratch tree (VERIF_REPO, used to try the
    # checks on seeded changes) leaves its record next to its other scratch files
    evdir = os.path.join(ROOT, ".work", "evidence-scratch") if os.environ.get("VERIF_REPO") else os.path.join(ROOT, "evidence")
    os.makedirs(evdir, exist_ok=True)
    with open(os.path.join(evdir, ctx.pid + ".json"), "w") as fh:
        json.dump(ev, fh, indent=1, default=str)
    shutil.rmtree(ctx.work, ignore_errors=True)
    print(
        "%s %s tier=%s seed=%d: %d TLC states, %d transitions, %d traces/cases bound to the implementation, "
        "%d evaluations (%d non-trivial), %d unspecified, %d new violation(s), %d known, %.1fs"
        % (
            ctx.pid,
            "FAIL" if new else "ok",
            ctx.tier,
            ctx.seed,
            cov["states"],
            cov["transitions"],
            cov["traces_validated_against_impl"],
            cov["evaluations"],
            cov["distinct_nontrivial"],
            cov["unspecified"],
            len(reported),
            len(seen_known),
            time.time() - ctx.t0,
        )
    )
    return 1 if new else 0


def main(argv):
    import argparse
    import importlib

    ap = argparse.ArgumentParser()
    ap.add_argument("pid")
    ap.add_argument("--tier", default=os.environ.get("VERIF_TIER", "quick"))
    ap.add_argument("--replay", default=None)
    ap.add_argument("--selftest", action="store_true")
    a = ap.parse_args(argv)
    seed = int(os.environ.get("VERIF_SEED", "0") or 0)
    tier = a.tier if a.tier in ("quick", "thorough") else "quick"
    ctx = Ctx(a.pid, tier, seed)
    try:
        mod = importlib.import_module("harness.drivers." + a.pid.lower())
        if a.replay:
            with open(a.replay) as fh:
                rc = mod.replay(ctx, json.load(fh))
            shutil.rmtree(ctx.work, ignore_errors=True)
            return rc
        if a.selftest:
            rc = mod.selftest(ctx)
            shutil.rmtree(ctx.work, ignore_errors=True)
            return rc
        warmup()
        mod.run(ctx)
        if ctx.cov["traces_validated_against_impl"] == 0 and ctx.cov["evaluations"] == 0:
            raise MachineryError("vacuous run: nothing was bound to the implementation")
        return finish(ctx)
    except Exception as ex:  # machinery failure, never a verdict
        traceback.print_exc()
        print("MACHINERY-FAILURE property=%s %s: %s" % (a.pid, type(ex).__name__, str(ex)[:2000]))
        keep = os.environ.get("VERIF_KEEP")
        if not keep:
            shutil.rmtree(ctx.work, ignore_errors=True)
        return 2


# ----------------------------------------------------------------------------------------
# guards around calls into the implementation
# ----------------------------------------------------------------------------------------
class ImplTimeout(BaseException):
    """A call into unified_planning did not return within its time limit.

    Derived from BaseException so that `except Exception` clauses inside the library
    cannot swallow it."""


class time_limit:
    """with time_limit(5): call()   -- raises ImplTimeout (main thread only)."""

    def __init__(self, seconds):
        # VERIF_TIME_FACTOR stretches every limit (reproducing a run on a busy machine)
        self.seconds = seconds * float(os.environ.get("VERIF_TIME_FACTOR", "1") or 1)

    def _handler(self, signum, frame):
        raise ImplTimeout("no return within %ss" % self.seconds)

    def __enter__(self):
        import signal

        self._old = signal.signal(signal.SIGALRM, self._handler)
        signal.setitimer(signal.ITIMER_REAL, self.seconds)
        return self

    def __exit__(self, *a):
        import signal

        signal.setitimer(signal.ITIMER_REAL, 0)
        signal.signal(signal.SIGALRM, self._old)
        return False


def call_limited(fn, limit=20, factor=15):
    """fn() under a time limit; a time-out is retried once with a much longer limit, so that
    only a reproducible non-termination (not a busy machine) is reported as ImplTimeout."""
    try:
        with time_limit(limit):
            return fn()
    except ImplTimeout:
        with time_limit(limit * factor):
            return fn()


def warmup():
    """Import the library and create the global Environment (its Factory imports every engine module) in the
    parent process, outside any time limit, before worker processes are forked: a time-out firing in the
    middle of these lazy imports would leave half-imported modules behind in that worker."""
    try:
        import unified_planning as up
        from unified_planning import shortcuts  # noqa: F401

        env = up.environment.get_environment()
        env.factory.engines  # noqa: B018
        import unified_planning.engines.compilers  # noqa: F401
        import unified_planning.engines.plan_validator  # noqa: F401
        import unified_planning.engines.sequential_simulator  # noqa: F401
    except Exception:
        pass
