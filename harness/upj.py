"""UPJ: the abstract JSON description of unified-planning models shared by all specifications.

project(up_object) -> UPJ   and   build(UPJ) -> up_object (public API only).
This is the projection function of the framework and part of its trusted base: it contains
no semantics (no evaluation, no simplification) -- it only transcribes structure.
"""
from fractions import Fraction

import unified_planning as up
from unified_planning.model import (
    Fluent,
    InstantaneousAction,
    DurativeAction,
    Object,
    Problem,
    Variable,
    Parameter,
)
from unified_planning.model.operators import OperatorKind as OK
from unified_planning.shortcuts import BoolType, IntType, RealType, UserType

NONE = {"k": "none"}
UNDEF = {"k": "u"}


# ----------------------------------------------------------------------------------------
# values / types
# ----------------------------------------------------------------------------------------
def NV(x):
    f = Fraction(x)
    return {"k": "n", "n": f.numerator, "d": f.denominator}


def BV(b):
    return {"k": "b", "b": bool(b)}


def OV(name):
    return {"k": "o", "o": name}


def val_to_fraction(v):
    return Fraction(v["n"], v["d"])


def p_bound(b):
    return NONE if b is None else NV(b)


def p_type(t):
    if t.is_bool_type():
        return {"k": "bool"}
    if t.is_int_type():
        return {"k": "int", "lo": p_bound(t.lower_bound), "hi": p_bound(t.upper_bound)}
    if t.is_real_type():
        return {"k": "real", "lo": p_bound(t.lower_bound), "hi": p_bound(t.upper_bound)}
    if t.is_user_type():
        return {"k": "user", "name": t.name}
    raise ValueError("unsupported type %r" % (t,))


def b_type(t, env, types=None):
    tm = env.type_manager
    if t["k"] == "bool":
        return tm.BoolType()
    if t["k"] in ("int", "real"):
        lo = None if t["lo"]["k"] == "none" else val_to_fraction(t["lo"])
        hi = None if t["hi"]["k"] == "none" else val_to_fraction(t["hi"])
        if t["k"] == "int":
            return tm.IntType(None if lo is None else int(lo), None if hi is None else int(hi))
        return tm.RealType(lo, hi)
    if t["k"] == "user":
        return types[t["name"]]
    raise ValueError(t)


# ----------------------------------------------------------------------------------------
# expressions
# ----------------------------------------------------------------------------------------
_OPS = {
    OK.AND: "and",
    OK.OR: "or",
    OK.NOT: "not",
    OK.IMPLIES: "implies",
    OK.IFF: "iff",
    OK.PLUS: "plus",
    OK.MINUS: "minus",
    OK.TIMES: "times",
    OK.DIV: "div",
    OK.LE: "le",
    OK.LT: "lt",
    OK.EQUALS: "eq",
    OK.ALWAYS: "always",
    OK.SOMETIME: "sometime",
    OK.SOMETIME_BEFORE: "sbefore",
    OK.SOMETIME_AFTER: "safter",
    OK.AT_MOST_ONCE: "amo",
}


def E(op, args=(), name="", v=None, vars_=()):
    return {"op": op, "args": list(args), "name": name, "v": v if v is not None else UNDEF, "vars": list(vars_)}


def p_const(e):
    if e.is_bool_constant():
        return BV(e.bool_constant_value())
    if e.is_int_constant() or e.is_real_constant():
        return NV(e.constant_value())
    if e.is_object_exp():
        return OV(e.object().name)
    raise ValueError("not a constant: %s" % e)


def p_expr(e):
    nt = e.node_type
    if nt in (OK.BOOL_CONSTANT, OK.INT_CONSTANT, OK.REAL_CONSTANT):
        return E("const", v=p_const(e))
    if nt == OK.OBJECT_EXP:
        return E("obj", name=e.object().name)
    if nt == OK.PARAM_EXP:
        return E("param", name=e.parameter().name)
    if nt == OK.VARIABLE_EXP:
        return E("var", name=e.variable().name)
    if nt == OK.FLUENT_EXP:
        return E("fluent", [p_expr(a) for a in e.args], name=e.fluent().name)
    if nt == OK.INTERPRETED_FUNCTION_EXP:
        return E("ifun", [p_expr(a) for a in e.args], name=e.interpreted_function().name)
    if nt in (OK.EXISTS, OK.FORALL):
        vs = [{"name": v.name, "type": p_type(v.type)} for v in e.variables()]
        return E("exists" if nt == OK.EXISTS else "forall", [p_expr(e.arg(0))], vars_=vs)
    if nt == OK.DOT:
        return E("dot", [p_expr(e.arg(0))], name=e.agent())
    if nt in _OPS:
        return E(_OPS[nt], [p_expr(a) for a in e.args])
    raise ValueError("unsupported node %s (%s)" % (e, nt))


class Scope:
    """Name resolution while building expressions."""

    def __init__(self, problem, types, fluents, objects, params=None, variables=None, ifuns=None):
        self.problem = problem
        self.env = problem.environment
        self.em = self.env.expression_manager
        self.types = types
        self.fluents = fluents
        self.objects = objects
        self.params = params or {}
        self.variables = variables or {}
        self.ifuns = ifuns or {}

    def with_params(self, params):
        return Scope(self.problem, self.types, self.fluents, self.objects, params, dict(self.variables), self.ifuns)

    def with_vars(self, vs):
        d = dict(self.variables)
        d.update(vs)
        return Scope(self.problem, self.types, self.fluents, self.objects, self.params, d, self.ifuns)


def b_val(v, sc):
    em = sc.em
    if v["k"] == "b":
        return em.Bool(v["b"])
    if v["k"] == "n":
        if v["d"] == 1:
            return em.Int(v["n"])
        return em.Real(Fraction(v["n"], v["d"]))
    if v["k"] == "o":
        return em.ObjectExp(sc.objects[v["o"]])
    raise ValueError("cannot build value %r" % (v,))


def b_expr(e, sc):
    em = sc.em
    op = e["op"]
    if op == "const":
        return b_val(e["v"], sc)
    if op == "obj":
        return em.ObjectExp(sc.objects[e["name"]])
    if op == "param":
        return em.ParameterExp(sc.params[e["name"]])
    if op == "var":
        return em.VariableExp(sc.variables[e["name"]])
    if op == "fluent":
        return em.FluentExp(sc.fluents[e["name"]], tuple(b_expr(a, sc) for a in e["args"]))
    if op == "ifun":
        return em.InterpretedFunctionExp(sc.ifuns[e["name"]], tuple(b_expr(a, sc) for a in e["args"]))
    if op in ("exists", "forall"):
        vs = {v["name"]: Variable(v["name"], b_type(v["type"], sc.env, sc.types), sc.env) for v in e["vars"]}
        body = b_expr(e["args"][0], sc.with_vars(vs))
        vl = [vs[v["name"]] for v in e["vars"]]
        return em.Exists(body, *vl) if op == "exists" else em.Forall(body, *vl)
    a = [b_expr(x, sc) for x in e["args"]]
    if op == "and":
        return em.And(*a) if len(a) != 1 else em.And(a[0])
    if op == "or":
        return em.Or(*a) if len(a) != 1 else em.Or(a[0])
    if op == "not":
        return em.Not(a[0])
    if op == "implies":
        return em.Implies(a[0], a[1])
    if op == "iff":
        return em.Iff(a[0], a[1])
    if op == "eq":
        return em.Equals(a[0], a[1])
    if op == "le":
        return em.LE(a[0], a[1])
    if op == "lt":
        return em.LT(a[0], a[1])
    if op == "plus":
        return em.Plus(*a)
    if op == "times":
        return em.Times(*a)
    if op == "minus":
        return em.Minus(a[0], a[1])
    if op == "div":
        return em.Div(a[0], a[1])
    if op == "always":
        return em.Always(a[0])
    if op == "sometime":
        return em.Sometime(a[0])
    if op == "amo":
        return em.AtMostOnce(a[0])
    if op == "sbefore":
        return em.SometimeBefore(a[0], a[1])
    if op == "safter":
        return em.SometimeAfter(a[0], a[1])
    raise ValueError("cannot build op %r" % op)


TRUE_E = E("const", v=BV(True))


# ----------------------------------------------------------------------------------------
# effects, actions
# ----------------------------------------------------------------------------------------
def p_effect(eff):
    if eff.is_assignment():
        kind = "assign"
    elif eff.is_increase():
        kind = "inc"
    elif eff.is_decrease():
        kind = "dec"
    else:
        raise ValueError("unsupported effect kind %s" % eff.kind)
    fe = eff.fluent
    return {
        "kind": kind,
        "f": {"name": fe.fluent().name, "args": [p_expr(a) for a in fe.args]},
        "v": p_expr(eff.value),
        "c": p_expr(eff.condition),
        "forall": [{"name": v.name, "type": p_type(v.type)} for v in eff.forall],
    }


def b_effect(target, ef, sc, timing=None):
    """Add effect `ef` to `target` (action or problem; `timing` for durative / timed effects)."""
    vs = {v["name"]: Variable(v["name"], b_type(v["type"], sc.env, sc.types), sc.env) for v in ef["forall"]}
    sc2 = sc.with_vars(vs) if vs else sc
    fl = sc2.em.FluentExp(sc2.fluents[ef["f"]["name"]], tuple(b_expr(a, sc2) for a in ef["f"]["args"]))
    val = b_expr(ef["v"], sc2)
    cond = b_expr(ef["c"], sc2)
    fa = tuple(vs[v["name"]] for v in ef["forall"])
    args = (fl, val, cond, fa)
    if timing is not None:
        args = (timing,) + args
    if ef["kind"] == "assign":
        if isinstance(target, Problem):
            target.add_timed_effect(*args)
        else:
            target.add_effect(*args)
    elif ef["kind"] == "inc":
        if isinstance(target, Problem):
            target.add_increase_effect(*args)
        else:
            target.add_increase_effect(*args)
    else:
        if isinstance(target, Problem):
            target.add_decrease_effect(*args)
        else:
            target.add_decrease_effect(*args)


def p_timing(t):
    tp = t.timepoint
    k = tp.kind.name  # START END GLOBAL_START GLOBAL_END
    return {"from": {"START": "start", "END": "end", "GLOBAL_START": "gstart", "GLOBAL_END": "gend"}[k], "delay": NV(t.delay)}


def b_timing(t):
    from unified_planning.model.timing import Timing, Timepoint, TimepointKind

    d = val_to_fraction(t["delay"])
    d = int(d) if d.denominator == 1 else d
    kind = {"start": TimepointKind.START, "end": TimepointKind.END, "gstart": TimepointKind.GLOBAL_START, "gend": TimepointKind.GLOBAL_END}[t["from"]]
    return Timing(d, Timepoint(kind))


def p_interval(iv):
    return {"lo": p_timing(iv.lower), "hi": p_timing(iv.upper), "lopen": iv.is_left_open(), "ropen": iv.is_right_open()}


def b_interval(iv):
    from unified_planning.model.timing import TimeInterval

    return TimeInterval(b_timing(iv["lo"]), b_timing(iv["hi"]), iv["lopen"], iv["ropen"])


def p_action(a):
    params = [{"name": p.name, "type": p_type(p.type)} for p in a.parameters]
    if isinstance(a, InstantaneousAction):
        return {
            "name": a.name,
            "kind": "inst",
            "params": params,
            "pre": [p_expr(c) for c in a.preconditions],
            "effects": [p_effect(e) for e in a.effects],
            "conds": [],
            "dur": NONE,
            "sim": a.simulated_effect is not None,
        }
    if isinstance(a, DurativeAction):
        d = a.duration
        conds = []
        for iv, cl in a.conditions.items():
            for c in cl:
                conds.append({"iv": p_interval(iv), "c": p_expr(c)})
        effs = []
        for t, el in a.effects.items():
            for e in el:
                effs.append({"t": p_timing(t), "e": p_effect(e)})
        return {
            "name": a.name,
            "kind": "dur",
            "params": params,
            "pre": [],
            "effects": effs,
            "conds": conds,
            "dur": {"lo": p_expr(d.lower), "hi": p_expr(d.upper), "lopen": d.is_left_open(), "ropen": d.is_right_open()},
            "sim": len(a.simulated_effects) > 0,
        }
    raise ValueError("unsupported action class %s" % type(a).__name__)


# ----------------------------------------------------------------------------------------
# problems
# ----------------------------------------------------------------------------------------
def p_metric(m):
    from unified_planning.model import metrics as M

    base = {"kind": "none", "costs": [], "default": E("none"), "expr": E("none"), "goals": []}
    if isinstance(m, M.MinimizeActionCosts):
        base["kind"] = "costs"
        for a, c in m.costs.items():
            if c is not None:
                base["costs"].append({"a": a.name, "c": p_expr(c)})
        if m.default is not None:
            base["default"] = p_expr(m.default)
    elif isinstance(m, M.MinimizeSequentialPlanLength):
        base["kind"] = "length"
    elif isinstance(m, M.MinimizeMakespan):
        base["kind"] = "makespan"
    elif isinstance(m, M.MinimizeExpressionOnFinalState):
        base["kind"] = "minfinal"
        base["expr"] = p_expr(m.expression)
    elif isinstance(m, M.MaximizeExpressionOnFinalState):
        base["kind"] = "maxfinal"
        base["expr"] = p_expr(m.expression)
    elif isinstance(m, M.Oversubscription):
        base["kind"] = "oversub"
        for g, w in m.goals.items():
            base["goals"].append({"g": p_expr(g), "w": NV(w)})
    else:
        raise ValueError("unsupported metric %s" % type(m).__name__)
    return base


def project(problem):
    """UP Problem -> UPJ (classical / numeric / temporal fragment)."""
    P = {"name": problem.name or ""}
    P["types"] = []
    for t in problem.user_types:
        P["types"].append({"name": t.name, "parent": t.father.name if t.father is not None else ""})
    P["objects"] = [{"name": o.name, "type": o.type.name} for o in problem.all_objects]
    fd = problem.fluents_defaults
    idf = problem.initial_defaults
    P["fluents"] = []
    for f in problem.fluents:
        if f in fd:
            dv = p_const(fd[f])
        elif f.type in idf:
            dv = p_const(idf[f.type])
        else:
            dv = UNDEF
        P["fluents"].append(
            {
                "name": f.name,
                "type": p_type(f.type),
                "sig": [{"name": p.name, "type": p_type(p.type)} for p in f.signature],
                "default": dv,
            }
        )
    P["init"] = []
    for fe, v in problem.explicit_initial_values.items():
        P["init"].append({"f": fe.fluent().name, "args": [p_const(a) for a in fe.args], "v": p_const(v)})
    P["actions"] = [p_action(a) for a in problem.actions]
    P["goals"] = [p_expr(g) for g in problem.goals]
    # state invariants are stored by UP as Always(...) trajectory constraints: split them
    P["invariants"] = [p_expr(inv) for inv in problem.state_invariants]
    P["traj"] = []
    for tc in problem.trajectory_constraints:
        if tc.is_always():
            continue
        if tc.is_bool_constant():
            # add_trajectory_constraint stores a simplified constraint: Always(false) / Sometime(false) become the
            # constant false.  Over a (non-empty) state sequence a constant constraint is the invariant with that value.
            P["invariants"].append(p_expr(tc))
            continue
        if tc.is_and():
            for a in tc.args:
                if not a.is_always():
                    P["traj"].append(p_expr(a))
        elif tc.is_forall():
            if not tc.arg(0).is_always():
                vs = [{"name": v.name, "type": p_type(v.type)} for v in tc.variables()]
                P["traj"].append(E("forall", [p_expr(tc.arg(0))], vars_=vs))
        else:
            P["traj"].append(p_expr(tc))
    P["timed_goals"] = []
    for iv, gl in problem.timed_goals.items():
        for g in gl:
            P["timed_goals"].append({"iv": p_interval(iv), "g": p_expr(g)})
    P["timed_effects"] = []
    for t, el in problem.timed_effects.items():
        for e in el:
            P["timed_effects"].append({"t": p_timing(t), "e": p_effect(e)})
    ms = problem.quality_metrics
    P["metric"] = p_metric(ms[0]) if ms else {"kind": "none", "costs": [], "default": E("none"), "expr": E("none"), "goals": []}
    P["nmetrics"] = len(ms)
    P["ifuns"] = [p_ifun(f) for f in _collect_ifuns(problem)]
    return P


IFUN_GRID = list(range(-2, 7))


def _collect_ifuns(problem):
    """interpreted functions occurring in the problem's expressions (in order of first occurrence)"""
    out = []

    def visit(e):
        if e.is_interpreted_function_exp() and e.interpreted_function() not in out:
            out.append(e.interpreted_function())
        for a in e.args:
            visit(a)

    for a in problem.actions:
        if isinstance(a, InstantaneousAction):
            for c in a.preconditions:
                visit(c)
            effs = a.effects
        else:
            for cl in a.conditions.values():
                for c in cl:
                    visit(c)
            effs = [e for el in a.effects.values() for e in el]
            visit(a.duration.lower)
            visit(a.duration.upper)
        for e in effs:
            visit(e.condition)
            visit(e.value)
            visit(e.fluent)
    for g in problem.goals:
        visit(g)
    for tc in problem.trajectory_constraints:
        visit(tc)
    return out


def _dom_of(t):
    if t.is_bool_type():
        return [True, False]
    if t.is_int_type():
        lo = t.lower_bound if t.lower_bound is not None else IFUN_GRID[0]
        hi = t.upper_bound if t.upper_bound is not None else IFUN_GRID[-1]
        return [x for x in range(int(lo), int(hi) + 1) if IFUN_GRID[0] <= x <= IFUN_GRID[-1]]
    raise ValueError("interpreted function parameter type without a finite grid: %r" % (t,))


def p_ifun(f):
    """tabulate an interpreted function on the finite grid of its signature (calls user code only)"""
    import itertools

    rows = []
    for t in itertools.product(*[_dom_of(p.type) for p in f.signature]):
        try:
            v = f.function(*t)
        except Exception:
            continue
        val = BV(v) if f.return_type.is_bool_type() else NV(Fraction(v))
        rows.append({"args": [BV(x) if isinstance(x, bool) else NV(x) for x in t], "v": val})
    return {"name": f.name, "sig": [{"name": p.name, "type": p_type(p.type)} for p in f.signature],
            "ret": p_type(f.return_type), "table": rows}


def b_ifun(f, env, types):
    from collections import OrderedDict
    from unified_planning.model import InterpretedFunction

    table = {}
    for r in f["table"]:
        key = tuple((a["b"] if a["k"] == "b" else Fraction(a["n"], a["d"])) for a in r["args"])
        v = r["v"]
        table[key] = v["b"] if v["k"] == "b" else (v["n"] if v["d"] == 1 else Fraction(v["n"], v["d"]))

    def fn(*args, _table=table, _name=f["name"]):
        key = tuple(a if isinstance(a, bool) else Fraction(a) for a in args)
        if key not in _table:
            # outside the tabulated grid the function is extended by clamping (the specification
            # treats untabulated arguments as unknown, i.e. unspecified)
            key = tuple(a if isinstance(a, bool) else Fraction(min(max(int(a), IFUN_GRID[0]), IFUN_GRID[-1])) for a in key)
        return _table[key]

    sig = OrderedDict((p["name"], b_type(p["type"], env, types)) for p in f["sig"])
    return InterpretedFunction(f["name"], b_type(f["ret"], env, types), sig, fn, env)


def build(P, env=None, name=None, problem_cls=None):
    """UPJ -> UP Problem, through the public model-building API only."""
    env = env or up.environment.get_environment()
    problem = (problem_cls or Problem)(name or P.get("name") or "p", env)
    tm = env.type_manager
    types = {}
    pending = list(P["types"])
    while pending:
        rest = []
        for t in pending:
            if t["parent"] == "":
                types[t["name"]] = tm.UserType(t["name"])
            elif t["parent"] in types:
                types[t["name"]] = tm.UserType(t["name"], types[t["parent"]])
            else:
                rest.append(t)
        if len(rest) == len(pending):
            raise ValueError("cyclic type hierarchy")
        pending = rest
    objects = {}
    for o in P["objects"]:
        ob = Object(o["name"], types[o["type"]], env)
        objects[o["name"]] = ob
        problem.add_object(ob)
    fluents = {}
    sc0 = Scope(problem, types, fluents, objects)
    for f in P["fluents"]:
        sig = [Parameter(p["name"], b_type(p["type"], env, types), env) for p in f["sig"]]
        fl = Fluent(f["name"], b_type(f["type"], env, types), sig, env)
        fluents[f["name"]] = fl
        if f["default"]["k"] == "u":
            problem.add_fluent(fl)
        else:
            problem.add_fluent(fl, default_initial_value=b_val(f["default"], sc0))
    ifuns = {f["name"]: b_ifun(f, env, types) for f in P.get("ifuns", [])}
    sc = Scope(problem, types, fluents, objects, ifuns=ifuns)
    for i in P["init"]:
        fe = sc.em.FluentExp(fluents[i["f"]], tuple(b_val(a, sc) for a in i["args"]))
        problem.set_initial_value(fe, b_val(i["v"], sc))
    for a in P["actions"]:
        problem.add_action(b_action(a, sc))
    for g in P["goals"]:
        problem.add_goal(b_expr(g, sc))
    for inv in P.get("invariants", []):
        x = b_expr(inv, sc)
        if P.get("inv_outside") and x.is_forall():
            # surface form only: Forall v. Always(body) instead of Always(Forall v. body) -- the same invariant
            # (Problem.state_invariants reads both forms), written the way a user may write it
            em = sc.em
            problem.add_trajectory_constraint(em.Forall(em.Always(x.arg(0)), *x.variables()))
        else:
            problem.add_state_invariant(x)
    for tc in P.get("traj", []):
        problem.add_trajectory_constraint(b_expr(tc, sc))
    for tg in P.get("timed_goals", []):
        problem.add_timed_goal(b_interval(tg["iv"]), b_expr(tg["g"], sc))
    for te in P.get("timed_effects", []):
        b_effect(problem, te["e"], sc, timing=b_timing(te["t"]))
    m = P.get("metric", {"kind": "none"})
    if m["kind"] != "none":
        problem.add_quality_metric(b_metric(m, problem, sc))
    return problem


def b_action(a, sc):
    env = sc.env
    from collections import OrderedDict

    params = OrderedDict((p["name"], b_type(p["type"], env, sc.types)) for p in a["params"])
    if a["kind"] in ("inst", "sense"):
        if a["kind"] == "sense":
            from unified_planning.model.contingent.sensing_action import SensingAction

            act = SensingAction(a["name"], params, env)
        else:
            act = InstantaneousAction(a["name"], params, env)
        sca = sc.with_params({p.name: p for p in act.parameters})
        for c in a["pre"]:
            act.add_precondition(b_expr(c, sca))
        for ef in a["effects"]:
            b_effect(act, ef, sca)
        for ob in a.get("observed", []):
            act.add_observed_fluent(b_expr(ob, sca))
        return act
    act = DurativeAction(a["name"], params, env)
    sca = sc.with_params({p.name: p for p in act.parameters})
    from unified_planning.model.timing import DurationInterval

    d = a["dur"]
    act.set_duration_constraint(DurationInterval(b_expr(d["lo"], sca), b_expr(d["hi"], sca), d["lopen"], d["ropen"]))
    for c in a["conds"]:
        act.add_condition(b_interval(c["iv"]), b_expr(c["c"], sca))
    for te in a["effects"]:
        b_effect(act, te["e"], sca, timing=b_timing(te["t"]))
    return act


def b_metric(m, problem, sc):
    from unified_planning.model import metrics as M

    if m["kind"] == "length":
        return M.MinimizeSequentialPlanLength(sc.env)
    if m["kind"] == "makespan":
        return M.MinimizeMakespan(sc.env)
    if m["kind"] == "minfinal":
        return M.MinimizeExpressionOnFinalState(b_expr(m["expr"], sc), sc.env)
    if m["kind"] == "maxfinal":
        return M.MaximizeExpressionOnFinalState(b_expr(m["expr"], sc), sc.env)
    if m["kind"] == "costs":
        costs = {}
        for c in m["costs"]:
            act = problem.action(c["a"])
            sca = sc.with_params({p.name: p for p in act.parameters})
            costs[act] = b_expr(c["c"], sca)
        default = None if m["default"]["op"] == "none" else b_expr(m["default"], sc)
        return M.MinimizeActionCosts(costs, default, sc.env)
    if m["kind"] == "oversub":
        goals = {}
        for g in m["goals"]:
            w = val_to_fraction(g["w"])
            goals[b_expr(g["g"], sc)] = int(w) if w.denominator == 1 else w
        return M.Oversubscription(goals, sc.env)
    raise ValueError(m["kind"])


# ----------------------------------------------------------------------------------------
# ground fluents (state keys), state vectors
# ----------------------------------------------------------------------------------------
def ancestors(P, t):
    out = [t]
    by = {x["name"]: x["parent"] for x in P["types"]}
    while by.get(out[-1], ""):
        out.append(by[out[-1]])
    return out


def objs_of(P, tname):
    return [o["name"] for o in P["objects"] if tname in ancestors(P, o["type"])]


def arg_keys_of_type(P, t):
    if t["k"] == "user":
        return objs_of(P, t["name"])
    if t["k"] == "bool":
        return ["true", "false"]
    if t["k"] == "int" and t["lo"]["k"] != "none" and t["hi"]["k"] != "none":
        return [str(n) for n in range(t["lo"]["n"], t["hi"]["n"] + 1)]
    raise ValueError("fluent parameter type without a finite domain: %r" % (t,))


def keys_of(P):
    """All ground fluents [name, [argkeys]] in a fixed order (structure only, no semantics)."""
    import itertools

    out = []
    for f in P["fluents"]:
        doms = [arg_keys_of_type(P, p["type"]) for p in f["sig"]]
        for t in itertools.product(*doms):
            out.append([f["name"], list(t)])
    return out


def arg_key(e):
    """key component of a constant FNode used as fluent argument"""
    if e.is_object_exp():
        return e.object().name
    if e.is_bool_constant():
        return "true" if e.bool_constant_value() else "false"
    return str(e.constant_value())


def state_vector(state, problem, keys):
    """Project a UP State onto the ground fluents `keys` (values or UNDEF)."""
    em = problem.environment.expression_manager
    out = []
    for name, args in keys:
        f = problem.fluent(name)
        fargs = []
        for p, a in zip(f.signature, args):
            if p.type.is_user_type():
                fargs.append(em.ObjectExp(problem.object(a)))
            elif p.type.is_bool_type():
                fargs.append(em.Bool(a == "true"))
            else:
                fargs.append(em.Int(int(a)))
        fe = em.FluentExp(f, tuple(fargs))
        try:
            v = state.get_value(fe)
        except Exception:
            out.append(UNDEF)
            continue
        out.append(p_const(v))
    return out
