"""G2: seeded random grammar of small planning problems, as UPJ values (DESIGN.md 2.3).

Problems are tiny on purpose (<= ~12 ground fluents, <= ~16 ground actions) so that TLC explores
all their reachable states.  Every choice comes from the `random.Random` given by the caller.
The grammar is well-typed by construction with respect to unified-planning's type checker.
"""
import itertools
from fractions import Fraction

from .upj import E, NV, BV, OV, UNDEF, NONE, TRUE_E, objs_of, ancestors, keys_of

DEFAULT_OPTS = dict(
    objfluents=True,  # object-valued fluents
    numeric=True,
    real=True,
    bounded=True,  # bounded int fluents
    quantifiers=True,
    disjunction=True,
    negation=True,
    implies=True,
    equality=True,
    conditional=True,  # conditional effects
    forall_eff=True,
    incdec=True,
    invariants=True,
    undefined=True,  # fluents without initial value
    hier=True,  # type hierarchy
    boolconst=True,  # literal true/false inside conditions
    fluent_assign=True,  # assignments whose value reads fluents
    bool_expr_assign=True,  # Boolean assignments of non-constant values
    max_actions=4,
    max_fluents=5,
    max_objects=3,
    adversarial_names=False,
    metric=None,  # None | "any"
    ifuns=False,  # interpreted functions (given as finite tables)
    traj=False,  # PDDL3 trajectory constraints (sometime, at-most-once, sometime-before/after)
    cond_prob=0.3,  # probability that an effect is conditional (when `conditional`)
    op_bias=None,  # {connective: extra weight} -- makes a compiler's own feature frequent in its corpus
    static_guards=0.0,  # probability that an action gets positive preconditions over STATIC Boolean fluents of its parameters
    inv_prob=0.3,  # probability that a problem has a state invariant (when `invariants`)
    inv_forall=0.3,  # probability that the invariant is universally quantified (half of them written Forall v. Always(...))
    incdec_plain_cond=0.0,  # probability that the condition of a conditional increase/decrease is a conjunction of literals
)


def C(v):
    return E("const", v=v)


def num(x):
    return C(NV(x))


class Gen:
    def __init__(self, rng, **opts):
        self.r = rng
        self.o = dict(DEFAULT_OPTS)
        self.o.update(opts)

    # ---- names ---------------------------------------------------------------------
    def names(self, kind, n):
        if not self.o["adversarial_names"]:
            return ["%s%d" % (kind, i) for i in range(n)]
        pool = {
            "o": ["a", "a_b", "b_c", "c", "A", "o_0", "b", "a_b_c", "x1", "Obj"],
            "f": ["f", "f_0", "on", "at", "F", "g_h", "val", "cnt", "p_q", "loc"],
            "a": ["move", "move_a", "mv", "act_0", "Move", "go_b_c", "go", "op", "act", "do_it"],
            "t": ["T", "t_0", "Loc", "thing", "sub_t"],
            "p": ["x", "y", "p_0", "x_y", "z"],
        }[kind]
        return self.r.sample(pool, n)

    # ---- problem --------------------------------------------------------------------
    def problem(self):
        r, o = self.r, self.o
        P = {"name": "g"}
        tn = self.names("t", 2)
        if o["hier"] and r.random() < 0.4:
            P["types"] = [{"name": tn[0], "parent": ""}, {"name": tn[1], "parent": tn[0]}]
        elif r.random() < 0.3:
            P["types"] = [{"name": tn[0], "parent": ""}, {"name": tn[1], "parent": ""}]
        else:
            P["types"] = [{"name": tn[0], "parent": ""}]
        nobj = r.randint(min(2, o["max_objects"]), o["max_objects"])
        on = self.names("o", nobj + 1)
        P["objects"] = []
        for i in range(nobj):
            P["objects"].append({"name": on[i], "type": r.choice(P["types"])["name"]})
        # every declared type gets at least one object (7.1-12)
        for t in P["types"]:
            if not objs_of(P, t["name"]):
                if len(P["objects"]) <= nobj:
                    P["objects"].append({"name": on[nobj], "type": t["name"]})
                else:
                    P["objects"][0]["type"] = t["name"]
        for t in P["types"]:
            if not objs_of(P, t["name"]):
                # give up on the second type
                P["types"] = [x for x in P["types"] if objs_of(P, x["name"])]
                for x in P["types"]:
                    if x["parent"] not in [y["name"] for y in P["types"]]:
                        x["parent"] = ""
                break
        self.P = P
        # most problems are fully defined; the others have a few fluents without a value
        self.p_undef = 0.0 if (not o["undefined"] or r.random() < 0.6) else r.choice([0.15, 0.3, 0.5])
        self.gen_fluents()
        self.gen_init()
        P["ifuns"] = []
        if o["ifuns"] and o["numeric"]:
            self.gen_ifuns()
        nact = r.randint(min(2, o["max_actions"]), o["max_actions"])
        an = self.names("a", nact)
        P["actions"] = [self.action(an[i]) for i in range(nact)]
        if o["static_guards"] > 0:
            self.add_static_guards()
        P["goals"] = [self.bool_expr(2, {}, {}) for _ in range(r.randint(1, 2))]
        P["invariants"] = []
        if o["invariants"] and r.random() < o["inv_prob"]:
            inv = self.bool_expr(1, {}, {}, noconst=True)
            if o["quantifiers"] and r.random() < o["inv_forall"]:
                # a universally quantified invariant, half of the time written as Forall v. Always(...)
                t = self.type_of(r.choice(P["types"])["name"])
                for _ in range(6):
                    body = self.bool_expr(1, {}, {"u0": t}, noconst=True)
                    if "'u0'" in repr(body):
                        break
                inv = E("forall", [body], vars_=[{"name": "u0", "type": t}])
                if r.random() < 0.5:
                    P["inv_outside"] = True
            P["invariants"].append(inv)
        P["traj"] = []
        if o["traj"]:
            for _ in range(r.choice([1, 1, 2, 2, 3])):
                k = r.choice(["sometime", "amo", "sbefore", "safter", "safter"])
                # half of the constraint bodies are ground literals on Boolean fluents that some action writes, so that
                # plans actually drive the monitors through their cases; the others are random expressions
                body = (lambda: self.written_literal() or self.bool_expr(1, {}, {}, noconst=True)) if r.random() < 0.5 \
                    else (lambda: self.bool_expr(1, {}, {}, noconst=True))
                a = body()
                if k in ("sometime", "amo"):
                    P["traj"].append(E(k, [a]))
                else:
                    P["traj"].append(E(k, [a, body()]))
        P["timed_goals"] = []
        P["timed_effects"] = []
        P["metric"] = {"kind": "none", "costs": [], "default": E("none"), "expr": E("none"), "goals": []}
        if o["metric"]:
            P["metric"] = self.metric()
        P["nmetrics"] = 0 if P["metric"]["kind"] == "none" else 1
        return P

    def written_literal(self):
        """a ground literal (possibly negated) on a Boolean fluent that some action effect writes; None if there is none"""
        r, P, o = self.r, self.P, self.o
        ftype = {f["name"]: f for f in P["fluents"]}
        targets = [(a, e) for a in P["actions"] for e in a["effects"] if ftype[e["f"]["name"]]["type"]["k"] == "bool"]
        if not targets:
            return None
        a, e = r.choice(targets)
        ptype = {p["name"]: p["type"]["name"] for p in a["params"]}
        args = []
        for x in e["f"]["args"]:
            if x["op"] == "obj":
                args.append(x)
            elif x["op"] == "param" and objs_of(P, ptype[x["name"]]):
                args.append(E("obj", name=r.choice(objs_of(P, ptype[x["name"]]))))
            else:
                return None
        lit = E("fluent", args, name=e["f"]["name"])
        return E("not", [lit]) if o["negation"] and r.random() < 0.4 else lit

    def add_static_guards(self):
        """Static Boolean fluents (no action writes them: they are added after the effects were generated) used as
        positive preconditions over the parameters: one unary guard per parameter, and a binary one over both
        parameters of a two-parameter action.  This is the shape grounders prune by."""
        r, o, P = self.r, self.o, self.P
        made = {}

        def guard(types):
            key = tuple(t["name"] for t in types)
            if key not in made:
                name = "sg%d" % len(made)
                made[key] = name
                P["fluents"].append({"name": name, "type": {"k": "bool"}, "default": BV(False),
                                     "sig": [{"name": "xyz"[i], "type": t} for i, t in enumerate(types)]})
                doms = [objs_of(P, t["name"]) for t in types]
                tuples = [[]]
                for d in doms:
                    tuples = [tu + [x] for tu in tuples for x in d]
                for tu in tuples:
                    if r.random() < 0.7:
                        P["init"].append({"f": name, "args": [OV(a) for a in tu], "v": BV(True)})
            return made[key]

        for a in P["actions"]:
            ps = [p for p in a["params"] if p["type"]["k"] == "user"]
            if not ps or r.random() >= o["static_guards"]:
                continue
            for p_ in ps:
                a["pre"].append(E("fluent", [E("param", name=p_["name"])], name=guard([p_["type"]])))
            if len(ps) == 2 and r.random() < 0.6:
                a["pre"].append(E("fluent", [E("param", name=ps[0]["name"]), E("param", name=ps[1]["name"])],
                                  name=guard([ps[0]["type"], ps[1]["type"]])))

    def gen_ifuns(self):
        """interpreted functions as finite tables over int[-2,6] (one numeric, one Boolean)"""
        r, P = self.r, self.P
        it = {"k": "int", "lo": NONE, "hi": NONE}
        grid = list(range(-2, 7))
        a, b, m = r.choice([1, 2, -1]), r.choice([0, 1, 3]), r.choice([3, 4, 5])
        P["ifuns"].append({"name": "g", "sig": [{"name": "x", "type": it}], "ret": it,
                           "table": [{"args": [NV(x)], "v": NV((a * x + b) % m)} for x in grid]})
        th = r.choice([0, 1, 2])
        P["ifuns"].append({"name": "h", "sig": [{"name": "x", "type": it}, {"name": "y", "type": it}], "ret": {"k": "bool"},
                           "table": [{"args": [NV(x), NV(y)], "v": BV((x + y) % 2 == 0 or x > y + th)} for x in grid for y in grid]})

    def type_of(self, name):
        return {"k": "user", "name": name}

    def gen_fluents(self):
        r, o, P = self.r, self.o, self.P
        n = r.randint(2, o["max_fluents"])
        fn = self.names("f", n)
        fl = []
        budget = 12
        for i in range(n):
            kinds = ["bool", "bool"]
            if o["numeric"]:
                kinds += ["int"]
                if o["bounded"]:
                    kinds += ["bint"]
                if o["real"]:
                    kinds += ["real"]
            if o["objfluents"]:
                kinds += ["obj"]
            k = r.choice(kinds)
            if k == "bool":
                t = {"k": "bool"}
            elif k == "int":
                t = {"k": "int", "lo": NONE, "hi": NONE}
            elif k == "bint":
                lo = r.choice([0, 0, -1, 1])
                t = {"k": "int", "lo": NV(lo), "hi": NV(lo + r.choice([1, 2, 3]))}
                if r.random() < 0.15:
                    t["hi"] = NONE
            elif k == "real":
                t = {"k": "real", "lo": NONE, "hi": NONE}
                if o["bounded"] and r.random() < 0.3:
                    t = {"k": "real", "lo": NV(0), "hi": NV(Fraction(5, 2))}
            else:
                t = self.type_of(r.choice(P["types"])["name"])
            sig = []
            if r.random() < 0.6:
                pt = r.choice(P["types"])["name"]
                sig.append({"name": "x", "type": self.type_of(pt)})
                if r.random() < 0.15:
                    pt2 = r.choice(P["types"])["name"]
                    sig.append({"name": "y", "type": self.type_of(pt2)})
            size = 1
            for p in sig:
                size *= len(objs_of(P, p["type"]["name"]))
            if size > budget:
                sig = []
                size = 1
            budget -= size
            if budget < 0:
                break
            # default value
            d = UNDEF
            q = r.random()
            bounded_num = t["k"] in ("int", "real") and (t["lo"]["k"] != "none" or t["hi"]["k"] != "none")
            if q >= self.p_undef * (0.2 if bounded_num else 1.0):
                d = self.const_of_type(t)
            fl.append({"name": fn[i], "type": t, "sig": sig, "default": d})
        P["fluents"] = fl

    def const_of_type(self, t, wide=False):
        r, P = self.r, self.P
        if t["k"] == "bool":
            return BV(r.random() < 0.5)
        if t["k"] == "user":
            return OV(r.choice(objs_of(P, t["name"])))
        if t["k"] == "int":
            lo = t["lo"]["n"] if t["lo"]["k"] != "none" else (t["hi"]["n"] - 3 if t["hi"]["k"] != "none" else -1)
            hi = t["hi"]["n"] if t["hi"]["k"] != "none" else lo + 3
            return NV(r.randint(lo, hi))
        if t["lo"]["k"] != "none":
            return NV(r.choice([0, Fraction(1, 2), 1, 2, Fraction(5, 2)]))
        return NV(r.choice([0, 1, Fraction(1, 2), -1, 2, Fraction(3, 2)]))

    def gen_init(self):
        r, o, P = self.r, self.o, self.P
        P["init"] = []
        for name, args in keys_of(P):
            f = self.fluent(name)
            p = 0.5 if f["default"]["k"] != "u" else (0.6 if self.p_undef > 0 else 1.0)
            if r.random() < p:
                P["init"].append({"f": name, "args": [OV(a) for a in args], "v": self.const_of_type(f["type"])})

    def fluent(self, name):
        return [f for f in self.P["fluents"] if f["name"] == name][0]

    # ---- terms ---------------------------------------------------------------------
    def compatible(self, want, have):
        """have can be used where `want` (user type name) is expected"""
        return want in ancestors(self.P, have)

    def obj_term(self, tname, params, vs, depth=1):
        """expression of user type compatible with tname, or None"""
        r, P = self.r, self.P
        cands = []
        for o in objs_of(P, tname):
            cands.append(E("obj", name=o))
        for n, t in params.items():
            if t["k"] == "user" and self.compatible(tname, t["name"]):
                cands += [E("param", name=n)] * 3
        for n, t in vs.items():
            if t["k"] == "user" and self.compatible(tname, t["name"]):
                cands += [E("var", name=n)] * 4
        if depth > 0 and self.o["objfluents"]:
            for f in P["fluents"]:
                if f["type"]["k"] == "user" and self.compatible(tname, f["type"]["name"]):
                    app = self.fluent_app(f, params, vs, depth - 1)
                    if app is not None:
                        cands.append(app)
        if not cands:
            return None
        return r.choice(cands)

    def fluent_app(self, f, params, vs, depth=1):
        args = []
        for p in f["sig"]:
            a = self.obj_term(p["type"]["name"], params, vs, depth)
            if a is None:
                return None
            args.append(a)
        return E("fluent", args, name=f["name"])

    def num_expr(self, depth, params, vs, intonly=False, nodiv=True):
        r, P = self.r, self.P
        fl = [f for f in P["fluents"] if f["type"]["k"] in (("int",) if intonly else ("int", "real"))]
        q = r.random()
        if P.get("ifuns") and depth > 0 and r.random() < 0.2:
            return E("ifun", [self.num_expr(depth - 1, params, vs, intonly=True)], name="g")
        if depth <= 0 or q < 0.35 or not fl:
            if fl and r.random() < 0.6:
                app = self.fluent_app(r.choice(fl), params, vs)
                if app is not None:
                    return app
            if intonly or r.random() < 0.7:
                return num(r.choice([0, 1, 1, 2, 3, -1]))
            return num(r.choice([Fraction(1, 2), Fraction(3, 2), Fraction(5, 2)]))
        op = r.choice(["plus", "plus", "minus", "times"] + ([] if (intonly or nodiv) else ["div"]))
        a = self.num_expr(depth - 1, params, vs, intonly, nodiv)
        if op == "div":
            b = num(r.choice([1, 2, 2, 4]))
        else:
            b = self.num_expr(depth - 1, params, vs, intonly, nodiv)
        if op in ("plus", "times") and r.random() < 0.15:
            return E(op, [a, b, self.num_expr(0, params, vs, intonly, nodiv)])
        return E(op, [a, b])

    def atom(self, params, vs):
        r, P, o = self.r, self.P, self.o
        kinds = ["bf", "bf", "bf"]
        if o["numeric"] and any(f["type"]["k"] in ("int", "real") for f in P["fluents"]):
            kinds += ["cmp", "cmp"]
        if o["equality"]:
            kinds += ["oeq"]
        if P.get("ifuns"):
            kinds += ["ifun"]
        for _ in range(6):
            k = r.choice(kinds)
            if k == "bf":
                bfs = [f for f in P["fluents"] if f["type"]["k"] == "bool"]
                if not bfs:
                    continue
                app = self.fluent_app(r.choice(bfs), params, vs)
                if app is not None:
                    return app
            elif k == "ifun":
                return E("ifun", [self.num_expr(1, params, vs, intonly=True), self.num_expr(0, params, vs, intonly=True)], name="h")
            elif k == "cmp":
                a = self.num_expr(1, params, vs)
                b = self.num_expr(1, params, vs) if r.random() < 0.4 else num(r.choice([0, 1, 2, 3]))
                ops = ["le", "lt", "ge", "gt"] + (["eq"] if o["equality"] else [])
                op = r.choice(ops)
                if op == "ge":
                    return E("le", [b, a])
                if op == "gt":
                    return E("lt", [b, a])
                return E(op, [a, b])
            else:
                t = r.choice(P["types"])["name"]
                a = self.obj_term(t, params, vs)
                b = self.obj_term(t, params, vs)
                if a is not None and b is not None and a != b:
                    return E("eq", [a, b])
        # fall back: a Boolean fluent always exists? otherwise a comparison of constants
        bfs = [f for f in P["fluents"] if f["type"]["k"] == "bool" and not f["sig"]]
        if bfs:
            return E("fluent", [], name=bfs[0]["name"])
        return E("le", [num(0), num(1)])

    def bool_expr(self, depth, params, vs, noconst=False):
        r, o, P = self.r, self.o, self.P
        q = r.random()
        if depth <= 0 or q < 0.3:
            if o["boolconst"] and not noconst and r.random() < 0.03:
                return C(BV(r.random() < 0.5))
            a = self.atom(params, vs)
            if o["negation"] and r.random() < 0.3:
                return E("not", [a])
            return a
        ops = ["and", "and"]
        if o["disjunction"]:
            ops += ["or", "or"]
        if o["negation"]:
            ops += ["not"]
        if o["implies"] and o["disjunction"] and o["negation"]:
            ops += ["implies", "iff"]
        if o["quantifiers"]:
            ops += ["exists", "forall"]
        for bop, w in (o["op_bias"] or {}).items():
            if bop in ops:
                ops += [bop] * w
        op = r.choice(ops)
        if op in ("and", "or"):
            n = 3 if r.random() < 0.15 else 2
            return E(op, [self.bool_expr(depth - 1, params, vs, noconst) for _ in range(n)])
        if op == "not":
            x = self.bool_expr(depth - 1, params, vs, noconst)
            if x["op"] == "not":
                return x["args"][0]
            return E("not", [x])
        if op in ("implies", "iff"):
            return E(op, [self.bool_expr(depth - 1, params, vs, noconst), self.bool_expr(depth - 1, params, vs, noconst)])
        vn = "v%d" % len(vs)
        t = self.type_of(r.choice(P["types"])["name"])
        vs2 = dict(vs)
        vs2[vn] = t
        body = self.bool_expr(depth - 1, params, vs2, noconst)
        return E(op, [body], vars_=[{"name": vn, "type": t}])

    # ---- actions -------------------------------------------------------------------
    def action(self, name):
        r, o, P = self.r, self.o, self.P
        params = {}
        plist = []
        pn = self.names("p", 2)
        np_ = r.choice([0, 1, 1, 1, 2])
        total = 1
        for i in range(np_):
            t = self.type_of(r.choice(P["types"])["name"])
            total *= len(objs_of(P, t["name"]))
            if total > 6:
                break
            params[pn[i]] = t
            plist.append({"name": pn[i], "type": t})
        pre = [self.bool_expr(r.choice([0, 0, 1, 1, 2]), params, {}) for _ in range(r.choice([0, 0, 1, 1, 2]))]
        effects = []
        for _ in range(r.choice([1, 1, 2, 2, 3])):
            ef = self.effect(params)
            if ef is not None:
                effects.append(ef)
        effects = self.drop_static_conflicts(effects)
        return {"name": name, "kind": "inst", "params": plist, "pre": pre, "effects": effects, "conds": [], "dur": NONE, "sim": False}

    def effect(self, params):
        r, o, P = self.r, self.o, self.P
        vs = {}
        fa = []
        if o["forall_eff"] and r.random() < 0.2:
            t = self.type_of(r.choice(P["types"])["name"])
            vs = {"w": t}
            fa = [{"name": "w", "type": t}]
        f = r.choice(P["fluents"])
        target = self.fluent_app(f, params, vs, depth=0)
        if target is None:
            return None
        if fa and "w" not in str(target):
            # the forall variable should occur in the target (UP requires it to be used)
            vs, fa = {}, []
            target = self.fluent_app(f, params, vs, depth=0)
            if target is None:
                return None
        t = f["type"]
        kind = "assign"
        if t["k"] in ("int", "real") and o["incdec"] and r.random() < 0.5:
            kind = r.choice(["inc", "dec"])
        if t["k"] == "bool":
            if o["bool_expr_assign"] and r.random() < (0.2 if o["bool_expr_assign"] is True else o["bool_expr_assign"]):
                v = self.bool_expr(1, params, vs)
            else:
                v = C(BV(r.random() < 0.6))
        elif t["k"] == "user":
            v = self.obj_term(t["name"], params, vs, depth=1 if o["fluent_assign"] else 0)
            if v is None:
                return None
        else:
            intonly = t["k"] == "int"
            if o["fluent_assign"] and r.random() < 0.5:
                v = self.num_expr(1, params, vs, intonly=intonly, nodiv=intonly)
            elif kind == "assign":
                v = C(self.const_of_type(t))
            else:
                v = num(r.choice([1, 1, 1, 2] if intonly else [1, Fraction(1, 2), 1, Fraction(3, 2)]))
        c = TRUE_E
        if o["conditional"] and r.random() < o["cond_prob"]:
            if kind != "assign" and r.random() < o["incdec_plain_cond"]:
                lits = [self.atom(params, vs) for _ in range(r.choice([1, 1, 2]))]
                lits = [E("not", [x]) if o["negation"] and r.random() < 0.4 else x for x in lits]
                c = lits[0] if len(lits) == 1 else E("and", lits)
            else:
                c = self.bool_expr(r.choice([1, 1, 1, 2]), params, vs)
        return {"kind": kind, "f": {"name": target["name"], "args": target["args"]}, "v": v, "c": c, "forall": fa}

    def drop_static_conflicts(self, effects):
        """unified-planning rejects, when the effect is added, an unconditional effect on a fluent
        expression that is already assigned/increased unconditionally (model-building rule, not
        semantics): keep the first such effect per syntactic target."""
        out = []
        seen = {}
        for ef in effects:
            key = repr(ef["f"])
            kinds = seen.setdefault(key, set())
            cls = "a" if ef["kind"] == "assign" else "d"
            uncond = ef["c"] == TRUE_E
            if cls == "a" and ("a!" in kinds or "d" in kinds or "d!" in kinds) and (uncond or True):
                # assignment after any other effect on the same expression: only safe if both conditional
                if uncond or "a!" in kinds or "d!" in kinds:
                    continue
            if cls == "d" and ("a" in kinds or "a!" in kinds):
                continue
            kinds.add(cls + ("!" if uncond else ""))
            out.append(ef)
        return out

    # ---- metrics ---------------------------------------------------------------------
    def metric(self):
        r, P = self.r, self.P
        base = {"kind": "none", "costs": [], "default": E("none"), "expr": E("none"), "goals": []}
        kinds = ["costs", "costs", "length", "oversub"]
        if any(f["type"]["k"] in ("int", "real") for f in P["fluents"]):
            kinds += ["minfinal", "maxfinal"]
        k = r.choice(kinds)
        base["kind"] = k
        if k == "costs":
            for a in P["actions"]:
                q = r.random()
                if q < 0.75:
                    params = {p["name"]: p["type"] for p in a["params"]}
                    if r.random() < 0.5:
                        c = num(r.choice([0, 1, 2, 3, Fraction(1, 2)]))
                    else:
                        c = self.num_expr(1, params, {})
                    base["costs"].append({"a": a["name"], "c": c})
            if len(base["costs"]) < len(P["actions"]) or r.random() < 0.3:
                base["default"] = num(r.choice([0, 1, 2]))
        elif k in ("minfinal", "maxfinal"):
            base["expr"] = self.num_expr(2, {}, {})
        elif k == "oversub":
            seen = []
            for _ in range(r.randint(1, 3)):
                g = self.bool_expr(1, {}, {}, noconst=True)
                if g in seen:
                    continue
                seen.append(g)
                base["goals"].append({"g": g, "w": NV(r.choice([1, 2, 3, Fraction(1, 2), 5]))})
        return base


def ground_actions(P):
    """all ground action instances [{a, args:[Val]}] in a fixed order (structure only)."""
    out = []
    for a in P["actions"]:
        doms = []
        for p in a["params"]:
            t = p["type"]
            if t["k"] == "user":
                doms.append([OV(x) for x in objs_of(P, t["name"])])
            elif t["k"] == "bool":
                doms.append([BV(True), BV(False)])
            else:
                doms.append([NV(n) for n in range(t["lo"]["n"], t["hi"]["n"] + 1)])
        for t in itertools.product(*doms):
            out.append({"a": a["name"], "args": list(t)})
    return out


# ----------------------------------------------------------------------------------------
# temporal extension (C05, C26, C28, C29)
# ----------------------------------------------------------------------------------------
def T(frm, delay=0):
    return {"from": frm, "delay": NV(delay)}


class TGen(Gen):
    """Small temporal problems: durative actions with (open/closed, constant or fluent-dependent)
    duration intervals, conditions over (open/closed, delayed) intervals, effects at start / end /
    intermediate timings, timed effects and timed goals."""

    def __init__(self, rng, **opts):
        base = dict(hier=False, max_objects=2, max_fluents=4, max_actions=3, undefined=False, objfluents=False,
                    quantifiers=False, forall_eff=False, invariants=True, real=True,
                    fixed_durations=False, intermediate=True, timed=True, fluent_durations=True, inst_actions=True)
        base.update(opts)
        Gen.__init__(self, rng, **base)

    def problem(self):
        P = Gen.problem(self)
        r, o = self.r, self.o
        acts = []
        for a in P["actions"]:
            if o["inst_actions"] and r.random() < 0.2:
                acts.append(a)
            else:
                acts.append(self.durative(a["name"]))
        P["actions"] = acts
        if o["timed"]:
            for _ in range(r.choice([0, 0, 1, 1, 2])):
                ef = self.effect({})
                if ef is not None and not ef["forall"]:
                    P["timed_effects"].append({"t": T("gstart", r.choice([1, 2, Fraction(5, 2), Fraction(1, 2), 3])), "e": ef})
            P["timed_effects"] = self._dedupe_timed(P["timed_effects"])
            for _ in range(r.choice([0, 0, 1])):
                a = r.choice([0, 1, Fraction(1, 2), 2])
                b = a + r.choice([0, 1, 2, Fraction(3, 2)])
                lopen = r.random() < 0.3
                ropen = r.random() < 0.3
                if a == b:
                    lopen = ropen = False
                P["timed_goals"].append({"iv": {"lo": T("gstart", a), "hi": T("gstart", b), "lopen": lopen, "ropen": ropen},
                                         "g": self.bool_expr(1, {}, {}, noconst=True)})
        return P

    def _dedupe_timed(self, tes):
        out, seen = [], set()
        for te in tes:
            k = (repr(te["t"]), repr(te["e"]["f"]))
            if k in seen:
                continue
            seen.add(k)
            out.append(te)
        return out

    def duration(self, params):
        r, o, P = self.r, self.o, self.P
        if o["fixed_durations"] or r.random() < 0.35:
            d = num(r.choice([1, 2, 3, Fraction(1, 2), Fraction(3, 2)]))
            return {"lo": d, "hi": d, "lopen": False, "ropen": False}
        lo = r.choice([0, Fraction(1, 2), 1, 2])
        hi = lo + r.choice([Fraction(1, 2), 1, 2])
        loe, hie = num(lo), num(hi)
        nfl = [f for f in P["fluents"] if f["type"]["k"] in ("int", "real") and not f["sig"]]
        if o["fluent_durations"] and nfl and r.random() < 0.25:
            f = r.choice(nfl)
            fe = E("fluent", [], name=f["name"])
            if r.random() < 0.5:
                hie = E("plus", [fe, num(r.choice([1, 2, 3]))])
            else:
                loe = E("minus", [fe, num(r.choice([1, 2]))])
        return {"lo": loe, "hi": hie, "lopen": r.random() < 0.3, "ropen": r.random() < 0.3}

    def cond_interval(self):
        r, o = self.r, self.o
        forms = ["start", "start", "end", "all", "all", "all-open", "all-lopen", "all-ropen"]
        if o["intermediate"]:
            forms += ["mid", "mid-open", "mid-point"]
        k = r.choice(forms)
        if k == "start":
            return {"lo": T("start"), "hi": T("start"), "lopen": False, "ropen": False}
        if k == "end":
            return {"lo": T("end"), "hi": T("end"), "lopen": False, "ropen": False}
        if k.startswith("all"):
            return {"lo": T("start"), "hi": T("end"), "lopen": k in ("all-open", "all-lopen"), "ropen": k in ("all-open", "all-ropen")}
        d1 = r.choice([Fraction(1, 2), 1])
        if k == "mid-point":
            return {"lo": T("start", d1), "hi": T("start", d1), "lopen": False, "ropen": False}
        d2 = r.choice([Fraction(1, 2), 1])
        op = k == "mid-open"
        return {"lo": T("start", d1), "hi": T("end", -d2), "lopen": op and r.random() < 0.7, "ropen": op and r.random() < 0.7}

    def eff_timing(self):
        r, o = self.r, self.o
        forms = ["start", "start", "end", "end", "end"]
        if o["intermediate"]:
            forms += ["start+", "end-"]
        k = r.choice(forms)
        if k == "start":
            return T("start")
        if k == "end":
            return T("end")
        if k == "start+":
            return T("start", r.choice([Fraction(1, 2), 1]))
        return T("end", -r.choice([Fraction(1, 2), 1]))

    def durative(self, name):
        r, o, P = self.r, self.o, self.P
        params, plist = {}, []
        pn = self.names("p", 2)
        if r.random() < 0.4:
            t = self.type_of(r.choice(P["types"])["name"])
            params[pn[0]] = t
            plist.append({"name": pn[0], "type": t})
        conds = []
        for _ in range(r.choice([0, 1, 1, 2, 3])):
            conds.append({"iv": self.cond_interval(), "c": self.bool_expr(r.choice([0, 1]), params, {}, noconst=True)})
        effs = []
        for _ in range(r.choice([1, 2, 2, 3])):
            ef = self.effect(params)
            if ef is None or ef["forall"]:
                continue
            effs.append({"t": self.eff_timing(), "e": ef})
        # model-building rule of unified-planning: per timing, no two unconditional effects on one expression
        out, seen = [], {}
        for te in effs:
            k = (repr(te["t"]), repr(te["e"]["f"]))
            if k in seen:
                continue
            seen[k] = 1
            out.append(te)
        return {"name": name, "kind": "dur", "params": plist, "pre": [], "effects": out, "conds": conds,
                "dur": self.duration(params), "sim": False}


def const_num(e):
    """numeric value of a constant expression node, else None (syntactic helper for plan generators)"""
    if e["op"] == "const" and e["v"]["k"] == "n":
        return Fraction(e["v"]["n"], e["v"]["d"])
    return None


def random_tt_plan(rng, P, maxlen=3):
    """a random time-triggered plan on a coarse rational grid (forces coinciding happenings)"""
    gas = ground_actions(P)
    if not gas:
        return []
    acts = {a["name"]: a for a in P["actions"]}
    steps = []
    for _ in range(rng.randint(1, maxlen)):
        g = rng.choice(gas)
        a = acts[g["a"]]
        t = rng.choice([0, 0, Fraction(1, 2), 1, 1, Fraction(3, 2), 2, 3])
        st = {"a": g["a"], "args": g["args"], "t": NV(t), "d": NV(0)}
        if a["kind"] == "dur":
            lo, hi = const_num(a["dur"]["lo"]), const_num(a["dur"]["hi"])
            cands = [Fraction(1, 2), 1, Fraction(3, 2), 2, 3]
            if lo is not None:
                cands += [lo, lo, lo + Fraction(1, 2), lo - Fraction(1, 2)]
            if hi is not None:
                cands += [hi, hi, hi - Fraction(1, 2), hi + Fraction(1, 2)]
            if lo is not None and hi is not None:
                cands += [(lo + hi) / 2] * 3
            cands = [c for c in cands if c > 0]
            st["d"] = NV(rng.choice(cands))
        steps.append(st)
    return steps
