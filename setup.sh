#!/bin/sh
# Build step: parse every specification module, byte-compile the harness. Offline.
set -e
cd "$(dirname "$0")"
/venv/bin/python -m compileall -q harness >/dev/null
/venv/bin/python -m harness.sanity
