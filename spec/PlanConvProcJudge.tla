------------------------- MODULE PlanConvProcJudge -------------------------
(***************************************************************************)
(* C29 judge.  Batch = ndjson, one record per problem:                     *)
(*   [pid, off, P, keys, plans : <<[steps, fwd, back, back2]>>]            *)
(*   (plans off+1 .. off+Len(plans) of problem pid)                        *)
(*   steps  the original plan   <<[a, args, t, d]>>                        *)
(*   fwd    [exc, ev]   what plan_forward_conversion returned: the events  *)
(*          <<[t, c, args, d]>> of the compiled plan (d = [k |-> "none"])  *)
(*          or the name of the exception it raised                         *)
(*   back   [exc, items] what plan_back_conversion returned on that plan:  *)
(*          <<[t, a, args, d]>> (exc = "not-run" when forward raised)      *)
(*   back2  the same for the forward plan with its timed actions listed in *)
(*          another order (a plan is a bag: the result must not change)    *)
(* Verdicts are total (pi = off + index):                                  *)
(*   <<"U", pid, pi, reason>>     outside the zone of the property         *)
(*   <<"FAIL", pid, pi, clause, fwdAsModel>>                               *)
(*   <<"SPECBAD", pid, pi>>       the specification contradicts itself     *)
(*   <<"DONE", pid, off, n>>      n plans of the record were judged        *)
(***************************************************************************)
EXTENDS PlanConvProc, Json, IOUtils

Batch == ndJsonDeserialize(IOEnv.BATCH)
\* (pid, 0): record pid is waiting; (pid, 1): all its plans are judged (in the invariant, by the worker
\* that takes the step -- initial states are evaluated by a single thread)
VARIABLES pid, done
vars == <<pid, done>>
Init == pid \in DOMAIN Batch /\ done = 0
Next == done = 0 /\ done' = 1 /\ UNCHANGED pid
Spec == Init /\ [][Next]_vars

NormEv(e) == [t |-> TV(e.t), c |-> e.c, args |-> e.args]
NormIt(x) == [t |-> TV(x.t), a |-> x.a, args |-> x.args, d |-> IF x.d.k = "n" THEN TV(x.d) ELSE NONE]

Clauses(C, rec) ==
   LET P == C.R.P
       items == Items(P, rec.steps)
       evs == [i \in DOMAIN rec.fwd.ev |-> NormEv(rec.fwd.ev[i])]
       back == [i \in DOMAIN rec.back.items |-> NormIt(rec.back.items[i])]
       back2 == [i \in DOMAIN rec.back2.items |-> NormIt(rec.back2.items[i])]
       known == \A i \in DOMAIN evs : IsStartEv(P, evs[i]) \/ IsEndEv(P, evs[i])
   IN IF rec.fwd.exc # "" THEN {"forward-raises-" \o rec.fwd.exc}
      ELSE (IF \E i \in DOMAIN rec.fwd.ev : rec.fwd.ev[i].d.k # "none" THEN {"forward-event-has-duration"} ELSE {})
           \cup (IF ~known THEN {"forward-unknown-action"}
                 ELSE (IF StartsOK(P, items, evs) THEN {} ELSE {"forward-starts"})
                      \cup (IF EndsCountOK(P, items, evs) THEN {} ELSE {"forward-ends-count"})
                      \cup (IF EndInside(P, items, evs) THEN {} ELSE {"end-not-inside-duration"}))
           \cup (IF rec.back.exc # "" THEN {"back-raises-" \o rec.back.exc}
                 ELSE IF SameBag(back, items) THEN {} ELSE {"roundtrip"})
           \cup (IF rec.back2.exc # "" THEN {"back-raises-" \o rec.back2.exc \o "-reordered"}
                 ELSE IF SameBag(back2, items) THEN {} ELSE {"roundtrip-reordered"})

\* diagnostic only: the observed forward plan is the specification's Forward(p)
FwdAsModel(C, rec) ==
   rec.fwd.exc = "" /\ SameBag([i \in DOMAIN rec.fwd.ev |-> NormEv(rec.fwd.ev[i])], Forward(C.R.P, Items(C.R.P, rec.steps)))

JudgePlan(b, C, i) ==
   LET rec == b.plans[i]
       items == Items(b.P, rec.steps)
       z == Zone(C, items)
   IN IF z # "ok" THEN PrintT(<<"U", b.pid, b.off + i, z>>)
      ELSE /\ (SpecRoundTrip(C, items) \/ PrintT(<<"SPECBAD", b.pid, b.off + i>>))
           /\ \A c \in Clauses(C, rec) : PrintT(<<"FAIL", b.pid, b.off + i, c, FwdAsModel(C, rec)>>)

Judge ==
   done = 0 \/
   LET b == Batch[pid]
       C == Ctx(b.P, b.keys)
   IN /\ \A i \in DOMAIN b.plans : JudgePlan(b, C, i)
      /\ PrintT(<<"DONE", b.pid, b.off, Len(b.plans)>>)
=============================================================================
