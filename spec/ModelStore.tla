------------------------------ MODULE ModelStore ------------------------------
(***************************************************************************)
(* C23 -- the model only stores type-correct values.                       *)
(*                                                                         *)
(* Two layers.                                                             *)
(*  * Declarative layer: StoreOK(m) speaks about VALUES.  Every value an   *)
(*    expression stored for a fluent / parameter may take (constants: the  *)
(*    constant; fluent and parameter expressions: every grid value of      *)
(*    their declared type) lies in the domain of the target type; initial  *)
(*    values and defaults are constants.                                   *)
(*  * Call layer: one action per storing call of the public API           *)
(*    (Problem(initial_defaults=), add_fluent(default_initial_value=),     *)
(*    set_initial_value, add_effect / add_increase_effect /                *)
(*    add_decrease_effect on an InstantaneousAction, on a DurativeAction   *)
(*    timing and Problem.add_timed_effect..., ActionInstance(action,       *)
(*    params)), guarded by Verdict(m, s), a TYPE-level test ("the type of  *)
(*    the value is compatible with the target type": equal, sub-type of a  *)
(*    user type, int into real, numeric bounds), with an accepting branch  *)
(*    (the value is stored) and a rejecting branch (UNCHANGED).            *)
(* T1 (MCModelStore): the guard keeps StoreOK invariant over all call      *)
(* histories within the bound, a rejection is justified (storing would     *)
(* break StoreOK), and a rejected call leaves the model unchanged.         *)
(*                                                                         *)
(* Unspecified zone (never judged, DESIGN.md 7.1 style; Verdict = "unspec", *)
(* both branches enabled):                                                 *)
(*  U1 an EFFECT value whose numeric kind fits the fluent but whose bounds  *)
(*     are not contained in the fluent's bounds (9 or an int[0,10] fluent   *)
(*     into int[0,3]): the statement says "type-compatible", the library    *)
(*     accepts overlapping bounds and rejects disjoint ones;                *)
(*  U2 a non-constant ActionInstance parameter of a compatible type (the    *)
(*     statement requires constants only of initial values);                *)
(*  U3 an action parameter used as the value of a Problem timed effect      *)
(*     (type-compatible but out of scope);                                  *)
(*  U4 an effect on a fluent the same container already writes (conflict    *)
(*     detection is property C24).                                          *)
(***************************************************************************)
EXTENDS UPValues

\* ---------- types (uniform record shape) ----------
TNone    == [k |-> "none", lo |-> NONE, hi |-> NONE, name |-> ""]
TBool    == [k |-> "bool", lo |-> NONE, hi |-> NONE, name |-> ""]
TI(l, h) == [k |-> "int",  lo |-> l, hi |-> h, name |-> ""]
TR(l, h) == [k |-> "real", lo |-> l, hi |-> h, name |-> ""]
TUser(n) == [k |-> "user", lo |-> NONE, hi |-> NONE, name |-> n]
\* rationals are written in lowest terms (UPValues!NV is built on a RECURSIVE gcd, and TLC does not
\* cache constant definitions that depend on recursive operators)
Q(n, d) == [k |-> "n", n |-> n, d |-> d]
Z(n) == Q(n, 1)

\* the types of the case space, by name
TypeNames  == <<"bool", "int03", "real", "real05", "T", "T1", "U", "int010">>
TargetNames == <<"bool", "int03", "real", "real05", "T", "T1", "U">>
TypeByName(n) ==
   CASE n = "bool"   -> TBool
     [] n = "int03"  -> TI(Z(0), Z(3))
     [] n = "int010" -> TI(Z(0), Z(10))
     [] n = "real"   -> TR(NONE, NONE)
     [] n = "real05" -> TR(Z(0), Z(5))
     [] n = "T"      -> TUser("T")
     [] n = "T1"     -> TUser("T1")
     [] n = "U"      -> TUser("U")
Range(s) == {s[i] : i \in DOMAIN s}
NameOfType(t) == IF \E n \in Range(TypeNames) : TypeByName(n) = t
                 THEN CHOOSE n \in Range(TypeNames) : TypeByName(n) = t ELSE "?"

\* ---------- expressions (UPJ shape; only leaves are stored by the cases) ----------
Mk(op, args, name, v, vars) == [op |-> op, args |-> args, name |-> name, v |-> v, vars |-> vars]
CE(v)   == Mk("const", <<>>, "", v, <<>>)
ObjE(n) == Mk("obj", <<>>, n, UNDEF, <<>>)
FlE(n)  == Mk("fluent", <<>>, n, UNDEF, <<>>)
ParE(n) == Mk("param", <<>>, n, UNDEF, <<>>)
ENone   == Mk("none", <<>>, "", UNDEF, <<>>)

\* ---------- the declarations every history is built over ----------
\* user types T, T1 < T, U; one object each; for every type a TARGET fluent f_<type>,
\* a VALUE fluent g_<type> and a parameter p_<type> of the actions "a" (instantaneous) and "d" (durative)
Decl == TLCEval(
  [types   |-> << [name |-> "T", parent |-> ""], [name |-> "T1", parent |-> "T"], [name |-> "U", parent |-> ""] >>,
   objects |-> << [name |-> "oT", type |-> "T"], [name |-> "oT1", type |-> "T1"], [name |-> "oU", type |-> "U"] >>,
   fluents |-> [i \in 1..Len(TargetNames) |-> [name |-> "f_" \o TargetNames[i], type |-> TypeByName(TargetNames[i])]]
               \o [i \in 1..Len(TypeNames) |-> [name |-> "g_" \o TypeNames[i], type |-> TypeByName(TypeNames[i])]],
   params  |-> [i \in 1..Len(TypeNames) |-> [name |-> "p_" \o TypeNames[i], type |-> TypeByName(TypeNames[i])]]])

\* lookup tables (TLCEval: TLC re-evaluates lazy function constructors on every application)
TableOf(seq, field) == [n \in {seq[i].name : i \in DOMAIN seq} |->
                          (seq[CHOOSE i \in DOMAIN seq : seq[i].name = n])[field]]
ObjTypes    == TLCEval(TableOf(Decl.objects, "type"))
FluentTypes == TLCEval(TableOf(Decl.fluents, "type"))
ParTypes    == TLCEval(TableOf(Decl.params, "type"))
Parents     == TLCEval(TableOf(Decl.types, "parent"))
ObjType(o)    == ObjTypes[o]
FluentType(f) == FluentTypes[f]
ParType(p)    == ParTypes[p]
\* ancestors (reflexive) by bounded iteration; the ASSUME checks that the bound reaches the fixpoint
Up(S) == S \cup {Parents[x] : x \in {y \in S : Parents[y] # ""}}
Anc == TLCEval([a \in DOMAIN Parents |-> Up(Up(Up({a})))])
ASSUME \A a \in DOMAIN Parents : Up(Anc[a]) = Anc[a]
IsSub(a, b) == b \in Anc[a]

IsConst(e) == e.op \in {"const", "obj"}
ValOf(e) == IF e.op = "obj" THEN OV(e.name) ELSE e.v
\* the type the library's expressions carry: constants have point types
TypeOfE(e) ==
   CASE e.op = "const"  -> (IF e.v.k = "b" THEN TBool
                            ELSE IF e.v.d = 1 THEN TI(e.v, e.v) ELSE TR(e.v, e.v))
     [] e.op = "obj"    -> TUser(ObjType(e.name))
     [] e.op = "fluent" -> FluentType(e.name)
     [] e.op = "param"  -> ParType(e.name)

\* =========================================================================
\* Declarative layer: value domains
\* =========================================================================
GridVals == TLCEval({BV(TRUE), BV(FALSE)} \cup {Z(i) : i \in 0..10} \cup {Q(7, 2), Q(1, 2)}
                    \cup {OV(Decl.objects[i].name) : i \in DOMAIN Decl.objects})
IsNumT(t) == t.k \in {"int", "real"}
\* membership ignoring numeric bounds
InKind(t, v) ==
   CASE t.k = "bool" -> v.k = "b"
     [] t.k = "user" -> v.k = "o" /\ IsSub(ObjType(v.o), t.name)
     [] t.k = "int"  -> v.k = "n" /\ v.d = 1
     [] t.k = "real" -> v.k = "n"
     [] OTHER -> FALSE
InDom(t, v) ==
   /\ InKind(t, v)
   /\ IsNumT(t) => /\ (t.lo.k = "none" \/ RLe(t.lo, v))
                   /\ (t.hi.k = "none" \/ RLe(v, t.hi))
\* the values an expression may take
ValueSet(e) == IF IsConst(e) THEN {ValOf(e)} ELSE {v \in GridVals : InDom(TypeOfE(e), v)}

\* ---------- the model (abstract projection of Problem + actions + instances) ----------
\* has       a Problem object exists
\* fluents   <<[name, type, default]>>   in add order; default = ENone when the fluent has none
\* tdefaults <<[type, v]>>               Problem(initial_defaults=)
\* init      <<[f, v]>>                  explicit initial values, in first-insertion order
\* effs      <<[c, kind, f, v]>>         c \in {"inst", "dur", "timed"}
\* insts     <<[t, v]>>                  ActionInstance of an action with ONE parameter of type t
Empty == [has |-> FALSE, fluents |-> <<>>, tdefaults |-> <<>>, init |-> <<>>, effs |-> <<>>, insts |-> <<>>]

HasFluent(m, f) == \E i \in DOMAIN m.fluents : m.fluents[i].name = f

\* every stored value is type-correct (value level); initial values and defaults are constants.
\* Bounds are demanded of stored CONSTANTS that are initial values / defaults / instance
\* parameters; for effect values and non-constant instance parameters only the kind (U1, U2).
StoreOK(m) ==
   /\ \A i \in DOMAIN m.fluents :
         LET r == m.fluents[i] IN r.default.op # "none" => IsConst(r.default) /\ InDom(r.type, ValOf(r.default))
   /\ \A i \in DOMAIN m.tdefaults :
         LET r == m.tdefaults[i] IN IsConst(r.v) /\ InDom(r.type, ValOf(r.v))
   /\ \A i \in DOMAIN m.init :
         LET r == m.init[i] IN IsConst(r.v) /\ InDom(FluentType(r.f), ValOf(r.v))
   /\ \A i \in DOMAIN m.effs :
         LET r == m.effs[i] t == FluentType(r.f) IN
         /\ r.kind \in {"inc", "dec"} => IsNumT(t)
         /\ \A v \in ValueSet(r.v) : InKind(t, v)
   /\ \A i \in DOMAIN m.insts :
         LET r == m.insts[i] IN
         IF IsConst(r.v) THEN InDom(r.t, ValOf(r.v)) ELSE \A v \in ValueSet(r.v) : InKind(r.t, v)

\* the public view Problem.initial_values restricted to the (0-ary) fluents of the model
InitialValues(m) ==
   {[f |-> m.init[i].f, v |-> m.init[i].v] : i \in DOMAIN m.init}
   \cup {[f |-> m.fluents[i].name, v |-> m.fluents[i].default] :
            i \in {j \in DOMAIN m.fluents : m.fluents[j].default.op # "none"
                                            /\ \A x \in DOMAIN m.init : m.init[x].f # m.fluents[j].name}}

\* =========================================================================
\* Call layer
\* =========================================================================
\* a call:  [op, c, kind, f, t, e]
\*   op = "new_problem"  t, e : the single entry of initial_defaults (t = TNone: no entry)
\*        "add_fluent"   f, e : fluent f (type from Decl) with default_initial_value e (ENone: none)
\*        "set_init"     f, e
\*        "add_effect"   c, kind \in {"assign","inc","dec"}, f, e
\*        "instance"     t, e : ActionInstance(action with one parameter of type t, (e,))
Call(op, c, kind, f, t, e) == [op |-> op, c |-> c, kind |-> kind, f |-> f, t |-> t, e |-> e]
NewProblem(t, e)      == Call("new_problem", "", "", "", t, e)
AddFluent(f, e)       == Call("add_fluent", "", "", f, TNone, e)
SetInit(f, e)         == Call("set_init", "", "", f, TNone, e)
AddEffect(c, k, f, e) == Call("add_effect", c, k, f, TNone, e)
Instance(t, e)        == Call("instance", "", "", "", t, e)

Within(vt, t) == /\ (t.lo.k = "none" \/ (vt.lo.k # "none" /\ RLe(t.lo, vt.lo)))
                 /\ (t.hi.k = "none" \/ (vt.hi.k # "none" /\ RLe(vt.hi, t.hi)))
\* type-level compatibility of a value expression with a target type:
\* "yes" | "no" | "unspec";  strict: a constant outside the bounds is incompatible
Compat3(t, e, strict) ==
   LET vt == TypeOfE(e) IN
   CASE t.k = "bool" -> IF vt.k = "bool" THEN "yes" ELSE "no"
     [] t.k = "user" -> IF vt.k = "user" /\ IsSub(vt.name, t.name) THEN "yes" ELSE "no"
     [] IsNumT(t)    -> IF ~IsNumT(vt) \/ (t.k = "int" /\ vt.k = "real") THEN "no"
                        ELSE IF Within(vt, t) THEN "yes"
                        ELSE IF strict /\ IsConst(e) THEN "no" ELSE "unspec"
     [] OTHER -> "no"
\* why a value is not (plainly) compatible -- feature of the violation signatures
Why(t, e, needconst) ==
   LET vt == TypeOfE(e) IN
   IF t.k = "user" /\ vt.k = "user" /\ ~IsSub(vt.name, t.name) THEN "usertype"
   ELSE IF Compat3(t, e, FALSE) = "no" THEN "kind"
   ELSE IF needconst /\ ~IsConst(e) THEN "nonconst"
   ELSE IF Compat3(t, e, FALSE) = "unspec" THEN "bounds"
   ELSE "compatible"

TargetOf(s) == IF s.op \in {"new_problem", "instance"} THEN s.t ELSE FluentType(s.f)
Writes(m, c, f) == \E i \in DOMAIN m.effs : m.effs[i].c = c /\ m.effs[i].f = f

\* well-formed next call (the generator's discipline, not a verdict)
Enabled(m, s) ==
   CASE s.op = "new_problem" -> ~m.has
     [] s.op = "add_fluent"  -> m.has /\ ~HasFluent(m, s.f)
     [] s.op = "set_init"    -> m.has /\ HasFluent(m, s.f)
     [] s.op = "add_effect"  -> s.c = "timed" => (m.has /\ HasFluent(m, s.f))
     [] s.op = "instance"    -> TRUE

Verdict(m, s) ==
   LET t == TargetOf(s) IN
   CASE s.op = "new_problem" ->
           IF s.t.k = "none" THEN "yes" ELSE IF ~IsConst(s.e) THEN "no" ELSE Compat3(t, s.e, TRUE)
     [] s.op = "add_fluent" ->
           IF s.e.op = "none" THEN "yes" ELSE IF ~IsConst(s.e) THEN "no" ELSE Compat3(t, s.e, TRUE)
     [] s.op = "set_init" -> IF ~IsConst(s.e) THEN "no" ELSE Compat3(t, s.e, TRUE)
     [] s.op = "add_effect" ->
           LET c3 == Compat3(t, s.e, FALSE) IN
           IF s.kind # "assign" /\ ~IsNumT(t) THEN "no"
           ELSE IF c3 = "no" THEN "no"
           ELSE IF Writes(m, s.c, s.f) THEN "unspec"                       \* U4
           ELSE IF s.c = "timed" /\ s.e.op = "param" THEN "unspec"         \* U3
           ELSE c3                                                          \* U1
     [] s.op = "instance" ->
           LET c3 == Compat3(t, s.e, TRUE) IN
           IF c3 = "no" THEN "no" ELSE IF ~IsConst(s.e) THEN "unspec" ELSE c3   \* U2
WhyOf(s) ==
   IF s.op = "add_effect" /\ s.kind # "assign" /\ ~IsNumT(TargetOf(s)) THEN "incdec-nonnumeric"
   ELSE Why(TargetOf(s), s.e, s.op \in {"new_problem", "add_fluent", "set_init"})

TDefault(m, t) == IF \E i \in DOMAIN m.tdefaults : m.tdefaults[i].type = t
                  THEN m.tdefaults[CHOOSE i \in DOMAIN m.tdefaults : m.tdefaults[i].type = t].v ELSE ENone

\* the model after the call is accepted: the given value is stored, nothing else changes
Apply(m, s) ==
   CASE s.op = "new_problem" ->
           [Empty EXCEPT !.has = TRUE,
                         !.tdefaults = IF s.t.k = "none" THEN <<>> ELSE << [type |-> s.t, v |-> s.e] >>,
                         !.effs = m.effs, !.insts = m.insts]
     [] s.op = "add_fluent" ->
           [m EXCEPT !.fluents = Append(@, [name |-> s.f, type |-> FluentType(s.f),
                                            default |-> IF s.e.op # "none" THEN s.e ELSE TDefault(m, FluentType(s.f))])]
     [] s.op = "set_init" ->
           IF \E i \in DOMAIN m.init : m.init[i].f = s.f
           THEN [m EXCEPT !.init = [i \in DOMAIN m.init |-> IF m.init[i].f = s.f THEN [f |-> s.f, v |-> s.e] ELSE m.init[i]]]
           ELSE [m EXCEPT !.init = Append(@, [f |-> s.f, v |-> s.e])]
     [] s.op = "add_effect" ->
           [m EXCEPT !.effs = Append(@, [c |-> s.c, kind |-> s.kind, f |-> s.f, v |-> s.e])]
     [] s.op = "instance" ->
           [m EXCEPT !.insts = Append(@, [t |-> s.t, v |-> s.e])]

\* ---------- the state machine ----------
VARIABLES m, last
vars == <<m, last>>
NoCall == [s |-> Call("", "", "", "", TNone, ENone), ok |-> TRUE]
Init == m = Empty /\ last = NoCall
Accepts(s) == /\ Enabled(m, s) /\ Verdict(m, s) \in {"yes", "unspec"}
              /\ m' = Apply(m, s) /\ last' = [s |-> s, ok |-> TRUE]
Rejects(s) == /\ Enabled(m, s) /\ Verdict(m, s) \in {"no", "unspec"}
              /\ UNCHANGED m /\ last' = [s |-> s, ok |-> FALSE]

\* properties of the call layer (checked by MCModelStore over a menu of calls)
Stored == StoreOK(m)
RejectUnchanged == [][~last'.ok => m' = m]_vars
=============================================================================
