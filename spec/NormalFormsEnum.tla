-------------------------- MODULE NormalFormsEnum --------------------------
(***************************************************************************)
(* G1 generator and design check (T1) for C12.                             *)
(*                                                                         *)
(* The context: a problem with Boolean fluents a, b, an integer fluent x    *)
(* in 0..2 and two objects o1, o2 of one user type (12 states).             *)
(* Leaves, in this order (NL = how many of them the compound levels use):   *)
(*   a, x <= 1, 1 <= 2, 2 <= 1, b, o1 = o2, true, false                     *)
(* so that every prefix of length >= 4 holds a state-dependent Boolean      *)
(* fluent, a state-dependent comparison, a constant-true and a              *)
(* constant-false atom.                                                     *)
(*                                                                         *)
(* Operator codes: 0 not, 1 and/2, 2 or/2, 3 implies, 4 iff, 5 and/3,       *)
(* 6 or/3.  Over a base sequence of n expressions, code c denotes           *)
(*   c < n                  not(base[c+1])                                  *)
(*   then 4 n^2 codes       binary operators, children in base (row-major)  *)
(*   then 2 n^3 codes       ternary and / or                                *)
(* Levels:  B1 = first NL leaves plus every not / binary operator over them *)
(*          E2 = B1 plus every not / binary operator over B1 (virtual)      *)
(* Families (constant Fam), each emitted as ndjson records [fam, c, e], e   *)
(* being a skeleton over the atom table Leaves (see NormalForms!Expand):   *)
(*   "d1"   every expression of depth <= 1 over ALL eight leaves, arity <= 3*)
(*   "d2"   every not / binary operator over B1        (depth <= 2)         *)
(*   "d2t"  every ternary and / or over B1             (depth <= 2)         *)
(*   "pick" one operator over children in E2, the (operator, child index)   *)
(*          tuples being read from IOEnv.PICKS          (depth <= 3)        *)
(* "d1", "d2", "d2t" emit the codes Off, Off+Step, ... of their family      *)
(* (Step = 1, Off = 0: the whole family).                                   *)
(*                                                                         *)
(* T1: TLC visits one state per emitted case and checks there that the     *)
(* mechanism layer of NormalForms (the code's algorithm with the repaired   *)
(* walk_and) meets the declarative layer; AsWritten is the same statement   *)
(* for walk_and as written in the pinned tree.                              *)
(***************************************************************************)
EXTENDS NormalForms, Json, IOUtils, SequencesExt
CONSTANTS Fam, NL, Step, Off

\* ---------- the context ----------
BoolT == [k |-> "bool"]
Prob == [name |-> "c12",
         types |-> <<[name |-> "T", parent |-> ""]>>,
         objects |-> <<[name |-> "o1", type |-> "T"], [name |-> "o2", type |-> "T"]>>,
         fluents |-> <<[name |-> "a", type |-> BoolT, sig |-> <<>>, default |-> UNDEF],
                       [name |-> "b", type |-> BoolT, sig |-> <<>>, default |-> UNDEF],
                       [name |-> "x", type |-> [k |-> "int", lo |-> NV(0, 1), hi |-> NV(2, 1)], sig |-> <<>>, default |-> UNDEF]>>,
         init |-> <<>>, actions |-> <<>>, goals |-> <<>>]
Ctx == [P |-> Prob, keys |-> << <<"a", <<>> >>, <<"b", <<>> >>, <<"x", <<>> >> >>]
St == TLCEval(States(Ctx))

\* ---------- leaves ----------
ConstB(b) == [op |-> "const", args |-> <<>>, name |-> "", v |-> BV(b), vars |-> <<>>]
ConstN(n) == [op |-> "const", args |-> <<>>, name |-> "", v |-> NV(n, 1), vars |-> <<>>]
FluentE(n) == [op |-> "fluent", args |-> <<>>, name |-> n, v |-> UNDEF, vars |-> <<>>]
ObjE(n) == [op |-> "obj", args |-> <<>>, name |-> n, v |-> UNDEF, vars |-> <<>>]
Leaves == << FluentE("a"),
             Mk("le", <<FluentE("x"), ConstN(1)>>),
             Mk("le", <<ConstN(1), ConstN(2)>>),
             Mk("le", <<ConstN(2), ConstN(1)>>),
             FluentE("b"),
             Mk("eq", <<ObjE("o1"), ObjE("o2")>>),
             ConstB(TRUE),
             ConstB(FALSE) >>

\* ---------- coding ----------
\* cases are built and emitted as skeletons over the atom table Leaves (NormalForms!Expand)
SkOp(oc, x, y, z) ==
   CASE oc = 0 -> <<1, x>>
     [] oc = 1 -> <<2, x, y>>
     [] oc = 2 -> <<3, x, y>>
     [] oc = 3 -> <<4, x, y>>
     [] oc = 4 -> <<5, x, y>>
     [] oc = 5 -> <<2, x, y, z>>
     [] oc = 6 -> <<3, x, y, z>>
NCodes(n, ar3) == n + 4 * n * n + (IF ar3 THEN 2 * n * n * n ELSE 0)
\* code -> <<operator, i, j, k>> (child indices in 1..n; 1 where unused)
Decode(n, c) ==
   IF c < n THEN <<0, c + 1, 1, 1>>
   ELSE IF c < n + 4 * n * n
        THEN LET q == c - n IN <<1 + q \div (n * n), 1 + (q % (n * n)) \div n, 1 + (q % n), 1>>
        ELSE LET q == c - n - 4 * n * n
             IN <<5 + q \div (n * n * n), 1 + (q % (n * n * n)) \div (n * n), 1 + (q % (n * n)) \div n, 1 + (q % n)>>
Build(G(_), t) == SkOp(t[1], G(t[2]), G(t[3]), G(t[4]))

\* depth <= 1 over the first nl leaves
LeafAt(i) == <<0, i>>
D1(nl, ar3) == TLCEval([i \in 1..(nl + NCodes(nl, ar3)) |->
                          IF i <= nl THEN LeafAt(i) ELSE Build(LeafAt, Decode(nl, i - nl - 1))])
B1 == D1(NL, FALSE)
N1 == Len(B1)
B1At(i) == B1[i]
N2 == N1 + NCodes(N1, FALSE)
E2At(i) == IF i <= N1 THEN B1[i] ELSE Build(B1At, Decode(N1, i - N1 - 1))

Picks == IF Fam = "pick" THEN ndJsonDeserialize(IOEnv.PICKS) ELSE <<>>
All8 == D1(8, TRUE)
\* number of codes of the family, and the skeleton of a code
FamSize == CASE Fam = "d1" -> Len(All8)
             [] Fam = "d2" -> NCodes(N1, FALSE)
             [] Fam = "d2t" -> 2 * N1 * N1 * N1
             [] Fam = "pick" -> Len(Picks)
SkOf(c) == CASE Fam = "d1" -> All8[c + 1]
             [] Fam = "d2" -> Build(B1At, Decode(N1, c))
             [] Fam = "d2t" -> Build(B1At, Decode(N1, c + N1 + 4 * N1 * N1))
             [] Fam = "pick" -> LET p == Picks[c + 1] IN
                                IF p.oc \in 0..6 /\ {p.i, p.j, p.k} \subseteq 1..N2
                                THEN Build(E2At, <<p.oc, p.i, p.j, p.k>>) ELSE Assert(FALSE, <<"bad pick", p>>)
Count == IF FamSize <= Off THEN 0 ELSE (FamSize - Off + Step - 1) \div Step
CodeOf(n) == Off + (n - 1) * Step

ASSUME ndJsonSerialize(IOEnv.OUT, [n \in 1..Count |-> [fam |-> Fam, c |-> CodeOf(n), e |-> SkOf(CodeOf(n))]])
ASSUME ndJsonSerialize(IOEnv.CTXOUT, <<[P |-> Ctx.P, keys |-> Ctx.keys, atoms |-> Leaves]>>)
ASSUME PrintT(<<"EMITTED", Count, FamSize, N1, N2, Cardinality(St)>>)

\* ---------- T1: the mechanism layer meets the declarative layer ----------
\* one state per case; the cases hang below NB block states so that TLC's workers share them
\* (m = 0 root, m = -k block k, m > 0 case m)
VARIABLE m
NB == IF Count < 64 THEN Count ELSE 64
Init == m = 0
Next == \/ m = 0 /\ m' \in {0 - k : k \in 1..NB}
        \/ m < 0 /\ m' \in {(0 - m) + NB * j : j \in 0..((Count + m) \div NB)}
Spec == Init /\ [][Next]_m
SS == TLCEval(SetToSeq(St))
N == DOMAIN SS
T == TLCEval(AtomTT(Ctx, Leaves, SS))
TrueI == 7
FalseI == 8
ASSUME Leaves[TrueI] = ConstB(TRUE) /\ Leaves[FalseI] = ConstB(FALSE)
ASSUME \A i \in DOMAIN Leaves : IsAtom(Leaves[i]) /\ AtomBool(Ctx, Leaves, SS)[i]
E == SkOf(CodeOf(m))
\* the truth table computed from the atoms' tables is UPExpr!Eval of the expanded expression
TruthTables == m > 0 => SkOK(Leaves, E) /\ TTAgreesWithEval(Ctx, Leaves, SS, E)
DesignNnf == m > 0 => LET n == MNnf(E, TRUE) IN IsNNF(n) /\ TT(T, N, n) = TT(T, N, E)
DesignDnf == m > 0 => LET d == MDnf(T, N, E, FALSE, TrueI, FalseI) IN IsDNF(d) /\ TT(T, N, d) = TT(T, N, E)
\* walk_and as written: expected to FAIL on expressions with a valid product term
AsWritten == m > 0 => LET d == MDnf(T, N, E, TRUE, TrueI, FalseI) IN IsDNF(d) /\ TT(T, N, d) = TT(T, N, E)
\* ... and only there (the as-written and the repaired mechanism differ on nothing else)
AsWrittenOnlyThere == m > 0 => \/ HasValidProductTerm(T, N, MNnf(E, TRUE))
                               \/ SkEq(MDnf(T, N, E, TRUE, TrueI, FalseI), MDnf(T, N, E, FALSE, TrueI, FalseI))
=============================================================================
