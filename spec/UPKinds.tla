------------------------------- MODULE UPKinds -------------------------------
(***************************************************************************)
(* C10 -- an independent, purely syntactic feature extractor over the      *)
(* abstract model (UPJ, harness/upj.py, plus the class sections added by   *)
(* harness/drivers/c10.py).                                                *)
(*                                                                         *)
(* Demands(P) is a set of records [any, label, pos]: the problem P uses,   *)
(* at syntactic position pos, a modelling feature whose documented name is *)
(* one of the feature names in the set `any` (docs/problem_representation  *)
(* .rst, table "Problem Kinds": one clause below per row of that table,    *)
(* transcribing the sentence of the row -- quoted in the comment of each   *)
(* clause -- and NOT the code of _KindFactory).  A computed kind K honours *)
(* a demand d iff  d.any \cap K # {}.  Almost all demands are singletons   *)
(* (FeaturesOf(P) collects them); a two-element demand is used only where  *)
(* the table leaves two readings open and both are safe for an engine:     *)
(*   * a fluent that no effect ever changes, read by an assignment value,  *)
(*     a duration or an action cost: STATIC_FLUENTS_IN_X or FLUENTS_IN_X   *)
(*     ("uses a fluent" covers static ones; declaring the general feature  *)
(*     over-approximates);                                                 *)
(*   * a numeric expression whose int/real sort cannot be decided from UPJ *)
(*     (integer-valued constants of projected problems, divisions,         *)
(*     interpreted functions): INT_* or REAL_*;                            *)
(*   * HTN task order: a weaker order class may always be declared.        *)
(* The label of such a demand is its first (most specific) feature name    *)
(* followed by "+" (printed tuples must stay short: TLC wraps long lines). *)
(* The property is one-directional: features of K that nothing demands are *)
(* never reported.                                                         *)
(*                                                                         *)
(* Unspecified zone (counted by the judge, never judged): a numeric fluent *)
(* whose only occurrences are inside duration bounds or action costs       *)
(* (INT_FLUENTS / REAL_FLUENTS: problem.py documents that those uses are   *)
(* deliberately covered by the EXPRESSION_DURATION / ACTIONS_COST_KIND     *)
(* features instead; the user documentation says "has at least one fluent  *)
(* of integer type").                                                      *)
(***************************************************************************)
EXTENDS Integers, Sequences, FiniteSets, TLC

Range(s) == {s[i] : i \in DOMAIN s}
\* concatenation of a sequence of sequences
Cat(ss) == LET RECURSIVE C(_)
               C(i) == IF i > Len(ss) THEN <<>> ELSE ss[i] \o C(i + 1)
           IN C(1)
Tag(s, pos) == [i \in DOMAIN s |-> [pos |-> pos, x |-> s[i]]]
\* effects additionally carry the container they belong to
TagIn(s, pos, owner) == [i \in DOMAIN s |-> [pos |-> pos, x |-> s[i], owner |-> owner]]

D(f, pos) == [any |-> {f}, label |-> f, pos |-> pos]
D2(f, g, pos) == [any |-> {f, g}, label |-> f \o "+", pos |-> pos]
D3(f, g, h, pos) == [any |-> {f, g, h}, label |-> f \o "+", pos |-> pos]

\* ---------- expressions ----------
RECURSIVE Ops(_)
Ops(e) == {e.op} \cup UNION {Ops(e.args[i]) : i \in DOMAIN e.args}
RECURSIVE FluentsIn(_)
FluentsIn(e) == (IF e.op = "fluent" THEN {e.name} ELSE {}) \cup UNION {FluentsIn(e.args[i]) : i \in DOMAIN e.args}
IsTrueConst(e) == e.op = "const" /\ e.v.k = "b" /\ e.v.b
IsNone(e) == e.op = "none"

\* constraints of HTN task networks that do not refer to a time point (see HtnDemands)
NonTemporalCons(cs) == SelectSeq(cs, LAMBDA c : ~(\E o \in Ops(c) : o \in {"timing-start", "timing-end", "timing-gstart", "timing-gend"}))

\* ---------- problem tables ----------
RECURSIVE Anc(_,_)
Anc(P, t) == LET ps == {P.types[i].parent : i \in {j \in DOMAIN P.types : P.types[j].name = t}}
             IN {t} \cup UNION {Anc(P, p) : p \in ps \ {""}}
ObjsOf(P, t) == {P.objects[i].name : i \in {j \in DOMAIN P.objects : t \in Anc(P, P.objects[j].type)}}
HasFluent(P, n) == \E i \in DOMAIN P.fluents : P.fluents[i].name = n
Fl(P, n) == P.fluents[CHOOSE i \in DOMAIN P.fluents : P.fluents[i].name = n]
\* "bool" | "int" | "real" | "user" | "?" (undeclared name: nothing is demanded from it)
FlKind(P, n) == IF HasFluent(P, n) THEN Fl(P, n).type.k ELSE "?"
IsBoundedNum(t) == t.k \in {"int", "real"} /\ (t.lo.k # "none" \/ t.hi.k # "none")

\* every action-like container: actions, events, processes
Containers(P) == Tag(P.actions, "action") \o Tag(P.events, "event") \o Tag(P.processes, "process")
IsDur(a) == a.kind = "dur"
EffsOf(a) == IF IsDur(a) THEN [i \in DOMAIN a.effects |-> a.effects[i].e] ELSE a.effects
CEffsOf(a) == [i \in DOMAIN a.ceffects |-> a.ceffects[i].e]

\* all effects of the problem, tagged with their syntactic position
AllEffects(P) ==
   Cat([i \in DOMAIN P.actions |-> TagIn(EffsOf(P.actions[i]), IF IsDur(P.actions[i]) THEN "durative-action-effect" ELSE "action-effect", "action " \o P.actions[i].name)])
   \o Cat([i \in DOMAIN P.actions |-> TagIn(CEffsOf(P.actions[i]), "continuous-effect", "action " \o P.actions[i].name)])
   \o Cat([i \in DOMAIN P.events |-> TagIn(P.events[i].effects, "event-effect", "event " \o P.events[i].name)])
   \o Cat([i \in DOMAIN P.processes |-> TagIn(P.processes[i].effects, "process-effect", "process " \o P.processes[i].name)])
   \o TagIn([i \in DOMAIN P.timed_effects |-> P.timed_effects[i].e], "timed-effect", "problem")

\* "static fluents (that may never change)": no effect of the problem (and no simulated effect) targets them
DynamicOf(P, AE) ==
   {AE[i].x.f.name : i \in DOMAIN AE}
   \cup UNION {Range(P.actions[i].simf) : i \in DOMAIN P.actions}
   \cup UNION {Range(P.events[i].simf) : i \in DOMAIN P.events}

\* P.invforms[i] tells how the i-th state invariant is written: "plain" (Always(e) is a trajectory constraint of its
\* own), "and" (Always(e) is a conjunct of a trajectory constraint), "forall" (Forall(Always(e)))
InvariantPos(P, i) == IF P.invforms[i] = "plain" THEN "state-invariant" ELSE "state-invariant-in-" \o P.invforms[i]

\* every Boolean expression that the problem requires to hold somewhere ("condition"), with its position
CondsOf(P, AE) ==
   Cat([i \in DOMAIN P.actions |-> Tag(P.actions[i].pre, "precondition")])
   \o Cat([i \in DOMAIN P.actions |-> Tag([j \in DOMAIN P.actions[i].conds |-> P.actions[i].conds[j].c], "durative-condition")])
   \o Cat([i \in DOMAIN P.events |-> Tag(P.events[i].pre, "event-precondition")])
   \o Cat([i \in DOMAIN P.processes |-> Tag(P.processes[i].pre, "process-precondition")])
   \o [i \in DOMAIN AE |-> [pos |-> AE[i].pos \o "-condition", x |-> AE[i].x.c]]
   \o Tag(P.goals, "goal")
   \o Tag([i \in DOMAIN P.timed_goals |-> P.timed_goals[i].g], "timed-goal")
   \o [i \in DOMAIN P.invariants |-> [pos |-> InvariantPos(P, i), x |-> P.invariants[i]]]
   \o Tag(P.traj, "trajectory-constraint")
   \o Cat([i \in DOMAIN P.metrics |-> Tag([j \in DOMAIN P.metrics[i].goals |-> P.metrics[i].goals[j].g], "oversubscription-goal")])
   \o Cat([i \in DOMAIN P.metrics |-> Tag([j \in DOMAIN P.metrics[i].tgoals |-> P.metrics[i].tgoals[j].g], "temporal-oversubscription-goal")])
   \o Cat([i \in DOMAIN P.htn.methods |-> Tag(P.htn.methods[i].pre, "method-precondition")])
   \o Cat([i \in DOMAIN P.htn.methods |-> Tag(NonTemporalCons(P.htn.methods[i].cons), "method-constraint")])
   \o Tag(NonTemporalCons(P.htn.net.cons), "task-network-constraint")
   \o Tag([i \in DOMAIN P.agoals |-> P.agoals[i].g], "agent-goal")
   \o Tag([i \in DOMAIN P.cons |-> P.cons[i].c], "scheduling-constraint")

\* ---------- int / real sort of a numeric expression in container a ----------
ParamKind(a, n) == LET I == {i \in DOMAIN a.params : a.params[i].name = n} IN
                   IF I = {} THEN "?" ELSE a.params[CHOOSE i \in I : TRUE].type.k
JoinSort(S) == IF "real" \in S THEN "real" ELSE IF S = {"int"} THEN "int" ELSE "?"
RECURSIVE Sort(_,_,_)
Sort(P, a, e) ==
   CASE e.op = "const" -> IF e.v.k # "n" THEN "?" ELSE IF e.v.d # 1 THEN "real" ELSE IF P.intconst THEN "int" ELSE "?"
     [] e.op = "fluent" -> LET k == FlKind(P, e.name) IN IF k \in {"int", "real"} THEN k ELSE "?"
     [] e.op = "param" -> LET k == ParamKind(a, e.name) IN IF k \in {"int", "real"} THEN k ELSE "?"
     [] e.op \in {"plus", "minus", "times"} -> JoinSort({Sort(P, a, e.args[i]) : i \in DOMAIN e.args})
     [] OTHER -> "?"
NoParams == [params |-> <<>>]
SortDemand(s, fint, freal, pos) == IF s = "int" THEN D(fint, pos) ELSE IF s = "real" THEN D(freal, pos) ELSE D2(fint, freal, pos)

\* a fluent read at a position where STATIC_<X> / <X> are the two features of the table
ReadDemands(Dyn, names, fstatic, fany, pos) ==
   {IF n \in Dyn THEN D(fany, pos) ELSE D2(fstatic, fany, pos) : n \in names}

\* =========================================================================
\* one clause per row of the "Problem Kinds" table
\* =========================================================================

\* PROBLEM_CLASS.  "The problem is an action-based classical, numeric or temporal planning problem." /
\* "... with hierarchical features" / "... non-deterministic initial state and observation (called sensing)
\* actions" / "... action and fluents can be divided in more than one agent" / "... a scheduling problem"
ClassDemands(P) ==
   {D(CASE P.class = "classical" -> "ACTION_BASED"
        [] P.class = "htn" -> "HIERARCHICAL"
        [] P.class = "contingent" -> "CONTINGENT"
        [] P.class = "ma" -> "ACTION_BASED_MULTI_AGENT"
        [] P.class = "scheduling" -> "SCHEDULING", "problem-class")}
   \cup {D("CONTINGENT", "sensing-action") : i \in {j \in DOMAIN P.actions : P.actions[j].sensing}}

\* TYPING.  FLAT_TYPING "The problem uses user-defined types, but no type inherits from another."
\* HIERARCHICAL_TYPING "At least one user-defined type in the problem inherits from another type."
\* the position names what uses user types: o(bjects) f(luent types) p(arameters of fluents) a(ction, event and
\* process parameters); "types:-" when only other elements (e.g. HTN tasks and methods) do
IsUser(t) == t.k = "user"
TypeUses(P) ==
   LET CS == Containers(P) IN
   (IF Len(P.objects) > 0 THEN "o" ELSE "")
   \o (IF \E i \in DOMAIN P.fluents : IsUser(P.fluents[i].type) THEN "f" ELSE "")
   \o (IF \E i \in DOMAIN P.fluents : \E j \in DOMAIN P.fluents[i].sig : IsUser(P.fluents[i].sig[j].type) THEN "p" ELSE "")
   \o (IF \E i \in DOMAIN CS : \E j \in DOMAIN CS[i].x.params : IsUser(CS[i].x.params[j].type) THEN "a" ELSE "")
TypingDemands(P) ==
   LET u == TypeUses(P)
       pos == "types:" \o (IF u = "" THEN "-" ELSE u) IN
   IF \E i \in DOMAIN P.types : P.types[i].parent # "" THEN {D("HIERARCHICAL_TYPING", pos)}
   ELSE IF Len(P.types) > 0 THEN {D("FLAT_TYPING", pos)} ELSE {}

\* fluents occurring anywhere but in duration bounds and action costs (for the unspecified zone above)
ExprsButDurCost(P, AE, C) ==
   [i \in DOMAIN C |-> C[i].x]
   \o [i \in DOMAIN AE |-> AE[i].x.v]
   \o Cat([i \in DOMAIN AE |-> AE[i].x.f.args])
   \o Cat([i \in DOMAIN P.metrics |-> IF IsNone(P.metrics[i].expr) THEN <<>> ELSE <<P.metrics[i].expr>>])
UsedButDurCost(P, AE, C) ==
   LET X == ExprsButDurCost(P, AE, C) IN
   UNION {FluentsIn(X[i]) : i \in DOMAIN X} \cup {AE[i].x.f.name : i \in DOMAIN AE}
DurExprs(P) == Cat([i \in DOMAIN P.actions |-> IF IsDur(P.actions[i]) THEN <<P.actions[i].dur.lo, P.actions[i].dur.hi>> ELSE <<>>])
CostExprs(P) ==
   Cat([i \in DOMAIN P.metrics |->
          [j \in DOMAIN P.metrics[i].costs |-> P.metrics[i].costs[j].c]
          \o (IF IsNone(P.metrics[i].default) THEN <<>> ELSE <<P.metrics[i].default>>)])
InDurOrCost(P) == LET X == DurExprs(P) \o CostExprs(P) IN UNION {FluentsIn(X[i]) : i \in DOMAIN X}
\* reads everything: a simulated effect
AnySim(P) == (\E i \in DOMAIN P.actions : P.actions[i].sim) \/ (\E i \in DOMAIN P.events : P.events[i].sim)
OnlyInDurOrCost(P, AE, C) == IF AnySim(P) THEN {} ELSE InDurOrCost(P) \ UsedButDurCost(P, AE, C)

\* FLUENTS_TYPE.  INT_FLUENTS "The problem has at least one fluent of integer type", REAL_FLUENTS
\* "... of real type", OBJECT_FLUENTS "... at least one finite-domain fluent (fluent of user-defined type)".
\* NUMBERS.  BOUNDED_TYPES "The problem uses bounded-domain numbers."
\* PARAMETERS.  BOOL_FLUENT_PARAMETERS "At least one fluent has a parameter of boolean type.",
\* BOUNDED_INT_FLUENT_PARAMETERS "At least one fluent has a parameter of bounded integer type."
FluentDemands(P, skip) ==
   UNION {LET f == P.fluents[i] IN
          (IF f.type.k = "int" /\ f.name \notin skip THEN {D("INT_FLUENTS", "fluent-type")} ELSE {})
          \cup (IF f.type.k = "real" /\ f.name \notin skip THEN {D("REAL_FLUENTS", "fluent-type")} ELSE {})
          \cup (IF f.type.k = "user" THEN {D("OBJECT_FLUENTS", "fluent-type")} ELSE {})
          \cup (IF IsBoundedNum(f.type) THEN {D("BOUNDED_TYPES", "fluent-type")} ELSE {})
          \cup UNION {(IF f.sig[j].type.k = "bool" THEN {D("BOOL_FLUENT_PARAMETERS", "fluent-parameter")} ELSE {})
                      \cup (IF f.sig[j].type.k = "int" THEN {D("BOUNDED_INT_FLUENT_PARAMETERS", "fluent-parameter")} ELSE {})
                      : j \in DOMAIN f.sig}
          : i \in DOMAIN P.fluents}
Unspecified(P) ==
   LET AE == AllEffects(P)
       skip == OnlyInDurOrCost(P, AE, CondsOf(P, AE)) IN
   {<<"numeric-fluent-only-in-duration-or-cost", n>> : n \in {m \in skip : FlKind(P, m) \in {"int", "real"}}}

\* PARAMETERS.  BOOL_ACTION_PARAMETERS "At least one action has a parameter of boolean type.",
\* BOUNDED_INT_ACTION_PARAMETERS "... of bounded integer type.", UNBOUNDED_INT_ACTION_PARAMETERS
\* "... of unbounded integer type.", REAL_ACTION_PARAMETERS "... of real type."
ParamDemands(P) ==
   LET CS == Containers(P) IN
   UNION {UNION {LET t == CS[i].x.params[j].type
                     pos == CS[i].pos \o "-parameter" IN
                 IF t.k = "bool" THEN {D("BOOL_ACTION_PARAMETERS", pos)}
                 ELSE IF t.k = "real" THEN {D("REAL_ACTION_PARAMETERS", pos)}
                 ELSE IF t.k = "int" THEN (IF t.lo.k # "none" /\ t.hi.k # "none"
                                           THEN {D("BOUNDED_INT_ACTION_PARAMETERS", pos)}
                                           ELSE {D("UNBOUNDED_INT_ACTION_PARAMETERS", pos)})
                 ELSE {}
                 : j \in DOMAIN CS[i].x.params}
          : i \in DOMAIN CS}

\* CONDITIONS_KIND.  NEGATIVE_CONDITIONS "The problem has at least one condition using the negation Boolean
\* operator.", DISJUNCTIVE_CONDITIONS "... using the Boolean "or" operator.", EQUALITIES "... using the
\* equality predicate", EXISTENTIAL_CONDITIONS / UNIVERSAL_CONDITIONS "... using the "exists" / "forall"
\* quantifier over problem objects.", INTERPRETED_FUNCTIONS_IN_CONDITIONS "... whose expression contains
\* an interpreted function."
CondFeature == [not |-> "NEGATIVE_CONDITIONS", or |-> "DISJUNCTIVE_CONDITIONS", eq |-> "EQUALITIES",
                exists |-> "EXISTENTIAL_CONDITIONS", forall |-> "UNIVERSAL_CONDITIONS",
                ifun |-> "INTERPRETED_FUNCTIONS_IN_CONDITIONS"]
ConditionDemands(C) ==
   UNION {{D(CondFeature[o], C[i].pos) : o \in Ops(C[i].x) \cap DOMAIN CondFeature} : i \in DOMAIN C}

\* EFFECTS_KIND.  CONDITIONAL_EFFECTS "At least one effect has a condition.", FORALL_EFFECTS "At least one
\* effect uses the "forall" quantifier over problem objects.", INCREASE_EFFECTS / DECREASE_EFFECTS "At
\* least one effect uses the numeric increment / decrement operator.", INCREASE_CONTINUOUS_EFFECTS /
\* DECREASE_CONTINUOUS_EFFECTS "... the continuous numeric increment / decrement operator.",
\* (STATIC_)FLUENTS_IN_{BOOLEAN,NUMERIC,OBJECT}_ASSIGNMENTS "At least one effect uses a (static) fluent in
\* the expression of a boolean / numeric / object assignment." (the expression of an assignment is its
\* value; increments and decrements by a fluent-dependent amount are numeric assignments),
\* INTERPRETED_FUNCTIONS_IN_*_ASSIGNMENTS likewise.
AssignClass(P, ef) == LET k == FlKind(P, ef.f.name) IN
                      IF k = "bool" THEN "BOOLEAN" ELSE IF k \in {"int", "real"} THEN "NUMERIC" ELSE IF k = "user" THEN "OBJECT" ELSE "?"
EffectDemands(P, AE, Dyn) ==
   UNION {LET ef == AE[i].x
              pos == AE[i].pos
              X == AssignClass(P, ef) IN
          (IF ~IsTrueConst(ef.c) THEN {D("CONDITIONAL_EFFECTS", pos)} ELSE {})
          \cup (IF Len(ef.forall) > 0 THEN {D("FORALL_EFFECTS", pos)} ELSE {})
          \cup (IF ef.kind = "inc" THEN {D("INCREASE_EFFECTS", pos)} ELSE {})
          \cup (IF ef.kind = "dec" THEN {D("DECREASE_EFFECTS", pos)} ELSE {})
          \cup (IF ef.kind = "cinc" THEN {D("INCREASE_CONTINUOUS_EFFECTS", pos)} ELSE {})
          \cup (IF ef.kind = "cdec" THEN {D("DECREASE_CONTINUOUS_EFFECTS", pos)} ELSE {})
          \cup (IF ef.kind \in {"assign", "inc", "dec"} /\ X # "?"
                THEN ReadDemands(Dyn, FluentsIn(ef.v), "STATIC_FLUENTS_IN_" \o X \o "_ASSIGNMENTS", "FLUENTS_IN_" \o X \o "_ASSIGNMENTS",
                                 pos \o (IF ef.kind = "assign" THEN "-value" ELSE "-amount"))
                     \cup (IF "ifun" \in Ops(ef.v) THEN {D("INTERPRETED_FUNCTIONS_IN_" \o X \o "_ASSIGNMENTS", pos \o "-value")} ELSE {})
                ELSE {})
          : i \in DOMAIN AE}

\* NON_LINEAR_CONTINUOUS_EFFECTS "At least one continuous effect is described by a differential equation
\* that depends on a continuous variable."  A continuous variable is a fluent changed by some continuous effect.
\* (position suffix "-other-container": the continuous variable read is changed by another action / process only)
NonLinearDemands(AE) ==
   LET CE == {j \in DOMAIN AE : AE[j].x.kind \in {"cinc", "cdec"}}
       CV == {AE[i].x.f.name : i \in CE}
       Here(i) == {AE[j].x.f.name : j \in {k \in CE : AE[k].owner = AE[i].owner}} IN
   {D("NON_LINEAR_CONTINUOUS_EFFECTS", AE[i].pos \o (IF FluentsIn(AE[i].x.v) \cap Here(i) # {} THEN "" ELSE "-other-container"))
      : i \in {j \in CE : FluentsIn(AE[j].x.v) \cap CV # {}}}

\* SIMULATED_ENTITIES.  SIMULATED_EFFECTS "The problem uses at least one simulated effect."
SimDemands(P) == LET CS == Containers(P) IN {D("SIMULATED_EFFECTS", CS[i].pos) : i \in {j \in DOMAIN CS : CS[j].x.sim}}

\* TIME.
Temporal(P) == P.class = "scheduling" \/ (\E i \in DOMAIN P.actions : IsDur(P.actions[i])) \/ Len(P.timed_effects) > 0 \/ Len(P.timed_goals) > 0
Inside(t) == (t.from = "start" /\ t.delay.n > 0) \/ (t.from = "end" /\ t.delay.n < 0)
Outside(t) == (t.from = "start" /\ t.delay.n < 0) \/ (t.from = "end" /\ t.delay.n > 0)
\* all action-relative time points at which the problem places a condition or an effect
ActionTimings(P) ==
   Cat([i \in DOMAIN P.actions |->
        IF IsDur(P.actions[i])
        THEN Cat([j \in DOMAIN P.actions[i].conds |-> Tag(<<P.actions[i].conds[j].iv.lo, P.actions[i].conds[j].iv.hi>>, "durative-condition-interval")])
             \o Tag([j \in DOMAIN P.actions[i].effects |-> P.actions[i].effects[j].t], "durative-action-effect-timing")
             \o Cat([j \in DOMAIN P.actions[i].ceffects |-> Tag(<<P.actions[i].ceffects[j].iv.lo, P.actions[i].ceffects[j].iv.hi>>, "continuous-effect-interval")])
        ELSE <<>>])
\* CONTINUOUS_TIME / DISCRETE_TIME "The temporal planning problem is defined over a continuous / discrete
\* time model."  TIMED_EFFECTS "... has effects scheduled at absolute times", TIMED_GOALS "... uses goals
\* required to be true at times different from the end of the plan", INTERMEDIATE_CONDITIONS_AND_EFFECTS
\* "... conditions or effects happening during an action (not just at the beginning or end of the
\* interval)", EXTERNAL_CONDITIONS_AND_EFFECTS "... happening outside the interval of an action (e.g. 10
\* seconds after the end of the action)", DURATION_INEQUALITIES "... at least one action with non-constant
\* duration (... a lower bound different than upper bound)", SELF_OVERLAPPING "... allows actions self
\* overlapping", PROCESSES "The problem contains processes", EVENTS "The problem contains events".
TimeDemands(P) ==
   LET tm == IF P.time.discrete THEN "DISCRETE_TIME" ELSE "CONTINUOUS_TIME"
       AT == ActionTimings(P) IN
   {D(tm, "durative-action") : i \in {j \in DOMAIN P.actions : IsDur(P.actions[j])}}
   \cup (IF Len(P.timed_effects) > 0 THEN {D(tm, "timed-effect"), D("TIMED_EFFECTS", "timed-effect")} ELSE {})
   \cup (IF Len(P.timed_goals) > 0 THEN {D(tm, "timed-goal"), D("TIMED_GOALS", "timed-goal")} ELSE {})
   \cup (IF P.class = "scheduling" THEN {D(tm, "problem-class")} ELSE {})
   \cup (IF Temporal(P) /\ P.time.selfov THEN {D("SELF_OVERLAPPING", "time-model")} ELSE {})
   \cup {D("INTERMEDIATE_CONDITIONS_AND_EFFECTS", AT[i].pos) : i \in {j \in DOMAIN AT : Inside(AT[j].x)}}
   \cup {D("EXTERNAL_CONDITIONS_AND_EFFECTS", AT[i].pos) : i \in {j \in DOMAIN AT : Outside(AT[j].x)}}
   \cup {D("DURATION_INEQUALITIES", "duration") : i \in {j \in DOMAIN P.actions : IsDur(P.actions[j]) /\ P.actions[j].dur.lo # P.actions[j].dur.hi}}
   \cup (IF Len(P.processes) > 0 THEN {D("PROCESSES", "process")} ELSE {})
   \cup (IF Len(P.events) > 0 THEN {D("EVENTS", "event")} ELSE {})

\* EXPRESSION_DURATION.  STATIC_FLUENTS_IN_DURATIONS "The duration of at least one action uses static fluents
\* (that may never change).", FLUENTS_IN_DURATIONS "... non-static fluents (that might change over the
\* course of a plan).", INTERPRETED_FUNCTIONS_IN_DURATIONS, INT_TYPE_DURATIONS / REAL_TYPE_DURATIONS "The
\* duration of at least one action is of int / real type".
DurationDemands(P, Dyn) ==
   UNION {LET a == P.actions[i] IN
          UNION {LET b == IF side = "lower" THEN a.dur.lo ELSE a.dur.hi
                     pos == "duration-" \o side \o "-bound" IN
                 ReadDemands(Dyn, FluentsIn(b), "STATIC_FLUENTS_IN_DURATIONS", "FLUENTS_IN_DURATIONS", pos)
                 \cup (IF "ifun" \in Ops(b) THEN {D("INTERPRETED_FUNCTIONS_IN_DURATIONS", pos)} ELSE {})
                 \cup {SortDemand(Sort(P, a, b), "INT_TYPE_DURATIONS", "REAL_TYPE_DURATIONS", pos)}
                 : side \in {"lower", "upper"}}
          : i \in {j \in DOMAIN P.actions : IsDur(P.actions[j])}}

\* QUALITY_METRICS, ACTIONS_COST_KIND, OVERSUBSCRIPTION_KIND.
ActNamed(P, n) == LET I == {i \in DOMAIN P.actions : P.actions[i].name = n} IN
                  IF I = {} THEN NoParams ELSE P.actions[CHOOSE i \in I : TRUE]
WeightDemand(w, pos) == IF w.d = 1 THEN D("INT_NUMBERS_IN_OVERSUBSCRIPTION", pos) ELSE D("REAL_NUMBERS_IN_OVERSUBSCRIPTION", pos)
CostDemands(P, Dyn, a, c, pos) ==
   {SortDemand(Sort(P, a, c), "INT_NUMBERS_IN_ACTIONS_COST", "REAL_NUMBERS_IN_ACTIONS_COST", pos)}
   \cup ReadDemands(Dyn, FluentsIn(c), "STATIC_FLUENTS_IN_ACTIONS_COST", "FLUENTS_IN_ACTIONS_COST", pos)
MetricDemands(P, Dyn) ==
   UNION {LET m == P.metrics[i] IN
          CASE m.kind = "costs" ->
                 {D("ACTIONS_COST", "metric")}
                 \cup UNION {CostDemands(P, Dyn, ActNamed(P, m.costs[j].a), m.costs[j].c, "action-cost") : j \in DOMAIN m.costs}
                 \cup (IF IsNone(m.default) THEN {} ELSE CostDemands(P, Dyn, NoParams, m.default, "default-action-cost"))
            [] m.kind = "length" -> {D("PLAN_LENGTH", "metric")}
            [] m.kind = "makespan" -> {D("MAKESPAN", "metric")}
            [] m.kind \in {"minfinal", "maxfinal"} -> {D("FINAL_VALUE", "metric")}
            [] m.kind = "oversub" -> {D("OVERSUBSCRIPTION", "metric")} \cup {WeightDemand(m.goals[j].w, "oversubscription-gain") : j \in DOMAIN m.goals}
            [] m.kind = "toversub" -> {D("TEMPORAL_OVERSUBSCRIPTION", "metric")} \cup {WeightDemand(m.tgoals[j].w, "temporal-oversubscription-gain") : j \in DOMAIN m.tgoals}
            [] OTHER -> {}
          : i \in DOMAIN P.metrics}

\* CONSTRAINTS_KIND.  STATE_INVARIANTS "The problem uses at least one state invariants.",
\* TRAJECTORY_CONSTRAINTS "The problem uses at least one LTL trajectory constraint."
ConstraintDemands(P) ==
   {D("STATE_INVARIANTS", InvariantPos(P, i)) : i \in DOMAIN P.invariants}
   \cup (IF Len(P.traj) > 0 THEN {D("TRAJECTORY_CONSTRAINTS", "trajectory-constraint")} ELSE {})

\* INITIAL_STATE.  UNDEFINED_INITIAL_NUMERIC "At least one numeric state variable has an undefined value in
\* the initial state.", UNDEFINED_INITIAL_SYMBOLIC "At least one symbolic (boolean or user type) state
\* variable ...".  A state variable is a ground instance of a fluent; it has a value iff the fluent has a
\* default or the instance is explicitly initialised.
DomSize(P, t) == IF t.k = "user" THEN Cardinality(ObjsOf(P, t.name))
                 ELSE IF t.k = "bool" THEN 2
                 ELSE IF t.k = "int" /\ t.lo.k # "none" /\ t.hi.k # "none" THEN t.hi.n - t.lo.n + 1
                 ELSE 0
RECURSIVE Prod(_,_)
Prod(f, S) == IF S = {} THEN 1 ELSE LET x == CHOOSE y \in S : TRUE IN f[x] * Prod(f, S \ {x})
GroundSize(P, f) == Prod([j \in DOMAIN f.sig |-> DomSize(P, f.sig[j].type)], DOMAIN f.sig)
InitDemands(P) ==
   UNION {LET f == P.fluents[i]
              given == {P.init[j].args : j \in {k \in DOMAIN P.init : P.init[k].f = f.name}} IN
          IF f.default.k = "u" /\ Cardinality(given) < GroundSize(P, f)
          THEN {D(IF f.type.k \in {"int", "real"} THEN "UNDEFINED_INITIAL_NUMERIC" ELSE "UNDEFINED_INITIAL_SYMBOLIC", "initial-state")}
          ELSE {}
          : i \in DOMAIN P.fluents}

\* HIERARCHICAL.  METHOD_PRECONDITIONS "At least one method of the problem contains preconditions",
\* TASK_NETWORK_CONSTRAINTS "At least one task network (initial task network or method) contains a
\* constraint: statement over static functions ...", INITIAL_TASK_NETWORK_VARIABLES "The initial task network
\* contains at least one existentially qualified variable.", TASK_ORDER_TOTAL "In all task networks, all
\* temporal constraints are simple precedence constraints and induce a total order over all subtasks.",
\* TASK_ORDER_PARTIAL "... At least one task network is not totally ordered.", TASK_ORDER_TEMPORAL
\* "... arbitrary temporal constraints".
\* A task network is [subtasks |-> <<identifiers>>, cons |-> <<constraints>>] (P.htn.net, and every method).
\* Time points inside constraints are leaves with op "timing-start" / "timing-end" / "timing-gstart" /
\* "timing-gend", name = identifier of the subtask they belong to ("" if none), v = delay.
\* A constraint is temporal iff it refers to a time point; a simple precedence is  end(a) < start(b).
IsTimingOp(o) == o \in {"timing-start", "timing-end", "timing-gstart", "timing-gend"}
IsTemporal(c) == \E o \in Ops(c) : IsTimingOp(o)
NonTemporal(cs) == SelectSeq(cs, LAMBDA c : ~IsTemporal(c))
IsPrecedence(c) == /\ c.op = "lt"
                   /\ c.args[1].op = "timing-end" /\ c.args[1].v.n = 0 /\ c.args[1].name # ""
                   /\ c.args[2].op = "timing-start" /\ c.args[2].v.n = 0 /\ c.args[2].name # ""
TotallyOrdered(N, E) ==
   LET RECURSIVE Cl(_,_)
       Cl(S, k) == IF k = 0 THEN S ELSE Cl(S \cup UNION {{<<p[1], q[2]>> : q \in {r \in E : r[1] = p[2]}} : p \in S}, k - 1)
       T == Cl(E, Cardinality(N))
   IN (\A x \in N : <<x, x>> \notin T) /\ (\A x \in N, y \in N : x = y \/ <<x, y>> \in T \/ <<y, x>> \in T)
\* 0 = totally ordered by simple precedences, 1 = simple precedences only, 2 = other temporal constraints
OrderLevel(net) ==
   LET T == {i \in DOMAIN net.cons : IsTemporal(net.cons[i])} IN
   IF \E i \in T : ~IsPrecedence(net.cons[i]) THEN 2
   ELSE IF TotallyOrdered(Range(net.subtasks), {<<net.cons[i].args[1].name, net.cons[i].args[2].name>> : i \in T}) THEN 0 ELSE 1
HtnNets(P) == <<P.htn.net>> \o [i \in DOMAIN P.htn.methods |-> [subtasks |-> P.htn.methods[i].subtasks, cons |-> P.htn.methods[i].cons]]
HtnDemands(P) ==
   IF P.class # "htn" THEN {}
   ELSE LET NS == HtnNets(P)
            lv == {OrderLevel(NS[i]) : i \in DOMAIN NS}
            worst == IF 2 \in lv THEN 2 ELSE IF 1 \in lv THEN 1 ELSE 0 IN
        {D("METHOD_PRECONDITIONS", "method-precondition") : i \in {j \in DOMAIN P.htn.methods : Len(P.htn.methods[j].pre) > 0}}
        \cup {D("TASK_NETWORK_CONSTRAINTS", "method-constraint") : i \in {j \in DOMAIN P.htn.methods : Len(NonTemporal(P.htn.methods[j].cons)) > 0}}
        \cup (IF Len(NonTemporal(P.htn.net.cons)) > 0 THEN {D("TASK_NETWORK_CONSTRAINTS", "task-network-constraint")} ELSE {})
        \cup (IF Len(P.htn.vars) > 0 THEN {D("INITIAL_TASK_NETWORK_VARIABLES", "task-network-variable")} ELSE {})
        \cup {IF worst = 2 THEN D("TASK_ORDER_TEMPORAL", "task-order")
              ELSE IF worst = 1 THEN D2("TASK_ORDER_PARTIAL", "TASK_ORDER_TEMPORAL", "task-order")
              ELSE D3("TASK_ORDER_TOTAL", "TASK_ORDER_PARTIAL", "TASK_ORDER_TEMPORAL", "task-order")}

\* MULTI_AGENT.  AGENT_SPECIFIC_PRIVATE_GOAL / AGENT_SPECIFIC_PUBLIC_GOAL "At least one agent has at least one
\* private / public specific goal."
AgentDemands(P) ==
   {D(IF P.agoals[i].public THEN "AGENT_SPECIFIC_PUBLIC_GOAL" ELSE "AGENT_SPECIFIC_PRIVATE_GOAL", "agent-goal") : i \in DOMAIN P.agoals}

\* SCHEDULING.  OPTIONAL_ACTIVITIES "The scheduling problem includes at least one optional activity.",
\* SCOPED_CONSTRAINTS "... at least one scoped constraint."
SchedDemands(P) ==
   {D("OPTIONAL_ACTIVITIES", "activity") : i \in {j \in DOMAIN P.actions : P.actions[j].optional}}
   \cup {D("SCOPED_CONSTRAINTS", "scheduling-constraint") : i \in {j \in DOMAIN P.cons : P.cons[j].scoped}}

Demands(P) ==
   LET AE == TLCEval(AllEffects(P))
       C == TLCEval(CondsOf(P, AE))
       Dyn == TLCEval(DynamicOf(P, AE))
       skip == TLCEval(OnlyInDurOrCost(P, AE, C)) IN
   ClassDemands(P) \cup TypingDemands(P) \cup FluentDemands(P, skip) \cup ParamDemands(P) \cup ConditionDemands(C)
   \cup EffectDemands(P, AE, Dyn) \cup NonLinearDemands(AE) \cup SimDemands(P) \cup TimeDemands(P) \cup DurationDemands(P, Dyn)
   \cup MetricDemands(P, Dyn) \cup ConstraintDemands(P) \cup InitDemands(P) \cup HtnDemands(P) \cup AgentDemands(P)
   \cup SchedDemands(P)

\* the features P certainly uses
FeaturesOf(P) == {d.label : d \in {x \in Demands(P) : Cardinality(x.any) = 1}}

\* every feature name a singleton demand can carry (UPKindsEnum checks that G1 reaches each of them)
SpecFeatures ==
   {"ACTION_BASED", "HIERARCHICAL", "CONTINGENT", "ACTION_BASED_MULTI_AGENT", "SCHEDULING",
    "FLAT_TYPING", "HIERARCHICAL_TYPING",
    "INT_FLUENTS", "REAL_FLUENTS", "OBJECT_FLUENTS", "BOUNDED_TYPES",
    "BOOL_FLUENT_PARAMETERS", "BOUNDED_INT_FLUENT_PARAMETERS",
    "BOOL_ACTION_PARAMETERS", "BOUNDED_INT_ACTION_PARAMETERS", "UNBOUNDED_INT_ACTION_PARAMETERS", "REAL_ACTION_PARAMETERS",
    "NEGATIVE_CONDITIONS", "DISJUNCTIVE_CONDITIONS", "EQUALITIES", "EXISTENTIAL_CONDITIONS", "UNIVERSAL_CONDITIONS",
    "INTERPRETED_FUNCTIONS_IN_CONDITIONS",
    "CONDITIONAL_EFFECTS", "FORALL_EFFECTS", "INCREASE_EFFECTS", "DECREASE_EFFECTS",
    "INCREASE_CONTINUOUS_EFFECTS", "DECREASE_CONTINUOUS_EFFECTS", "NON_LINEAR_CONTINUOUS_EFFECTS",
    "FLUENTS_IN_BOOLEAN_ASSIGNMENTS", "FLUENTS_IN_NUMERIC_ASSIGNMENTS", "FLUENTS_IN_OBJECT_ASSIGNMENTS",
    "INTERPRETED_FUNCTIONS_IN_BOOLEAN_ASSIGNMENTS", "INTERPRETED_FUNCTIONS_IN_NUMERIC_ASSIGNMENTS",
    "INTERPRETED_FUNCTIONS_IN_OBJECT_ASSIGNMENTS",
    "SIMULATED_EFFECTS",
    "CONTINUOUS_TIME", "DISCRETE_TIME", "TIMED_EFFECTS", "TIMED_GOALS", "INTERMEDIATE_CONDITIONS_AND_EFFECTS",
    "EXTERNAL_CONDITIONS_AND_EFFECTS", "DURATION_INEQUALITIES", "SELF_OVERLAPPING", "PROCESSES", "EVENTS",
    "FLUENTS_IN_DURATIONS", "INTERPRETED_FUNCTIONS_IN_DURATIONS", "INT_TYPE_DURATIONS", "REAL_TYPE_DURATIONS",
    "ACTIONS_COST", "PLAN_LENGTH", "MAKESPAN", "FINAL_VALUE", "OVERSUBSCRIPTION", "TEMPORAL_OVERSUBSCRIPTION",
    "FLUENTS_IN_ACTIONS_COST", "INT_NUMBERS_IN_ACTIONS_COST", "REAL_NUMBERS_IN_ACTIONS_COST",
    "INT_NUMBERS_IN_OVERSUBSCRIPTION", "REAL_NUMBERS_IN_OVERSUBSCRIPTION",
    "STATE_INVARIANTS", "TRAJECTORY_CONSTRAINTS",
    "UNDEFINED_INITIAL_NUMERIC", "UNDEFINED_INITIAL_SYMBOLIC",
    "METHOD_PRECONDITIONS", "TASK_NETWORK_CONSTRAINTS", "INITIAL_TASK_NETWORK_VARIABLES", "TASK_ORDER_TEMPORAL",
    "AGENT_SPECIFIC_PRIVATE_GOAL", "AGENT_SPECIFIC_PUBLIC_GOAL",
    "OPTIONAL_ACTIVITIES", "SCOPED_CONSTRAINTS"}
\* labels of the two- and three-way demands
SpecChoices ==
   {"STATIC_FLUENTS_IN_BOOLEAN_ASSIGNMENTS+", "STATIC_FLUENTS_IN_NUMERIC_ASSIGNMENTS+", "STATIC_FLUENTS_IN_OBJECT_ASSIGNMENTS+",
    "STATIC_FLUENTS_IN_DURATIONS+", "STATIC_FLUENTS_IN_ACTIONS_COST+", "INT_TYPE_DURATIONS+", "INT_NUMBERS_IN_ACTIONS_COST+",
    "TASK_ORDER_PARTIAL+", "TASK_ORDER_TOTAL+"}
=============================================================================
