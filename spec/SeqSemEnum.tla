------------------------------ MODULE SeqSemEnum ------------------------------
(***************************************************************************)
(* G1 generator for C01 / C02 (MC_EffectCombos): every one-action problem  *)
(* whose action has up to MaxEff effects drawn from a menu that crosses    *)
(*   effect kind      assign constant / assign fluent / increase / decrease *)
(*   target           Boolean b, unary Boolean p(x), bounded int n, unary  *)
(*                    int c(x) / c(y) with two parameters that may alias,  *)
(*                    object-valued fluent loc, parametrised target p(par) *)
(*   condition        none / true in the initial state / false / reads an  *)
(*                    undefined fluent                                     *)
(*   forall           p(w) for all w                                       *)
(* with a state invariant (none / reading the target / a bound) and two    *)
(* initial states.  The problems are emitted as UPJ records (ndjson) and   *)
(* go through the same pipeline as the random corpus: real simulator ->    *)
(* observation graph -> SeqSemObs.                                         *)
(***************************************************************************)
EXTENDS Integers, Sequences, FiniteSets, TLC, Json, IOUtils, SequencesExt, FiniteSetsExt

CONSTANT MaxEff

U == [k |-> "u"]
BV(x) == [k |-> "b", b |-> x]
NV(n) == [k |-> "n", n |-> n, d |-> 1]
OV(o) == [k |-> "o", o |-> o]
NONE == [k |-> "none"]

E(op, args, name, v, vars) == [op |-> op, args |-> args, name |-> name, v |-> v, vars |-> vars]
C(v) == E("const", <<>>, "", v, <<>>)
F0(n) == E("fluent", <<>>, n, U, <<>>)
F1(n, a) == E("fluent", <<a>>, n, U, <<>>)
Obj(o) == E("obj", <<>>, o, U, <<>>)
Par(p) == E("param", <<>>, p, U, <<>>)
Var(x) == E("var", <<>>, x, U, <<>>)
Not(e) == E("not", <<e>>, "", U, <<>>)
Le(a, b) == E("le", <<a, b>>, "", U, <<>>)
Eq(a, b) == E("eq", <<a, b>>, "", U, <<>>)
Or2(a, b) == E("or", <<a, b>>, "", U, <<>>)
Plus2(a, b) == E("plus", <<a, b>>, "", U, <<>>)
TRUE_E == C(BV(TRUE))

TT == [k |-> "user", name |-> "T"]
BoolT == [k |-> "bool"]
IntB == [k |-> "int", lo |-> NV(0), hi |-> NV(3)]
IntU == [k |-> "int", lo |-> NONE, hi |-> NONE]

Eff(kind, fname, fargs, v, c, forall) ==
   [kind |-> kind, f |-> [name |-> fname, args |-> fargs], v |-> v, c |-> c, forall |-> forall]

\* conditions: none, true initially (q), false initially (not q), undefined (u has no value)
Conds == <<TRUE_E, F0("q"), Not(F0("q")), F0("u")>>

W == <<[name |-> "w", type |-> TT]>>

\* the effect menu (uniform record shape)
Menu ==
   {Eff("assign", "b", <<>>, C(BV(TRUE)), Conds[i], <<>>) : i \in 1..4}
   \cup {Eff("assign", "b", <<>>, C(BV(FALSE)), Conds[i], <<>>) : i \in 1..3}
   \cup {Eff("assign", "b", <<>>, Not(F0("b")), TRUE_E, <<>>)}
   \cup {Eff("assign", "p", <<Obj("o1")>>, C(BV(TRUE)), Conds[i], <<>>) : i \in 1..2}
   \cup {Eff("assign", "p", <<Par("x")>>, C(BV(FALSE)), Conds[i], <<>>) : i \in {1, 3}}
   \cup {Eff("assign", "p", <<Var("w")>>, C(BV(TRUE)), TRUE_E, W)}
   \cup {Eff("assign", "p", <<Var("w")>>, C(BV(FALSE)), F1("p", Var("w")), W)}
   \cup {Eff("assign", "n", <<>>, C(NV(1)), Conds[i], <<>>) : i \in 1..3}
   \cup {Eff("assign", "n", <<>>, C(NV(2)), Conds[i], <<>>) : i \in {1, 2}}
   \cup {Eff("assign", "n", <<>>, Plus2(F0("m"), C(NV(1))), TRUE_E, <<>>)}
   \cup {Eff("inc", "n", <<>>, C(NV(1)), Conds[i], <<>>) : i \in 1..3}
   \cup {Eff("inc", "n", <<>>, C(NV(2)), TRUE_E, <<>>)}
   \cup {Eff("dec", "n", <<>>, C(NV(1)), Conds[i], <<>>) : i \in {1, 2}}
   \cup {Eff("inc", "n", <<>>, F0("m"), TRUE_E, <<>>)}
   \cup {Eff("assign", "m", <<>>, F0("n"), TRUE_E, <<>>)}
   \cup {Eff("assign", "loc", <<>>, Obj("o2"), Conds[i], <<>>) : i \in {1, 2}}
   \cup {Eff("assign", "loc", <<>>, Par("x"), TRUE_E, <<>>)}
   \cup {Eff("assign", "p", <<F0("loc")>>, C(BV(TRUE)), TRUE_E, <<>>)}
   \* two parameters that may denote the same object (a(o1, o1)): effects on c(x) and c(y), p(x) and p(y)
   \cup {Eff("inc", "c", <<Par("x")>>, C(NV(1)), TRUE_E, <<>>), Eff("inc", "c", <<Par("y")>>, C(NV(1)), TRUE_E, <<>>)}
   \cup {Eff("assign", "c", <<Par("y")>>, C(NV(2)), TRUE_E, <<>>), Eff("dec", "c", <<Par("y")>>, C(NV(1)), F0("q"), <<>>)}
   \cup {Eff("assign", "p", <<Par("y")>>, C(BV(TRUE)), TRUE_E, <<>>)}

Invs == << <<>>, <<Le(F0("n"), C(NV(2)))>>, <<Or2(F0("b"), F1("p", Obj("o1")))>>, <<Not(F1("p", F0("loc")))>> >>

Fluents == <<
   [name |-> "b", type |-> BoolT, sig |-> <<>>, default |-> BV(FALSE)],
   [name |-> "q", type |-> BoolT, sig |-> <<>>, default |-> BV(TRUE)],
   [name |-> "u", type |-> BoolT, sig |-> <<>>, default |-> U],
   [name |-> "p", type |-> BoolT, sig |-> <<[name |-> "x", type |-> TT]>>, default |-> BV(FALSE)],
   [name |-> "n", type |-> IntB, sig |-> <<>>, default |-> NV(1)],
   [name |-> "m", type |-> IntU, sig |-> <<>>, default |-> NV(2)],
   [name |-> "loc", type |-> TT, sig |-> <<>>, default |-> OV("o1")],
   [name |-> "c", type |-> IntU, sig |-> <<[name |-> "x", type |-> TT]>>, default |-> NV(0)] >>

Inits == << <<>>,
            <<[f |-> "b", args |-> <<>>, v |-> BV(TRUE)], [f |-> "n", args |-> <<>>, v |-> NV(3)],
              [f |-> "p", args |-> <<OV("o2")>>, v |-> BV(TRUE)]>> >>

NoMetric == [kind |-> "none", costs |-> <<>>, default |-> E("none", <<>>, "", U, <<>>),
             expr |-> E("none", <<>>, "", U, <<>>), goals |-> <<>>]

Problem(effs, inv, init) ==
   [name |-> "g1",
    types |-> <<[name |-> "T", parent |-> ""]>>,
    objects |-> <<[name |-> "o1", type |-> "T"], [name |-> "o2", type |-> "T"]>>,
    fluents |-> Fluents,
    init |-> init,
    actions |-> <<[name |-> "a", kind |-> "inst", params |-> <<[name |-> "x", type |-> TT], [name |-> "y", type |-> TT]>>,
                   pre |-> <<>>, effects |-> effs, conds |-> <<>>, dur |-> NONE, sim |-> FALSE]>>,
    goals |-> <<F0("b")>>,
    invariants |-> inv, traj |-> <<>>, timed_goals |-> <<>>, timed_effects |-> <<>>,
    metric |-> NoMetric, nmetrics |-> 0, ifuns |-> <<>>]

\* The menu is emitted once (as a sequence); a case is (indices of its effects, invariant index,
\* initial-state index): the driver assembles Problem(effects, Invs[i], Inits[j]) from the template.
MenuSeq == SetToSeq(Menu)
IdxSets == UNION {kSubset(k, DOMAIN MenuSeq) : k \in 1..MaxEff}
Cases == {[effs |-> SetToSeq(S), inv |-> i, init |-> j] : S \in IdxSets, i \in DOMAIN Invs, j \in DOMAIN Inits}
Header == [menu |-> MenuSeq, invs |-> Invs, inits |-> Inits, template |-> Problem(<<>>, <<>>, <<>>)]

ASSUME JsonSerialize(IOEnv.HEADER, Header)
ASSUME ndJsonSerialize(IOEnv.OUT, SetToSeq(Cases))
ASSUME PrintT(<<"EMITTED", Cardinality(Cases)>>)
VARIABLE dummy
Init == dummy = 0
Next == UNCHANGED dummy
=============================================================================
