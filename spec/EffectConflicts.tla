--------------------------- MODULE EffectConflicts ---------------------------
(***************************************************************************)
(* Conflict detection between the effects (and the simulated effect) that  *)
(* are added to one time point of an InstantaneousAction, a DurativeAction *)
(* or a Problem (timed effects), as implemented by                         *)
(*   unified_planning.model.effect.check_conflicting_effects,              *)
(*   unified_planning.model.effect.check_conflicting_simulated_effects,    *)
(*   UntimedEffectMixin / TimedCondsEffs / Problem ._add_effect_instance,  *)
(*   .set_simulated_effect.                                                *)
(*                                                                         *)
(* Two layers, advanced in lock-step by the single action Call(x):         *)
(*  - Impl layer (eff, assigned, incdec, sim): shaped like the Python      *)
(*    object.  eff[t] is the list _effects[t]; assigned[t] the dictionary  *)
(*    _fluents_assigned[t] (fluent -> value of the first unconditional     *)
(*    assignment, NoVal = absent); incdec[t] the set _fluents_inc_dec[t];  *)
(*    sim[t] the simulated effect set at t (0 = None).  ImplCheck follows  *)
(*    the branches of the code in the order in which the code tests,       *)
(*    updates and raises.                                                  *)
(*  - Spec layer (seff, ssim): the accepted collection.  A call is         *)
(*    rejected iff it pair-conflicts with a member of the collection       *)
(*    (ConflictSpec: a collection conflicts iff some pair does -- order-   *)
(*    free by definition); a rejected call changes nothing.                *)
(*                                                                         *)
(* Property C24: the raise verdicts of the two layers coincide, a rejected *)
(* call leaves stored effects and bookkeeping unchanged, the bookkeeping   *)
(* is a function of the stored effects, and whether a collection raises is *)
(* Conflicts(collection) whatever the insertion order.                     *)
(*                                                                         *)
(* Repaired = FALSE models the code as it is written: in the increase /    *)
(* decrease branch `fluents_inc_dec.add(fluent)` is executed BEFORE the    *)
(* test against the simulated effect raises.  Repaired = TRUE models the   *)
(* proposed repair (test first, then add).                                 *)
(***************************************************************************)
EXTENDS Integers, Sequences, FiniteSets, TLC

CONSTANTS Level,     \* 1 = core universe of calls, 2 = full universe
          NT,        \* time points are 1..NT (an InstantaneousAction has one)
          MaxOps,    \* bound on the number of public calls (T1)
          Repaired   \* BOOLEAN, see above

Tm     == 1..NT
NumFl  == {"f", "g"}            \* f : integer fluent, g : real fluent
BoolFl == {"b"}
Fl     == NumFl \cup BoolFl
IncDec == {"inc", "dec"}
NoVal  == 0

(* Values of assignments are abstract ids.  1 = Int 1, 2 = Int 2,           *)
(* 3 = Real 1 (a different expression node with the same constant value as *)
(* 1, only well-typed for the real fluent), 4 = h + 1, 5 = 1 + h (a         *)
(* syntactically different expression).  For the Boolean fluent 1 = true,  *)
(* 2 = false.  Two values are "the same" iff they are the same expression  *)
(* or constants with equal value -- an equivalence relation.               *)
SameVal(v, w) == v = w \/ {v, w} = {1, 3}
ValsOf(x) == IF x = "f" THEN {1, 2, 4, 5} ELSE IF x = "g" THEN {1, 2, 3, 4, 5} ELSE {1, 2}

\* simulated effects: 1 writes {f}, 2 writes {g}, 3 writes {f, b}
Sims == 1..3
SimFl(s) == IF s = 1 THEN {"f"} ELSE IF s = 2 THEN {"g"} ELSE IF s = 3 THEN {"f", "b"} ELSE {}

\* one public call: add_effect / add_increase_effect / add_decrease_effect / set_simulated_effect
\*   k kind, fl fluent ("-" for sim), v value id, c conditional?, s simulated-effect id, t time point
Op(k, fl, v, c, s, t) == [k |-> k, fl |-> fl, v |-> v, c |-> c, s |-> s, t |-> t]
NoOp == Op("none", "-", 0, FALSE, 0, 0)
IsSim(x) == x.k = "sim"
IsEff(x) == x.k \in {"assign"} \cup IncDec

-----------------------------------------------------------------------------
(* The universe of calls (G1); Level 1 \subseteq Level 2; Probes \subseteq Level 1 *)

Probes1 == {Op("assign", "f", 1, FALSE, 0, 1), Op("assign", "f", 2, FALSE, 0, 1), Op("inc", "f", 1, FALSE, 0, 1),
            Op("assign", "g", 1, FALSE, 0, 1), Op("assign", "g", 2, FALSE, 0, 1), Op("assign", "g", 4, FALSE, 0, 1),
            Op("inc", "g", 1, FALSE, 0, 1), Op("assign", "b", 1, FALSE, 0, 1),
            Op("sim", "-", 0, FALSE, 1, 1), Op("sim", "-", 0, FALSE, 2, 1)}
Core1 == Probes1 \cup {Op("assign", "f", 2, TRUE, 0, 1), Op("dec", "f", 1, FALSE, 0, 1),
                       Op("inc", "f", 1, TRUE, 0, 1), Op("assign", "g", 3, FALSE, 0, 1)}
Full1 == {Op("assign", x, v, c, 0, 1) : x \in {"f"}, v \in ValsOf("f"), c \in BOOLEAN}
         \cup {Op("assign", x, v, c, 0, 1) : x \in {"g"}, v \in ValsOf("g"), c \in BOOLEAN}
         \cup {Op("assign", x, v, c, 0, 1) : x \in {"b"}, v \in ValsOf("b"), c \in BOOLEAN}
         \cup {Op(k, x, 1, c, 0, 1) : k \in IncDec, x \in NumFl, c \in BOOLEAN}
         \cup {Op("sim", "-", 0, FALSE, s, 1) : s \in Sims}
Base1 == IF Level = 1 THEN Core1 ELSE Full1
UniverseSet == {[o EXCEPT !.t = t] : o \in Base1, t \in Tm}
ProbeSet    == {[o EXCEPT !.t = t] : o \in Probes1, t \in Tm}

\* a fixed enumeration of the universe (independent of TLC's internal set order)
KIdx(k) == IF k = "assign" THEN 1 ELSE IF k = "inc" THEN 2 ELSE IF k = "dec" THEN 3 ELSE 4
FIdx(x) == IF x = "f" THEN 1 ELSE IF x = "g" THEN 2 ELSE IF x = "b" THEN 3 ELSE 0
Key(o) == o.t * 100000 + KIdx(o.k) * 10000 + FIdx(o.fl) * 1000 + o.v * 100 + o.s * 10 + (IF o.c THEN 1 ELSE 0)
Universe == TLCEval([i \in 1..Cardinality(UniverseSet) |->
                CHOOSE o \in UniverseSet : Cardinality({p \in UniverseSet : Key(p) < Key(o)}) = i - 1])
NU == Cardinality(UniverseSet)

\* which calls a container offers: "ia" InstantaneousAction (one time point), "da" DurativeAction,
\* "pb" Problem timed effects (no simulated effects)
Containers == {"ia", "da", "pb"}
Supports(cn, o) == IF cn = "ia" THEN o.t = 1 ELSE IF cn = "pb" THEN ~IsSim(o) ELSE TRUE

-----------------------------------------------------------------------------
(* Spec layer: ConflictSpec *)

\* effects that take part in construction-time conflict detection: unconditional, non-Boolean fluent
Hard(e) == IsEff(e) /\ ~e.c /\ e.fl \notin BoolFl

PairConflict(x, y) ==
   /\ x.t = y.t
   /\ \/ /\ Hard(x) /\ Hard(y) /\ x.fl = y.fl
         /\ \/ x.k = "assign" /\ y.k = "assign" /\ ~SameVal(x.v, y.v)
            \/ x.k = "assign" /\ y.k \in IncDec
            \/ x.k \in IncDec /\ y.k = "assign"
      \/ IsSim(x) /\ Hard(y) /\ y.fl \in SimFl(x.s)
      \/ IsSim(y) /\ Hard(x) /\ x.fl \in SimFl(y.s)

Conflicts(C) == \E x \in C : \E y \in C : PairConflict(x, y)

RangeOf(q) == {q[i] : i \in DOMAIN q}
SimOp(s, t) == Op("sim", "-", 0, FALSE, s, t)
\* the collection present at x's time point (se: accepted effects there, ss: simulated effect there)
Current(se, ss, t) == RangeOf(se) \cup (IF ss = 0 THEN {} ELSE {SimOp(ss, t)})
\* set_simulated_effect REPLACES the simulated effect: the new one is never compared with the old
SpecRaise(x, se, ss) == \E y \in Current(se, ss, x.t) : PairConflict(x, y)

-----------------------------------------------------------------------------
(* Impl layer: one time point's bookkeeping, in the order of the code *)

R(raise, why, A, D, S) == [raise |-> raise, why |-> why, assigned |-> A, incdec |-> D, sim |-> S]

ImplCheck(x, A, D, S) ==
   IF IsSim(x)
   THEN \* check_conflicting_simulated_effects, then self._simulated_effect = ...
        IF \E y \in SimFl(x.s) : y \in D \/ A[y] # NoVal
        THEN R(TRUE, "sim-effects", A, D, S)
        ELSE R(FALSE, "none", A, D, x.s)
   ELSE IF x.c \/ x.fl \in BoolFl
   THEN R(FALSE, "none", A, D, S)                       \* not checked, not recorded
   ELSE IF x.k = "assign"
   THEN IF x.fl \in D THEN R(TRUE, "assign-incdec", A, D, S)
        ELSE IF S # 0 /\ x.fl \in SimFl(S) THEN R(TRUE, "assign-sim", A, D, S)
        ELSE IF A[x.fl] # NoVal
             THEN IF ~SameVal(A[x.fl], x.v) THEN R(TRUE, "assign-assign", A, D, S)
                  ELSE R(FALSE, "none", A, D, S)
             ELSE R(FALSE, "none", [A EXCEPT ![x.fl] = x.v], D, S)
   ELSE \* increase / decrease
        IF A[x.fl] # NoVal THEN R(TRUE, "incdec-assign", A, D, S)
        ELSE IF S # 0 /\ x.fl \in SimFl(S)
             THEN \* as written: fluents_inc_dec.add(...) precedes this raise
                  R(TRUE, "incdec-sim", A, IF Repaired THEN D ELSE D \cup {x.fl}, S)
             ELSE R(FALSE, "none", A, D \cup {x.fl}, S)

\* what the bookkeeping should be, as a function of the stored effects of one time point
FirstAssign(q, x) ==
   LET idx == {i \in DOMAIN q : Hard(q[i]) /\ q[i].k = "assign" /\ q[i].fl = x} IN
   IF idx = {} THEN NoVal ELSE q[CHOOSE i \in idx : \A j \in idx : i <= j].v
AssignedOf(q) == [x \in Fl |-> FirstAssign(q, x)]
IncDecOf(q) == {q[i].fl : i \in {i \in DOMAIN q : Hard(q[i]) /\ q[i].k \in IncDec}}

-----------------------------------------------------------------------------
VARIABLES eff, assigned, incdec, sim,     \* Impl layer
          seff, ssim,                     \* Spec layer
          last, calls, anyRaised, nops    \* history variables
impl == <<eff, assigned, incdec, sim>>
vars == <<eff, assigned, incdec, sim, seff, ssim, last, calls, anyRaised, nops>>

Init == /\ eff = [t \in Tm |-> <<>>]
        /\ assigned = [t \in Tm |-> [x \in Fl |-> NoVal]]
        /\ incdec = [t \in Tm |-> {}]
        /\ sim = [t \in Tm |-> 0]
        /\ seff = [t \in Tm |-> <<>>]
        /\ ssim = [t \in Tm |-> 0]
        /\ last = [op |-> NoOp, raised |-> FALSE, why |-> "none", spec |-> FALSE]
        /\ calls = [t \in Tm |-> {}]
        /\ anyRaised = [t \in Tm |-> FALSE]
        /\ nops = 0

Call(x) ==
   /\ nops < MaxOps
   /\ LET t  == x.t
          r  == ImplCheck(x, assigned[t], incdec[t], sim[t])
          sr == SpecRaise(x, seff[t], ssim[t])
      IN /\ assigned' = [assigned EXCEPT ![t] = r.assigned]
         /\ incdec' = [incdec EXCEPT ![t] = r.incdec]
         /\ sim' = [sim EXCEPT ![t] = r.sim]
         /\ eff' = IF r.raise \/ IsSim(x) THEN eff ELSE [eff EXCEPT ![t] = Append(@, x)]   \* append after the check
         /\ seff' = IF sr \/ IsSim(x) THEN seff ELSE [seff EXCEPT ![t] = Append(@, x)]
         /\ ssim' = IF sr \/ ~IsSim(x) THEN ssim ELSE [ssim EXCEPT ![t] = x.s]
         /\ last' = [op |-> x, raised |-> r.raise, why |-> r.why, spec |-> sr]
         /\ calls' = [calls EXCEPT ![t] = @ \cup {x}]
         /\ anyRaised' = [anyRaised EXCEPT ![t] = @ \/ r.raise]
   /\ nops' = nops + 1

\* one named action per outcome of the check (failure paths are separate actions, so that
\* TLC's per-action coverage shows that every branch of ImplCheck is exercised)
\* (guards first: no outcome is computed for histories at the bound)
WhyOf(x) == ImplCheck(x, assigned[x.t], incdec[x.t], sim[x.t]).why
Accept(x)             == nops < MaxOps /\ WhyOf(x) = "none" /\ Call(x)
RejectSimEffects(x)   == nops < MaxOps /\ WhyOf(x) = "sim-effects" /\ Call(x)
RejectAssignIncDec(x) == nops < MaxOps /\ WhyOf(x) = "assign-incdec" /\ Call(x)
RejectAssignSim(x)    == nops < MaxOps /\ WhyOf(x) = "assign-sim" /\ Call(x)
RejectAssignAssign(x) == nops < MaxOps /\ WhyOf(x) = "assign-assign" /\ Call(x)
RejectIncDecAssign(x) == nops < MaxOps /\ WhyOf(x) = "incdec-assign" /\ Call(x)
RejectIncDecSim(x)    == nops < MaxOps /\ WhyOf(x) = "incdec-sim" /\ Call(x)

Next == \E x \in UniverseSet :
           \/ Accept(x) \/ RejectSimEffects(x) \/ RejectAssignIncDec(x) \/ RejectAssignSim(x)
           \/ RejectAssignAssign(x) \/ RejectIncDecAssign(x) \/ RejectIncDecSim(x)
Spec == Init /\ [][Next]_vars

-----------------------------------------------------------------------------
(* The property (C24) relating the layers *)

\* the code raises exactly when the accepted collection plus the new call has a conflicting pair
VerdictOK == last.raised = last.spec

\* stored effects and simulated effect are the accepted collection
StoredOK == eff = seff /\ sim = ssim

\* the conflict bookkeeping is a function of the stored effects (nothing is left by rejected calls)
BookkeepingOK == \A t \in Tm : assigned[t] = AssignedOf(eff[t]) /\ incdec[t] = IncDecOf(eff[t])

\* a rejected insertion leaves stored effects and bookkeeping unchanged
RejectUnchanged == [][last'.raised => UNCHANGED impl]_vars

\* the accepted collection never contains a conflicting pair
AcceptedConsistent == \A t \in Tm : ~Conflicts(Current(seff[t], ssim[t], t))

\* order independence: with at most one simulated effect in the collection (set_simulated_effect
\* replaces, so two different ones are not a collection "added at the same time point"), some call
\* raises iff the collection of all attempted calls has a conflicting pair -- whatever the order
OneSim(C) == Cardinality({x.s : x \in {y \in C : IsSim(y)}}) <= 1
OrderFree == \A t \in Tm : OneSim(calls[t]) => (anyRaised[t] <=> Conflicts(calls[t]))

\* fluents the Impl bookkeeping holds without a stored effect justifying them
Leaked(t) == incdec[t] \ IncDecOf(eff[t])
=============================================================================
