---- MODULE MCUPStateSM ----
(* exhaustive configurations of UPStateSM (T1).                                             *)
(* three fluents -- default 0, default 1, no default -- and two values; either every        *)
(* dictionary over them (27) or every dictionary with at most one key (7); two fluents      *)
(* (default 0, no default) with all 9 dictionaries for deeper trees; all root/base limits.  *)
EXTENDS UPStateSM
Def3       == <<0, 1, ND>>
Def2       == <<0, ND>>
ValMC      == {0, 1}
DictsAll   == [F -> ValMC \cup {ABS}]
DictsOne   == {d \in DictsAll : Cardinality({f \in F : d[f] # ABS}) <= 1}
LimsMC     == {1, 2, NONE}
====
