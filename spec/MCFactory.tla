------------------------------ MODULE MCFactory ------------------------------
(***************************************************************************)
(* T1 for C32: the Impl layer of Factory (factory.py as written) against   *)
(* the Spec layer, exhaustively over small registries.                     *)
(*                                                                         *)
(* Registries: engines 1, 2 (and 3 when Three)       drawn from a menu of  *)
(* capability profiles over the features Feats; plan kinds P (offered) and  *)
(* Q (offered by nobody); compilation kinds C, D (offered) and E (nobody); *)
(* guarantees O / A (offered) and Z (nobody).  A compiler's                *)
(* resulting_problem_kind removes the features `rem` (or raises: boom).    *)
(* Preference lists: every duplicate-free sequence over the registered     *)
(* names (incl. the empty one and lists omitting registered engines).      *)
(* Requests: every well-formed request over these values; pipelines: every *)
(* sequence of 1..MaxPipe compilation kinds from {C, D, E}.                *)
(* Menu = "all": every profile, single requests; "comp": compilers (and    *)
(* compiler+planner hybrids), pipelines.  Overlap: only registries whose   *)
(* engines share an operation mode with engine 1 (the quick tier)  .       *)
(***************************************************************************)
EXTENDS Factory
CONSTANTS Menu, Three, MaxPipe, Feats, Overlap, FullPrefs

F2 == SUBSET Feats      \* Feats = {"f"} or {"f", "g"}
Prof(m, fs, p, c, o, a, rm, boom) ==
   [modes |-> m, feats |-> fs, plans |-> p, comps |-> c, opt |-> o, any |-> a, rem |-> rm, boom |-> boom]
Opts == {{}, {"O"}}
Anys == {{}, {"A"}}
Plans == {{}, {"P"}}
Comps == {{}, {"C"}, {"C", "D"}}

PlannerProfiles ==
   {Prof({"oneshot_planner"}, fs, {}, {}, o, {}, {}, FALSE) : fs \in F2, o \in Opts}
   \cup {Prof({"oneshot_planner", "anytime_planner"}, fs, {}, {}, o, a, {}, FALSE) : fs \in F2, o \in Opts, a \in Anys}
   \cup {Prof({"oneshot_planner", "plan_repairer"}, fs, p, {}, o, {}, {}, FALSE) : fs \in F2, o \in Opts, p \in Plans}
   \cup {Prof({m}, fs, {}, {}, o, {}, {}, FALSE) : m \in {"replanner", "portfolio_selector"}, fs \in F2, o \in Opts}
   \cup {Prof({"plan_repairer"}, fs, p, {}, o, {}, {}, FALSE) : fs \in F2, o \in Opts, p \in Plans}
OtherProfiles ==
   {Prof({"plan_validator"}, fs, p, {}, {}, {}, {}, FALSE) : fs \in F2, p \in Plans}
   \cup {Prof({"plan_validator", "plan_repairer"}, fs, p, {}, o, {}, {}, FALSE) : fs \in F2, p \in Plans, o \in Opts}
   \cup {Prof({m}, fs, {}, {}, {}, {}, {}, FALSE) : m \in {"sequential_simulator", "action_selector"}, fs \in F2}
CompilerProfiles ==
   {Prof({"compiler"}, fs, {}, c, {}, {}, rm, FALSE) : fs \in F2, c \in Comps, rm \in {{}} \cup {{x} : x \in Feats}}
   \cup {Prof({"compiler"}, Feats, {}, {"C", "D"}, {}, {}, {}, TRUE)}
   \cup {Prof({"compiler", "oneshot_planner"}, fs, {}, c, o, {}, {"g"}, FALSE) : fs \in F2, c \in {{}, {"C"}}, o \in Opts}   \* "g" may be absent from Feats

Profiles == IF Menu = "all" THEN PlannerProfiles \cup OtherProfiles \cup CompilerProfiles ELSE CompilerProfiles

Names == IF Three THEN 1..3 ELSE 1..2
\* duplicate-free sequences over Names, plus one list with a repeated name
\* (FullPrefs = FALSE: only the permutations of all names and the repeated list)
PrefMenu == UNION {{p \in [1..n -> Names] : \A i, j \in 1..n : i # j => p[i] # p[j]} :
                      n \in (IF FullPrefs THEN 0 ELSE Cardinality(Names))..Cardinality(Names)}
            \cup {<<2, 1, 2>>}

OG == {None, "O", "Z"}
AG == {None, "A", "Z"}
PK == {None, "P", "Q"}
CK == {None, "C", "D", "E"}
Requests ==
   {r \in {Req(m, fs, ck, pk, og, ag) : m \in Modes, fs \in F2, ck \in CK, pk \in PK, og \in OG, ag \in AG} : WellFormed(r)}
RECURSIVE SeqsUpTo(_)
SeqsUpTo(n) == IF n = 0 THEN {<<>>} ELSE LET S == SeqsUpTo(n - 1) IN S \cup {Append(s, c) : s \in {t \in S : Len(t) = n - 1}, c \in {"C", "D", "E"}}
Pipelines == SeqsUpTo(MaxPipe)

VARIABLES phase, reg, prefs
vars == <<phase, reg, prefs>>

Init == /\ phase = 0 /\ prefs = <<>> /\ reg \in [{1} -> Profiles]
Next == /\ phase = 0 /\ phase' = 1
        /\ \E rest \in [Names \ {1} -> Profiles] :
              /\ Overlap => \A n \in Names \ {1} : rest[n].modes \cap reg[1].modes # {}
              /\ reg' = [n \in Names |-> IF n = 1 THEN reg[1] ELSE rest[n]]
        /\ prefs' \in PrefMenu
Spec == Init /\ [][Next]_vars

\* resulting_problem_kind of the registry's compilers as a table
F2Seq == CHOOSE s \in [1..Cardinality(F2) -> F2] : Range(s) = F2
RKTab == [key \in (DOMAIN reg) \X {"C", "D", "E"} |->
            [j \in DOMAIN F2Seq |->
               [in |-> F2Seq[j],
                out |-> IF reg[key[1]].boom THEN [k |-> "exc", f |-> {}, x |-> "Boom"]
                        ELSE [k |-> "kind", f |-> F2Seq[j] \ reg[key[1]].rem, x |-> ""]]]]

Ready == phase = 1

\* One request: (1) the scan as written computes the declarative Select; (2..4) the property's
\* clauses stated directly on the Impl layer: the returned engine is listed, qualifies, is the
\* first such, and None <=> no listed engine qualifies; (5) get_all_applicable_engines;
\* (6) the judge's clauses accept the Impl answer and reject every other registered engine.
SingleClauses(r) ==
   LET n == ImplSelect(reg, prefs, r)
       s == Select(reg, prefs, r)
   IN /\ n = s
      /\ n # NoEngine => /\ n \in Range(prefs)
                     /\ Qualifies(reg[n], r)
                     /\ Lacks(reg[n], r) = ""
                     /\ \E i \in DOMAIN prefs : prefs[i] = n /\ \A j \in 1..(i - 1) : ~Qualifies(reg[prefs[j]], r)
                     /\ EngineClause(reg, prefs, r, s, {n}) = ""
                     /\ NoSuitableClause(s) # ""
      /\ (n = NoEngine) <=> (\A i \in DOMAIN prefs : ~Qualifies(reg[prefs[i]], r))
      /\ n = NoEngine => NoSuitableClause(s) = ""
      /\ AllClause(reg, prefs, r, {prefs[i] : i \in {j \in DOMAIN prefs : ImplSatisfies(reg[prefs[j]], r)}}) = ""
      /\ (n = NoEngine) <=> (SelectAll(reg, prefs, r) = {})
      /\ \A m \in DOMAIN reg : m # n => EngineClause(reg, prefs, r, s, {m}) # ""
SingleOK == Ready => \A r \in Requests : SingleClauses(r)

\* One pipeline request: the loop as written computes Pipe; each chosen compiler supports the
\* kind produced by the compilers before it (ChainOK); when the factory gives up at stage i, no
\* listed engine qualifies for the kind reaching stage i; the judge accepts the Impl answer.
PipeClauses(tab, fs, cks) ==
   LET i == ImplPipe(reg, prefs, tab, fs, cks)
       s == Pipe(reg, prefs, tab, fs, cks)
   IN /\ i.k = s.k /\ i.stages = s.stages /\ i.at = s.at
      /\ i.k \in {"pipeline", "none"} => ChainOK(reg, tab, fs, cks, i.stages)
      /\ i.k = "pipeline" => /\ Len(i.stages) = Len(cks)
                             /\ PipelineClause(reg, prefs, cks, s, [j \in DOMAIN i.stages |-> {i.stages[j]}])[1] = ""
                             /\ PipelineNoSuitableClause(s)[1] # ""
      /\ i.k = "none" => /\ Len(i.stages) = i.at - 1
                         /\ \A j \in DOMAIN prefs : ~Qualifies(reg[prefs[j]], CompReq(s.kinds[i.at], cks[i.at]))
                         /\ PipelineNoSuitableClause(s)[1] = ""
      /\ i.k = "rk-raises" => PipelineNoSuitableClause(s)[1] = "pipeline-resulting-kind-raises"
PipeOK == Ready => LET tab == TLCEval(RKTab) IN \A fs \in F2, cks \in Pipelines : PipeClauses(tab, fs, cks)
=============================================================================
