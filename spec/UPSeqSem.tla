------------------------------ MODULE UPSeqSem ------------------------------
(***************************************************************************)
(* The sequential semantics of a unified-planning problem: the labelled    *)
(* transition system a Problem denotes (states = valuations of the ground  *)
(* fluents, labels = ground action instances).                             *)
(*                                                                         *)
(* Step(R, ga, s) is the documented successor semantics as ONE definition  *)
(* with the same grain as UPSequentialSimulator.apply (one public call =   *)
(* one step).  It returns [ok, s, why, unspec]:                            *)
(*   1. every precondition holds in s                           ("pre")    *)
(*   2. forall effects are expanded over all objects of the variable types *)
(*   3. effect conditions, target arguments and values are evaluated in    *)
(*      the PRE-state s                                                    *)
(*   4. per target ground fluent: assignment together with increase or     *)
(*      decrease -> "conflict"; Boolean assigned both values ends TRUE;    *)
(*      two different values for a numeric/object fluent -> "conflict";    *)
(*      increases and decreases accumulate                                 *)
(*   5. untouched fluents keep their value                                 *)
(*   6. bounded numeric types hold in the successor             ("inv")    *)
(*   7. state invariants hold in the successor                  ("inv")    *)
(* unspec marks the zones the documentation leaves open (DESIGN.md 7.1);   *)
(* judges never compare the implementation inside them.                    *)
(***************************************************************************)
EXTENDS UPExpr

Act(P, n) == P.actions[CHOOSE i \in DOMAIN P.actions : P.actions[i].name = n]

\* parameter environment of a ground action [a |-> name, args |-> <<values>>]
ParEnv(a, ga) == [n \in {a.params[i].name : i \in DOMAIN a.params} |->
                     ga.args[CHOOSE i \in DOMAIN a.params : a.params[i].name = n]]

\* all ground instances of action a
RECURSIVE Tuples(_,_)
Tuples(P, ps) == IF ps = <<>> THEN {<<>>}
                 ELSE {<<x>> \o t : x \in ValsOfType(P, Head(ps).type), t \in Tuples(P, Tail(ps))}
GActs(P) == UNION {{[a |-> P.actions[i].name, args |-> t] : t \in Tuples(P, P.actions[i].params)} :
                      i \in DOMAIN P.actions}

\* one expanded effect (effect record ef, environment env) evaluated in the pre-state;
\* who identifies the action instance the effect belongs to (always 1 in sequential steps)
\* id is the index of the effect in its action (two syntactically equal effects stay distinct)
EvEffect(R, ef, env, who, id, s) ==
   LET c  == Eval(R, ef.c, s, env)
       ta == EvalArgs(R, ef.f.args, s, env)
       v  == Eval(R, ef.v, s, env)
   IN [who |-> who, id |-> id, kind |-> ef.kind, c |-> c, argsU |-> AnyU(ta),
       key |-> IF AnyU(ta) THEN 0 ELSE KeyIdx(R, ef.f.name, [j \in DOMAIN ta |-> ArgKey(ta[j])]),
       v |-> v, ast |-> ef.v, env |-> env]
\* all forall-instances of effect ef under env
ExpandEff(R, ef, env, who, id, s) == {EvEffect(R, ef, en, who, id, s) : en \in Envs(R.P, ef.forall, env)}

RECURSIVE SumKind(_,_)
SumKind(S, acc) == IF S = {} THEN acc
                   ELSE LET x == CHOOSE y \in S : TRUE IN
                        SumKind(S \ {x}, IF x.kind = "inc" THEN RAdd(acc, x.v) ELSE RSub(acc, x.v))

IsNumT(t) == t.k \in {"int", "real"}
InBounds(R, s) == \A i \in DOMAIN R.keys :
   LET t == Fl(R.P, R.keys[i][1]).type IN
   (IsNumT(t) /\ s[i].k = "n") =>
       ((t.lo.k = "none" \/ RLe(t.lo, s[i])) /\ (t.hi.k = "none" \/ RLe(s[i], t.hi)))
\* a bounded numeric fluent without a value: whether it "holds its bounded type" is left open
\* by the documentation (the simulator treats the bounds as conditions that read the fluent,
\* hence as violated) -- unspecified zone 7.1-13
BoundsUndef(R, s) == \E i \in DOMAIN R.keys :
   LET t == Fl(R.P, R.keys[i][1]).type IN
   IsNumT(t) /\ IsU(s[i]) /\ (t.lo.k # "none" \/ t.hi.k # "none")
Inv3(R, s) == All3({Cond3(R, R.P.invariants[i], s, <<>>) : i \in DOMAIN R.P.invariants})

\* rules 3-5: apply a set E of evaluated effects (all read in s) together.
\* Returns [ok, unspec, why, s].  Effects of different action instances (who) happening at
\* the same instant: two different values are a conflict even for Booleans (add-after-delete
\* is a rule about ONE action's effects); the same value from two instances is unspecified (7.1-4).
Combine(R, E, s) ==
  LET P == R.P
      undefE == {e \in E : IsU(e.c) \/ (e.c.b /\ (e.argsU \/ IsU(e.v)))}
      A == {e \in E : ~IsU(e.c) /\ e.c.b /\ ~e.argsU /\ ~IsU(e.v)}
      touched == {e.key : e \in A}
      As(k) == {e \in A : e.key = k /\ e.kind = "assign"}
      Ds(k) == {e \in A : e.key = k /\ e.kind # "assign"}
      IsB(k) == Fl(P, R.keys[k][1]).type.k = "bool"
      MultiWho(k) == Cardinality({e.who : e \in As(k)}) > 1
      Conf(k) == \/ (As(k) # {} /\ Ds(k) # {})
                 \/ (As(k) # {} /\ Cardinality({e.v : e \in As(k)}) > 1 /\ (~IsB(k) \/ MultiWho(k)))
      DsU(k) == Ds(k) # {} /\ IsU(s[k])
      \* 7.1-3: equal values written by syntactically different assignments of one instance
      StaticZone(k) == ~IsB(k) /\ ~MultiWho(k) /\ Cardinality({e.v : e \in As(k)}) = 1
                       /\ Cardinality({<<e.ast, e.env>> : e \in As(k)}) > 1
      Zone4(k) == MultiWho(k) /\ Cardinality({e.v : e \in As(k)}) = 1
      New(k) == IF As(k) # {}
                THEN IF IsB(k) THEN BV(\E e \in As(k) : e.v.b) ELSE (CHOOSE e \in As(k) : TRUE).v
                ELSE SumKind(Ds(k), s[k])
  IN IF undefE # {} \/ (\E k \in touched : DsU(k))
     THEN [ok |-> FALSE, why |-> "undef", unspec |-> TRUE, s |-> s]
     ELSE IF \E k \in touched : Zone4(k)
     THEN [ok |-> FALSE, why |-> "same-value-two-instances", unspec |-> TRUE, s |-> s]
     ELSE IF \E k \in touched : Conf(k)
     THEN [ok |-> FALSE, why |-> "conflict", unspec |-> FALSE, s |-> s]
     \* a value beyond the model's number range (UPValues: arithmetic on operands above 32767 yields UNDEF) makes
     \* the step unspecified, never "assigns UNDEF"
     ELSE [ok |-> TRUE, why |-> "ok", unspec |-> \E k \in touched : (StaticZone(k) \/ IsU(New(k))),
           s |-> [k \in DOMAIN s |-> IF k \in touched THEN New(k) ELSE s[k]]]

Step(R, ga, s) ==
  LET P    == R.P
      a    == Act(P, ga.a)
      env  == ParEnv(a, ga)
      pre3 == All3({Cond3(R, a.pre[i], s, env) : i \in DOMAIN a.pre})
  IN IF pre3 = "F" THEN [ok |-> FALSE, why |-> "pre", unspec |-> FALSE, s |-> s]
     ELSE IF pre3 = "?" THEN [ok |-> FALSE, why |-> "pre?", unspec |-> TRUE, s |-> s]
     ELSE
     LET E == UNION {ExpandEff(R, a.effects[i], env, 1, i, s) : i \in DOMAIN a.effects}
         c == Combine(R, E, s)
     IN IF ~c.ok THEN c
        ELSE LET ns   == c.s
                 inv3 == Inv3(R, ns)
             IN IF BoundsUndef(R, ns) THEN [ok |-> FALSE, why |-> "bounds?", unspec |-> TRUE, s |-> s]
                ELSE IF ~InBounds(R, ns) \/ inv3 = "F"
                THEN [ok |-> FALSE, why |-> "inv", unspec |-> c.unspec, s |-> s]
                ELSE IF inv3 = "?" THEN [ok |-> FALSE, why |-> "inv?", unspec |-> TRUE, s |-> s]
                ELSE [ok |-> TRUE, why |-> "ok", unspec |-> c.unspec, s |-> ns]

\* ---------- initial state, goals ----------
InitSt(R) == [i \in DOMAIN R.keys |->
   LET P == R.P
       m == {j \in DOMAIN P.init : P.init[j].f = R.keys[i][1]
                 /\ [x \in DOMAIN P.init[j].args |-> ArgKey(P.init[j].args[x])] = R.keys[i][2]}
   IN IF m # {} THEN P.init[CHOOSE j \in m : TRUE].v ELSE Fl(P, R.keys[i][1]).default]
\* TLC integers are 32-bit: behaviours are not expanded beyond states holding a number of large magnitude
\* (the part of the property beyond this bound is not decided by the model; the harness does the same)
SmallSt(s) == \A i \in DOMAIN s : IF s[i].k = "n" THEN Abs(s[i].n) <= 200 /\ s[i].d <= 200 ELSE TRUE
Goal3(R, s) == All3({Cond3(R, R.P.goals[i], s, <<>>) : i \in DOMAIN R.P.goals})
UnsatGoals3(R, s) == [i \in DOMAIN R.P.goals |-> Cond3(R, R.P.goals[i], s, <<>>)]
\* the initial state must satisfy bounds and invariants: "T" ok, "F" rejected, "?" unspecified
InitOK3(R, s) == IF ~InBounds(R, s) THEN "F" ELSE IF BoundsUndef(R, s) THEN "?" ELSE Inv3(R, s)

TypeOKState(R, s) == \A i \in DOMAIN R.keys :
   LET t == Fl(R.P, R.keys[i][1]).type IN
   \/ IsU(s[i])
   \/ (t.k = "bool" /\ s[i].k = "b")
   \/ (t.k = "user" /\ s[i].k = "o" /\ s[i].o \in ObjsOf(R.P, t.name))
   \/ (t.k = "real" /\ s[i].k = "n")
   \/ (t.k = "int" /\ s[i].k = "n")

\* ---------- plans ----------
\* run a plan (sequence of ground actions); result [ok, unspec, S (state sequence), fail (index)]
RECURSIVE RunPlan(_,_,_,_)
RunPlan(R, plan, i, acc) ==
   IF i > Len(plan) THEN [ok |-> TRUE, unspec |-> FALSE, S |-> acc, fail |-> 0, why |-> "ok"]
   ELSE LET r == Step(R, plan[i], acc[Len(acc)]) IN
        IF r.unspec THEN [ok |-> FALSE, unspec |-> TRUE, S |-> acc, fail |-> i, why |-> r.why]
        ELSE IF ~r.ok THEN [ok |-> FALSE, unspec |-> FALSE, S |-> acc, fail |-> i, why |-> r.why]
        ELSE RunPlan(R, plan, i + 1, Append(acc, r.s))

\* metric value of a valid plan (state sequence S); [k |-> "none"] if no metric / unspecified
ActCost(R, m, ga, s) ==
   LET a == Act(R.P, ga.a)
       cs == {i \in DOMAIN m.costs : m.costs[i].a = ga.a}
   IN IF cs = {} THEN (IF m.default.op = "none" THEN UNDEF ELSE Eval(R, m.default, s, <<>>))
      ELSE Eval(R, m.costs[CHOOSE i \in cs : TRUE].c, s, ParEnv(a, ga))
MetricValue(m, R, plan, S) ==
   CASE m.kind = "none" -> NONE
     [] m.kind = "length" -> NV(Len(plan), 1)
     [] m.kind \in {"minfinal", "maxfinal"} -> Eval(R, m.expr, S[Len(S)], <<>>)
     [] m.kind = "costs" ->
          LET cs == [i \in DOMAIN plan |-> ActCost(R, m, plan[i], S[i])] IN
          IF AnyU(cs) THEN UNDEF ELSE SeqSum(cs)
     [] m.kind = "oversub" ->
          LET gs == [i \in DOMAIN m.goals |->
                       IF Cond3(R, m.goals[i].g, S[Len(S)], <<>>) = "T" THEN m.goals[i].w ELSE ZERO] IN
          SeqSum(gs)

\* verdict of sequential validation: "VALID" | "INVALID-<clause>" | "unspec"
SeqVerdict(R, plan) ==
   LET s0 == InitSt(R)
       i3 == InitOK3(R, s0)
   IN IF i3 = "?" THEN [v |-> "unspec", why |-> "init?", S |-> <<s0>>]
      ELSE IF i3 = "F" THEN [v |-> "INVALID", why |-> "init", S |-> <<s0>>]
      ELSE LET r == RunPlan(R, plan, 1, <<s0>>) IN
           IF r.unspec THEN [v |-> "unspec", why |-> r.why, S |-> r.S]
           ELSE IF ~r.ok THEN [v |-> "INVALID", why |-> r.why, S |-> r.S]
           ELSE LET g == Goal3(R, r.S[Len(r.S)]) IN
                IF g = "?" THEN [v |-> "unspec", why |-> "goal?", S |-> r.S]
                ELSE IF g = "F" THEN [v |-> "INVALID", why |-> "goal", S |-> r.S]
                ELSE [v |-> "VALID", why |-> "ok", S |-> r.S]
=============================================================================
