---------------------------- MODULE PddlReaders ----------------------------
(***************************************************************************)
(* C21: which PDDL texts are in the common fragment of the two readers,    *)
(* and the part of their comparison spec/Bisim.tla cannot do.              *)
(*                                                                         *)
(* One record = one PDDL text (domain + problem) given to both readers:    *)
(*   cid                                                                   *)
(*   up, ai     [exc, stage]: exception class ("none") raised by           *)
(*              PDDLReader(force_up_pddl_reader=True) and by               *)
(*              PDDLReader(force_ai_planning_reader=True); stage "parse"   *)
(*              (inside the parser) or "convert" (inside                   *)
(*              unified_planning/interop/from_pddl.py)                     *)
(*   anums, bnums  the numeric constants of the two projected problems as  *)
(*              records [s |-> "n/d" of the absolute value, big |-> the    *)
(*              constant does not fit the integers TLC can compute with]   *)
(*   safe       depth to which the values reachable in A stay inside that  *)
(*              range (-1: not even the initial state, or the problem is   *)
(*              too large to enumerate)                                    *)
(*   acase, bcase  some identifier of the projected problem contains an    *)
(*              upper-case letter                                          *)
(*                                                                         *)
(* The property quantifies over the texts BOTH readers accept:             *)
(*   * a text the third-party based reader rejects is outside the common   *)
(*     fragment (tallied) -- except when unified_planning's converter      *)
(*     raises something else than its documented rejection                 *)
(*     UPUnsupportedProblemTypeError or an error of the third-party        *)
(*     library: an AssertionError / KeyError / ... inside from_pddl.py is  *)
(*     tallied separately ("ai-converter-crash"), still outside;           *)
(*   * a text only the UP reader rejects is tallied ("up-rejects-only");   *)
(*   * for a text both accept:                                             *)
(*       - the numeric literals too large for TLC must be the same on both *)
(*         sides (a reader that turns 0.1 into 3602879701896397/2^55 has   *)
(*         not read the same problem); if they are the same but present,   *)
(*         the pair cannot be judged (tallied "unjudgeable");              *)
(*       - otherwise the pair goes to Bisim: <<"B", cid>>.                 *)
(* Verdicts: <<"FAIL", cid, clause, detail>>  <<"T", cid, tally>>  <<"B", cid>> *)
(***************************************************************************)
EXTENDS Naturals, Sequences, FiniteSets, TLC, Json, IOUtils

Batch == ndJsonDeserialize(IOEnv.BATCH)
VARIABLES id
Init == id \in DOMAIN Batch
Next == UNCHANGED id
Spec == Init /\ [][Next]_id

Fail(c, clause, detail) == PrintT(<<"FAIL", Batch[c].cid, clause, detail>>)
Tally(c, what) == PrintT(<<"T", Batch[c].cid, what>>)

ConverterRejections == {"UPUnsupportedProblemTypeError"}
Big(nums) == {nums[i].s : i \in {j \in DOMAIN nums : nums[j].big}}

Accepted(r) == r.exc = "none"

JudgeRecord(c) ==
   LET r == Batch[c] IN
   IF ~Accepted(r.ai)
   THEN /\ (IF r.ai.stage = "convert" /\ r.ai.exc \notin ConverterRejections
            THEN Tally(c, "ai-converter-crash-" \o r.ai.exc)
            ELSE Tally(c, "ai-rejects-" \o r.ai.stage))
        /\ (Accepted(r.up) \/ Tally(c, "both-reject"))
   ELSE IF ~Accepted(r.up) THEN Tally(c, "up-rejects-only-" \o r.up.exc)
   ELSE /\ (r.acase = FALSE \/ Tally(c, "up-reader-keeps-upper-case"))
        /\ (r.bcase = FALSE \/ Tally(c, "ai-reader-keeps-upper-case"))
        /\ IF Big(r.anums) # Big(r.bnums)
           THEN Fail(c, "numeric-literal-differs",
                     IF Big(r.bnums) \ Big(r.anums) # {} THEN CHOOSE x \in Big(r.bnums) \ Big(r.anums) : TRUE
                     ELSE CHOOSE x \in Big(r.anums) \ Big(r.bnums) : TRUE)
           ELSE IF Big(r.anums) # {} \/ r.safe < 0 THEN Tally(c, "unjudgeable-too-large")
           ELSE PrintT(<<"B", r.cid>>)

Judge == JudgeRecord(id)
=============================================================================
