---------------------------- MODULE DagWalkerEnum ----------------------------
(* G1 generator for C14.  Defines, as data, the vocabulary, the expression DAG *)
(* table, the substitution maps and the public walker calls, and emits        *)
(*   IOEnv.DESC : one JSON line with the four tables (Python rebuilds every   *)
(*                expression from it in each Environment)                     *)
(*   IOEnv.OUT  : every call history (sequence of call indices): all          *)
(*                histories of length 1..LAll over all calls of the tier, all *)
(*                of length LAll+1..LCore over the core calls, and all of     *)
(*                length LCore+1..LTiny over the tiny core.                   *)
EXTENDS DagWalkerMenu, FiniteSets, TLC, Json, IOUtils, SequencesExt
CONSTANTS Thorough, LAll, LCore, LTiny

\* ---- calls -------------------------------------------------------------------------------
C(w, e, m) == [w |-> w, e |-> e, m |-> m]
RootsQ == <<2, 9, 11, 14, 18, 20, 22>>
RootsT == RootsQ \o <<8, 13, 19, 21, 23, 25, 27, 28>>
Roots == IF Thorough THEN RootsT ELSE RootsQ
MapsUsed == IF Thorough THEN 1..7 ELSE 1..3
EqrRoots == IF Thorough THEN <<9, 11, 18, 27>> ELSE <<11, 18>>
Plain == IF Thorough THEN <<"simplify", "type", "fve", "fvo", "names", "ife">> ELSE <<"simplify", "type", "fve", "names">>
RangeOf(s) == {s[i] : i \in DOMAIN s}
CallSet == {C("substitute", e, m) : e \in RangeOf(Roots), m \in MapsUsed}
           \cup {C(w, e, 0) : w \in RangeOf(Plain), e \in RangeOf(Roots)}
           \cup {C("eqr", e, 0) : e \in RangeOf(EqrRoots)}
\* core calls: every failure mode and the calls that reveal what a failure leaves behind
CoreSet == {C("substitute", 9, 2), C("substitute", 9, 1), C("substitute", 2, 1), C("substitute", 18, 2),
            C("simplify", 14, 0), C("simplify", 9, 0), C("simplify", 20, 0),
            C("type", 9, 0), C("type", 22, 0), C("fve", 9, 0), C("eqr", 18, 0), C("simplify", 22, 0)}
           \cup (IF Thorough THEN {C("substitute", 18, 1), C("substitute", 11, 4), C("simplify", 18, 0), C("substitute", 28, 2), C("substitute", 8, 5), C("substitute", 2, 6),
                                   C("simplify", 2, 0), C("simplify", 23, 0), C("type", 14, 0), C("fvo", 18, 0), C("names", 18, 0),
                                   C("ife", 20, 0), C("eqr", 27, 0), C("eqr", 11, 0), C("substitute", 27, 7)} ELSE {})
TinySet == {C("substitute", 9, 2), C("substitute", 9, 1), C("substitute", 2, 1), C("simplify", 14, 0), C("simplify", 9, 0),
            C("simplify", 20, 0), C("type", 22, 0), C("eqr", 18, 0), C("substitute", 18, 2)}
Calls == SetToSeq(CallSet)
ASSUME CoreSet \subseteq CallSet /\ TinySet \subseteq CoreSet
Idx(S) == {i \in DOMAIN Calls : Calls[i] \in S}

Hist(S, lo, hi) == UNION {[1..n -> Idx(S)] : n \in lo..hi}
Histories == Hist(CallSet, 1, LAll) \cup Hist(CoreSet, LAll + 1, LCore) \cup Hist(TinySet, LCore + 1, LTiny)

ASSUME ndJsonSerialize(IOEnv.DESC, <<[syms |-> Syms, nodes |-> Tab, maps |-> MapTab, calls |-> Calls, walkers |-> Walkers]>>)
ASSUME ndJsonSerialize(IOEnv.OUT, SetToSeq({[h |-> h] : h \in Histories}))
ASSUME PrintT(<<"EMITTED", Cardinality(Histories), Len(Calls)>>)
VARIABLE dummy
Init == dummy = 0
Next == UNCHANGED dummy
=============================================================================
