--------------------------- MODULE AnmlRoundTrip ---------------------------
(***************************************************************************)
(* C19 judge for everything spec/Bisim.tla does not cover.                 *)
(*                                                                         *)
(* One record = one problem A of the ANML round trip:                      *)
(*   A, akeys   the original problem (UPJ) and its ground fluents          *)
(*   wexc       exception class raised by ANMLWriter ("none")              *)
(*   rexc       exception class raised by ANMLReader on the writer's text  *)
(*              ("none"; "TIMEOUT" = no answer within the harness limit;   *)
(*              "PROJECT:..." = the re-read problem is outside UPJ)        *)
(*   hasB, B, bkeys  the re-read problem projected to UPJ and renamed back *)
(*              to A's identifiers with the writer's own name table        *)
(*              (B = A as a placeholder when hasB is FALSE)                *)
(*   nmiss      identifiers of the re-read problem absent from the table   *)
(*   ncoll      pairs of items of one kind the table maps to one ANML name *)
(*   temporal   TRUE for the temporal sub-corpus                           *)
(*   plans      <<[steps]>> seeded time-triggered plans over A             *)
(*                                                                         *)
(* pi = 0 judges the record:                                               *)
(*   rule (iii) of DESIGN.md 6/C18: the ANML writer accepts every problem  *)
(*   of the fragment and unified_planning's own reader must read the text  *)
(*   back: any exception of either is a violation (a time-out is tallied); *)
(*   the re-read problem only uses names of the writer's table, and the    *)
(*   table is injective per kind;                                          *)
(*   a non-temporal A comes back non-temporal (no timed goals / effects,   *)
(*   no durative actions);  its behaviour is judged by spec/Bisim.tla;     *)
(*   SameTemporalStructure(A, B) for the temporal sub-corpus.              *)
(*                                                                         *)
(* SameTemporalStructure: the temporal SKELETON is compared as normalised  *)
(* values, order-insensitively: objects, action names / kinds / parameter  *)
(* lists, duration openness, the set of condition intervals               *)
(* <<from, delay, from, delay, lopen, ropen>>, the set of                   *)
(* <<effect timing, fluent, kind>>, the timed-effect instants and the      *)
(* timed-goal intervals.  The EXPRESSIONS attached to the skeleton         *)
(* (duration bounds, the conjunction of the conditions of one interval,    *)
(* the combined effect of one timing, timed goals, goals, invariants) are  *)
(* compared by VALUE for every ground instance on sample states, because   *)
(* the writer prints simplified expressions and the reader re-associates   *)
(* and simplifies again: a syntactic comparison would make unified-        *)
(* planning's simplifier part of the oracle.  Samples = the initial state, *)
(* every single-fluent perturbation of it, and every state of the runs of  *)
(* the record's plans.  Instantaneous actions of temporal problems are     *)
(* compared by UPSeqSem!Step on the samples.                               *)
(* pi > 0 judges plan pi: UPTimeSem!TimeVerdict of A and of B agree.       *)
(*                                                                         *)
(* Total verdicts, one short tuple each:                                   *)
(*   <<"FAIL", cid, pi, clause, detail>>  <<"T", cid, tally>>                *)
(*   <<"V", cid, pi>> (plan valid in A)   <<"U", cid, pi>> (unspecified)     *)
(***************************************************************************)
EXTENDS UPTimeSem, Json, IOUtils

Batch == ndJsonDeserialize(IOEnv.BATCH)
VARIABLES cid, pi
vars == <<cid, pi>>
Init == cid \in DOMAIN Batch /\ pi \in 0..Len(Batch[cid].plans)
Next == UNCHANGED vars
Spec == Init /\ [][Next]_vars

RA(c) == [P |-> Batch[c].A, keys |-> Batch[c].akeys]
RB(c) == [P |-> Batch[c].B, keys |-> Batch[c].bkeys]
KeySetA(c) == {Batch[c].akeys[i] : i \in DOMAIN Batch[c].akeys}
KeySetB(c) == {Batch[c].bkeys[i] : i \in DOMAIN Batch[c].bkeys}
SameKeys(c) == KeySetA(c) = KeySetB(c)
ToB(c, st) == [i \in DOMAIN Batch[c].bkeys |->
                 st[CHOOSE j \in DOMAIN Batch[c].akeys : Batch[c].akeys[j] = Batch[c].bkeys[i]]]
ToA(c, st) == [i \in DOMAIN Batch[c].akeys |->
                 st[CHOOSE j \in DOMAIN Batch[c].bkeys : Batch[c].bkeys[j] = Batch[c].akeys[i]]]
ObjSet(P) == {<<P.objects[i].name, P.objects[i].type>> : i \in DOMAIN P.objects}
ActNames(P) == {P.actions[i].name : i \in DOMAIN P.actions}
SameVal(x, y) == x.k = y.k /\ x = y

Fail(c, p, clause, detail) == PrintT(<<"FAIL", Batch[c].cid, p, clause, detail>>)
Tally(c, what) == PrintT(<<"T", Batch[c].cid, what>>)

\* ---------------------------------------------------------------------------
\* exceptions, names
\* ---------------------------------------------------------------------------
ExceptionRules(c) ==
   LET r == Batch[c] IN
   IF r.wexc # "none" THEN Fail(c, 0, "writer-raises", r.wexc)
   ELSE IF r.rexc = "none" THEN TRUE
   ELSE IF r.rexc = "TIMEOUT" THEN Tally(c, "reader-timeout")
   ELSE IF r.rexc = "PROJECT" THEN Fail(c, 0, "reread-problem-outside-upj", "")
   ELSE Fail(c, 0, "parse-fails", r.rexc)

NameRules(c) ==
   /\ (Batch[c].ncoll = 0 \/ Fail(c, 0, "writer-names-collide", ""))
   /\ (Batch[c].nmiss = 0 \/ Fail(c, 0, "reread-name-not-in-writer-table", ""))

\* a problem without temporal features comes back without temporal features
IsTemporal(P) == \/ Len(P.timed_goals) > 0 \/ Len(P.timed_effects) > 0
                 \/ \E i \in DOMAIN P.actions : P.actions[i].kind = "dur"
StaysClassical(c) ==
   LET A == Batch[c].A
       B == Batch[c].B
   IN IsTemporal(A) \/
      /\ (Len(B.timed_goals) = 0 \/ Fail(c, 0, "timed-goals-invented", ""))
      /\ (Len(B.timed_effects) = 0 \/ Fail(c, 0, "timed-effects-invented", ""))
      /\ ((\A i \in DOMAIN B.actions : B.actions[i].kind = "inst") \/ Fail(c, 0, "durative-action-invented", ""))

\* ---------------------------------------------------------------------------
\* sample states (aligned with A's keys)
\* ---------------------------------------------------------------------------
RunStates(R, plan) ==
   LET Ev  == Events(R.P, plan)
       H   == SortT({e.t : e \in Ev})
       run == RunFrom(R, Ev, H, 1, <<InitSt(R)>>)
   IN {run.S[j] : j \in DOMAIN run.S}
PlanOK(R, plan) == \A i \in DOMAIN plan :
   /\ ~RLt(TV(plan[i].t), ZERO)
   /\ (Act(R.P, plan[i].a).kind = "dur" => RLt(ZERO, TV(plan[i].d)))
\* the other values a ground fluent may take in a perturbed sample
OtherVals(R, i, v) ==
   LET t == Fl(R.P, R.keys[i][1]).type IN
   IF v.k = "b" THEN {BV(~v.b)}
   ELSE IF v.k = "o" THEN ValsOfType(R.P, t) \ {v}
   ELSE IF v.k = "n"
        THEN {w \in {RAdd(v, ONE), RSub(v, ONE)} :
                 (t.lo.k = "none" \/ RLe(t.lo, w)) /\ (t.hi.k = "none" \/ RLe(w, t.hi))}
   ELSE {}
Perturbed(R, s) ==
   UNION {{[j \in DOMAIN s |-> IF j = i THEN w ELSE s[j]] : w \in OtherVals(R, i, s[i])} : i \in DOMAIN s}
Samples(c) ==
   LET R == RA(c) IN
   {InitSt(R)} \cup Perturbed(R, InitSt(R))
   \cup UNION {RunStates(R, Batch[c].plans[i].steps) :
                  i \in {j \in DOMAIN Batch[c].plans : PlanOK(R, Batch[c].plans[j].steps)}}

\* ---------------------------------------------------------------------------
\* SameTemporalStructure
\* ---------------------------------------------------------------------------
TKey(tm) == <<tm.from, TV(tm.delay)>>
IvKey(iv) == <<iv.lo.from, TV(iv.lo.delay), iv.hi.from, TV(iv.hi.delay), iv.lopen, iv.ropen>>
IvKeys(a) == {IvKey(a.conds[i].iv) : i \in DOMAIN a.conds}
IvCond3(R, a, ik, s, env) ==
   All3({Cond3(R, a.conds[i].c, s, env) : i \in {j \in DOMAIN a.conds : IvKey(a.conds[j].iv) = ik}})
EffTimings(a) == {TKey(a.effects[j].t) : j \in DOMAIN a.effects}
EffSig(a) == {<<TKey(a.effects[j].t), a.effects[j].e.f.name, a.effects[j].e.kind>> : j \in DOMAIN a.effects}
EffAt(R, a, tk, env, s) ==
   Combine(R, UNION {ExpandEff(R, a.effects[j].e, env, 1, j, s) :
                        j \in {i \in DOMAIN a.effects : TKey(a.effects[i].t) = tk}}, s)
\* timed effects of a problem: "start" and "gstart" both denote the absolute instant `delay` (UPTimeSem!AbsT)
TilAbs(tm) == tm.from \in {"start", "gstart"}
TilTimings(P) == {TV(P.timed_effects[j].t.delay) : j \in DOMAIN P.timed_effects}
TilSig(P) == {<<TV(P.timed_effects[j].t.delay), P.timed_effects[j].e.f.name, P.timed_effects[j].e.kind>> :
                 j \in DOMAIN P.timed_effects}
TilAt(R, tk, s) ==
   Combine(R, UNION {ExpandEff(R, R.P.timed_effects[j].e, <<>>, 0, j, s) :
                        j \in {i \in DOMAIN R.P.timed_effects : TV(R.P.timed_effects[i].t.delay) = tk}}, s)
\* timed goals: intervals are absolute ("start" read as "gstart"); "gend" stays relative to the end of the plan
GFrom(f) == IF f = "start" THEN "gstart" ELSE IF f = "end" THEN "gend" ELSE f
TgKey(iv) == <<GFrom(iv.lo.from), TV(iv.lo.delay), GFrom(iv.hi.from), TV(iv.hi.delay), iv.lopen, iv.ropen>>
TgKeys(P) == {TgKey(P.timed_goals[i].iv) : i \in DOMAIN P.timed_goals}
TgCond3(R, gk, s) ==
   All3({Cond3(R, R.P.timed_goals[i].g, s, <<>>) : i \in {j \in DOMAIN R.P.timed_goals : TgKey(R.P.timed_goals[j].iv) = gk}})
\* two Combine results (ca on A's keys, cb on B's keys) describe the same effect
SameCombine(c, ca, cb) == ca.unspec \/ cb.unspec \/ (ca.ok = cb.ok /\ (ca.ok => ToA(c, cb.s) = ca.s))

Instances(P, a) == {[a |-> a.name, args |-> t] : t \in Tuples(P, a.params)}

DurativeSame(c, a, b, S) ==
   LET ra == RA(c)
       rb == RB(c)
   IN /\ ((a.dur.lopen = b.dur.lopen /\ a.dur.ropen = b.dur.ropen) \/ Fail(c, 0, "duration-openness-differs", a.name))
      /\ (IvKeys(b) \subseteq IvKeys(a) \/ Fail(c, 0, "condition-interval-invented", a.name))
      /\ (EffSig(a) = EffSig(b) \/ Fail(c, 0, "effect-timings-differ", a.name))
      /\ \A ga \in Instances(ra.P, a) : \A s \in S :
            LET ea == ParEnv(a, ga)
                eb == ParEnv(b, ga)
                sb == ToB(c, s)
            IN /\ (SameVal(Eval(ra, a.dur.lo, s, ea), Eval(rb, b.dur.lo, sb, eb)) \/ Fail(c, 0, "duration-lower-differs", a.name))
               /\ (SameVal(Eval(ra, a.dur.hi, s, ea), Eval(rb, b.dur.hi, sb, eb)) \/ Fail(c, 0, "duration-upper-differs", a.name))
               /\ \A ik \in IvKeys(a) \cup IvKeys(b) :
                     LET va == IvCond3(ra, a, ik, s, ea)
                         vb == IvCond3(rb, b, ik, sb, eb)
                     IN va = "?" \/ vb = "?" \/ va = vb
                        \/ Fail(c, 0, "condition-A-" \o va \o "-B-" \o vb, a.name)
               /\ \A tk \in EffTimings(a) \cup EffTimings(b) :
                     SameCombine(c, EffAt(ra, a, tk, ea, s), EffAt(rb, b, tk, eb, sb))
                     \/ Fail(c, 0, "effects-at-" \o tk[1] \o "-differ", a.name)

InstantSame(c, a, S) ==
   \A ga \in Instances(RA(c).P, a) : \A s \in S :
      LET x == Step(RA(c), ga, s)
          y == Step(RB(c), ga, ToB(c, s))
      IN x.unspec \/ y.unspec
         \/ (x.ok = y.ok /\ (x.ok => ToA(c, y.s) = x.s))
         \/ Fail(c, 0, "instantaneous-step-A-" \o x.why \o "-B-" \o y.why, a.name)

\* name, kind and the whole parameter list (names and types) of every action agree
SigOf(a) == <<a.kind, a.params>>
SameSignatures(c) ==
   LET A == Batch[c].A
       B == Batch[c].B
   IN /\ ActNames(A) = ActNames(B)
      /\ Len(A.actions) = Len(B.actions)
      /\ \A i \in DOMAIN A.actions : SigOf(A.actions[i]) = SigOf(Act(B, A.actions[i].name))
Comparable(c) == SameKeys(c) /\ ObjSet(Batch[c].A) = ObjSet(Batch[c].B) /\ SameSignatures(c)

SameTemporalStructure(c) ==
   LET A == Batch[c].A
       B == Batch[c].B
   IN IF ~SameKeys(c) THEN Fail(c, 0, "ground-fluents-differ", "")
      ELSE IF ObjSet(A) # ObjSet(B) THEN Fail(c, 0, "objects-differ", "")
      ELSE IF ~SameSignatures(c) THEN Fail(c, 0, "action-signatures-differ", "")
      ELSE
      LET S == Samples(c) IN
      /\ (ToA(c, InitSt(RB(c))) = InitSt(RA(c)) \/ Fail(c, 0, "initial-state-differs", ""))
      /\ \A i \in DOMAIN A.actions :
            LET a == A.actions[i]
                b == Act(B, a.name)
            IN IF a.kind = "dur" THEN DurativeSame(c, a, b, S) ELSE InstantSame(c, a, S)
      /\ ((\A j \in DOMAIN B.timed_effects : TilAbs(B.timed_effects[j].t)) \/ Fail(c, 0, "timed-effect-not-absolute", ""))
      /\ (TilSig(A) = TilSig(B) \/ Fail(c, 0, "timed-effect-timings-differ", ""))
      /\ \A tk \in TilTimings(A) \cup TilTimings(B) : \A s \in S :
            SameCombine(c, TilAt(RA(c), tk, s), TilAt(RB(c), tk, ToB(c, s)))
            \/ Fail(c, 0, "timed-effects-differ", ToString(tk.n) \o "/" \o ToString(tk.d))
      /\ (TgKeys(B) \subseteq TgKeys(A) \/ Fail(c, 0, "timed-goal-interval-invented", ""))
      /\ \A gk \in TgKeys(A) \cup TgKeys(B) : \A s \in S :
            LET va == TgCond3(RA(c), gk, s)
                vb == TgCond3(RB(c), gk, ToB(c, s))
            IN va = "?" \/ vb = "?" \/ va = vb \/ Fail(c, 0, "timed-goal-A-" \o va \o "-B-" \o vb, "")
      /\ \A s \in S :
            /\ LET g1 == Goal3(RA(c), s)
                   g2 == Goal3(RB(c), ToB(c, s))
               IN g1 = "?" \/ g2 = "?" \/ g1 = g2 \/ Fail(c, 0, "goal-verdict-A-" \o g1 \o "-B-" \o g2, "")
            /\ LET i1 == Inv3(RA(c), s)
                   i2 == Inv3(RB(c), ToB(c, s))
               IN i1 = "?" \/ i2 = "?" \/ i1 = i2 \/ Fail(c, 0, "invariants-A-" \o i1 \o "-B-" \o i2, "")
            /\ (InBounds(RA(c), s) = InBounds(RB(c), ToB(c, s)) \/ Fail(c, 0, "type-bounds-differ", ""))

JudgeRecord(c) ==
   /\ ExceptionRules(c)
   /\ Batch[c].hasB =>
         /\ NameRules(c)
         /\ StaysClassical(c)
         /\ (Batch[c].temporal => SameTemporalStructure(c))

\* ---------------------------------------------------------------------------
\* seeded plans: A and B give the same verdict
\* ---------------------------------------------------------------------------
JudgePlan(c, p) ==
   LET steps == Batch[c].plans[p].steps
       va == TimeVerdict(RA(c), steps)
   IN /\ (va.v # "VALID" \/ PrintT(<<"V", Batch[c].cid, p>>))
      /\ IF ~Comparable(c) THEN TRUE
         ELSE LET vb == TimeVerdict(RB(c), steps) IN
              IF va.v = "unspec" \/ vb.v = "unspec" THEN PrintT(<<"U", Batch[c].cid, p>>)
              ELSE va.v = vb.v
                   \/ Fail(c, p, "plan-validity-A-" \o va.v \o "-" \o va.why \o "-B-" \o vb.v \o "-" \o vb.why, "")

Judge == IF pi = 0 THEN JudgeRecord(cid)
         ELSE IF ~Batch[cid].hasB THEN TRUE
         ELSE JudgePlan(cid, pi)
=============================================================================
