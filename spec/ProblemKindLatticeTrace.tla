------------------------ MODULE ProblemKindLatticeTrace ------------------------
(***************************************************************************)
(* The judge of C33.  Every case is one pair of kinds (a, b) enumerated by *)
(* ProblemKindLatticeEnum and a recorded sequence of queries run by the    *)
(* driver on real ProblemKind objects (fresh objects for every query, so   *)
(* that a query that illegally changes its operands cannot disturb the     *)
(* next one).  Each recorded step                                          *)
(*    <<op, w, preA, preB, postA, postB, status, res>>                     *)
(* carries the observable state of both operands before and after the call *)
(* (indices into IOEnv.STATES: <<version, feature mask, #features outside  *)
(* the universe, hash id>>; hash ids rename the hash values injectively),  *)
(* status 0 = returned / 1 = raised (res = index into IOEnv.EXCS), and the *)
(* result (0/1 for comparisons, a state index for union / intersection).   *)
(* TraceNext takes the specification's own query action and compares:      *)
(*   build   the operands are the kinds the case describes                 *)
(*   pure    the operands are unchanged by the query (QueryPure)           *)
(*   result  the returned value is the specification's (ret')              *)
(*   hash    equal kinds have equal hashes                                 *)
(*   impl-*  the laws hold of the recorded values themselves (LeM / EqM:   *)
(*           the matrices of all recorded <= and == results)               *)
(* Verdicts are total: failed clauses are collected in `bad` and printed   *)
(* by an invariant that is always TRUE.                                    *)
(***************************************************************************)
EXTENDS ProblemKindLattice, ProblemKindLatticeTables

KindRows  == ndJsonDeserialize(IOEnv.KINDS)     \* written by ProblemKindLatticeEnum
StateRows == ndJsonDeserialize(IOEnv.STATES)
ExcRows   == ndJsonDeserialize(IOEnv.EXCS)
MatRows   == ndJsonDeserialize(IOEnv.MATRIX)    \* row a: [le |-> <<..>>, eq |-> <<..>>], 0/1, 2 = no value
Cases     == ndJsonDeserialize(IOEnv.CASES)     \* [id, a, b, al, st, rw]
CONSTANTS HasRows,   \* TRUE: IOEnv.ROWS holds third-kind rows [ur, ir, rx]; a case points to its row by rw (0 = none)
          NBlk       \* cases are dealt to NBlk initial states so that all workers share the judging
Rows      == IF HasRows THEN ndJsonDeserialize(IOEnv.ROWS) ELSE <<>>

NK == Len(KindRows)
KindOf(i) == [dv |-> KindRows[i].dv, f |-> SetOfMask[KindRows[i].m]]
KindT  == TLCEval([i \in 1..NK |-> KindOf(i)])
GroupT == TLCEval([v \in Versions |-> TLCEval({i \in 1..NK : KindRows[i].v = v})])
GroupSeqT == TLCEval([v \in Versions |-> SelectSeq([i \in 1..NK |-> i], LAMBDA i : KindRows[i].v = v)])
LeM(i, j) == MatRows[i].le[j]
EqM(i, j) == MatRows[i].eq[j]
B2I(b) == IF b THEN 1 ELSE 0

VARIABLES tid, l, bad, blk
tvars == <<vars, tid, l, bad, blk>>

OpName(op) == CASE op = 1 -> "eq" [] op = 2 -> "le" [] op = 3 -> "union" [] op = 4 -> "inter"
                [] op = 5 -> "ub1" [] op = 6 -> "ub2" [] op = 7 -> "lb1" [] op = 8 -> "lb2" [] op = 9 -> "uple"
\* the operator that runs last in the (compound) query
Family(op) == CASE op = 1 -> "eq" [] op = 2 -> "le" [] op = 3 -> "union" [] op = 4 -> "intersection"
                [] op \in {5, 6} -> "le-after-union" [] op \in {7, 8} -> "le-after-intersection" [] op = 9 -> "le-after-upgrade"
ObsKind(s) == [dv |-> s[1], f |-> SetOfMask[s[2]]]
VerTag(a, b) == IF SameVer(a, b) THEN "same-version" ELSE "different-versions"

\* ---- clauses about one operand (k: the kind the case describes; w: version at which the query compares)
OperandFails(fam, k, w, pre, post) ==
   LET lost == /\ post[3] = pre[3]
               /\ SetOfMask[post[2]] = SetOfMask[pre[2]] \cap Valid(w)
       fch  == post[2] # pre[2] \/ post[3] # pre[3]
   IN  (IF pre[1] = Ver(k) /\ SetOfMask[pre[2]] = k.f /\ pre[3] = 0 THEN {}
        ELSE {<<"build", fam, "constructed-object-differs-from-kind">>})
       \cup (IF fch THEN {<<"operand-features-changed", fam,
                            IF lost THEN "lost-deprecated-features" ELSE "other-change">>} ELSE {})
       \cup (IF post[4] # pre[4] THEN {<<"operand-hash-changed", fam,
                            IF fch /\ lost THEN "with-lost-deprecated-features"
                            ELSE IF fch THEN "with-other-feature-change" ELSE "features-unchanged">>} ELSE {})
       \cup (IF post[1] # pre[1] THEN {<<"operand-version-changed", fam, "">>} ELSE {})

\* ---- clauses about the returned value; r = the specification's return record (ret')
KindResultFails(name, a, b, r, R) ==
   IF ~(R[3] = 0 /\ R[1] \in Versions /\ SetOfMask[R[2]] \subseteq Avail(R[1]))
   THEN {<<name \o "-result-malformed", VerTag(a, b), "">>}
   ELSE IF R[1] # r.k.dv THEN {<<name \o "-result-version", VerTag(a, b), "">>}
   ELSE IF ~Eq(ObsKind(R), r.k) THEN {<<name, VerTag(a, b), "">>}
   ELSE {}

ResultFails(c, s, a, b, r) ==
   LET op == s[1]  res == s[8]  ia == c.a  ib == c.b
       hA == StateRows[s[3]][4]  hB == StateRows[s[4]][4]
   IN
   CASE op = 1 ->
          (IF r.op = "eq" /\ res # B2I(r.b) THEN {<<"eq", "same-version", "">>} ELSE {})
          \cup (IF r.op = "eq" /\ r.b /\ hA # hB
                THEN {<<"hash-of-equal-kinds", IF a.f = b.f THEN "same-features" ELSE "features-differ-only-in-deprecated", "">>}
                ELSE IF res = 1 /\ hA # hB THEN {<<"hash-of-impl-equal-kinds", VerTag(a, b), "">>} ELSE {})
          \cup (IF ia = ib /\ res # 1 THEN {<<"impl-eq-reflexive", "", "">>} ELSE {})
          \cup (IF SameVer(a, b) /\ ((LeM(ia, ib) = 1 /\ LeM(ib, ia) = 1) # (res = 1))
                THEN {<<"impl-antisymmetric", "", "">>} ELSE {})
     [] op = 2 ->
          (IF res # B2I(r.b) THEN {<<"le", VerTag(a, b), "">>} ELSE {})
          \cup (IF ia = ib /\ res # 1 THEN {<<"impl-le-reflexive", "", "">>} ELSE {})
          \cup (IF SameVer(a, b) /\ res = 1 /\ \E x \in GroupT[Ver(a)] : LeM(ib, x) = 1 /\ LeM(ia, x) # 1
                THEN {<<"impl-transitive", "", "">>} ELSE {})
     [] op = 3 -> KindResultFails("union", a, b, r, StateRows[res])
     [] op = 4 -> KindResultFails("intersection", a, b, r, StateRows[res])
     [] op \in {5, 6} -> IF res # B2I(r.b) THEN {<<"impl-union-is-upper-bound", OpName(op), "">>} ELSE {}
     [] op \in {7, 8} -> IF res # B2I(r.b) THEN {<<"impl-intersection-is-lower-bound", OpName(op), "">>} ELSE {}
     [] op = 9 ->
          (IF res # B2I(r.b) THEN {<<"le-of-upgraded", "same-version", "">>} ELSE {})
          \cup (IF LeM(ia, ib) = 1 /\ res # 1 THEN {<<"impl-upgrade-preserves-le", "", "">>} ELSE {})

StepFails(c, s, a, b, r) ==
   LET fam == Family(s[1])
       w   == IF s[1] = 9 THEN Ver(a) ELSE Max2(Ver(a), Ver(b))
   IN  OperandFails(fam, a, w, StateRows[s[3]], StateRows[s[5]])
       \cup OperandFails(fam, b, w, StateRows[s[4]], StateRows[s[6]])
       \cup (IF s[7] = 0 THEN ResultFails(c, s, a, b, r)
             ELSE {<<"raises", fam, ExcRows[s[8]]>>})

\* ---- the third-kind rows (triples): bit t of the rows = result for the t-th kind of the version
RowBit(row, t) == (row[((t - 1) \div 24) + 1] \div (2 ^ ((t - 1) % 24))) % 2
RowFails(c, a, b) ==
   LET g == GroupSeqT[Ver(a)]  u == Union(a, b)  n == Inter(a, b)  rw == Rows[c.rw] IN
   (IF rw.rx # 0 THEN {<<"raises", "rows", "">>} ELSE {})
   \cup (IF \E t \in DOMAIN g : RowBit(rw.ur, t) # B2I(Le(u, KindT[g[t]])) THEN {<<"le-of-union", "third-kind", "">>} ELSE {})
   \cup (IF \E t \in DOMAIN g : RowBit(rw.ir, t) # B2I(Le(KindT[g[t]], n)) THEN {<<"le-of-intersection", "third-kind", "">>} ELSE {})
   \cup (IF \E t \in DOMAIN g : LeM(c.a, g[t]) = 1 /\ LeM(c.b, g[t]) = 1 /\ RowBit(rw.ur, t) # 1
         THEN {<<"impl-union-is-least", "", "">>} ELSE {})
   \cup (IF \E t \in DOMAIN g : LeM(g[t], c.a) = 1 /\ LeM(g[t], c.b) = 1 /\ RowBit(rw.ir, t) # 1
         THEN {<<"impl-intersection-is-greatest", "", "">>} ELSE {})

NSteps(c) == Len(c.st) + (IF c.rw # 0 THEN 1 ELSE 0)

TraceInit == /\ blk \in 1..NBlk /\ tid = 0 /\ l = 0 /\ bad = {} /\ Init

\* the driver's constructor calls: the operands of case t (one object if al = 1); judged by the build clause
Pick == /\ tid = 0
        /\ tid' \in {t \in DOMAIN Cases : (t % NBlk) + 1 = blk}
        /\ LET c == Cases[tid'] IN
           /\ objs' = <<KindT[c.a], IF c.al = 1 THEN NoKind ELSE KindT[c.b]>>
           /\ live' = IF c.al = 1 THEN {1} ELSE {1, 2}
        /\ ret' = NoRet /\ l' = 1 /\ bad' = {} /\ blk' = blk

Step ==
   /\ tid # 0
   /\ LET c == Cases[tid]  a == KindT[c.a]  b == KindT[c.b]  j == IF c.al = 1 THEN 1 ELSE 2 IN
      /\ l <= NSteps(c)
      /\ IF l <= Len(c.st)
         THEN LET s == c.st[l] IN
              /\ CASE s[1] = 1 -> QEq(1, j) \/ QUnspecified(1, j)
                   [] s[1] = 2 -> QLe(1, j)
                   [] s[1] = 3 -> QUnion(1, j)
                   [] s[1] = 4 -> QInter(1, j)
                   [] s[1] \in 5..8 -> QBound(1, j, OpName(s[1]))
                   [] s[1] = 9 -> QUpLe(1, j, s[2])
              /\ bad' = bad \cup {<<l>> \o x : x \in StepFails(c, s, a, b, ret')}
         ELSE /\ UNCHANGED vars
              /\ bad' = bad \cup {<<l>> \o x : x \in RowFails(c, a, b)}
   /\ l' = l + 1 /\ tid' = tid /\ blk' = blk
TraceNext == Pick \/ Step
TraceSpec == TraceInit /\ [][TraceNext]_tvars

Done == tid # 0 /\ l > NSteps(Cases[tid])
\* ToString keeps the value on one output line (TLC wraps long values)
Verdict == (Done /\ bad # {}) => PrintT(ToString(<<"FAIL", Cases[tid].id, bad>>))
=============================================================================
