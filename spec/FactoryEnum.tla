---------------------------- MODULE FactoryEnum ----------------------------
(***************************************************************************)
(* G1 generator for C32.  TLC enumerates and writes as ndjson:             *)
(*                                                                         *)
(* IOEnv.OUT_UNIV   one record: the feature universe (sequence; features   *)
(*                  are referred to by their index in it) and the menus    *)
(* IOEnv.OUT_REQS   every request over a problem kind:                     *)
(*                  [mode, f (set of universe indices), xf (names of       *)
(*                   further features of the kind), ck, pk, og, ag,        *)
(*                   cks (pipeline: sequence of compilation kinds), call,  *)
(*                   grp]                                                  *)
(*                  call = "mode"  the mode's own entry point and          *)
(*                                 get_all_applicable_engines              *)
(*                         "all"   get_all_applicable_engines only (modes  *)
(*                                 whose entry point takes a problem)      *)
(*                         "pipe"  Compiler(compilation_kinds = cks): every *)
(*                                 sequence of <= PipeLen kinds of CKPipe  *)
(*                                 and NLong sampled sequences of 3..      *)
(*                                 LongLen kinds of CKLong per kind         *)
(*                  grp = slice number of the kind (mock batches take one  *)
(*                  slice each, the built-in batch takes all)              *)
(* IOEnv.OUT_PROBS  requests through entry points that take a problem:     *)
(*                  [mode, og, ing (set of ingredient names), grp]; Python *)
(*                  builds a real Problem with exactly these ingredients   *)
(*                  and the judge is given problem.kind as read back       *)
(* IOEnv.OUT_CFGS   registry configurations: [id, mocks (sequence of       *)
(*                  capability profiles of harness-registered mock         *)
(*                  engines), schemes (preference-list schemes)]           *)
(*                                                                         *)
(* The universe straddles the built-in engines' supported kinds: every     *)
(* feature is supported by some and unsupported by some registered         *)
(* built-in engine of the relevant operation modes (the driver checks      *)
(* this on the real classes and fails as machinery otherwise).             *)
(* A mock supports every non-deprecated feature outside the universe and   *)
(* the subset `feats` of the universe.                                     *)
(***************************************************************************)
EXTENDS Integers, Sequences, FiniteSets, TLC, Json, IOUtils, SequencesExt
CONSTANTS NF,       \* number of universe features in use (prefix of Universe)
          Groups,   \* number of kind slices
          NC,       \* number of mock configurations
          Seed,     \* shifts the strided walk through the profile space
          PipeLen,  \* maximal pipeline length
          NPipe,    \* number of compilation kinds pipelines are made of (prefix of CKPipe)
          AllCK,    \* TRUE: every compilation kind of the library; FALSE: CKSmall
          LongLen,  \* sampled long pipelines have 3..LongLen stages
          NLong     \* number of sampled long pipelines per kind of the universe

Universe == <<"ACTION_BASED", "CONTINUOUS_TIME", "TRAJECTORY_CONSTRAINTS", "STATE_INVARIANTS",
              "EXISTENTIAL_CONDITIONS", "PLAN_LENGTH", "CONDITIONAL_EFFECTS", "ACTION_BASED_MULTI_AGENT",
              "UNDEFINED_INITIAL_NUMERIC", "HIERARCHICAL">>
U == 1..NF
Bit(m, i) == (m \div (2 ^ (i - 1))) % 2 = 1
KindOf(m) == {i \in U : Bit(m, i)}
Masks == 0..(2 ^ NF - 1)
\* slice of a kind: spreads neighbouring masks over different slices
Grp(m) == (m + (m \div Groups)) % Groups

OGs == <<"", "SATISFICING", "SOLVED_OPTIMALLY">>
AGs == <<"", "INCREASING_QUALITY", "OPTIMAL_PLANS">>
PKs == <<"", "SEQUENTIAL_PLAN", "TIME_TRIGGERED_PLAN", "PARTIAL_ORDER_PLAN", "STN_PLAN">>
CKAll == <<"GROUNDING", "CONDITIONAL_EFFECTS_REMOVING", "INTERPRETED_FUNCTIONS_REMOVING",
           "DISJUNCTIVE_CONDITIONS_REMOVING", "NEGATIVE_CONDITIONS_REMOVING", "QUANTIFIERS_REMOVING",
           "TRAJECTORY_CONSTRAINTS_REMOVING", "USERTYPE_FLUENTS_REMOVING", "BOUNDED_TYPES_REMOVING",
           "STATE_INVARIANTS_REMOVING", "MA_SINGLE_AGENT_PROJECTION", "MA_CENTRALIZATION",
           "MA_SL_ROBUSTNESS_VERIFICATION", "MA_SL_SOCIAL_LAW", "SA_MA_CONVERSION", "TIMED_TO_SEQUENTIAL",
           "DURATIVE_ACTIONS_TO_PROCESSES", "UNDEFINED_INITIAL_NUMERIC_REMOVING", "CONFORMANT_TO_CLASSICAL">>
CKSmall == <<"GROUNDING", "CONDITIONAL_EFFECTS_REMOVING", "DISJUNCTIVE_CONDITIONS_REMOVING", "QUANTIFIERS_REMOVING",
             "TRAJECTORY_CONSTRAINTS_REMOVING", "STATE_INVARIANTS_REMOVING", "TIMED_TO_SEQUENTIAL", "MA_CENTRALIZATION">>
CKs == IF AllCK THEN CKAll ELSE CKSmall
\* compilation kinds pipelines are made of
CKPipe == <<"QUANTIFIERS_REMOVING", "GROUNDING", "STATE_INVARIANTS_REMOVING", "TRAJECTORY_CONSTRAINTS_REMOVING",
            "DURATIVE_ACTIONS_TO_PROCESSES", "CONDITIONAL_EFFECTS_REMOVING", "DISJUNCTIVE_CONDITIONS_REMOVING">>

\* xf = names of features outside the universe that the kind has too (long pipelines only)
RX(mode, m, xf, ck, pk, og, ag, cks, call) ==
   [mode |-> mode, f |-> KindOf(m), xf |-> xf, ck |-> ck, pk |-> pk, og |-> og, ag |-> ag, cks |-> cks, call |-> call, grp |-> Grp(m)]
R(mode, m, ck, pk, og, ag, cks, call) == RX(mode, m, {}, ck, pk, og, ag, cks, call)
Rng(s) == {s[i] : i \in DOMAIN s}

SingleReqs(m) ==
   {R("oneshot_planner", m, "", "", og, "", <<>>, "mode") : og \in Rng(OGs)}
   \cup {R("anytime_planner", m, "", "", "", ag, <<>>, "mode") : ag \in Rng(AGs)}
   \cup {R("plan_validator", m, "", pk, "", "", <<>>, "mode") : pk \in Rng(PKs)}
   \cup {R("compiler", m, ck, "", "", "", <<>>, "mode") : ck \in {""} \cup Rng(CKs)}
   \cup {R("plan_repairer", m, "", pk, og, "", <<>>, "mode") : pk \in {PKs[1], PKs[2], PKs[3]}, og \in Rng(OGs)}
   \cup {R("portfolio_selector", m, "", "", og, "", <<>>, "mode") : og \in Rng(OGs)}
   \cup {R("replanner", m, "", "", og, "", <<>>, "all") : og \in Rng(OGs)}
   \cup {R(md, m, "", "", "", "", <<>>, "all") : md \in {"sequential_simulator", "action_selector"}}

RECURSIVE SeqsOfLen(_)
SeqsOfLen(n) == IF n = 0 THEN {<<>>} ELSE {Append(s, c) : s \in SeqsOfLen(n - 1), c \in Rng(SubSeq(CKPipe, 1, NPipe))}
\* length 1 and 2: every sequence; length 3: those without immediate repetition
PipeSeqs == UNION {{s \in SeqsOfLen(n) : n < 3 \/ \A i \in 1..(n - 1) : s[i] # s[i + 1]} : n \in 1..PipeLen}
PipeReqs(m) == {R("compiler", m, "", "", "", "", s, "pipe") : s \in PipeSeqs}


(* Long pipelines (3..LongLen stages).  The property's pipeline clause speaks about the kind        *)
(* PRODUCED BY ALL THE COMPILERS BEFORE a stage: from the third stage on that kind differs from     *)
(* "the previous compiler applied to the requested kind", so an early stage's change of the kind    *)
(* (a feature removed or introduced) must still be in force two or more stages later.  The space    *)
(* (lengths x sequences over CKLong x extra features) is walked with a stride, NLong points per     *)
(* kind of the universe, shifted by Seed.  CKLong = the compilation kinds offered by built-in       *)
(* compilers whose resulting_problem_kind changes the kind, and those of the mocks' CompMenu; XFeat *)
(* = features outside the universe that built-in compilers remove or introduce.                     *)
CKLong == <<"QUANTIFIERS_REMOVING", "GROUNDING", "STATE_INVARIANTS_REMOVING", "TRAJECTORY_CONSTRAINTS_REMOVING",
            "DURATIVE_ACTIONS_TO_PROCESSES", "CONDITIONAL_EFFECTS_REMOVING", "DISJUNCTIVE_CONDITIONS_REMOVING",
            "NEGATIVE_CONDITIONS_REMOVING", "USERTYPE_FLUENTS_REMOVING", "TIMED_TO_SEQUENTIAL",
            "BOUNDED_TYPES_REMOVING", "UNDEFINED_INITIAL_NUMERIC_REMOVING">>
XFeat == <<"OBJECT_FLUENTS", "NEGATIVE_CONDITIONS", "CONDITIONAL_EFFECTS", "DISJUNCTIVE_CONDITIONS", "UNIVERSAL_CONDITIONS">>
NLens == LongLen - 2
LongSpace == NLens * (2 ^ Len(XFeat)) * (Len(CKLong) ^ LongLen)
\* strides: primes, coprime to LongSpace = NLens * 2^a * 3^b (NLens <= 4)
LongCode(m, j) == (((Seed * 7919) % LongSpace) + ((m * 1299709) % LongSpace) + ((j * 15485863) % LongSpace)) % LongSpace
LongOf(m, code) ==
   LET n == 3 + (code % NLens)
       c1 == code \div NLens
       xm == c1 % (2 ^ Len(XFeat))
       c2 == c1 \div (2 ^ Len(XFeat))
   IN RX("compiler", m, {XFeat[i] : i \in {k \in DOMAIN XFeat : Bit(xm, k)}}, "", "", "", "",
         [i \in 1..n |-> CKLong[1 + ((c2 \div (Len(CKLong) ^ (i - 1))) % Len(CKLong))]], "pipe")
LongReqs(m) == {LongOf(m, LongCode(m, j)) : j \in 1..NLong}

Reqs == UNION {SingleReqs(m) \cup PipeReqs(m) \cup LongReqs(m) : m \in Masks}

\* ingredients of real problems (what Python adds to a base problem) -- each brings one universe feature
Ingredients == <<"conditional_effect", "durative_action", "trajectory_constraint", "state_invariant",
                 "existential_goal", "plan_length_metric">>
IngMasks == 0..(2 ^ Len(Ingredients) - 1)
IngOf(m) == {Ingredients[i] : i \in {j \in DOMAIN Ingredients : Bit(m, j)}}
ProbReqs ==
   UNION {{[mode |-> "sequential_simulator", og |-> "", ing |-> IngOf(m), grp |-> Grp(m)],
           [mode |-> "action_selector", og |-> "", ing |-> IngOf(m), grp |-> Grp(m)]}
          \cup {[mode |-> "replanner", og |-> og, ing |-> IngOf(m), grp |-> Grp(m)] : og \in Rng(OGs)} : m \in IngMasks}

-----------------------------------------------------------------------------
(* mock capability profiles: mixed-radix decoding of a code, walked with a stride *)
ModeMenu == << {"oneshot_planner"},
               {"oneshot_planner", "anytime_planner", "plan_repairer"},
               {"oneshot_planner", "plan_validator"},
               {"oneshot_planner", "portfolio_selector"},
               {"anytime_planner"},
               {"plan_validator", "plan_repairer"},
               {"compiler"},
               {"compiler", "oneshot_planner"},
               {"sequential_simulator", "action_selector"},
               {"replanner", "oneshot_planner"},
               {"compiler", "plan_validator", "sequential_simulator"},
               {"portfolio_selector", "replanner", "action_selector"} >>
\* supported part of the universe, as masks relative to the full universe in use (NF >= 6)
Full == 2 ^ NF - 1
FeatMenu == << Full, Full - 1, Full - 2, Full - 4, Full - 8 - 16, Full - 32, 1, 1 + 16 + 32, 2 + 4 + 8, 0 >>
PlanMenu == << {}, {"SEQUENTIAL_PLAN"}, {"TIME_TRIGGERED_PLAN", "PARTIAL_ORDER_PLAN"}, {"SEQUENTIAL_PLAN", "TIME_TRIGGERED_PLAN"} >>
CompMenu == << {"GROUNDING"}, {"QUANTIFIERS_REMOVING", "GROUNDING"}, {"TRAJECTORY_CONSTRAINTS_REMOVING"},
               {"CONDITIONAL_EFFECTS_REMOVING", "STATE_INVARIANTS_REMOVING", "DISJUNCTIVE_CONDITIONS_REMOVING"}, {} >>
OptMenu == << {}, {"SATISFICING"}, {"SOLVED_OPTIMALLY"}, {"SATISFICING", "SOLVED_OPTIMALLY"} >>
AnyMenu == << {}, {"INCREASING_QUALITY"}, {"OPTIMAL_PLANS"}, {"INCREASING_QUALITY", "OPTIMAL_PLANS"} >>
\* features a mock compiler removes / adds in resulting_problem_kind (universe indices:
\* 2 CONTINUOUS_TIME, 3 TRAJECTORY_CONSTRAINTS, 4 STATE_INVARIANTS, 5 EXISTENTIAL_CONDITIONS, 6 PLAN_LENGTH)
RemMenu == << {}, {3}, {4, 5}, {5}, {2, 3, 4, 5, 6} >>
AddMenu == << {}, {4}, {3}, {} >>

Radix == <<Len(ModeMenu), Len(FeatMenu), Len(PlanMenu), Len(CompMenu), Len(OptMenu), Len(AnyMenu), Len(RemMenu), Len(AddMenu)>>
RECURSIVE Prod(_, _)
Prod(s, n) == IF n = 0 THEN 1 ELSE s[n] * Prod(s, n - 1)
Space == Prod(Radix, Len(Radix))
Digit(code, k) == (code \div Prod(Radix, k - 1)) % Radix[k]
Profile(code) ==
   [modes |-> ModeMenu[1 + Digit(code, 1)],
    feats |-> {i \in U : Bit(FeatMenu[1 + Digit(code, 2)], i)},
    plans |-> PlanMenu[1 + Digit(code, 3)],
    comps |-> CompMenu[1 + Digit(code, 4)],
    opt |-> OptMenu[1 + Digit(code, 5)],
    any |-> AnyMenu[1 + Digit(code, 6)],
    rem |-> {i \in RemMenu[1 + Digit(code, 7)] : i \in U},
    add |-> {i \in AddMenu[1 + Digit(code, 8)] : i \in U}]

Schemes == <<"default", "reversed", "mocks_first", "every_other", "mocks_only_reversed", "rotated">>
\* configuration c: three profiles on three strided walks (strides coprime to Space = 2^a 3^b 5^c)
Cfg(c) ==
   [id |-> c,
    mocks |-> <<Profile((Seed * 7919 + c * 30011) % Space),
                Profile((Seed * 104729 + c * 15013 + 7) % Space),
                Profile((Seed * 1299709 + c * 49999 + 1001) % Space)>>,
    schemes |-> <<Schemes[1 + (c % Len(Schemes))], Schemes[1 + ((c + 1 + (c \div Len(Schemes))) % Len(Schemes))]>>]
Cfgs == {Cfg(c) : c \in 1..NC}

ASSUME 6 <= NF /\ NF <= Len(Universe) /\ NPipe <= Len(CKPipe) /\ 3 <= LongLen /\ LongLen <= 6 /\ NLong <= 100
ASSUME ndJsonSerialize(IOEnv.OUT_UNIV, <<[universe |-> SubSeq(Universe, 1, NF), ingredients |-> Ingredients, schemes |-> Schemes,
                                          space |-> Space, kinds |-> Cardinality(Masks), pipes |-> Cardinality(PipeSeqs),
                                          longpipes |-> Cardinality(UNION {LongReqs(m) : m \in Masks}), longspace |-> LongSpace,
                                          cklong |-> CKLong, xfeat |-> XFeat]>>)
ASSUME ndJsonSerialize(IOEnv.OUT_REQS, SetToSeq(Reqs))
ASSUME ndJsonSerialize(IOEnv.OUT_PROBS, SetToSeq(ProbReqs))
ASSUME ndJsonSerialize(IOEnv.OUT_CFGS, SetToSeq(Cfgs))
ASSUME PrintT(<<"EMITTED", Cardinality(Reqs), Cardinality(ProbReqs), Cardinality(Cfgs)>>)

VARIABLE x
Init == x = 0
Next == x' = x
=============================================================================
