---------------------------- MODULE UPKindsJudge ----------------------------
(***************************************************************************)
(* C10 judge.  IOEnv.BATCH: one ndjson record per problem                  *)
(*    id      record id                                                    *)
(*    P       the abstract description (UPJ + class sections) projected    *)
(*            from the real problem object                                 *)
(*    raised  "" or the class of the exception raised by `problem.kind`    *)
(*    kind    sorted(problem.kind.features) as computed by the real code   *)
(*    expect, epos   G1 records only: the demand (label, position) the     *)
(*            enumerated case was built to exhibit ("" otherwise)          *)
(* Verdicts are total (Verdict is always TRUE):                            *)
(*    <<"FAIL", id, "missing-" \o label, pos>>  for every demand of        *)
(*          UPKinds!Demands(P) that the recorded kind does not honour      *)
(*    <<"FAIL", id, "kind-raises-" \o class, "kind">>                      *)
(*    <<"UNSPEC", id, zone>>   unspecified zone met (counted, not judged)  *)
(*    <<"HIT", id>> / <<"LOST", id, expect, epos>>   vacuity control of    *)
(*          G1: the projected problem does / does not exhibit the demand   *)
(*          its case stands for (LOST is a machinery failure)              *)
(***************************************************************************)
EXTENDS UPKinds, Json, IOUtils

Batch == ndJsonDeserialize(IOEnv.BATCH)
VARIABLE id
Init == id \in DOMAIN Batch
Next == UNCHANGED id
Spec == Init /\ [][Next]_id

Unmet(P, K) == {d \in Demands(P) : d.any \cap K = {}}

Verdict ==
   LET r == Batch[id] IN
   IF r.raised # ""
   THEN PrintT(<<"FAIL", r.id, "kind-raises-" \o r.raised, "kind">>)
   ELSE LET Dm == TLCEval(Demands(r.P))
            K == Range(r.kind) IN
        /\ \A d \in {x \in Dm : x.any \cap K = {}} : PrintT(<<"FAIL", r.id, "missing-" \o d.label, d.pos>>)
        /\ \A u \in Unspecified(r.P) : PrintT(<<"UNSPEC", r.id, u[1]>>)
        /\ (r.expect # "" =>
              IF \E d \in Dm : d.label = r.expect /\ d.pos = r.epos
              THEN PrintT(<<"HIT", r.id>>)
              ELSE PrintT(<<"LOST", r.id, r.expect, r.epos>>))
=============================================================================
