---------------------------- MODULE UPKindsJudge ----------------------------
(***************************************************************************)
(* C10 judge.  IOEnv.BATCH: one ndjson record per problem                  *)
(*    id      record id                                                    *)
(*    P       the abstract description (UPJ + class sections) projected    *)
(*            from the real problem object                                 *)
(*    raised  "" or the class of the exception raised by `problem.kind`    *)
(*    kind    sorted(problem.kind.features) as computed by the real code   *)
(*    expect, epos   G1 records only: the demand (label, position) the     *)
(*            enumerated case was built to exhibit ("" otherwise)          *)
(* Verdicts are total (Verdict is always TRUE).  Printed tuples are short  *)
(* on purpose (TLC wraps long lines); k numbers the unmet demands of one   *)
(* record:                                                                 *)
(*    <<"F", id, k, label>> and <<"P", id, k, pos>>   the recorded kind    *)
(*          does not honour the demand [label, pos] of UPKinds!Demands(P)  *)
(*    <<"F", id, 0, "kind-raises-" \o class>>   problem.kind raised        *)
(*    <<"UNSPEC", id, zone>>   unspecified zone met (counted, not judged)  *)
(*    <<"HIT", id>> / <<"LOST", id>>   vacuity control of G1: the          *)
(*          projected problem does / does not exhibit the demand its case  *)
(*          stands for (LOST is a machinery failure)                       *)
(***************************************************************************)
EXTENDS UPKinds, Json, IOUtils, SequencesExt

Batch == ndJsonDeserialize(IOEnv.BATCH)
VARIABLE id
Init == id \in DOMAIN Batch
Next == UNCHANGED id
Spec == Init /\ [][Next]_id

Verdict ==
   LET r == Batch[id] IN
   IF r.raised # ""
   THEN PrintT(<<"F", r.id, 0, "kind-raises-" \o r.raised>>)
   ELSE LET Dm == TLCEval(Demands(r.P))
            K == Range(r.kind)
            us == SetToSeq({x \in Dm : x.any \cap K = {}}) IN
        /\ \A k \in DOMAIN us : PrintT(<<"F", r.id, k, us[k].label>>) /\ PrintT(<<"P", r.id, k, us[k].pos>>)
        /\ \A u \in Unspecified(r.P) : PrintT(<<"UNSPEC", r.id, u[1]>>)
        /\ (r.expect # "" =>
              IF \E d \in Dm : d.label = r.expect /\ d.pos = r.epos
              THEN PrintT(<<"HIT", r.id>>)
              ELSE PrintT(<<"LOST", r.id>>))
=============================================================================
