------------------------------- MODULE Belief -------------------------------
(***************************************************************************)
(* C30: the K_S0 conformant-to-classical compilation is sound and complete.*)
(*                                                                         *)
(* One batch record = one compilation  (P, S) --Ks0Compiler--> K  where P  *)
(* is a Boolean problem (UPJ) and S the set of possible initial states,    *)
(* given explicitly (`inits`) or by a contingent problem's oneof / or /    *)
(* unknown constraints over hidden ground fluents (`cons`; the set S is    *)
(* then DEFINED here, see ConsStates).  `back` is the table of the real    *)
(* plan_back_conversion on every ground action of K (merge actions and     *)
(* helper actions map to the empty sequence).                              *)
(*                                                                         *)
(* A conformant plan is a sequence of ground actions of P that is          *)
(* executable (UPSeqSem!Step) from EVERY state of S and ends in a goal     *)
(* state from each: the belief B (set of P-states) is the image of S.      *)
(*                                                                         *)
(* mode "K"   TLC explores ALL behaviours of the compiled problem K        *)
(*            (UPSeqSem!Step on K, no depth bound) together with the       *)
(*            belief B its mapped-back plan produces.                      *)
(*            Sound:  Goal_K(sk) => no mapped-back step was inapplicable   *)
(*                    in some b \in B  /\  every b \in B is a goal state.  *)
(*            <<"KG", id, level>> is printed whenever a goal state of K is *)
(*            reached ("the compiled problem is solvable").                *)
(* mode "P"   full belief-space exploration of P from S (an action is      *)
(*            applicable iff it is applicable in every b \in B);           *)
(*            <<"PG", id, "P">> = "a conformant plan exists".              *)
(* mode "PK"  the same from the initial states the compiler KEPT as tags   *)
(*            (`kept`, read off K's initial state) -- used by BeliefJudge  *)
(*            for "dropping dominated states never changes the answer".    *)
(*            Tags: every kept tag is one of the possible initial states   *)
(*            (K_S0 tags are the states of S).                             *)
(* Both spaces are finite and explored completely; Cap bounds the number   *)
(* of distinct states of a run (a real invariant, handled by the driver).  *)
(* Verdicts are total: FAIL lines are printed, the invariant stays TRUE.   *)
(* With Track = TRUE the last action is kept in the state (witness runs:   *)
(* the counterexample of NoFail / NoPGoal / NoKGoal is a plan).            *)
(***************************************************************************)
EXTENDS UPSeqSem, Json, IOUtils

CONSTANTS Track, Cap

Batch == ndJsonDeserialize(IOEnv.BATCH)

VARIABLES cid, mode, sk, B, bad, last
vars == <<cid, mode, sk, B, bad, last>>

RP(c) == [P |-> Batch[c].P, keys |-> Batch[c].pkeys]
RK(c) == [P |-> Batch[c].K, keys |-> Batch[c].kkeys]

SeqSet(s) == {s[i] : i \in DOMAIN s}

\* ---------- the possible initial states ----------
\* a literal [i |-> index of the ground fluent in pkeys, neg |-> BOOLEAN] holds in state s
LitHolds(l, s) == s[l.i].b # l.neg
NHold(g, s) == Cardinality({j \in DOMAIN g.lits : LitHolds(g.lits[j], s)})
ConsOK(g, s) == IF g.kind = "oneof" THEN NHold(g, s) = 1 ELSE NHold(g, s) >= 1
\* contingent problem: the non-hidden ground fluents have their declared initial value, the
\* hidden ones (those occurring in a constraint) any value such that every oneof group has
\* exactly one true literal and every or group at least one (unknown f = or(not f, f))
ConsStates(c) ==
   LET base == InitSt(RP(c))
       cons == Batch[c].cons
       H    == UNION {{cons[j].lits[k].i : k \in DOMAIN cons[j].lits} : j \in DOMAIN cons}
       cand == {[i \in DOMAIN base |-> IF i \in H THEN BV(i \in T) ELSE base[i]] : T \in SUBSET H}
   IN {s \in cand : \A j \in DOMAIN cons : ConsOK(cons[j], s)}
B0(c) == IF Batch[c].fam = "contingent" THEN ConsStates(c) ELSE SeqSet(Batch[c].inits)
Kept(c) == SeqSet(Batch[c].kept)

\* ---------- map-back table ----------
\* sequence of ground actions of P the K ground action ga maps back to; unknown action: "?"
BackOf(c, ga) ==
   LET js == {j \in DOMAIN Batch[c].back : Batch[c].back[j].qa = ga.a /\ Batch[c].back[j].qargs = ga.args}
   IN IF js = {} THEN <<[a |-> "?", args |-> <<>>]>> ELSE Batch[c].back[CHOOSE j \in js : TRUE].pas

\* ---------- belief progression ----------
\* one ground action of P on a belief: "ok" (applicable in every state), "inapp", "unspec"
BelStep(c, pa, S) ==
   LET rs == {Step(RP(c), pa, b) : b \in S} IN
   IF \E r \in rs : r.unspec THEN [st |-> "unspec", S |-> S]
   ELSE IF \E r \in rs : ~r.ok THEN [st |-> "inapp", S |-> S]
   ELSE [st |-> "ok", S |-> {r.s : r \in rs}]
RECURSIVE BelRun(_,_,_,_)
BelRun(c, pas, i, S) ==
   IF i > Len(pas) THEN [st |-> "ok", S |-> S]
   ELSE IF pas[i].a = "?" THEN [st |-> "inapp", S |-> S]
   ELSE LET r == BelStep(c, pas[i], S) IN
        IF r.st # "ok" THEN r ELSE BelRun(c, pas, i + 1, r.S)

AllGoalP(c, S) == \A b \in S : Goal3(RP(c), b) = "T"

Modes(c) == SeqSet(Batch[c].modes)

Init == /\ cid \in DOMAIN Batch
        /\ mode \in Modes(cid)
        /\ sk = IF mode = "K" THEN InitSt(RK(cid)) ELSE <<>>
        /\ B = IF mode = "PK" THEN Kept(cid) ELSE B0(cid)
        /\ bad = "ok"
        /\ last = <<>>

NextK == /\ mode = "K" /\ bad # "unspec"
         /\ \E ga \in GActs(Batch[cid].K) :
              LET rq == Step(RK(cid), ga, sk) IN
              IF rq.unspec
              THEN sk' = sk /\ B' = B /\ bad' = "unspec" /\ last' = <<>>
              ELSE /\ rq.ok
                   /\ sk' = rq.s
                   /\ last' = IF Track THEN <<ga>> ELSE <<>>
                   /\ IF bad = "inapp" THEN UNCHANGED <<B, bad>>
                      ELSE LET r == BelRun(cid, BackOf(cid, ga), 1, B) IN
                           B' = r.S /\ bad' = r.st
         /\ UNCHANGED <<cid, mode>>

NextP == /\ mode \in {"P", "PK"} /\ bad = "ok"
         /\ \E pa \in GActs(Batch[cid].P) :
              LET r == BelStep(cid, pa, B) IN
              /\ r.st # "inapp"
              /\ B' = r.S /\ bad' = r.st
              /\ last' = IF Track THEN <<pa>> ELSE <<>>
         /\ UNCHANGED <<cid, mode, sk>>

Next == NextK \/ NextP
Spec == Init /\ [][Next]_vars

KGoal == mode = "K" /\ bad # "unspec" /\ Goal3(RK(cid), sk) = "T"
SoundClause ==
   IF bad = "inapp" THEN "mapped-back-step-inapplicable"
   ELSE IF ~AllGoalP(cid, B) THEN "mapped-back-plan-misses-goal"
   ELSE "ok"

Verdict ==
   LET id == Batch[cid].id IN
   IF bad = "unspec" THEN PrintT(<<"UNSPEC", id, mode>>)
   ELSE IF mode = "K"
   THEN IF KGoal
        THEN /\ PrintT(<<"KG", id, TLCGet("level")>>)
             /\ IF SoundClause # "ok" THEN PrintT(<<"FAIL", id, SoundClause>>) ELSE TRUE
        ELSE TRUE
   ELSE /\ (IF AllGoalP(cid, B) THEN PrintT(<<"PG", id, mode, TLCGet("level")>>) ELSE TRUE)
        \* K_S0: the tags are possible initial states (checked in the initial state of mode PK)
        /\ (IF mode = "PK" /\ B = Kept(cid) /\ ~(Kept(cid) \subseteq B0(cid))
            THEN PrintT(<<"FAIL", id, "tag-is-not-a-possible-initial-state">>) ELSE TRUE)

\* real invariants: state cap (machinery) and, in witness runs, the negated findings
WithinCap == TLCGet("distinct") <= Cap
NoFail  == ~(KGoal /\ SoundClause # "ok")
NoKGoal == ~KGoal
NoPGoal == ~(mode \in {"P", "PK"} /\ bad = "ok" /\ AllGoalP(cid, B))
=============================================================================
