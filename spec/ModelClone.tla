---------------------------- MODULE ModelClone ----------------------------
(* C22 -- problem cloning yields an equal, independent copy that accepts the  *)
(* same edits.                                                                *)
(*                                                                            *)
(* A problem under construction is abstracted to a record of the fields that  *)
(* matter for `==` and for the acceptance of later model-building calls, over *)
(* a small fixed universe of named items (the driver binds the ids to real    *)
(* unified-planning objects):                                                 *)
(*   fl     declared new fluents [n, d]  (d = stored default "none"/"t"/"f")  *)
(*   idef   the problem's initial default for Boolean fluents                 *)
(*   objs   declared objects            acts  declared actions               *)
(*   aeffs  effects of the actions [a, t, f, k, v, c]                         *)
(*   goals, traj, mets  sets of ids     teffs timed effects [t, f, k, v, c]   *)
(*   tgoals timed goals [t, g]          init  explicit initial values [f, v]  *)
(*   tm     discrete_time flag of the time model                              *)
(* An effect [t,f,k,v,c]: timing t, fluent f ("x" numeric, "b" Boolean), kind *)
(* k in asg/inc/dec, value id v, c = conditional.                             *)
(*                                                                            *)
(* SPEC LAYER (declarative): SpecAcc / SpecApply / SpecClone / AbsEq.  An     *)
(* edit is accepted or rejected as a function of the *content* only: the      *)
(* conflict rule is pairwise (ConflictSpec).  Clone is the identity, `==` is  *)
(* equality of contents as sets with effective initial values.                *)
(*                                                                            *)
(* IMPL LAYER (as written): the same content plus the private bookkeeping     *)
(* that effect.check_conflicting_effects reads and updates                    *)
(*   tasg [t,f,v] / tinc [t,f]      Problem._fluents_assigned/_fluents_inc_dec *)
(*   aasg [a,t,f,v] / ainc [a,t,f]  the same two fields of every action       *)
(* ImplAcc decides from the bookkeeping only; ImplClone(ip, copied) copies     *)
(* exactly the fields in `copied` (MCModelClone lists, per problem class,    *)
(* the fields the real clone() copies).                                       *)
(*                                                                            *)
(* This module contains definitions only (both layers as next-state           *)
(* functions); MCModelClone is the T1 state machine, ModelCloneEnum emits     *)
(* edit histories, ModelCloneTrace judges recorded histories of the real code.*)
EXTENDS Integers, Sequences, FiniteSets, TLC

CONSTANTS TimN,     \* timings of timed effects, e.g. {"t1","t2"}
          DurT      \* effect timings of the durative action "d", subset of {"s","e"}
\* Operators take the problem class cls ("plain" | "cont" | "htn" | "ma": Problem, ContingentProblem,
\* HierarchicalProblem, MultiAgentProblem) as a parameter where it matters.
Classes == {"plain", "cont", "htn", "ma"}

\* ------------------------------------------------------------------ universe
NumF == {"x"}                 \* numeric scaffold fluent (always declared)
BoolF == {"b", "n"}           \* "b" scaffold (default false), "n" added by an edit
Dflt == {"none", "t", "f"}
ObjN == {"o1", "n"}           \* an object named "n" clashes with the fluent "n"
ActN(cls) == IF cls = "ma" THEN {"a"} ELSE {"a", "d"}   \* "a" instantaneous, "d" durative
GoalN == {"g1", "g2", "gtrue"}
IvN == {"p5", "c510", "bad"}  \* "bad" = end - 1: rejected
TrajN == {"tr1", "tr2", "bad"}\* "bad" = not a trajectory constraint: rejected
MetN == {"minx", "maxx", "cost"}

Ops(cls) == IF cls = "ma" THEN {"fluent", "object", "action", "goal", "init", "acteff"}
       ELSE {"fluent", "object", "action", "goal", "teff", "tgoal", "traj", "metric", "init", "acteff"}

\* effect shapes at the timings T
EffShapes(T) ==
   {[t |-> t, f |-> "x", k |-> "asg", v |-> v, c |-> c] : t \in T, v \in {1, 2}, c \in BOOLEAN}
   \cup {[t |-> t, f |-> "x", k |-> k, v |-> 1, c |-> c] : t \in T, k \in {"inc", "dec"}, c \in BOOLEAN}
   \cup {[t |-> t, f |-> "b", k |-> "asg", v |-> v, c |-> FALSE] : t \in T, v \in {1, 2}}
   \cup {[t |-> t, f |-> "b", k |-> "asg", v |-> 1, c |-> TRUE] : t \in T}
   \cup {[t |-> t, f |-> "b", k |-> "inc", v |-> 1, c |-> FALSE] : t \in T}   \* type error

Ed(op, a, t, f, k, v, c) == [op |-> op, a |-> a, t |-> t, f |-> f, k |-> k, v |-> v, c |-> c]
EdEff(op, a, s) == Ed(op, a, s.t, s.f, s.k, s.v, s.c)
NoEdit == Ed("", "", "", "", "", 0, FALSE)

AllEdits ==
   {Ed("fluent", "n", "", "", d, 0, FALSE) : d \in Dflt}
   \cup {Ed("object", a, "", "", "", 0, FALSE) : a \in ObjN}
   \cup {Ed("action", a, "", "", "", 0, FALSE) : a \in {"a", "d"}}
   \cup {Ed("goal", a, "", "", "", 0, FALSE) : a \in GoalN}
   \cup {EdEff("teff", "", s) : s \in EffShapes(TimN)}
   \cup {Ed("tgoal", g, t, "", "", 0, FALSE) : g \in {"g1", "g2"}, t \in IvN}
   \cup {Ed("traj", a, "", "", "", 0, FALSE) : a \in TrajN}
   \cup {Ed("metric", a, "", "", "", 0, FALSE) : a \in MetN}
   \cup {Ed("init", "", "", f, "", v, FALSE) : f \in {"x", "b", "n"}, v \in {1, 2}}
   \cup {EdEff("acteff", "a", s) : s \in EffShapes({"na"})}
   \cup {EdEff("acteff", "d", s) : s \in EffShapes(DurT)}
\* a multi-agent problem has no explicit value for an undeclared fluent (its `==` raises on it)
EditsOf(cls) == {e \in AllEdits : e.op \in Ops(cls) /\ (e.op \in {"action", "acteff"} => e.a \in ActN(cls))
                                  /\ ~(cls = "ma" /\ e.op = "init" /\ e.f = "n")}
EditsTab == TLCEval([cls \in Classes |-> EditsOf(cls)])
Edits(cls) == EditsTab[cls]

\* one representative per acceptance rule / content field
SmallEdits(k) ==
   {e \in Edits(k) :
      \/ e.op = "fluent" /\ e.k \in {"none", "t"}
      \/ e.op \in {"object", "action"}
      \/ e.op = "goal" /\ e.a \in {"g1", "gtrue"}
      \/ e.op \in {"teff", "acteff"} /\ e.t # "e" /\
            \/ e.f = "x" /\ e.k = "asg" /\ (~e.c \/ e.v = 1)
            \/ e.f = "x" /\ e.k = "inc" /\ ~e.c
            \/ e.f = "b" /\ e.k = "asg" /\ e.v = 1 /\ ~e.c
      \/ e.op = "tgoal" /\ e.a = "g1" /\ e.t \in {"p5", "bad"}
      \/ e.op = "traj" /\ e.a \in {"tr1", "bad"}
      \/ e.op = "metric" /\ e.a \in {"minx", "cost"}
      \/ e.op = "init" /\ <<e.f, e.v>> \in {<<"x", 1>>, <<"b", 2>>, <<"n", 1>>}}

\* the container an edit touches (used by the generator to emit interacting histories)
Locus(e) == CASE e.op \in {"fluent", "object"} -> "name:" \o e.a
              [] e.op = "action" \/ e.op = "acteff" -> "act:" \o e.a
              [] e.op = "metric" -> IF e.a = "cost" THEN "act:a" ELSE "mets"
              [] e.op = "teff" -> "teff:" \o e.t
              [] e.op = "init" -> IF e.f = "n" THEN "name:n" ELSE "init:" \o e.f
              [] OTHER -> e.op
\* a second locus for edits that touch two containers
Locus2(e) == CASE e.op = "metric" -> "mets"
               [] e.op = "action" /\ e.a = "d" -> "tm"
               [] e.op \in {"teff", "tgoal"} -> "tm"
               [] OTHER -> Locus(e)

\* --------------------------------------------------------------- content
ContentFields == <<"fl", "idef", "objs", "acts", "aeffs", "goals", "teffs", "tgoals", "traj", "mets", "init", "tm">>
Empty(idef, tm) ==
   [fl |-> {}, idef |-> idef, objs |-> {}, acts |-> {}, aeffs |-> {}, goals |-> {}, teffs |-> {},
    tgoals |-> {}, traj |-> {}, mets |-> {}, init |-> {}, tm |-> tm]
Content(p) == [f \in {ContentFields[i] : i \in DOMAIN ContentFields} |-> p[f]]
\* the fields on which two records differ, in a fixed order
Diff(p, q) == SelectSeq(ContentFields, LAMBDA f : p[f] # q[f])
\* the same with the kind of difference (want w, got g): lost / extra / changed
DiffK(w, g) ==
   LET d == Diff(w, g)
       kind(f) == IF f \in {"idef", "tm"} THEN "changed"
                  ELSE IF g[f] \subseteq w[f] THEN "lost"
                  ELSE IF w[f] \subseteq g[f] THEN "extra" ELSE "changed"
   IN [i \in DOMAIN d |-> d[i] \o ":" \o kind(d[i])]

EffOf(e) == [t |-> e.t, f |-> e.f, k |-> e.k, v |-> e.v, c |-> e.c]
AEffOf(e) == [a |-> e.a, t |-> e.t, f |-> e.f, k |-> e.k, v |-> e.v, c |-> e.c]
Names(p) == {r.n : r \in p.fl} \cup p.objs \cup p.acts

\* ------------------------------------------------------------ SPEC LAYER
\* ConflictSpec: the new effect e against the set E of effects of the same container.
\* Only unconditional effects on non-Boolean fluents take part; an assignment conflicts with any
\* increase/decrease and with an assignment of a different value at the same timing, an
\* increase/decrease conflicts with any assignment.  "" = no conflict.
ConflictSpec(E, e) ==
   IF e.f \in BoolF /\ e.k # "asg" THEN "type"
   ELSE IF e.c \/ e.f \in BoolF THEN ""
   ELSE LET same == {x \in E : x.t = e.t /\ x.f = e.f /\ ~x.c} IN
        IF e.k = "asg"
        THEN IF \E x \in same : x.k # "asg" THEN "asg-after-incdec"
             ELSE IF \E x \in same : x.k = "asg" /\ x.v # e.v THEN "asg-after-asg"
             ELSE ""
        ELSE IF \E x \in same : x.k = "asg" THEN "incdec-after-asg" ELSE ""

\* "" = the call succeeds, otherwise the reason of the rejection
SpecAcc(p, e) ==
   CASE e.op \in {"fluent", "object", "action"} -> IF e.a \in Names(p) THEN "name" ELSE ""
     [] e.op = "teff"   -> ConflictSpec(p.teffs, e)
     [] e.op = "tgoal"  -> IF e.t = "bad" THEN "interval" ELSE ""
     [] e.op = "traj"   -> IF e.a = "bad" THEN "form" ELSE ""
     [] e.op = "metric" -> IF e.a = "cost" /\ "a" \notin p.acts THEN "noaction" ELSE ""
     [] e.op = "acteff" -> IF e.a \notin p.acts THEN "noaction"
                           ELSE ConflictSpec({x \in p.aeffs : x.a = e.a}, e)
     [] OTHER -> ""

SpecApply(p, e) ==
   CASE e.op = "fluent" -> [p EXCEPT !.fl = @ \cup {[n |-> e.a, d |-> IF e.k # "none" THEN e.k ELSE p.idef]}]
     [] e.op = "object" -> [p EXCEPT !.objs = @ \cup {e.a}]
     [] e.op = "action" -> [p EXCEPT !.acts = @ \cup {e.a}]
     [] e.op = "goal"   -> IF e.a = "gtrue" THEN p ELSE [p EXCEPT !.goals = @ \cup {e.a}]
     [] e.op = "teff"   -> [p EXCEPT !.teffs = @ \cup {EffOf(e)}]
     [] e.op = "tgoal"  -> [p EXCEPT !.tgoals = @ \cup {[t |-> e.t, g |-> e.a]}]
     [] e.op = "traj"   -> [p EXCEPT !.traj = @ \cup {e.a}]
     [] e.op = "metric" -> [p EXCEPT !.mets = @ \cup {e.a}]
     [] e.op = "init"   -> [p EXCEPT !.init = {r \in @ : r.f # e.f} \cup {[f |-> e.f, v |-> e.v]}]
     [] e.op = "acteff" -> [p EXCEPT !.aeffs = @ \cup {AEffOf(e)}]
     [] OTHER -> p
\* one call: the state after, given whether the call succeeded
SpecStep(p, e, ok) == IF ok THEN SpecApply(p, e) ELSE p
SpecClone(p) == p

\* effective initial values: explicit value, else the fluent's default.  Scaffold: "b" has default
\* false (value id 2); "x" has no default in action-based problems and default 0 in multi-agent ones.
EffInit(cls, p) ==
   LET expl(f) == {r \in p.init : r.f = f}
       dn == {r \in p.fl : r.n = "n" /\ r.d # "none"}
   IN p.init
      \cup (IF expl("b") = {} THEN {[f |-> "b", v |-> 2]} ELSE {})
      \cup (IF expl("x") = {} /\ cls = "ma" THEN {[f |-> "x", v |-> 0]} ELSE {})
      \cup (IF expl("n") = {} THEN {[f |-> "n", v |-> IF r.d = "t" THEN 1 ELSE 2] : r \in dn} ELSE {})
Temporal(p) == p.teffs # {} \/ p.tgoals # {} \/ "d" \in p.acts
\* the time-model part of the problem kind
KindTM(p) == Temporal(p) /\ p.tm
\* `==` of two problems: contents as sets, effective initial values, kind
AbsEq(cls, p, q) ==
   /\ {r.n : r \in p.fl} = {r.n : r \in q.fl}
   /\ p.objs = q.objs /\ p.acts = q.acts /\ p.aeffs = q.aeffs /\ p.goals = q.goals
   /\ p.teffs = q.teffs /\ p.tgoals = q.tgoals /\ p.traj = q.traj /\ p.mets = q.mets
   /\ EffInit(cls, p) = EffInit(cls, q)
   /\ KindTM(p) = KindTM(q)
\* multi-agent `==` evaluates every declared fluent's initial value and raises when one is missing
EqDefined(cls, p) == cls # "ma" \/ \A r \in p.fl : r.d # "none" \/ \E i \in p.init : i.f = r.n

\* ------------------------------------------------------------ IMPL LAYER
BookFields == <<"tasg", "tinc", "aasg", "ainc">>
\* "mdef": the default of a MinimizeActionCosts metric survives the clone
AllFields == {ContentFields[i] : i \in DOMAIN ContentFields} \cup {BookFields[i] : i \in DOMAIN BookFields} \cup {"mdef"}
EmptyI(idef, tm) == [fl |-> {}, idef |-> idef, objs |-> {}, acts |-> {}, aeffs |-> {}, goals |-> {}, teffs |-> {},
                     tgoals |-> {}, traj |-> {}, mets |-> {}, init |-> {}, tm |-> tm,
                     tasg |-> {}, tinc |-> {}, aasg |-> {}, ainc |-> {}]
\* check_conflicting_effects as written: asg = {[t,f,v]}, inc = {[t,f]} of the container
ImplConflict(asg, inc, e) ==
   IF e.f \in BoolF /\ e.k # "asg" THEN "type"
   ELSE IF e.c \/ e.f \in BoolF THEN ""
   ELSE IF e.k = "asg"
        THEN IF [t |-> e.t, f |-> e.f] \in inc THEN "asg-after-incdec"
             ELSE IF \E x \in asg : x.t = e.t /\ x.f = e.f /\ x.v # e.v THEN "asg-after-asg"
             ELSE ""
        ELSE IF \E x \in asg : x.t = e.t /\ x.f = e.f THEN "incdec-after-asg" ELSE ""
Book(e) == ~e.c /\ e.f \notin BoolF
ActAsg(ip, a) == {[t |-> x.t, f |-> x.f, v |-> x.v] : x \in {y \in ip.aasg : y.a = a}}
ActInc(ip, a) == {[t |-> x.t, f |-> x.f] : x \in {y \in ip.ainc : y.a = a}}
ImplAcc(ip, e) ==
   CASE e.op = "teff"   -> ImplConflict(ip.tasg, ip.tinc, e)
     [] e.op = "acteff" -> IF e.a \notin ip.acts THEN "noaction"
                           ELSE ImplConflict(ActAsg(ip, e.a), ActInc(ip, e.a), e)
     [] OTHER -> SpecAcc(ip, e)
ImplApply(ip, e) ==
   LET q == SpecApply(ip, e) IN
   CASE e.op = "teff" /\ Book(e) ->
           IF e.k = "asg" THEN [q EXCEPT !.tasg = @ \cup {[t |-> e.t, f |-> e.f, v |-> e.v]}]
           ELSE [q EXCEPT !.tinc = @ \cup {[t |-> e.t, f |-> e.f]}]
     [] e.op = "acteff" /\ Book(e) ->
           IF e.k = "asg" THEN [q EXCEPT !.aasg = @ \cup {[a |-> e.a, t |-> e.t, f |-> e.f, v |-> e.v]}]
           ELSE [q EXCEPT !.ainc = @ \cup {[a |-> e.a, t |-> e.t, f |-> e.f]}]
     [] OTHER -> q
ImplStep(ip, e) == IF ImplAcc(ip, e) = "" THEN ImplApply(ip, e) ELSE ip
\* clone(): a fresh problem (constructed without initial defaults, continuous time) receiving the
\* fields in Copied
ImplClone(ip, copied) ==
   LET blank == EmptyI("none", FALSE)
       r == [f \in DOMAIN blank |-> IF f \in copied THEN ip[f] ELSE blank[f]]
   IN IF "mdef" \in copied \/ "cost" \notin r.mets THEN r
      ELSE [r EXCEPT !.mets = (@ \ {"cost"}) \cup {"cost_nd"}]
\* the bookkeeping the content determines (refinement mapping, checked as an invariant)
BookOf(p) ==
   [tasg |-> {[t |-> x.t, f |-> x.f, v |-> x.v] : x \in {y \in p.teffs : Book(y) /\ y.k = "asg"}},
    tinc |-> {[t |-> x.t, f |-> x.f] : x \in {y \in p.teffs : Book(y) /\ y.k # "asg"}},
    aasg |-> {[a |-> x.a, t |-> x.t, f |-> x.f, v |-> x.v] : x \in {y \in p.aeffs : Book(y) /\ y.k = "asg"}},
    ainc |-> {[a |-> x.a, t |-> x.t, f |-> x.f] : x \in {y \in p.aeffs : Book(y) /\ y.k # "asg"}}]
ImplEq(cls, ip, iq) == AbsEq(cls, ip, iq)
=============================================================================
