---------------------------- MODULE DeltaSTNEnum ----------------------------
(* G1 generator for C25: every well-formed call history of length L over the *)
(* operations of DeltaSTN (uniform record shape), written as ndjson.        *)
EXTENDS Integers, Sequences, FiniteSets, TLC, Json, IOUtils, SequencesExt
CONSTANTS NEv, NNet, L
Ev == 1..NEv
Net == 1..NNet
BndE == (0-2)..2
Adds == {[op |-> "add", n |-> n, x |-> p[1], y |-> p[2], b |-> b, m |-> 0] :
            n \in Net, p \in {q \in Ev \X Ev : q[1] # q[2]}, b \in BndE}
        \cup {[op |-> "add", n |-> n, x |-> x, y |-> x, b |-> b, m |-> 0] : n \in Net, x \in Ev, b \in {0-1, 0}}
Copies == {[op |-> "copy", n |-> n, x |-> 0, y |-> 0, b |-> 0, m |-> 0] : n \in Net}
Touches == {[op |-> "touch", n |-> n, x |-> 1, y |-> NEv, b |-> 0, m |-> 0] : n \in Net}
Ops == Adds \cup Copies \cup Touches
NCopies(h, i) == Cardinality({j \in 1..(i-1) : h[j].op = "copy"})
WF(h) == \A i \in DOMAIN h : h[i].n <= 1 + NCopies(h, i) /\ (h[i].op = "copy" => NCopies(h, i) < NNet - 1)
\* fill in the index of the network a copy creates
Fill(h) == [i \in DOMAIN h |-> IF h[i].op = "copy" THEN [h[i] EXCEPT !.m = 2 + NCopies(h, i)] ELSE h[i]]
Histories == {Fill(h) : h \in {h \in [1..L -> Ops] : WF(h)}}
ASSUME ndJsonSerialize(IOEnv.OUT, SetToSeq({[ops |-> h] : h \in Histories}))
ASSUME PrintT(<<"EMITTED", Cardinality(Histories)>>)
VARIABLE dummy
Init == dummy = 0
Next == UNCHANGED dummy
=============================================================================
