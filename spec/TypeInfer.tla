------------------------------ MODULE TypeInfer ------------------------------
(***************************************************************************)
(* C15 -- expression type inference is sound and symmetric.                *)
(*                                                                         *)
(* Types are uniform records [k, lo, hi, name]                             *)
(*   k  "bool" | "int" | "real" | "user" | "time" | "bad"                  *)
(*   lo, hi  NONE (infinite) | [k |-> "n", n, d] (small exact rational)     *)
(*           | [k |-> "N", s, n, d] (sign and BigArith limb sequences: any   *)
(*             magnitude, e.g. the 2^-54-grained bounds produced by float   *)
(*             arithmetic)                                                  *)
(*   name    user type name ("" otherwise)                                  *)
(*                                                                         *)
(* TypeRef(D, e, vt)   reference inference: exact rational interval         *)
(*                     arithmetic on extended reals; 0 * infinity = 0.      *)
(*                     Reported as information only (a wider sound          *)
(*                     interval is not a violation).                        *)
(* EqWellFormed        symmetric by definition.                             *)
(* NumViol / Blame     the soundness judge InType: for every valuation of   *)
(*                     the leaves on the critical-point grid, the value     *)
(*                     UPExpr!Eval(e, sigma) lies inside the inferred        *)
(*                     [lo, hi] and is integral when the inferred type is   *)
(*                     int.                                                 *)
(***************************************************************************)
EXTENDS UPExpr
B == INSTANCE BigArith
SX == INSTANCE SequencesExt

\* ---------- types ----------
TBool == [k |-> "bool", lo |-> NONE, hi |-> NONE, name |-> ""]
TTime == [k |-> "time", lo |-> NONE, hi |-> NONE, name |-> ""]
TBad  == [k |-> "bad", lo |-> NONE, hi |-> NONE, name |-> ""]
TUser(n) == [k |-> "user", lo |-> NONE, hi |-> NONE, name |-> n]
TNum(k, lo, hi) == [k |-> k, lo |-> lo, hi |-> hi, name |-> ""]
TI(lo, hi) == TNum("int", lo, hi)
TR(lo, hi) == TNum("real", lo, hi)
Z(n) == NV(n, 1)
IsNumT(t) == t.k \in {"int", "real"}
Sort(t) == t.k

\* ---------- the declarations every case of C15 is built over ----------
\* every bound form {unbounded, lo only, hi only, both} x {int, real}, with sign variants
Decl ==
  [types   |-> << [name |-> "T", parent |-> ""], [name |-> "T1", parent |-> "T"],
                  [name |-> "T2", parent |-> "T"], [name |-> "T11", parent |-> "T1"],
                  [name |-> "U", parent |-> ""] >>,
   objects |-> << [name |-> "oT", type |-> "T"], [name |-> "o1", type |-> "T1"],
                  [name |-> "o2", type |-> "T2"], [name |-> "o11", type |-> "T11"],
                  [name |-> "oU", type |-> "U"] >>,
   fluents |-> <<
      [name |-> "iu",  type |-> TI(NONE, NONE), sig |-> <<>>],
      [name |-> "il",  type |-> TI(Z(0 - 1), NONE), sig |-> <<>>],
      [name |-> "ilp", type |-> TI(Z(2), NONE), sig |-> <<>>],
      [name |-> "ih",  type |-> TI(NONE, Z(3)), sig |-> <<>>],
      [name |-> "ihn", type |-> TI(NONE, Z(0 - 1)), sig |-> <<>>],
      [name |-> "ib",  type |-> TI(Z(0 - 2), Z(3)), sig |-> <<>>],
      [name |-> "ibp", type |-> TI(Z(1), Z(3)), sig |-> <<>>],
      [name |-> "ibn", type |-> TI(Z(0 - 3), Z(0 - 1)), sig |-> <<>>],
      [name |-> "iz",  type |-> TI(Z(0), Z(1)), sig |-> <<>>],
      [name |-> "ru",  type |-> TR(NONE, NONE), sig |-> <<>>],
      [name |-> "rl",  type |-> TR(NV(0 - 1, 2), NONE), sig |-> <<>>],
      [name |-> "rlp", type |-> TR(NV(1, 3), NONE), sig |-> <<>>],
      [name |-> "rh",  type |-> TR(NONE, NV(2, 3)), sig |-> <<>>],
      [name |-> "rhn", type |-> TR(NONE, NV(0 - 1, 3)), sig |-> <<>>],
      [name |-> "rb",  type |-> TR(NV(0 - 1, 2), NV(2, 3)), sig |-> <<>>],
      [name |-> "rbp", type |-> TR(NV(1, 3), NV(3, 2)), sig |-> <<>>],
      [name |-> "rbn", type |-> TR(NV(0 - 3, 2), NV(0 - 1, 3)), sig |-> <<>>],
      [name |-> "b",   type |-> TBool, sig |-> <<>>],
      [name |-> "c",   type |-> TBool, sig |-> <<>>],
      [name |-> "fT",  type |-> TUser("T"), sig |-> <<>>],
      [name |-> "f1",  type |-> TUser("T1"), sig |-> <<>>],
      [name |-> "f2",  type |-> TUser("T2"), sig |-> <<>>],
      [name |-> "f11", type |-> TUser("T11"), sig |-> <<>>],
      [name |-> "fU",  type |-> TUser("U"), sig |-> <<>>],
      \* fluents with a parameter: a sub-type object / an overlapping integer is a well-formed argument
      [name |-> "gT",  type |-> TUser("T2"), sig |-> << [name |-> "p", type |-> TUser("T")] >>],
      [name |-> "hI",  type |-> TBool, sig |-> << [name |-> "p", type |-> TI(Z(0), Z(5))] >>] >>,
   params  |-> << [name |-> "pT", type |-> TUser("T")], [name |-> "pU", type |-> TUser("U")],
                  [name |-> "pi", type |-> TI(Z(0), Z(5))], [name |-> "pb", type |-> TBool] >>]

ObjType(D, o) == D.objects[CHOOSE i \in DOMAIN D.objects : D.objects[i].name = o].type
ParType(D, p) == D.params[CHOOSE i \in DOMAIN D.params : D.params[i].name = p].type

\* ---------- extended reals (uniform shape so that sets of them are homogeneous) ----------
PInf == [k |-> "pinf", n |-> 0, d |-> 1]
NInf == [k |-> "ninf", n |-> 0, d |-> 1]
XFin(x) == x.k = "n"
XLo(t) == IF t.lo.k = "none" THEN NInf ELSE t.lo
XHi(t) == IF t.hi.k = "none" THEN PInf ELSE t.hi
XSign(x) == IF x.k = "pinf" THEN 1 ELSE IF x.k = "ninf" THEN 0 - 1
            ELSE IF x.n > 0 THEN 1 ELSE IF x.n < 0 THEN 0 - 1 ELSE 0
\* 0 * infinity = 0: an unbounded factor is any FINITE number
XMul(a, b) == IF XFin(a) /\ XFin(b) THEN RMul(a, b)
              ELSE LET s == XSign(a) * XSign(b) IN IF s = 0 THEN ZERO ELSE IF s > 0 THEN PInf ELSE NInf
\* only lower bounds are added to lower bounds (never +inf + -inf)
XAdd(a, b) == IF XFin(a) /\ XFin(b) THEN RAdd(a, b) ELSE IF ~XFin(a) THEN a ELSE b
XNeg(a) == IF XFin(a) THEN RNeg(a) ELSE IF a.k = "pinf" THEN NInf ELSE PInf
XLe(a, b) == a.k = "ninf" \/ b.k = "pinf" \/ (XFin(a) /\ XFin(b) /\ RLe(a, b))
XMinS(S) == CHOOSE x \in S : \A y \in S : XLe(x, y)
XMaxS(S) == CHOOSE x \in S : \A y \in S : XLe(y, x)
ToBound(x) == IF XFin(x) THEN x ELSE NONE

Iv(t) == [lo |-> XLo(t), hi |-> XHi(t)]
IvPlus(a, b) == [lo |-> XAdd(a.lo, b.lo), hi |-> XAdd(a.hi, b.hi)]
IvNeg(a) == [lo |-> XNeg(a.hi), hi |-> XNeg(a.lo)]
IvMul(a, b) == LET ps == {XMul(a.lo, b.lo), XMul(a.lo, b.hi), XMul(a.hi, b.lo), XMul(a.hi, b.hi)}
               IN [lo |-> XMinS(ps), hi |-> XMaxS(ps)]
IvPoint(a) == XFin(a.lo) /\ a.lo = a.hi
RECURSIVE IvFold(_,_,_)
IvFold(op, ivs, i) == IF i = Len(ivs) THEN ivs[i]
                      ELSE IF op = "plus" THEN IvPlus(ivs[i], IvFold(op, ivs, i + 1))
                      ELSE IvMul(ivs[i], IvFold(op, ivs, i + 1))

\* ---------- well-formedness of equalities (symmetric by definition) ----------
Related(D, n1, n2) == Anc(D, n1) \cap Anc(D, n2) # {}
EqWellFormed(D, t1, t2) ==
   \/ IsNumT(t1) /\ IsNumT(t2)
   \/ t1.k = "user" /\ t2.k = "user" /\ Related(D, t1.name, t2.name)
\* the reference is silent about operands of type time
EqSpecified(t1, t2) == t1.k # "time" /\ t2.k # "time"

\* ---------- reference inference ----------
\* vt: types of the bound variables in scope (function name -> type)
RECURSIVE TypeRef(_,_,_)
TypeRef(D, e, vt) ==
  LET ts == [i \in DOMAIN e.args |-> TypeRef(D, e.args[i], vt)]
      allb == \A i \in DOMAIN ts : ts[i].k = "bool"
      alln == \A i \in DOMAIN ts : IsNumT(ts[i])
      kind == IF e.op # "div" /\ (\A i \in DOMAIN ts : ts[i].k = "int") THEN "int" ELSE "real"
      mk(iv) == TNum(kind, ToBound(iv.lo), ToBound(iv.hi))
  IN
  CASE e.op = "const" ->
         (IF e.v.k = "b" THEN TBool
          ELSE IF e.v.k = "n" THEN TNum(IF IsInt(e.v) THEN "int" ELSE "real", e.v, e.v)
          ELSE IF e.v.k = "N" THEN TNum(IF e.v.d = <<1>> THEN "int" ELSE "real", NONE, NONE)
          ELSE TUser(ObjType(D, e.v.o)))
    [] e.op = "obj" -> TUser(ObjType(D, e.name))
    [] e.op = "fluent" -> Fl(D, e.name).type
    [] e.op = "param" -> ParType(D, e.name)
    [] e.op = "var" -> vt[e.name]
    [] e.op = "timing" -> TTime
    [] e.op \in {"not", "and", "or", "implies", "iff"} -> IF allb THEN TBool ELSE TBad
    [] e.op \in {"exists", "forall"} ->
         LET vt2 == [n \in {e.vars[i].name : i \in DOMAIN e.vars} |->
                        e.vars[CHOOSE i \in DOMAIN e.vars : e.vars[i].name = n].type] @@ vt
         IN IF TypeRef(D, e.args[1], vt2).k = "bool" THEN TBool ELSE TBad
    [] e.op \in {"le", "lt"} -> IF alln THEN TBool ELSE TBad
    [] e.op = "eq" -> IF EqWellFormed(D, ts[1], ts[2]) THEN TBool ELSE TBad
    [] e.op \in {"plus", "times"} ->
         IF alln THEN mk(IvFold(e.op, [i \in DOMAIN ts |-> Iv(ts[i])], 1)) ELSE TBad
    [] e.op = "minus" -> IF alln THEN mk(IvPlus(Iv(ts[1]), IvNeg(Iv(ts[2])))) ELSE TBad
    [] e.op = "div" ->
         IF ~alln THEN TBad
         ELSE LET dv == Iv(ts[2]) IN
              IF IvPoint(dv) /\ dv.lo.n # 0
              THEN mk(IvMul(Iv(ts[1]), [lo |-> RDiv(ONE, dv.lo), hi |-> RDiv(ONE, dv.lo)]))
              ELSE TR(NONE, NONE)
    [] OTHER -> TBad

\* ---------- bounds of any magnitude ----------
QOfV(v) == IF v.k = "n" THEN B!QMk(B!ZInt(v.n), B!NatL(v.d)) ELSE B!QMk(B!ZMk(v.s, v.n), v.d)
QAbs(q) == B!QMk(B!ZMk(IF q.n.s = 0 THEN 0 ELSE 1, q.n.m), q.d)
Sgn(x) == IF x < 0 THEN 0 - 1 ELSE IF x = 0 THEN 0 ELSE 1
\* compare a small value with a bound (small or big): -1, 0, 1
CmpVB(v, b) == IF b.k = "n" THEN Sgn(v.n * b.d - b.n * v.d) ELSE B!QCmp(QOfV(v), QOfV(b))
\* |b - r| <= |r| * 10^-12: b is r up to binary floating-point rounding
Eps == B!QMk(B!ZInt(1), B!NPow(<<10>>, 12))
NearQ(b, r) == B!QLe(QAbs(B!QSub(b, r)), B!QMul(QAbs(r), Eps))

\* ---------- the critical-point grid ----------
BIG == 10
InRange(v, t) == /\ (t.lo.k = "none" \/ RLe(t.lo, v))
                 /\ (t.hi.k = "none" \/ RLe(v, t.hi))
                 /\ (t.k = "int" => IsInt(v))
GridCand(t) ==
   {Z(0), Z(1), Z(0 - 1)}
   \cup (IF t.k = "real" THEN {NV(1, 3), NV(0 - 1, 2)} ELSE {})
   \cup (IF t.lo.k # "none" THEN {t.lo, RAdd(t.lo, ONE)} ELSE {})
   \cup (IF t.hi.k # "none" THEN {t.hi, RSub(t.hi, ONE)} ELSE {})
   \* far points on the unbounded sides
   \cup (IF t.lo.k = "none" THEN {IF t.hi.k = "none" THEN Z(0 - BIG) ELSE RSub(t.hi, Z(BIG))} ELSE {})
   \cup (IF t.hi.k = "none" THEN {IF t.lo.k = "none" THEN Z(BIG) ELSE RAdd(t.lo, Z(BIG))} ELSE {})
Grid(t) == {v \in GridCand(t) : InRange(v, t)}

RECURSIVE Prod(_)
Prod(gs) == IF gs = <<>> THEN {<<>>} ELSE {<<v>> \o r : v \in Head(gs), r \in Prod(Tail(gs))}

\* values of e on the grid: function valuation -> value (UNDEF where a divisor is 0)
GridEval(D, e) ==
   LET names == SX!SetToSeq(FluentNames(e))
       R == [P |-> D, keys |-> [i \in DOMAIN names |-> <<names[i], <<>>>>]]
       grids == [i \in DOMAIN names |-> Grid(Fl(D, names[i]).type)]
   IN TLCEval([s \in Prod(grids) |-> Eval(R, e, s, <<>>)])

\* the violated clauses of "t is a sound type of e", each with a witness value and a qualifier
\* ("rounded": the offending bound is the extreme grid value up to float rounding)
NumViol(D, e, t) ==
   IF ~IsNumT(t) THEN {<<"InType.Kind", "-", ZERO>>}
   ELSE
   LET ev == GridEval(D, e)
       vs == {ev[s] : s \in {s \in DOMAIN ev : ev[s].k = "n"}}
       below == IF t.lo.k = "none" THEN {} ELSE {v \in vs : CmpVB(v, t.lo) < 0}
       above == IF t.hi.k = "none" THEN {} ELSE {v \in vs : CmpVB(v, t.hi) > 0}
       frac == IF t.k = "int" THEN {v \in vs : ~IsInt(v)} ELSE {}
       mn == CHOOSE v \in below : \A w \in below : RLe(v, w)
       mx == CHOOSE v \in above : \A w \in above : RLe(w, v)
       q(v, b) == IF NearQ(QOfV(b), QOfV(v)) THEN "rounded" ELSE "gross"
   IN (IF below # {} THEN {<<"InType.Lower", q(mn, t.lo), mn>>} ELSE {})
      \cup (IF above # {} THEN {<<"InType.Upper", q(mx, t.hi), mx>>} ELSE {})
      \cup (IF frac # {} THEN {<<"InType.Integral", "-", CHOOSE v \in frac : TRUE>>} ELSE {})

\* ---------- blame: the minimal sub-terms whose recorded type is unsound ----------
\* ts: the recorded types of all nodes of e in preorder
RECURSIVE ChildOff(_,_)
ChildOff(e, i) == IF i = 1 THEN 1 ELSE ChildOff(e, i - 1) + Size(e.args[i - 1])
RECURSIVE JoinKinds(_,_)
JoinKinds(ts, i) == IF i > Len(ts) THEN "" ELSE (IF i > 1 THEN "," ELSE "") \o ts[i].k \o JoinKinds(ts, i + 1)
Feature(e, ts) ==
   IF e.args = <<>> THEN e.op
   ELSE e.op \o "(" \o JoinKinds([i \in DOMAIN e.args |-> ts[ChildOff(e, i) + 1]], 1) \o ")"
RECURSIVE Blame(_,_,_)
Blame(D, e, ts) ==
   LET v == NumViol(D, e, ts[1]) IN
   IF v = {} THEN {}
   ELSE LET sub == UNION {Blame(D, e.args[i], SubSeq(ts, ChildOff(e, i) + 1, ChildOff(e, i) + Size(e.args[i]))) :
                             i \in DOMAIN e.args}
        IN IF sub # {} THEN sub ELSE {<<c[1], Feature(e, ts), c[2], c[3]>> : c \in v}

\* ---------- where the reference hull is exactly the range ----------
\* every fluent occurs once and every divisor is a constant: interval arithmetic is exact,
\* so an inferred finite bound where the reference bound is infinite is unsound
RECURSIVE Occ(_)
Occ(e) == IF e.op = "fluent" THEN <<e.name>>
          ELSE LET RECURSIVE C(_) C(i) == IF i > Len(e.args) THEN <<>> ELSE Occ(e.args[i]) \o C(i + 1) IN C(1)
RECURSIVE ConstDivisors(_)
ConstDivisors(e) == /\ (e.op = "div" => e.args[2].op = "const")
                    /\ \A i \in DOMAIN e.args : ConstDivisors(e.args[i])
HullExact(e) == LET o == Occ(e) IN Cardinality({o[i] : i \in DOMAIN o}) = Len(o) /\ ConstDivisors(e)
HullViol(D, e, t) ==
   IF ~IsNumT(t) \/ ~HullExact(e) THEN {}
   ELSE LET r == TypeRef(D, e, <<>>) IN
        (IF r.lo.k = "none" /\ t.lo.k # "none" THEN {"Hull.Lower"} ELSE {})
        \cup (IF r.hi.k = "none" /\ t.hi.k # "none" THEN {"Hull.Upper"} ELSE {})

\* relation of an inferred numeric type to the reference (information only)
BoundRel(b, r, isLo) ==   \* "eq", "wide", "narrow"
   IF b.k = "none" THEN (IF r.k = "none" THEN "eq" ELSE "wide")
   ELSE IF r.k = "none" THEN "narrow"
   ELSE LET c == CmpVB(r, b) IN   \* sign(r - b)
        IF c = 0 THEN "eq" ELSE IF (c > 0) = isLo THEN "wide" ELSE "narrow"
RefRel(t, r) ==
   IF ~IsNumT(t) \/ ~IsNumT(r) THEN "other"
   ELSE LET a == BoundRel(t.lo, r.lo, TRUE)
            b == BoundRel(t.hi, r.hi, FALSE)
        IN IF t.k # r.k THEN "kind-" \o t.k
           ELSE IF a = "eq" /\ b = "eq" THEN "exact"
           ELSE IF "narrow" \in {a, b} THEN "narrower"
           ELSE "wider"

\* ---------- evaluation with constants of any magnitude (family "big") ----------
\* sg: function fluent name -> BigArith rational; divisors are non-zero constants
RECURSIVE BEval(_,_)
RECURSIVE BFold(_,_,_)
BFold(op, qs, i) == IF i = Len(qs) THEN qs[i]
                    ELSE IF op = "plus" THEN B!QAdd(qs[i], BFold(op, qs, i + 1))
                    ELSE B!QMul(qs[i], BFold(op, qs, i + 1))
BEval(e, sg) ==
   LET a == [i \in DOMAIN e.args |-> BEval(e.args[i], sg)] IN
   CASE e.op = "const" -> QOfV(e.v)
     [] e.op = "fluent" -> sg[e.name]
     [] e.op \in {"plus", "times"} -> BFold(e.op, a, 1)
     [] e.op = "minus" -> B!QSub(a[1], a[2])
     [] e.op = "div" -> B!QDiv(a[1], a[2])
BigViol(D, e, t) ==
   IF ~IsNumT(t) THEN {<<"InType.Kind", "-">>}
   ELSE
   LET names == SX!SetToSeq(FluentNames(e))
       grids == [i \in DOMAIN names |-> Grid(Fl(D, names[i]).type)]
       vs == {BEval(e, [n \in FluentNames(e) |-> QOfV(s[CHOOSE i \in DOMAIN names : names[i] = n])]) : s \in Prod(grids)}
       below == IF t.lo.k = "none" THEN {} ELSE {v \in vs : B!QLt(v, QOfV(t.lo))}
       above == IF t.hi.k = "none" THEN {} ELSE {v \in vs : B!QLt(QOfV(t.hi), v)}
       q(S, b) == IF \E v \in S : NearQ(QOfV(b), v) THEN "rounded" ELSE "gross"
   IN (IF below # {} THEN {<<"InType.Lower", q(below, t.lo)>>} ELSE {})
      \cup (IF above # {} THEN {<<"InType.Upper", q(above, t.hi)>>} ELSE {})
=============================================================================
