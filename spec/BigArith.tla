------------------------------ MODULE BigArith ------------------------------
(***************************************************************************)
(* Exact arithmetic on integers and rationals of arbitrary magnitude.      *)
(* TLC integers are 32-bit; the constants of C11's "big" family (2^53+1,   *)
(* 2^60+2, 10^30, 10^20/3, ...) do not fit.                                *)
(*                                                                         *)
(*   natural   little-endian sequence of limbs in 0..Base-1, Base = 10^4,  *)
(*             without most-significant zero limbs; zero is <<>>           *)
(*             (every intermediate value is < 10^8 + 10^4 < 2^31)          *)
(*   integer   [s |-> -1 | 0 | 1, m |-> natural]        (s = 0 iff m = <<>>)*)
(*   rational  [n |-> integer, d |-> natural # <<>>]    NOT normalised;    *)
(*             compared by cross-multiplication                            *)
(*                                                                         *)
(* Schoolbook algorithms only (NAdd, NSub, NMul, NCmp); no division is     *)
(* needed: a quotient a/b is the rational [n |-> a, d |-> b].              *)
(* Base 10^4 makes the limb form a pure re-grouping of the decimal digits, *)
(* so that the harness transcribes Python integers without doing any       *)
(* arithmetic (str(n) cut into groups of four digits).                     *)
(***************************************************************************)
EXTENDS Integers, Sequences

Base == 10000

\* ---------- naturals ----------
RECURSIVE Trim(_)
Trim(a) == IF a # <<>> /\ a[Len(a)] = 0 THEN Trim(SubSeq(a, 1, Len(a) - 1)) ELSE a
Limb(a, i) == IF i <= Len(a) THEN a[i] ELSE 0
Max2(x, y) == IF x < y THEN y ELSE x
IsNat(a) == /\ \A i \in DOMAIN a : a[i] \in 0..(Base - 1)
            /\ (a # <<>> => a[Len(a)] # 0)

\* native (small) natural -> limbs
RECURSIVE NatL(_)
NatL(n) == IF n = 0 THEN <<>> ELSE <<n % Base>> \o NatL(n \div Base)

RECURSIVE AddC(_,_,_,_)
AddC(a, b, i, c) ==
   IF i > Max2(Len(a), Len(b)) THEN (IF c = 0 THEN <<>> ELSE <<c>>)
   ELSE LET t == Limb(a, i) + Limb(b, i) + c IN <<t % Base>> \o AddC(a, b, i + 1, t \div Base)
NAdd(a, b) == AddC(a, b, 1, 0)

RECURSIVE CmpFrom(_,_,_)
CmpFrom(a, b, i) == IF i = 0 THEN 0
                    ELSE IF a[i] < b[i] THEN 0 - 1
                    ELSE IF a[i] > b[i] THEN 1
                    ELSE CmpFrom(a, b, i - 1)
\* -1, 0, 1
NCmp(a, b) == IF Len(a) # Len(b) THEN (IF Len(a) < Len(b) THEN 0 - 1 ELSE 1) ELSE CmpFrom(a, b, Len(a))

\* a - b, defined for a >= b
RECURSIVE SubC(_,_,_,_)
SubC(a, b, i, br) ==
   IF i > Len(a) THEN <<>>
   ELSE LET t == Limb(a, i) - Limb(b, i) - br IN
        IF t < 0 THEN <<t + Base>> \o SubC(a, b, i + 1, 1) ELSE <<t>> \o SubC(a, b, i + 1, 0)
NSub(a, b) == Trim(SubC(a, b, 1, 0))

\* a * (one limb d)
RECURSIVE MulLimbC(_,_,_,_)
MulLimbC(a, d, i, c) ==
   IF i > Len(a) THEN (IF c = 0 THEN <<>> ELSE <<c>>)
   ELSE LET t == a[i] * d + c IN <<t % Base>> \o MulLimbC(a, d, i + 1, t \div Base)
Shift(a, k) == IF a = <<>> THEN <<>> ELSE [i \in 1..k |-> 0] \o a
RECURSIVE MulFrom(_,_,_)
MulFrom(a, b, j) ==
   IF j > Len(b) THEN <<>>
   ELSE NAdd(Shift(Trim(MulLimbC(a, b[j], 1, 0)), j - 1), MulFrom(a, b, j + 1))
NMul(a, b) == IF a = <<>> \/ b = <<>> THEN <<>> ELSE MulFrom(a, b, 1)

RECURSIVE NPow(_,_)
NPow(a, k) == IF k = 0 THEN <<1>> ELSE NMul(a, NPow(a, k - 1))

\* ---------- integers ----------
ZMk(s, m) == IF m = <<>> THEN [s |-> 0, m |-> <<>>] ELSE [s |-> s, m |-> m]
ZNat(m) == ZMk(1, m)
ZInt(n) == IF n < 0 THEN ZMk(0 - 1, NatL(0 - n)) ELSE ZMk(1, NatL(n))
ZNeg(a) == [s |-> 0 - a.s, m |-> a.m]
IsZ(a) == a.s \in {0 - 1, 0, 1} /\ IsNat(a.m) /\ (a.s = 0 <=> a.m = <<>>)
ZAdd(a, b) ==
   IF a.s = 0 THEN b
   ELSE IF b.s = 0 THEN a
   ELSE IF a.s = b.s THEN ZMk(a.s, NAdd(a.m, b.m))
   ELSE LET c == NCmp(a.m, b.m) IN
        IF c = 0 THEN ZMk(0, <<>>)
        ELSE IF c > 0 THEN ZMk(a.s, NSub(a.m, b.m))
        ELSE ZMk(b.s, NSub(b.m, a.m))
ZSub(a, b) == ZAdd(a, ZNeg(b))
ZMul(a, b) == ZMk(a.s * b.s, NMul(a.m, b.m))
ZCmp(a, b) ==
   IF a.s # b.s THEN (IF a.s < b.s THEN 0 - 1 ELSE 1)
   ELSE IF a.s = 0 THEN 0
   ELSE a.s * NCmp(a.m, b.m)

\* ---------- rationals (not normalised) ----------
QMk(n, d) == [n |-> n, d |-> d]
QZ(z) == QMk(z, <<1>>)
QInt(n) == QZ(ZInt(n))
IsQ(a) == IsZ(a.n) /\ IsNat(a.d) /\ a.d # <<>>
QIsInt(a) == a.d = <<1>>
QAdd(a, b) == QMk(ZAdd(ZMul(a.n, ZNat(b.d)), ZMul(b.n, ZNat(a.d))), NMul(a.d, b.d))
QNeg(a) == QMk(ZNeg(a.n), a.d)
QSub(a, b) == QAdd(a, QNeg(b))
QMul(a, b) == QMk(ZMul(a.n, b.n), NMul(a.d, b.d))
QIsZero(a) == a.n.s = 0
\* defined for b # 0
QDiv(a, b) == QMk(ZMk(a.n.s * b.n.s, NMul(a.n.m, b.d)), NMul(a.d, b.n.m))
QCmp(a, b) == ZCmp(ZMul(a.n, ZNat(b.d)), ZMul(b.n, ZNat(a.d)))
QEq(a, b) == QCmp(a, b) = 0
QLe(a, b) == QCmp(a, b) <= 0
QLt(a, b) == QCmp(a, b) < 0
=============================================================================
