---------------------------- MODULE NormalForms ----------------------------
(***************************************************************************)
(* C12 -- negation normal form and disjunctive normal form.                *)
(*                                                                         *)
(* Expressions are the UPJ records of UPExpr ([op, args, name, v, vars]).  *)
(* The propositional structure of an expression is made of the operators   *)
(* not / and / or / implies / iff; everything else (fluents, constants,    *)
(* comparisons, equalities) is an ATOM.                                    *)
(*                                                                         *)
(* Declarative layer (what C12 states):                                    *)
(*   IsLiteral, IsNNF, IsDNF   the shapes                                  *)
(*   Equiv(R, e, f)            e and f have the same (defined, Boolean)    *)
(*                             value under EVERY valuation of the ground   *)
(*                             fluents of the context R over their finite  *)
(*                             declared domains (truth table on states,    *)
(*                             not on opaque atoms: 1 <= 2 is true)        *)
(*                                                                         *)
(* Mechanism layer (shaped like unified_planning/model/walkers/dnf.py):    *)
(*   MNnf(e, p)     Nnf.get_nnf_expression: polarity pushed to the atoms,  *)
(*                  implies / iff expanded as the code expands them        *)
(*   MTerms(R,e,b)  Dnf.walk_and / walk_or / walk_all on the NNF: a        *)
(*                  sequence of terms (sequences of literals); every       *)
(*                  product term goes through an abstract sound simplifier *)
(*                  MSimp (valid literals dropped; a term with an          *)
(*                  unsatisfiable literal dropped)                         *)
(*   MDnf(R,e,b)    Or over And over MTerms                                *)
(* b = TRUE is walk_and AS WRITTEN in the pinned tree: a product term that *)
(* simplifies to true makes walk_and return the EMPTY term list (= false). *)
(* b = FALSE is the repaired design: it returns the list holding the one   *)
(* empty term (= true).  The design check (NormalFormsEnum, T1) shows that *)
(* the repaired mechanism satisfies the declarative layer on every         *)
(* enumerated expression and that the as-written one does not.             *)
(***************************************************************************)
EXTENDS UPExpr

BoolOps == {"not", "and", "or", "implies", "iff"}
IsAtom(e) == e.op \notin BoolOps
IsLiteral(e) == IsAtom(e) \/ (e.op = "not" /\ IsAtom(e.args[1]))

RECURSIVE IsNNF(_)
IsNNF(e) == \/ IsLiteral(e)
            \/ /\ e.op \in {"and", "or"}
               /\ \A i \in DOMAIN e.args : IsNNF(e.args[i])

\* a conjunction of literals (flat), or a single literal
IsTerm(e) == \/ IsLiteral(e)
             \/ e.op = "and" /\ \A i \in DOMAIN e.args : IsLiteral(e.args[i])
\* a disjunction (flat) of conjunctions of literals
IsDNF(e) == \/ IsTerm(e)
            \/ e.op = "or" /\ \A i \in DOMAIN e.args : IsTerm(e.args[i])

\* ---------- truth tables over the states of a context ----------
\* R = [P |-> UPJ problem, keys |-> ground fluents]; every ground fluent ranges over its type
KeyDom(R, i) == ValsOfType(R.P, Fl(R.P, R.keys[i][1]).type)
States(R) == {s \in [DOMAIN R.keys -> UNION {KeyDom(R, i) : i \in DOMAIN R.keys}] :
                 \A i \in DOMAIN R.keys : s[i] \in KeyDom(R, i)}
NoEnv == <<>>
\* the truth table of e: the set of states where e holds; "ill" when e is not Boolean-valued somewhere
BoolEverywhere(R, e, S) == \A s \in S : Eval(R, e, s, NoEnv).k = "b"
Models(R, e, S) == {s \in S : Eval(R, e, s, NoEnv).b}
EquivOn(R, e, f, S) == /\ BoolEverywhere(R, e, S) /\ BoolEverywhere(R, f, S)
                       /\ Models(R, e, S) = Models(R, f, S)
Equiv(R, e, f) == EquivOn(R, e, f, States(R))
ValidOn(R, e, S) == \A s \in S : Holds(R, e, s, NoEnv)
UnsatOn(R, e, S) == \A s \in S : ~Holds(R, e, s, NoEnv)

\* ---------- constructors (uniform record shape) ----------
Mk(op, args) == [op |-> op, args |-> args, name |-> "", v |-> UNDEF, vars |-> <<>>]
ConstB(b) == [op |-> "const", args |-> <<>>, name |-> "", v |-> BV(b), vars |-> <<>>]
ConstN(n) == [op |-> "const", args |-> <<>>, name |-> "", v |-> NV(n, 1), vars |-> <<>>]
FluentE(n) == [op |-> "fluent", args |-> <<>>, name |-> n, v |-> UNDEF, vars |-> <<>>]
ObjE(n) == [op |-> "obj", args |-> <<>>, name |-> n, v |-> UNDEF, vars |-> <<>>]
\* ExpressionManager.And / Or of a list: empty -> constant, singleton -> the element
AndL(ts) == IF Len(ts) = 0 THEN ConstB(TRUE) ELSE IF Len(ts) = 1 THEN ts[1] ELSE Mk("and", ts)
OrL(ts) == IF Len(ts) = 0 THEN ConstB(FALSE) ELSE IF Len(ts) = 1 THEN ts[1] ELSE Mk("or", ts)

\* ---------- compact transport format ----------
\* a skeleton over an atom table A (sequence of atoms): <<0, i>> is A[i]; <<1, x>> not;
\* <<2, x, y, ...>> and; <<3, x, y, ...>> or; <<4, x, y>> implies; <<5, x, y>> iff
SkOps == <<"not", "and", "or", "implies", "iff">>
RECURSIVE Expand(_, _)
Expand(A, sk) == IF sk[1] = 0 THEN A[sk[2]]
                 ELSE Mk(SkOps[sk[1]], TLCEval([i \in 1..(Len(sk) - 1) |-> Expand(A, sk[i + 1])]))
\* well-formed: operators in range, arities, atom indices in the table, table entries are atoms
RECURSIVE SkOK(_, _)
SkOK(A, sk) == /\ Len(sk) >= 2 /\ sk[1] \in 0..5
               /\ IF sk[1] = 0 THEN Len(sk) = 2 /\ sk[2] \in DOMAIN A /\ IsAtom(A[sk[2]])
                  ELSE /\ (sk[1] = 1 => Len(sk) = 2) /\ (sk[1] \in {4, 5} => Len(sk) = 3)
                       /\ \A i \in 2..Len(sk) : SkOK(A, sk[i])

\* ---------- mechanism layer: Nnf.get_nnf_expression ----------
RECURSIVE MNnf(_, _)
MNnf(e, p) ==
   CASE e.op = "not" -> MNnf(e.args[1], ~p)
     [] e.op = "and" -> Mk(IF p THEN "and" ELSE "or", TLCEval([i \in DOMAIN e.args |-> MNnf(e.args[i], p)]))
     [] e.op = "or" -> Mk(IF p THEN "or" ELSE "and", TLCEval([i \in DOMAIN e.args |-> MNnf(e.args[i], p)]))
     [] e.op = "implies" -> Mk(IF p THEN "or" ELSE "and", <<MNnf(e.args[1], ~p), MNnf(e.args[2], p)>>)
     [] e.op = "iff" ->
           LET both == Mk(IF p THEN "and" ELSE "or", <<MNnf(e.args[1], p), MNnf(e.args[2], p)>>)
               none == Mk(IF p THEN "and" ELSE "or", <<MNnf(e.args[1], ~p), MNnf(e.args[2], ~p)>>)
           IN Mk(IF p THEN "or" ELSE "and", <<both, none>>)
     [] OTHER -> IF p THEN e ELSE Mk("not", <<e>>)

\* ---------- mechanism layer: Dnf.walk on an NNF expression ----------
Flatten(ss) == LET RECURSIVE F(_) F(i) == IF i > Len(ss) THEN <<>> ELSE ss[i] \o F(i + 1) IN F(1)
\* all ways to pick one term from each of the term lists tls (itertools.product), concatenated
RECURSIVE Product(_)
Product(tls) ==
   IF Len(tls) = 0 THEN << <<>> >>
   ELSE LET rest == Product(Tail(tls))
            hd == Head(tls)
        IN TLCEval(Flatten([i \in DOMAIN hd |-> [j \in DOMAIN rest |-> hd[i] \o rest[j]]]))
\* abstract sound simplifier of one conjunction of literals over the states S:
\* "T" every literal valid; "F" some literal unsatisfiable; else the literals that are not valid
MSimp(R, lits, S) ==
   LET keep == {i \in DOMAIN lits : ~ValidOn(R, lits[i], S)} IN
   IF \E i \in DOMAIN lits : UnsatOn(R, lits[i], S) THEN [k |-> "F", t |-> <<>>]
   ELSE IF keep = {} THEN [k |-> "T", t |-> <<>>]
   ELSE [k |-> "t", t |-> LET RECURSIVE Sel(_) Sel(i) == IF i > Len(lits) THEN <<>>
                                        ELSE (IF i \in keep THEN <<lits[i]>> ELSE <<>>) \o Sel(i + 1)
                              IN Sel(1)]
RECURSIVE MTerms(_, _, _, _)
MTerms(R, e, S, bug) ==
   IF e.op = "or" THEN TLCEval(Flatten([i \in DOMAIN e.args |-> MTerms(R, e.args[i], S, bug)]))
   ELSE IF e.op = "and" THEN
      LET prod == Product(TLCEval([i \in DOMAIN e.args |-> MTerms(R, e.args[i], S, bug)]))
          simp == TLCEval([i \in DOMAIN prod |-> MSimp(R, prod[i], S)])
      IN IF \E i \in DOMAIN simp : simp[i].k = "T"
         THEN (IF bug THEN <<>> ELSE << <<>> >>)
         ELSE TLCEval(Flatten([i \in DOMAIN simp |-> IF simp[i].k = "F" THEN <<>> ELSE <<simp[i].t>>]))
   ELSE <<<<e>>>>
MDnf(R, e, S, bug) ==
   LET ts == MTerms(R, MNnf(e, TRUE), S, bug) IN OrL(TLCEval([i \in DOMAIN ts |-> AndL(ts[i])]))

\* ---------- the input feature that triggers the as-written walk_and branch ----------
\* some DNF term of the NNF expression e consists of valid literals only
RECURSIVE HasValidTerm(_, _, _)
HasValidTerm(R, e, S) ==
   IF e.op = "or" THEN \E i \in DOMAIN e.args : HasValidTerm(R, e.args[i], S)
   ELSE IF e.op = "and" THEN \A i \in DOMAIN e.args : HasValidTerm(R, e.args[i], S)
   ELSE ValidOn(R, e, S)
\* some conjunction inside the NNF expression e has a product term made of valid literals only
RECURSIVE HasValidProductTerm(_, _, _)
HasValidProductTerm(R, e, S) ==
   /\ e.op \in {"and", "or"}
   /\ \/ e.op = "and" /\ HasValidTerm(R, e, S)
      \/ \E i \in DOMAIN e.args : HasValidProductTerm(R, e.args[i], S)
=============================================================================
