---------------------------- MODULE NormalForms ----------------------------
(***************************************************************************)
(* C12 -- negation normal form and disjunctive normal form.                *)
(*                                                                         *)
(* The propositional structure of an expression is made of the operators   *)
(* not / and / or / implies / iff; everything else (fluents, constants,    *)
(* comparisons, equalities) is an ATOM.  Expressions are handled as         *)
(* SKELETONS over a table A of atoms (A[i] is a full UPExpr record):        *)
(*    <<0, i>> atom A[i]      <<1, x>> not         <<2, x, y, ...>> and      *)
(*    <<3, x, y, ...>> or     <<4, x, y>> implies  <<5, x, y>> iff           *)
(* Expand(A, sk) is the UPExpr record a skeleton stands for.  The meaning   *)
(* of an atom is UPExpr!Eval in a context R = [P, keys]; the truth table of *)
(* a skeleton is computed from the truth tables of its atoms (TT), and      *)
(* TTAgreesWithEval states that this is the same as evaluating the expanded *)
(* record with UPExpr!Eval (checked by TLC in NormalFormsEnum).             *)
(*                                                                         *)
(* Declarative layer (what C12 states):                                    *)
(*   IsLiteral, IsNNF, IsDNF   the shapes                                  *)
(*   equivalence               equal truth tables over EVERY valuation of  *)
(*                             the ground fluents of R over their finite   *)
(*                             declared domains (states, not opaque atoms: *)
(*                             1 <= 2 is true in every state)              *)
(*                                                                         *)
(* Mechanism layer (shaped like unified_planning/model/walkers/dnf.py):    *)
(*   MNnf(sk, p)    Nnf.get_nnf_expression: polarity pushed to the atoms,  *)
(*                  implies / iff expanded as the code expands them        *)
(*   MTerms(..)     Dnf.walk_and / walk_or / walk_all on the NNF: a        *)
(*                  sequence of terms (sequences of literals); every       *)
(*                  product term goes through an abstract sound simplifier *)
(*                  MSimp (valid literals dropped; a term with an          *)
(*                  unsatisfiable literal dropped)                         *)
(*   MDnf(..)       Or over And over MTerms                                *)
(* bug = TRUE is walk_and AS WRITTEN in the pinned tree: a product term    *)
(* that simplifies to true makes walk_and return the EMPTY term list       *)
(* (= false).  bug = FALSE is the repaired design: it returns the list     *)
(* holding the one empty term (= true).                                    *)
(***************************************************************************)
EXTENDS UPExpr

\* ---------- skeletons ----------
SkOps == <<"not", "and", "or", "implies", "iff">>
BoolOps == {SkOps[i] : i \in DOMAIN SkOps}
IsAtom(e) == e.op \notin BoolOps
Mk(op, args) == [op |-> op, args |-> args, name |-> "", v |-> UNDEF, vars |-> <<>>]
Kids(sk) == 2..Len(sk)
RECURSIVE Expand(_, _)
Expand(A, sk) == IF sk[1] = 0 THEN A[sk[2]]
                 ELSE Mk(SkOps[sk[1]], TLCEval([i \in 1..(Len(sk) - 1) |-> Expand(A, sk[i + 1])]))
\* well-formed: operators in range, arities, atom indices in the table, table entries are atoms
RECURSIVE SkOK(_, _)
SkOK(A, sk) == /\ Len(sk) >= 2 /\ sk[1] \in 0..5
               /\ IF sk[1] = 0 THEN Len(sk) = 2 /\ sk[2] \in DOMAIN A /\ IsAtom(A[sk[2]])
                  ELSE /\ (sk[1] = 1 => Len(sk) = 2) /\ (sk[1] \in {4, 5} => Len(sk) = 3)
                       /\ \A i \in Kids(sk) : SkOK(A, sk[i])
\* equality of skeletons that never compares an atom index with a sub-skeleton
RECURSIVE SkEq(_, _)
SkEq(x, y) == /\ Len(x) = Len(y) /\ x[1] = y[1]
              /\ IF x[1] = 0 THEN x[2] = y[2] ELSE \A i \in Kids(x) : SkEq(x[i], y[i])
AtomSk(i) == <<0, i>>
NotSk(x) == <<1, x>>
\* ExpressionManager.And / Or of a list: empty -> constant, singleton -> the element
\* (tI, fI: indices of the Boolean constants true and false in the atom table)
AndL(ts, tI) == IF Len(ts) = 0 THEN AtomSk(tI) ELSE IF Len(ts) = 1 THEN ts[1] ELSE <<2>> \o ts
OrL(ts, fI) == IF Len(ts) = 0 THEN AtomSk(fI) ELSE IF Len(ts) = 1 THEN ts[1] ELSE <<3>> \o ts

\* ---------- declarative layer: shapes ----------
IsLiteral(sk) == sk[1] = 0 \/ (sk[1] = 1 /\ sk[2][1] = 0)
RECURSIVE IsNNF(_)
IsNNF(sk) == \/ IsLiteral(sk)
             \/ sk[1] \in {2, 3} /\ \A i \in Kids(sk) : IsNNF(sk[i])
\* a conjunction of literals (flat), or a single literal
IsTerm(sk) == IsLiteral(sk) \/ (sk[1] = 2 /\ \A i \in Kids(sk) : IsLiteral(sk[i]))
\* a disjunction (flat) of conjunctions of literals
IsDNF(sk) == IsTerm(sk) \/ (sk[1] = 3 /\ \A i \in Kids(sk) : IsTerm(sk[i]))

\* ---------- declarative layer: truth tables over the states of a context ----------
\* R = [P |-> UPJ problem, keys |-> ground fluents]; every ground fluent ranges over its type
KeyDom(R, i) == ValsOfType(R.P, Fl(R.P, R.keys[i][1]).type)
States(R) == {s \in [DOMAIN R.keys -> UNION {KeyDom(R, i) : i \in DOMAIN R.keys}] :
                 \A i \in DOMAIN R.keys : s[i] \in KeyDom(R, i)}
NoEnv == <<>>
\* SS: the states as a sequence; a truth table is the set of indices of the states where the
\* expression holds.  AtomTT / AtomBool: per atom, by UPExpr!Eval.
AtomTT(R, A, SS) == [i \in DOMAIN A |-> {k \in DOMAIN SS : Holds(R, A[i], SS[k], NoEnv)}]
AtomBool(R, A, SS) == [i \in DOMAIN A |-> \A k \in DOMAIN SS : Eval(R, A[i], SS[k], NoEnv).k = "b"]
\* T = AtomTT(..), N = DOMAIN SS
RECURSIVE TT(_, _, _)
TT(T, N, sk) ==
   CASE sk[1] = 0 -> T[sk[2]]
     [] sk[1] = 1 -> N \ TT(T, N, sk[2])
     [] sk[1] = 2 -> LET ts == TLCEval([i \in Kids(sk) |-> TT(T, N, sk[i])])
                     IN {k \in N : \A i \in Kids(sk) : k \in ts[i]}
     [] sk[1] = 3 -> UNION {TT(T, N, sk[i]) : i \in Kids(sk)}
     [] sk[1] = 4 -> (N \ TT(T, N, sk[2])) \cup TT(T, N, sk[3])
     [] sk[1] = 5 -> LET x == TT(T, N, sk[2])
                         y == TT(T, N, sk[3])
                     IN (x \cap y) \cup (N \ (x \cup y))
RECURSIVE AtomsOf(_)
AtomsOf(sk) == IF sk[1] = 0 THEN {sk[2]} ELSE UNION {AtomsOf(sk[i]) : i \in Kids(sk)}
\* the expression has a (defined) Boolean value in every state
BoolEverywhere(B, sk) == \A i \in AtomsOf(sk) : B[i]
\* the lemma that ties TT to UPExpr!Eval
TTAgreesWithEval(R, A, SS, sk) ==
   LET e == Expand(A, sk) IN
   /\ \A k \in DOMAIN SS : Eval(R, e, SS[k], NoEnv).k = "b"
   /\ TT(AtomTT(R, A, SS), DOMAIN SS, sk) = {k \in DOMAIN SS : Eval(R, e, SS[k], NoEnv).b}

\* ---------- mechanism layer: Nnf.get_nnf_expression ----------
RECURSIVE MNnf(_, _)
MNnf(sk, p) ==
   CASE sk[1] = 0 -> IF p THEN sk ELSE NotSk(sk)
     [] sk[1] = 1 -> MNnf(sk[2], ~p)
     [] sk[1] = 2 -> <<IF p THEN 2 ELSE 3>> \o TLCEval([i \in 1..(Len(sk) - 1) |-> MNnf(sk[i + 1], p)])
     [] sk[1] = 3 -> <<IF p THEN 3 ELSE 2>> \o TLCEval([i \in 1..(Len(sk) - 1) |-> MNnf(sk[i + 1], p)])
     [] sk[1] = 4 -> <<IF p THEN 3 ELSE 2, MNnf(sk[2], ~p), MNnf(sk[3], p)>>
     [] sk[1] = 5 -> LET both == <<IF p THEN 2 ELSE 3, MNnf(sk[2], p), MNnf(sk[3], p)>>
                         none == <<IF p THEN 2 ELSE 3, MNnf(sk[2], ~p), MNnf(sk[3], ~p)>>
                     IN <<IF p THEN 3 ELSE 2, both, none>>

\* ---------- mechanism layer: Dnf.walk on an NNF skeleton ----------
Flatten(ss) == LET RECURSIVE F(_) F(i) == IF i > Len(ss) THEN <<>> ELSE ss[i] \o F(i + 1) IN TLCEval(F(1))
\* all ways to pick one term from each of the term lists tls (itertools.product), concatenated
RECURSIVE Product(_)
Product(tls) ==
   IF Len(tls) = 0 THEN << <<>> >>
   ELSE LET rest == Product(Tail(tls))
            hd == Head(tls)
        IN Flatten([i \in DOMAIN hd |-> [j \in DOMAIN rest |-> hd[i] \o rest[j]]])
LitTT(T, N, l) == IF l[1] = 0 THEN T[l[2]] ELSE N \ T[l[2][2]]
\* abstract sound simplifier of one conjunction of literals:
\* "T" every literal valid; "F" some literal unsatisfiable; else the literals that are not valid
MSimp(T, N, lits) ==
   LET keep == {i \in DOMAIN lits : LitTT(T, N, lits[i]) # N} IN
   IF \E i \in DOMAIN lits : LitTT(T, N, lits[i]) = {} THEN [k |-> "F", t |-> <<>>]
   ELSE IF keep = {} THEN [k |-> "T", t |-> <<>>]
   ELSE [k |-> "t", t |-> Flatten([i \in DOMAIN lits |-> IF i \in keep THEN <<lits[i]>> ELSE <<>>])]
RECURSIVE MTerms(_, _, _, _)
MTerms(T, N, sk, bug) ==
   IF sk[1] = 3 THEN Flatten([i \in 1..(Len(sk) - 1) |-> MTerms(T, N, sk[i + 1], bug)])
   ELSE IF sk[1] = 2 THEN
      LET prod == Product(TLCEval([i \in 1..(Len(sk) - 1) |-> MTerms(T, N, sk[i + 1], bug)]))
          simp == TLCEval([i \in DOMAIN prod |-> MSimp(T, N, prod[i])])
      IN IF \E i \in DOMAIN simp : simp[i].k = "T"
         THEN (IF bug THEN <<>> ELSE << <<>> >>)
         ELSE Flatten([i \in DOMAIN simp |-> IF simp[i].k = "F" THEN <<>> ELSE <<simp[i].t>>])
   ELSE << <<sk>> >>
MDnf(T, N, sk, bug, tI, fI) ==
   LET ts == MTerms(T, N, MNnf(sk, TRUE), bug) IN OrL(TLCEval([i \in DOMAIN ts |-> AndL(ts[i], tI)]), fI)

\* ---------- the input feature that triggers the as-written walk_and branch ----------
\* some DNF term of the NNF skeleton consists of valid literals only
RECURSIVE HasValidTerm(_, _, _)
HasValidTerm(T, N, sk) ==
   IF sk[1] = 3 THEN \E i \in Kids(sk) : HasValidTerm(T, N, sk[i])
   ELSE IF sk[1] = 2 THEN \A i \in Kids(sk) : HasValidTerm(T, N, sk[i])
   ELSE LitTT(T, N, sk) = N
\* some conjunction inside the NNF skeleton has a product term made of valid literals only
RECURSIVE HasValidProductTerm(_, _, _)
HasValidProductTerm(T, N, sk) ==
   /\ sk[1] \in {2, 3}
   /\ \/ sk[1] = 2 /\ HasValidTerm(T, N, sk)
      \/ \E i \in Kids(sk) : HasValidProductTerm(T, N, sk[i])
=============================================================================
