---------------------- MODULE ProblemKindLatticeUpgrade ----------------------
(***************************************************************************)
(* C33 on the WHOLE upgrade tables ("cover stage").                        *)
(*                                                                         *)
(* The all-pairs configuration (MCProblemKindLattice) needs small feature  *)
(* universes (NK^2 pairs of kinds).  The laws that constrain the upgrade   *)
(* functions themselves -- "upgrading preserves <=" (UpgradeMonotone) and  *)
(* the well-formedness of upgraded kinds (UpgradeWF) -- are checked here   *)
(* over a universe that holds EVERY feature the real upgrade functions     *)
(* read, write or remove (found by the driver by probing the real          *)
(* functions; the tables are the real functions tabulated on every subset  *)
(* of that universe), so that every combination of features that have an   *)
(* entry in an upgrade table occurs in some kind.                          *)
(*                                                                         *)
(* Case space: the covering pairs of the subset order.  Object 1 is a kind *)
(* a = (v, F) of a version v < Latest with F over CoverFeat[v], object 2   *)
(* is b = (v, F \cup {g}) for one more feature g of CoverFeat[v].  The     *)
(* laws are ProblemKindLattice's own (no new law), in both directions:     *)
(*    UpgradeMonotone(a, b)   a <= b always holds here                     *)
(*    UpgradeMonotone(b, a)   b <= a holds iff g does not count in v       *)
(*                            (deprecated): the kinds are then Eq and must *)
(*                            stay indistinguishable after upgrading       *)
(* Covering pairs suffice.  Let a <= b be kinds of version v over          *)
(* CoverFeat[v], i.e. Norm(a) \subseteq Norm(b).  Walk from a to b one     *)
(* feature at a time: drop the features of a that do not count in v (steps *)
(* (x+g, x), g not valid: both directions hold), add the features of       *)
(* Norm(b) \ Norm(a), add the features of b that do not count.  Every step *)
(* is a covering pair x <= y with Den(Lift(x, w)) \subseteq                *)
(* Den(Lift(y, w)) for every w; inclusions compose, hence                  *)
(* Le(Lift(a, w), Lift(b, w)).  A kind with version=None behaves in Le /   *)
(* Lift / Norm as the kind with its computed version declared, so declared *)
(* versions are enough.                                                    *)
(*                                                                         *)
(* Deliberately NOT demanded: Up[v][F \cup G] = Up[v][F] \cup Up[v][G].    *)
(* The statement asks for an order-preserving upgrade, not for a union     *)
(* homomorphism, and a conjunctive rule (two version-1 features that       *)
(* together yield a version-2 feature) is monotone without being one.      *)
(*                                                                         *)
(* Binding to the objects (HasObs): for every covering pair the driver     *)
(* builds real ProblemKind objects and tabulates (like the upgrade tables: *)
(* for every case of the space, nothing selected in Python)                *)
(*    a <= b, b <= a,                                                      *)
(*    and for every later version w, with a_w / b_w the kinds upgraded to  *)
(*    w: a_w <= b_w, b_w <= a_w, a <= b_w, b_w <= a.                       *)
(* The recorded values are compared with the specification's Le, and the   *)
(* law is checked on the recorded values alone                             *)
(* (impl-upgrade-preserves-le).                                            *)
(*                                                                         *)
(* Verdicts are total: failed clauses are printed by an invariant that is  *)
(* always TRUE, <<"FAIL", v, mask of a, mask of b, clause, detail>>.       *)
(***************************************************************************)
EXTENDS ProblemKindLatticeUpgradeTables, ProblemKindLattice   \* tables first: see there

CONSTANTS CoverSeq,  \* [1..Latest-1 -> Seq(Feat)]: the features the enumerated kinds of version v are made of
                     \* (full: every feature of the universe available in v; otherwise those the upgrade
                     \* function of v reads or removes and those that do not count in v -- the others pass
                     \* through that function unchanged and unnoticed, as far as the driver's probes can tell)
          HasObs,    \* TRUE: Obs holds the results recorded on real objects
          Obs        \* Obs[v][index of F][position of g] = <<status, a<=b, b<=a, (a_w<=b_w, b_w<=a_w, a<=b_w, b_w<=a : w)>>
Below == 1..(Latest - 1)
CoverFeat == TLCEval([v \in Below |-> {CoverSeq[v][j] : j \in DOMAIN CoverSeq[v]}])

\* ProblemKind(F, version=v) for every version that can still be upgraded and every F over CoverFeat[v]
NewFirst  == /\ live = {}     \* (guard first: TLC would otherwise enumerate the subsets in every state)
             /\ \E v \in Below : \E F \in SUBSET CoverFeat[v] : New(1, [dv |-> v, f |-> F])
\* the same kind with one more feature
NewSecond == /\ live = {1}
             /\ \E g \in CoverFeat[objs[1].dv] \ objs[1].f :
                   New(2, [dv |-> objs[1].dv, f |-> objs[1].f \cup {g}])
CoverNext == NewFirst \/ NewSecond
CoverSpec == Init /\ [][CoverNext]_vars

-----------------------------------------------------------------------------
(* the laws on the real tables *)
GTag(a, g) == IF g \in Valid(a.dv) THEN "added-feature-counts" ELSE "added-feature-deprecated"
LawFails(a, b, g) ==
   (IF Le(a, b) /\ UpgradeMonotone(a, b) THEN {} ELSE {<<"T1-LawUpgradeCover", GTag(a, g)>>})
   \cup (IF UpgradeMonotone(b, a) THEN {} ELSE {<<"T1-LawUpgradeCover", "equal-kinds-differ-after-upgrade">>})
TableFails(a) == IF UpgradeWF(a) THEN {} ELSE {<<"T1-LawTables", "upgraded-kind-malformed">>}

(* the recorded results *)
B2I(x) == IF x THEN 1 ELSE 0
RECURSIVE IdxFrom(_, _, _)
IdxFrom(s, F, j) == IF j > Len(s) THEN 0 ELSE (IF s[j] \in F THEN 2 ^ (j - 1) ELSE 0) + IdxFrom(s, F, j + 1)
ObsOf(a, g) == LET s == CoverSeq[a.dv] IN Obs[a.dv][IdxFrom(s, a.f, 1) + 1][CHOOSE j \in DOMAIN s : s[j] = g]
ObsFails(a, b, g) ==
   LET o == ObsOf(a, g)  v == a.dv
       At(w, t) == o[3 + 4 * (w - v - 1) + t]       \* t = 1..4
   IN
   IF Len(o) # 3 + 4 * (Latest - v) THEN {<<"cover-record-malformed", "">>}
   ELSE IF o[1] # 0 THEN {<<"cover-raises", "">>}
   ELSE (IF o[2] # B2I(Le(a, b)) \/ o[3] # B2I(Le(b, a)) THEN {<<"cover-le", "same-version">>} ELSE {})
        \cup UNION {
             (IF At(w, 1) # B2I(Le(Lift(a, w), Lift(b, w))) \/ At(w, 2) # B2I(Le(Lift(b, w), Lift(a, w)))
              THEN {<<"cover-le-of-upgraded", "same-version">>} ELSE {})
             \cup (IF At(w, 3) # B2I(Le(a, Lift(b, w))) \/ At(w, 4) # B2I(Le(Lift(b, w), a))
                   THEN {<<"cover-le", "different-versions">>} ELSE {})
             \cup (IF (o[2] = 1 /\ At(w, 1) # 1) \/ (o[3] = 1 /\ At(w, 2) # 1)
                   THEN {<<"cover-impl-upgrade-preserves-le", GTag(a, g)>>} ELSE {})
             \cup (IF (o[2] = 1 /\ At(w, 3) # 1) THEN {<<"cover-impl-le-lost-across-versions", GTag(a, g)>>} ELSE {})
             : w \in (v + 1)..Latest }

Fails == IF live = {1} THEN TableFails(A1)
         ELSE IF Both THEN LET g == CHOOSE g \in A2.f \ A1.f : TRUE IN
                           LawFails(A1, A2, g) \cup (IF HasObs THEN ObsFails(A1, A2, g) ELSE {})
         ELSE {}
CoverVerdict == \A x \in Fails :
                   PrintT(<<"FAIL", A1.dv, CMaskOf(A1.f), IF Both THEN CMaskOf(A2.f) ELSE CMaskOf(A1.f), x[1], x[2]>>)

\* number of states the driver expects: 1 + kinds + covering pairs
NCover(v) == Len(CoverSeq[v])
RECURSIVE CoverUpTo(_)
CoverUpTo(v) == IF v = 0 THEN 0
                ELSE CoverUpTo(v - 1) + (2 ^ NCover(v)) + (NCover(v) * (2 ^ NCover(v))) \div 2
CoverCount == 1 + CoverUpTo(Latest - 1)
ASSUME PrintT(<<"COVER", CoverCount>>)
=============================================================================
