---------------------- MODULE ProblemKindLatticeUpgrade ----------------------
(***************************************************************************)
(* T1 of C33 on the WHOLE upgrade tables.                                  *)
(*                                                                         *)
(* The all-pairs configuration (MCProblemKindLattice) needs small feature  *)
(* universes (NK^2 pairs of kinds).  The laws that constrain the upgrade   *)
(* functions themselves -- "upgrading preserves <=" (UpgradeMonotone) and  *)
(* the well-formedness of upgraded kinds (UpgradeWF) -- are checked here   *)
(* over a universe that holds EVERY feature the real upgrade functions     *)
(* read, write or remove (found by the driver by probing the real          *)
(* functions; the tables are the real functions tabulated on every subset  *)
(* of that universe), so that every combination of features that have an   *)
(* entry in an upgrade table occurs in some kind.                          *)
(*                                                                         *)
(* Case space: the covering pairs of the subset order.  Object 1 is a kind *)
(* a = (v, F) of a version v < Latest, object 2 is b = (v, F \cup {g}) for *)
(* one more feature g available in v.  The laws are ProblemKindLattice's   *)
(* own (no new law), taken in both directions:                             *)
(*    UpgradeMonotone(a, b)   a <= b always holds here                     *)
(*    UpgradeMonotone(b, a)   b <= a holds iff g does not count in v       *)
(*                            (deprecated): the kinds are then Eq and must *)
(*                            stay indistinguishable after upgrading       *)
(* Covering pairs suffice.  Let a <= b be kinds of version v, i.e.         *)
(* Norm(a) \subseteq Norm(b).  Walk from a to b one feature at a time:     *)
(* drop the features of a that do not count in v (steps (x+g, x), g not    *)
(* valid: both directions hold), add the features of Norm(b) \ Norm(a),    *)
(* add the features of b that do not count.  Every step is a covering pair *)
(* x <= y with Den(Lift(x, w)) \subseteq Den(Lift(y, w)) for every w;      *)
(* inclusions compose, hence Le(Lift(a, w), Lift(b, w)).  A kind with      *)
(* version=None behaves in Le / Lift / Norm as the kind with its computed  *)
(* version declared, so declared versions are enough.                      *)
(*                                                                         *)
(* Deliberately NOT demanded: Up[v][F \cup G] = Up[v][F] \cup Up[v][G].    *)
(* The statement asks for an order-preserving upgrade, not for a union     *)
(* homomorphism, and a conjunctive rule (two version-1 features that       *)
(* together yield a version-2 feature) is monotone without being one.      *)
(***************************************************************************)
EXTENDS ProblemKindLatticeUpgradeTables, ProblemKindLattice   \* tables first: see there

CONSTANT CoverFeat   \* [1..Latest-1 -> SUBSET Feat]: the features the enumerated kinds of version v are made of
                     \* (thorough: every feature of the universe available in v; quick: those the upgrade
                     \* function of v reads or removes and those that do not count in v -- the others pass
                     \* through that function unchanged and unnoticed, as far as the driver's probes can tell)
Below == 1..(Latest - 1)
\* ProblemKind(F, version=v) for every version that can still be upgraded and every F over CoverFeat[v]
NewFirst  == /\ live = {}     \* (guard first: TLC would otherwise enumerate the subsets in every state)
             /\ \E v \in Below : \E F \in SUBSET CoverFeat[v] : New(1, [dv |-> v, f |-> F])
\* the same kind with one more feature
NewSecond == /\ live = {1}
             /\ \E g \in CoverFeat[objs[1].dv] \ objs[1].f :
                   New(2, [dv |-> objs[1].dv, f |-> objs[1].f \cup {g}])
CoverNext == NewFirst \/ NewSecond
CoverSpec == Init /\ [][CoverNext]_vars

LawUpgradeCover == Both => /\ Le(A1, A2)
                           /\ UpgradeMonotone(A1, A2)
                           /\ UpgradeMonotone(A2, A1)
\* LawTables (UpgradeWF of object 1) is ProblemKindLattice's

\* number of states the driver expects: 1 + kinds + covering pairs
NAvail(v) == Cardinality(CoverFeat[v])
RECURSIVE CoverUpTo(_)
CoverUpTo(v) == IF v = 0 THEN 0
                ELSE CoverUpTo(v - 1) + (2 ^ NAvail(v)) + (NAvail(v) * (2 ^ NAvail(v))) \div 2
CoverCount == 1 + CoverUpTo(Latest - 1)
ASSUME PrintT(<<"COVER", CoverCount>>)
=============================================================================
