---------------------------- MODULE SimplifyJudge ----------------------------
(***************************************************************************)
(* C11 judge: "simplification preserves the meaning of expressions".       *)
(*                                                                         *)
(* Input (written by harness/drivers/c11.py, which only builds, calls and  *)
(* transcribes):                                                           *)
(*   TAB    interned expression records (UPExpr shape), one per line       *)
(*   CASES  one record per expression handed to the real simplifier:       *)
(*          [id, fam, built |-> [k, exc], e0 |-> index of the projection   *)
(*          of the FNode that was simplified (of the emitted expression    *)
(*          when it could not be built),                                   *)
(*          E |-> outcome of FNode.simplify()   (environment simplifier),  *)
(*          P |-> outcome of Simplifier(env, problem).simplify(e)]         *)
(*          outcome = [k |-> "ok" | "exc" | "skip", exc, r |-> index of    *)
(*          the result, rr |-> outcome of simplifying the result again]    *)
(*   BTAB / BCASES  the same for the "big" family: expression trees whose  *)
(*          constants are BigArith rationals in limb form.                 *)
(*                                                                         *)
(* Clauses (per case and per simplifier variant V \in {"E", "P"}):         *)
(*   raises      simplify() raised (unspecified when the expression has a  *)
(*               division whose divisor is 0 under every valuation of the  *)
(*               variant: static fluents pinned for V = "P")               *)
(*   freevars    FreeVars(e') \subseteq FreeVars(e)                        *)
(*   meaning     for ALL valuations of the leaves over the finite value    *)
(*               grid (Booleans; objects: all; numeric leaves: -2..3 and   *)
(*               halves for reals, within declared bounds; for V = "P" the *)
(*               static fluents pinned to their initial values; q, x over  *)
(*               all objects): Eval(e) = Eval(e') unless one side is UNDEF *)
(*               (division by zero)                                        *)
(*   idempotent  simplify(e') = e' (syntactically), and does not raise     *)
(* Big family: meaning = BEval(e) and BEval(e') are equal rationals /      *)
(* Booleans (cross-multiplication in BigArith).                            *)
(*                                                                         *)
(* Verdicts are total.  Every case is one TLC behaviour of two states; the *)
(* second state carries the set of failed clauses, printed by an invariant *)
(* that is always TRUE:                                                    *)
(*    <<"FAIL", kind, id, V, clause, feature, witness>>                     *)
(*    <<"U", kind, id, V, why>>            (unspecified, counted)           *)
(*    <<"M", kind, id, V, why>>            (machinery: generator produced  *)
(*                                          an expression UP cannot build) *)
(*    <<"S", kind, id, V, why>>            (not replayed: the driver stops *)
(*                                          calling the library after a    *)
(*                                          few calls that do not return)  *)
(***************************************************************************)
EXTENDS SimplifyMenu, BigArith, Json, IOUtils

Tab    == ndJsonDeserialize(IOEnv.TAB)
Cases  == ndJsonDeserialize(IOEnv.CASES)
BTab   == ndJsonDeserialize(IOEnv.BTAB)
BCases == ndJsonDeserialize(IOEnv.BCASES)

\* ---------------------------------------------------------------------------
\* valuations
\* ---------------------------------------------------------------------------
InB(t, v) == (t.lo.k = "none" \/ RLe(t.lo, v)) /\ (t.hi.k = "none" \/ RLe(v, t.hi))
Halves == {NV(0 - 1, 2), NV(1, 2), NV(3, 2)}
NumGrid(t) == {v \in {NV(i, 1) : i \in (0 - 2)..3} \cup (IF t.k = "real" THEN Halves ELSE {}) : InB(t, v)}
DomVals(t) == IF t.k \in {"bool", "user"} THEN ValsOfType(Prob, t) ELSE NumGrid(t)
Static == StaticNames(Prob)
\* only the ground fluents of the fluents that occur are valuated: the evaluation context is the
\* problem with the relevant keys, a state is the vector of their values
RelKeys(rel) == SelectSeq(Keys, LAMBDA k : k[1] \in rel)
CtxOf(rel) == [P |-> Prob, keys |-> RelKeys(rel)]
KeyDom(k, V) ==
   IF V = "P" /\ k[1] \in Static THEN {InitOf(Prob, k)} ELSE DomVals(Fl(Prob, k[1]).type)
RECURSIVE StatesUpTo(_,_,_)
StatesUpTo(ks, i, V) ==
   IF i = 0 THEN {<<>>}
   ELSE {Append(s, v) : s \in StatesUpTo(ks, i - 1, V), v \in KeyDom(ks[i], V)}
States(rel, V) == LET ks == RelKeys(rel) IN StatesUpTo(ks, Len(ks), V)

RECURSIVE ParamNames(_)
ParamNames(e) == (IF e.op = "param" THEN {e.name} ELSE {}) \cup UNION {ParamNames(e.args[i]) : i \in DOMAIN e.args}
Objs == ObjsOf(Prob, "T")
First == CHOOSE o \in Objs : TRUE
\* environments: q and the variables range over all objects of their declared types when they occur
\* (free) in either expression
VarDom(v, fv) == IF v \in fv THEN ObjsOf(Prob, VarTypes[v]) ELSE {CHOOSE o \in ObjsOf(Prob, VarTypes[v]) : TRUE}
EnvsFor(e, r) ==
   LET qs == IF "q" \in ParamNames(e) \cup ParamNames(r) THEN Objs ELSE {First}
       fv == FreeVars(e) \cup FreeVars(r)
   IN {[q |-> OV(a), x |-> OV(b), y |-> OV(c), z |-> OV(d)] :
          a \in qs, b \in VarDom("x", fv), c \in VarDom("y", fv), d \in VarDom("z", fv)}

\* ---------------------------------------------------------------------------
\* clauses
\* ---------------------------------------------------------------------------
RECURSIVE Subterms(_)
Subterms(e) == {e} \cup UNION {Subterms(e.args[i]) : i \in DOMAIN e.args}

\* some division of e has a divisor that is 0 (or undefined) under every valuation
HasZeroDiv(e, V) ==
   \E d \in {t \in Subterms(e) : t.op = "div"} :
      LET rel == FluentNames(d.args[2])
          R   == CtxOf(rel)
      IN \A s \in States(rel, V) : \A en \in EnvsFor(d.args[2], d.args[2]) :
            LET v == Eval(R, d.args[2], s, en) IN IsU(v) \/ VEq(v, ZERO)

\* the valuations on which e and r have different (defined) values
Diff(e, r, V) ==
   LET rel == FluentNames(e) \cup FluentNames(r)
       R   == CtxOf(rel)
   IN {w \in States(rel, V) \X EnvsFor(e, r) :
          LET a == Eval(R, e, w[1], w[2])
              b == Eval(R, r, w[1], w[2])
          IN ~IsU(a) /\ ~IsU(b) /\ ~VEq(a, b)}

\* features that go into the violation signature
RECURSIVE JoinOps(_,_)
JoinOps(as, i) == IF i > Len(as) THEN ""
                  ELSE as[i].op \o (IF i < Len(as) THEN "," ELSE "") \o JoinOps(as, i + 1)
Shape(e) == e.op \o "(" \o JoinOps(e.args, 1) \o ")"
BoundNames(t) == {t.vars[i].name : i \in DOMAIN t.vars}
\* an existential whose conjunctive body equates a bound variable with a term mentioning that variable
SelfEqAt(t) ==
   /\ t.op = "exists" /\ t.args[1].op = "and"
   /\ \E i \in DOMAIN t.args[1].args :
         LET c == t.args[1].args[i] IN
         /\ c.op = "eq"
         /\ \E j \in {1, 2} : /\ c.args[j].op = "var" /\ c.args[j].name \in BoundNames(t)
                              /\ c.args[3 - j] # c.args[j]
                              /\ c.args[j].name \in FreeVars(c.args[3 - j])
\* an existential whose conjunctive body equates a bound variable with some other term (eliminable)
ElimAt(t) ==
   /\ t.op = "exists" /\ t.args[1].op = "and"
   /\ \E i \in DOMAIN t.args[1].args :
         LET c == t.args[1].args[i] IN
         /\ c.op = "eq"
         /\ \E j \in {1, 2} : c.args[j].op = "var" /\ c.args[j].name \in BoundNames(t) /\ c.args[3 - j] # c.args[j]
\* a subtraction of a negative constant term (no parameter or variable; no fluent except, for V = "P", static
\* ones, which that simplifier replaces by their initial values) from a non-constant term
Closed(t, V) == /\ FluentNames(t) \subseteq (IF V = "P" THEN Static ELSE {})
                /\ ParamNames(t) = {} /\ FreeVars(t) = {}
NegMinusAt(t, V) ==
   /\ t.op = "minus" /\ Closed(t.args[2], V) /\ ~Closed(t.args[1], V)
   /\ LET rel == FluentNames(t.args[2])
          v   == Eval(CtxOf(rel), t.args[2], CHOOSE st \in States(rel, "P") : TRUE, [q |-> OV(First)])
      IN v.k = "n" /\ RLt(v, ZERO)
\* ... with a term one of whose variables is re-bound, in the rest of the body, around an occurrence of
\* the bound variable (substituting the term there captures it)
CaptureAt(t) ==
   /\ t.op = "exists" /\ t.args[1].op = "and"
   /\ \E i \in DOMAIN t.args[1].args :
         LET c == t.args[1].args[i] IN
         /\ c.op = "eq"
         /\ \E j \in {1, 2} :
               /\ c.args[j].op = "var" /\ c.args[j].name \in BoundNames(t) /\ c.args[3 - j] # c.args[j]
               /\ \E k \in DOMAIN t.args[1].args \ {i} :
                     \E s \in Subterms(t.args[1].args[k]) :
                        /\ s.op \in {"exists", "forall"}
                        /\ BoundNames(s) \cap FreeVars(c.args[3 - j]) # {}
                        /\ c.args[j].name \in FreeVars(s.args[1]) \ BoundNames(s)
\* ... where the bound variable has a proper subtype (the other term may have the supertype)
Parent(tn) == LET is == {i \in DOMAIN Prob.types : Prob.types[i].name = tn} IN Prob.types[CHOOSE i \in is : TRUE].parent
SubtypedAt(t) == ElimAt(t) /\ \E i \in DOMAIN t.vars : Parent(t.vars[i].type.name) # ""
Feature(e, V) == IF \E t \in Subterms(e) : SubtypedAt(t) THEN "exists-elim-subtyped"
              ELSE IF \E t \in Subterms(e) : SelfEqAt(t) THEN "exists-self-eq"
              ELSE IF \E t \in Subterms(e) : CaptureAt(t) THEN "exists-elim-capture"
              ELSE IF \E t \in Subterms(e) : ElimAt(t) THEN "exists-elim"
              ELSE IF \E t \in Subterms(e) : NegMinusAt(t, V) THEN "minus-neg-const"
              ELSE Shape(e)

ValStr(w) == ToString(w[1]) \o " q=" \o w[2].q.o \o " x=" \o w[2].x.o \o " y=" \o w[2].y.o \o " z=" \o w[2].z.o

\* the set of <<class, clause, feature, witness>> found by variant V of case c  (class "F" = failed clause; "U" / "M" = not a verdict)
JudgeV(c, V) ==
   LET o  == IF V = "E" THEN c.E ELSE c.P
       e  == Tab[c.e0].e
   IN IF c.built.k # "ok"
      THEN (IF HasZeroDiv(e, V) THEN {<<"U", "build-divzero", "", "">>}
            ELSE {<<"M", "build-" \o c.built.exc, "", "">>})
      ELSE IF o.k = "skip" THEN {<<"S", "not-replayed", "", "">>}
      ELSE IF o.k # "ok"
      THEN (IF HasZeroDiv(e, V) THEN {<<"U", "divzero", "", "">>}
            ELSE {<<"F", "raises-" \o o.exc, Feature(e, V), "">>})
      ELSE LET r == Tab[o.r].e
               d == IF r = e THEN {} ELSE Diff(e, r, V)
           IN (IF FreeVars(r) \subseteq FreeVars(e) THEN {} ELSE {<<"F", "freevars", Feature(e, V), "">>})
              \cup (IF d = {} THEN {} ELSE {<<"F", "meaning", Feature(e, V), ValStr(CHOOSE w \in d : TRUE)>>})
              \cup (IF o.rr.k # "ok"
                    THEN (IF HasZeroDiv(r, V) THEN {<<"U", "divzero-2", "", "">>}
                          ELSE {<<"F", "idempotent-raises-" \o o.rr.exc, Feature(e, V), "">>})
                    ELSE IF Tab[o.rr.r].e # r THEN {<<"F", "idempotent", Feature(e, V), "">>} ELSE {})

\* ---------------------------------------------------------------------------
\* big family
\* ---------------------------------------------------------------------------
BU == [k |-> "u"]
BQ(q) == [k |-> "q", q |-> q]
BB(b) == [k |-> "b", b |-> b]
BigVals == [n |-> {QInt(0 - 1), QInt(0), QInt(1), QInt(2)},
            r |-> {QInt(0 - 2), QInt(0), QMk(ZInt(1), <<2>>), QInt(3)}]
RECURSIVE BFluents(_)
BFluents(e) == (IF e.op = "fluent" THEN {e.name} ELSE {}) \cup UNION {BFluents(e.args[i]) : i \in DOMAIN e.args}
BigEnvs(fs) == {[n |-> a, r |-> b] : a \in (IF "n" \in fs THEN BigVals.n ELSE {QInt(0)}),
                                      b \in (IF "r" \in fs THEN BigVals.r ELSE {QInt(0)})}
RECURSIVE BEval(_,_)
BArgs(e, val) == [i \in DOMAIN e.args |-> BEval(e.args[i], val)]
RECURSIVE BFold(_,_,_)
BFold(op, vs, i) == IF i = Len(vs) THEN vs[i].q
                    ELSE IF op = "plus" THEN QAdd(vs[i].q, BFold(op, vs, i + 1)) ELSE QMul(vs[i].q, BFold(op, vs, i + 1))
BEval(e, val) ==
   CASE e.op = "const" -> BQ(e.q)
     [] e.op = "true" -> BB(TRUE)
     [] e.op = "false" -> BB(FALSE)
     [] e.op = "fluent" -> BQ(val[e.name])
     [] OTHER ->
        LET a == BArgs(e, val) IN
        IF \E i \in DOMAIN a : a[i].k # "q" THEN BU
        ELSE CASE e.op \in {"plus", "times"} -> BQ(BFold(e.op, a, 1))
               [] e.op = "minus" -> BQ(QSub(a[1].q, a[2].q))
               [] e.op = "div" -> IF QIsZero(a[2].q) THEN BU ELSE BQ(QDiv(a[1].q, a[2].q))
               [] e.op = "le" -> BB(QLe(a[1].q, a[2].q))
               [] e.op = "lt" -> BB(QLt(a[1].q, a[2].q))
               [] e.op = "eq" -> BB(QEq(a[1].q, a[2].q))
               [] OTHER -> BU
BSame(a, b) == IF a.k # b.k THEN FALSE ELSE IF a.k = "q" THEN QEq(a.q, b.q) ELSE a = b
BKind(e) == IF e.op = "const" THEN (IF QIsInt(e.q) THEN "int" ELSE "rat") ELSE e.op
RECURSIVE JoinKinds(_,_)
JoinKinds(as, i) == IF i > Len(as) THEN ""
                    ELSE BKind(as[i]) \o (IF i < Len(as) THEN "," ELSE "") \o JoinKinds(as, i + 1)
BShape(e) == e.op \o "(" \o JoinKinds(e.args, 1) \o ")"
RECURSIVE BSubterms(_)
BSubterms(e) == {e} \cup UNION {BSubterms(e.args[i]) : i \in DOMAIN e.args}
\* integer-syntactic terms: integer constants combined by + - * (UP folds them to Int constants)
RECURSIVE IntTerm(_)
IntTerm(t) == \/ t.op = "const" /\ QIsInt(t.q)
              \/ t.op \in {"plus", "minus", "times"} /\ \A i \in DOMAIN t.args : IntTerm(t.args[i])
P2x53 == NPow(<<2>>, 53)
\* a division of two integer terms whose quotient is beyond 2^53 in magnitude: |a| > 2^53 * |b|, b # 0
BigIntDivAt(t) ==
   /\ t.op = "div" /\ IntTerm(t.args[1]) /\ IntTerm(t.args[2])
   /\ LET a == BEval(t.args[1], [n |-> QInt(0), r |-> QInt(0)]).q.n
          b == BEval(t.args[2], [n |-> QInt(0), r |-> QInt(0)]).q.n
      IN b.s # 0 /\ NCmp(a.m, NMul(P2x53, b.m)) > 0
BFeature(e) == IF \E t \in BSubterms(e) : BigIntDivAt(t) THEN "int-div-beyond-2^53" ELSE BShape(e)
BHasZeroDiv(e) == \E d \in {t \in BSubterms(e) : t.op = "div"} :
                     \A val \in BigEnvs(BFluents(d.args[2])) :
                        LET v == BEval(d.args[2], val) IN v.k # "q" \/ QIsZero(v.q)
BJudgeV(c, V) ==
   LET o == IF V = "E" THEN c.E ELSE c.P
       e == BTab[c.e0].e
   IN IF c.built.k # "ok"
      THEN (IF BHasZeroDiv(e) THEN {<<"U", "build-divzero", "", "">>}
            ELSE {<<"M", "build-" \o c.built.exc, "", "">>})
      ELSE IF o.k = "skip" THEN {<<"S", "not-replayed", "", "">>}
      ELSE IF o.k # "ok"
      THEN (IF BHasZeroDiv(e) THEN {<<"U", "divzero", "", "">>}
            ELSE {<<"F", "big-raises-" \o o.exc, BShape(e), "">>})
      ELSE LET r == BTab[o.r].e
               d == {val \in BigEnvs(BFluents(e) \cup BFluents(r)) :
                        LET a == BEval(e, val) b == BEval(r, val) IN a.k # "u" /\ b.k # "u" /\ ~BSame(a, b)}
           IN (IF d = {} THEN {} ELSE {<<"F", "big-meaning", BFeature(e) \o "|res=" \o BKind(r), "">>})
              \cup (IF o.rr.k # "ok" THEN {<<"F", "big-idempotent-raises-" \o o.rr.exc, BShape(e), "">>}
                    ELSE IF BTab[o.rr.r].e # r THEN {<<"F", "big-idempotent", BShape(e), "">>} ELSE {})

\* ---------------------------------------------------------------------------
\* the judging state machine
\* ---------------------------------------------------------------------------
VARIABLES kind, cid, res
vars == <<kind, cid, res>>
Init == /\ \/ kind = "s" /\ cid \in DOMAIN Cases
           \/ kind = "b" /\ cid \in DOMAIN BCases
        /\ res = <<"todo">>
Tag(S, V) == {<<t[1], V, t[2], t[3], t[4]>> : t \in S}
\* the two variants get the same verdict when their observations are identical and no static fluent
\* occurs (the valuation sets then coincide): judged once
SameObs(c, e, r) == c.P = c.E /\ (FluentNames(e) \cup FluentNames(r)) \cap Static = {}
JudgeBoth(c) ==
   LET je == JudgeV(c, "E") IN
   Tag(je, "E") \cup (IF SameObs(c, Tab[c.e0].e, Tab[c.E.r].e) THEN Tag(je, "P") ELSE Tag(JudgeV(c, "P"), "P"))
BJudgeBoth(c) ==
   LET je == BJudgeV(c, "E") IN
   Tag(je, "E") \cup (IF c.P = c.E THEN Tag(je, "P") ELSE Tag(BJudgeV(c, "P"), "P"))
Next == /\ res = <<"todo">>
        /\ res' = IF kind = "s"
                  THEN <<"done", JudgeBoth(Cases[cid])>>
                  ELSE <<"done", BJudgeBoth(BCases[cid])>>
        /\ UNCHANGED <<kind, cid>>
Spec == Init /\ [][Next]_vars

Id == IF kind = "s" THEN Cases[cid].id ELSE BCases[cid].id
Line(t) == IF t[1] = "F" THEN <<"FAIL", kind, Id, t[2], t[3], t[4], t[5]>>
           ELSE <<t[1], kind, Id, t[2], t[3]>>
\* always TRUE
Verdict == res[1] = "done" => \A t \in res[2] : PrintT(Line(t))
=============================================================================
