------------------------- MODULE EffectConflictsEnum -------------------------
(* G1 generator for C24.  Writes (ndjson)                                     *)
(*  TABLE : the universe of calls, one row per index, with the flags the      *)
(*          driver needs to build them (which containers offer the call,      *)
(*          whether it is a probe candidate);                                 *)
(*  OUT   : every call history of length L over that universe, per container, *)
(*          as sequences of indices into the table.  All permutations of all  *)
(*          multisets of L calls are exactly all sequences of length L.       *)
EXTENDS EffectConflicts, Json, IOUtils, SequencesExt
CONSTANTS L,      \* history length
          CSet    \* containers to emit histories for

Row(i) == LET o == Universe[i] IN
          [idx |-> i, k |-> o.k, fl |-> o.fl, v |-> o.v, c |-> o.c, s |-> o.s, t |-> o.t,
           sf |-> SetToSeq(SimFl(o.s)),          \* fluents written by the simulated effect (<<>> for effects)
           probe |-> (o \in ProbeSet),
           ia |-> Supports("ia", o), da |-> Supports("da", o), pb |-> Supports("pb", o)]
Table == [i \in 1..NU |-> Row(i)]

Offered(cn) == {i \in 1..NU : Supports(cn, Universe[i])}
Histories == UNION {{[c |-> cn, ops |-> h] : h \in [1..L -> Offered(cn)]} : cn \in CSet}

ASSUME ndJsonSerialize(IOEnv.TABLE, Table)
ASSUME ndJsonSerialize(IOEnv.OUT, SetToSeq(Histories))
ASSUME PrintT(<<"EMITTED", NU, Cardinality(Histories)>>)

EnumInit == Init
EnumNext == UNCHANGED vars
=============================================================================
