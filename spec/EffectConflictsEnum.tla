------------------------- MODULE EffectConflictsEnum -------------------------
(* G1 generator for C24 (instantiate with Level = 2, NT = 2: the largest      *)
(* universe; the groups below are sub-universes of it).  Writes (ndjson)      *)
(*  TABLE : the universe of calls, one row per index, with the flags the      *)
(*          driver needs to build them (which containers offer the call,      *)
(*          whether it is a probe candidate, whether it is in the core        *)
(*          universe, the fluents a simulated effect writes);                 *)
(*  OUT   : for every group, every call history of length L over the group's  *)
(*          sub-universe, per container, as sequences of indices into the     *)
(*          table.  All permutations of all multisets of L calls are exactly  *)
(*          all sequences of length L.                                        *)
EXTENDS EffectConflicts, Json, IOUtils, SequencesExt
CONSTANTS Groups   \* sequence of [name, lvl, nt, L, cs]

All3 == {"ia", "da", "pb"}
Timed == {"da", "pb"}
GroupsQuick == <<
   [name |-> "full-L2",     lvl |-> 2, nt |-> 1, L |-> 2, cs |-> All3],
   [name |-> "core-L3",     lvl |-> 1, nt |-> 1, L |-> 3, cs |-> All3],
   [name |-> "core-2tp-L2", lvl |-> 1, nt |-> 2, L |-> 2, cs |-> Timed] >>
GroupsThorough == <<
   [name |-> "full-L3",     lvl |-> 2, nt |-> 1, L |-> 3, cs |-> All3],
   [name |-> "core-L4",     lvl |-> 1, nt |-> 1, L |-> 4, cs |-> All3],
   [name |-> "full-2tp-L2", lvl |-> 2, nt |-> 2, L |-> 2, cs |-> Timed],
   [name |-> "core-2tp-L3", lvl |-> 1, nt |-> 2, L |-> 3, cs |-> {"da"}] >>
GroupsNone == << >>

IsCore(o) == [o EXCEPT !.t = 1] \in Core1
Row(i) == LET o == Universe[i] IN
          [idx |-> i, k |-> o.k, fl |-> o.fl, v |-> o.v, c |-> o.c, s |-> o.s, t |-> o.t,
           sf |-> SetToSeq(SimFl(o.s)),          \* fluents written by the simulated effect (<<>> for effects)
           probe |-> (o \in ProbeSet), core |-> IsCore(o),
           ia |-> Supports("ia", o), da |-> Supports("da", o), pb |-> Supports("pb", o)]
Table == [i \in 1..NU |-> Row(i)]

Offered(g, cn) == {i \in 1..NU : LET o == Universe[i] IN
                      Supports(cn, o) /\ o.t <= g.nt /\ (g.lvl = 2 \/ IsCore(o))}
HistoriesOf(g) == UNION {{[g |-> g.name, nt |-> g.nt, c |-> cn, ops |-> h] : h \in [1..g.L -> Offered(g, cn)]} : cn \in g.cs}
Histories == UNION {HistoriesOf(Groups[j]) : j \in DOMAIN Groups}

ASSUME Level = 2 /\ NT = 2
ASSUME ndJsonSerialize(IOEnv.TABLE, Table)
ASSUME ndJsonSerialize(IOEnv.OUT, SetToSeq(Histories))
ASSUME PrintT(<<"EMITTED", NU, Cardinality(Histories)>>)

EnumInit == Init
EnumNext == UNCHANGED vars
=============================================================================
