---------------------------- MODULE ExprManager ----------------------------
(* C16 -- expressions are hash-consed and constructors normalise as         *)
(* documented (unified_planning/model/expression.py: ExpressionManager,     *)
(* fnode.py: FNode / FNodeContent).                                         *)
(*                                                                          *)
(* Implementation-shaped layer: `table` is ExpressionManager.expressions    *)
(* (content -> node id; content = <<node type, child ids, payload>>) and    *)
(* `nextId` is _next_free_id.  One action per constructor call:             *)
(*   Mk(k, atoms, Rec)          the call returns a node                     *)
(*   MkReject(k, atoms, Rec, g) the call is ill-typed and raises            *)
(* Both first promote the arguments (auto_promote: fluents, numeric         *)
(* literals) in order, then apply the constructor's documented              *)
(* normalisation (NFId) and intern the resulting content.                   *)
(*                                                                          *)
(* Declarative layer: a node id denotes a term (TermOf); the property is    *)
(* stated on terms: the returned node denotes NormTerm(call) (normal forms  *)
(* on trees, no table), distinct nodes denote distinct terms, a call is     *)
(* accepted iff its normal term is well typed (history independent), and    *)
(* entries of the table never change.                                       *)
(*                                                                          *)
(* Node ids are not prescribed by the property: a new content receives the  *)
(* id `Rec` says (trace validation: the id the real environment handed out) *)
(* or nextId when Rec is silent (T1); the only requirement is freshness.    *)
EXTENDS Integers, Sequences, FiniteSets, TLC

CONSTANTS Leaves,      \* leaf names usable in calls (subset of DOMAIN LeafT)
          Lits,        \* literal tokens usable in calls (subset of DOMAIN LitVal)
          Ctors,       \* constructor names usable in calls
          MaxArity,    \* largest argument count of And/Or/Plus/Times calls
          MaxOps,      \* T1 depth bound
          CacheFirst   \* TRUE: model create_node as written (insert, then type-check)

VARIABLES table, nextId
vars == <<table, nextId>>

\* ---------------------------------------------------------------- vocabulary
LeafT == ("b" :> "bool") @@ ("c" :> "bool") @@ ("x" :> "int") @@ ("y" :> "real")
\* literal tokens: i = Python int, f = float, s = str, q = Fraction(n, d); value <<num, den>>
LitVal == ("i2" :> <<2, 1>>) @@ ("f2.0" :> <<2, 1>>) @@ ("s2" :> <<2, 1>>) @@ ("q4/2" :> <<4, 2>>)
          @@ ("q1/2" :> <<1, 2>>) @@ ("f0.5" :> <<1, 2>>) @@ ("s0.5" :> <<5, 10>>) @@ ("s1/2" :> <<1, 2>>)
          @@ ("s-2/4" :> <<0 - 2, 4>>) @@ ("i0" :> <<0, 1>>) @@ ("f1.0" :> <<1, 1>>) @@ ("i-3" :> <<0 - 3, 1>>)
          @@ ("q6/4" :> <<6, 4>>) @@ ("f1.5" :> <<3, 2>>)
          \* strings whose value is integral but whose text int() does not accept: still the canonical Int
          @@ ("s2.0" :> <<2, 1>>) @@ ("s4/2" :> <<4, 2>>) @@ ("s20e-1" :> <<2, 1>>) @@ ("s-3." :> <<0 - 3, 1>>)
NONE == "NoneType:None"
NaryC == {"And", "Or", "Plus", "Times"}
BinC == {"Implies", "Iff", "Minus", "Div", "LE", "LT", "GE", "GT", "Equals"}
AllCtors == NaryC \cup BinC \cup {"Not", "FluentExp", "TRUE", "FALSE"}
OpOf == [k \in NaryC \cup BinC \cup {"Not"} |->
           CASE k = "And" -> "AND" [] k = "Or" -> "OR" [] k = "Plus" -> "PLUS" [] k = "Times" -> "TIMES"
             [] k = "Implies" -> "IMPLIES" [] k = "Iff" -> "IFF" [] k = "Minus" -> "MINUS" [] k = "Div" -> "DIV"
             [] k = "LE" -> "LE" [] k = "LT" -> "LT" [] k = "GE" -> "LE" [] k = "GT" -> "LT"
             [] k = "Equals" -> "EQUALS" [] k = "Not" -> "NOT"]

Abs(a) == IF a < 0 THEN 0 - a ELSE a
RECURSIVE GCD(_, _)
GCD(a, b) == IF b = 0 THEN a ELSE GCD(b, a % b)
\* lowest terms, positive denominator (uniform_numeric_constant)
Canon(v) == LET g == GCD(Abs(v[1]), v[2]) IN <<v[1] \div g, v[2] \div g>>

\* contents (= terms without children): <<node type, children, payload>>
TrueC == <<"BOOL_CONSTANT", <<>>, "bool:True">>
FalseC == <<"BOOL_CONSTANT", <<>>, "bool:False">>
IntC(n) == <<"INT_CONSTANT", <<>>, "int:" \o ToString(n)>>
\* canonical constant: Int when the value is integral, Real (a Fraction in lowest terms) otherwise
ConstC(v) == LET q == Canon(v) IN
             IF q[2] = 1 THEN IntC(q[1])
             ELSE <<"REAL_CONSTANT", <<>>, "Fraction:" \o ToString(q[1]) \o "/" \o ToString(q[2])>>
LeafC(l) == <<"FLUENT_EXP", <<>>, "Fluent:" \o l>>
UnitC(k) == CASE k = "And" -> TrueC [] k = "Or" -> FalseC [] k = "Plus" -> IntC(0) [] k = "Times" -> IntC(1)

\* ---------------------------------------------------------------- typing (bool / int / real only)
Numeric == {"int", "real"}
AllIn(ts, S) == \A i \in DOMAIN ts : ts[i] \in S
NumJoin(ts) == IF \E i \in DOMAIN ts : ts[i] = "real" THEN "real" ELSE "int"
\* type of a node from its operator, the types of its children and its payload; "none" = ill-typed
OpType(op, ts, pay) ==
   CASE op = "BOOL_CONSTANT" -> IF ts = <<>> THEN "bool" ELSE "none"
     [] op = "INT_CONSTANT" -> IF ts = <<>> THEN "int" ELSE "none"
     [] op = "REAL_CONSTANT" -> IF ts = <<>> THEN "real" ELSE "none"
     [] op = "FLUENT_EXP" -> IF ts = <<>> /\ \E f \in DOMAIN LeafT : pay = "Fluent:" \o f
                             THEN LeafT[CHOOSE f \in DOMAIN LeafT : pay = "Fluent:" \o f] ELSE "none"
     [] op \in {"AND", "OR"} -> IF AllIn(ts, {"bool"}) THEN "bool" ELSE "none"
     [] op = "NOT" -> IF Len(ts) = 1 /\ AllIn(ts, {"bool"}) THEN "bool" ELSE "none"
     [] op \in {"IMPLIES", "IFF"} -> IF Len(ts) = 2 /\ AllIn(ts, {"bool"}) THEN "bool" ELSE "none"
     [] op \in {"PLUS", "TIMES"} -> IF AllIn(ts, Numeric) THEN NumJoin(ts) ELSE "none"
     [] op = "MINUS" -> IF Len(ts) = 2 /\ AllIn(ts, Numeric) THEN NumJoin(ts) ELSE "none"
     [] op = "DIV" -> IF Len(ts) = 2 /\ AllIn(ts, Numeric) THEN "real" ELSE "none"
     [] op \in {"LE", "LT"} -> IF Len(ts) = 2 /\ AllIn(ts, Numeric) THEN "bool" ELSE "none"
     \* Equals is "not valid for boolean expressions"; only numeric operands exist besides
     [] op = "EQUALS" -> IF Len(ts) = 2 /\ AllIn(ts, Numeric) THEN "bool" ELSE "none"
     [] OTHER -> "none"

\* ---------------------------------------------------------------- the table (id level)
IdsOf(T) == {T[c] : c \in DOMAIN T}
NodeOf(T, id) == CHOOSE c \in DOMAIN T : T[c] = id
EntriesOf(T) == {<<T[c], c[1], c[2], c[3]>> : c \in DOMAIN T}
MaxId(T) == CHOOSE m \in IdsOf(T) : \A j \in IdsOf(T) : j <= m
RECURSIVE TypeOf(_, _)
TypeOf(T, id) == LET c == NodeOf(T, id) IN OpType(c[1], TLCEval([i \in DOMAIN c[2] |-> TypeOf(T, c[2][i])]), c[3])
\* the term (tree) a node denotes
RECURSIVE TermOf(_, _)
TermOf(T, id) == LET c == NodeOf(T, id) IN TLCEval(<<c[1], [i \in DOMAIN c[2] |-> TermOf(T, c[2][i])], c[3]>>)
RECURSIVE TermType(_)
TermType(t) == OpType(t[1], TLCEval([i \in DOMAIN t[2] |-> TermType(t[2][i])]), t[3])

\* call arguments ("atoms"): <<"n", id, "">> an existing node, <<"l", 0, name>> a fluent object,
\* <<"v", 0, token>> a numeric literal
NoRec == <<>>
Intern(T, n, c, Rec) ==
   IF c \in DOMAIN T THEN [T |-> T, n |-> n, id |-> T[c]]
   ELSE LET id == IF c \in DOMAIN Rec THEN Rec[c] ELSE n
        IN [T |-> T @@ (c :> id), n |-> IF id >= n THEN id + 1 ELSE n, id |-> id]
\* auto_promote of one argument
PromOne(T, n, a, Rec) ==
   CASE a[1] = "n" -> [T |-> T, n |-> n, id |-> a[2]]
     [] a[1] = "l" -> Intern(T, n, LeafC(a[3]), Rec)
     [] a[1] = "v" -> Intern(T, n, ConstC(LitVal[a[3]]), Rec)
RECURSIVE Prom(_, _, _, _, _)
Prom(T, n, atoms, Rec, acc) ==
   IF atoms = <<>> THEN [T |-> T, n |-> n, ids |-> acc]
   ELSE LET r == PromOne(T, n, Head(atoms), Rec) IN Prom(r.T, r.n, Tail(atoms), Rec, Append(acc, r.id))

\* documented normalisation of constructor k applied to promoted children `ids`:
\* either an existing node is returned as it is (pass) or one content is interned
NFId(k, ids, T) ==
   CASE k \in NaryC ->
          IF Len(ids) = 0 THEN [pass |-> FALSE, id |-> 0, c |-> UnitC(k)]
          ELSE IF Len(ids) = 1 THEN [pass |-> TRUE, id |-> ids[1], c |-> NodeOf(T, ids[1])]
          ELSE [pass |-> FALSE, id |-> 0, c |-> <<OpOf[k], ids, NONE>>]
     [] k = "Not" ->
          LET a == NodeOf(T, ids[1]) IN
          IF a[1] = "NOT" THEN [pass |-> TRUE, id |-> a[2][1], c |-> NodeOf(T, a[2][1])]
          ELSE [pass |-> FALSE, id |-> 0, c |-> <<"NOT", ids, NONE>>]
     [] k \in {"GE", "GT"} -> [pass |-> FALSE, id |-> 0, c |-> <<OpOf[k], <<ids[2], ids[1]>>, NONE>>]
     [] k \in BinC \ {"GE", "GT"} -> [pass |-> FALSE, id |-> 0, c |-> <<OpOf[k], ids, NONE>>]
     [] k = "FluentExp" -> [pass |-> TRUE, id |-> ids[1], c |-> NodeOf(T, ids[1])]
     [] k = "TRUE" -> [pass |-> FALSE, id |-> 0, c |-> TrueC]
     [] k = "FALSE" -> [pass |-> FALSE, id |-> 0, c |-> FalseC]

\* Unspecified zone: a division whose divisor is a fluent-free expression other than a non-zero
\* constant (the type checker divides interval bounds and may divide by zero) is never judged.
RECURSIVE HasFluent(_)
HasFluent(t) == t[1] = "FLUENT_EXP" \/ \E i \in DOMAIN t[2] : HasFluent(t[2][i])
AtomTerm(T, a) == CASE a[1] = "n" -> TermOf(T, a[2])
                    [] a[1] = "l" -> LeafC(a[3])
                    [] a[1] = "v" -> ConstC(LitVal[a[3]])
Specified(k, atoms, T) ==
   (k = "Div" /\ Len(atoms) = 2) =>
      LET d == AtomTerm(T, atoms[2]) IN
      HasFluent(d) \/ (d[1] \in {"INT_CONSTANT", "REAL_CONSTANT"} /\ d[3] # "int:0")

WFCall(k, atoms, T) ==
   /\ k \in AllCtors
   /\ \A i \in DOMAIN atoms :
         \/ atoms[i][1] = "n" /\ atoms[i][2] \in IdsOf(T)
         \/ atoms[i][1] = "l" /\ atoms[i][3] \in DOMAIN LeafT
         \/ atoms[i][1] = "v" /\ atoms[i][3] \in DOMAIN LitVal
   /\ CASE k \in NaryC -> TRUE
        [] k = "Not" -> Len(atoms) = 1
        [] k \in BinC -> Len(atoms) = 2
        [] k = "FluentExp" -> Len(atoms) = 1 /\ atoms[1][1] = "l"
        [] k \in {"TRUE", "FALSE"} -> Len(atoms) = 0
   /\ Specified(k, atoms, T)

\* outcome of one constructor call in state (T, n):
\*   ok   the call returns a node (res) / raises
\*   T, n table and id bound afterwards;  c  the content the call denotes
Apply(T, n, k, atoms, Rec) ==
   LET p == Prom(T, n, atoms, Rec, <<>>)
       nf == NFId(k, p.ids, p.T)
   IN IF nf.pass THEN [ok |-> TRUE, T |-> p.T, n |-> p.n, res |-> nf.id, c |-> nf.c]
      ELSE LET ty == OpType(nf.c[1], TLCEval([i \in DOMAIN nf.c[2] |-> TypeOf(p.T, nf.c[2][i])]), nf.c[3])
               r == Intern(p.T, p.n, nf.c, Rec)
           IN IF ty # "none" \/ (CacheFirst /\ nf.c \in DOMAIN p.T)
              THEN [ok |-> TRUE, T |-> r.T, n |-> r.n, res |-> r.id, c |-> nf.c]
              ELSE IF CacheFirst     \* as written: the node was stored before get_type raised
              THEN [ok |-> FALSE, T |-> r.T, n |-> r.n, res |-> 0, c |-> nf.c]
              ELSE [ok |-> FALSE, T |-> p.T, n |-> p.n, res |-> 0, c |-> nf.c]

\* ---------------------------------------------------------------- actions
InitWith(t, f) == /\ table = (TrueC :> t) @@ (FalseC :> f)
                  /\ nextId = (IF t > f THEN t ELSE f) + 1
Init == InitWith(1, 2)

\* the two kinds of transition, given the outcome r = Apply(table, nextId, k, atoms, Rec) of the call
MkWith(r) == r.ok /\ table' = r.T /\ nextId' = r.n
\* an ill-typed attempt: only the promoted arguments may have entered the table;
\* the environment may or may not consume an id (gap)
MkRejectWith(r, gap) == ~r.ok /\ table' = r.T /\ nextId' = r.n + gap

Mk(k, atoms, Rec) == WFCall(k, atoms, table) /\ MkWith(Apply(table, nextId, k, atoms, Rec))
MkReject(k, atoms, Rec, gap) == WFCall(k, atoms, table) /\ MkRejectWith(Apply(table, nextId, k, atoms, Rec), gap)

\* calls of the T1 alphabet in a state with table T
NodeAtoms(T) == {<<"n", i, "">> : i \in IdsOf(T)}
LeafAtoms == {<<"l", 0, f>> : f \in Leaves}
LitAtoms == {<<"v", 0, v>> : v \in Lits}
CallsIn(T) ==
   LET NA == NodeAtoms(T) IN
   {<<k, <<>>>> : k \in Ctors \cap (NaryC \cup {"TRUE", "FALSE"})}
   \cup {<<"FluentExp", <<a>>>> : a \in (IF "FluentExp" \in Ctors THEN LeafAtoms ELSE {})}
   \cup {<<k, <<a>>>> : k \in Ctors \cap (NaryC \cup {"Not"}), a \in NA}
   \cup {<<k, <<a>>>> : k \in Ctors \cap {"Plus", "Times"}, a \in LitAtoms}
   \cup {<<k, <<a, b>>>> : k \in Ctors \cap (NaryC \cup BinC), a \in NA, b \in NA \cup LitAtoms}
   \cup {<<k, <<a, b, c>>>> : k \in (IF MaxArity >= 3 THEN Ctors \cap NaryC ELSE {}), a \in NA, b \in NA, c \in NA}
Calls == CallsIn(table)
Next == \E call \in Calls :
           \/ Mk(call[1], call[2], NoRec)
           \/ \E gap \in {0, 1} : MkReject(call[1], call[2], NoRec, gap)
Spec == Init /\ [][Next]_vars

\* ---------------------------------------------------------------- properties of the table
IdsInjective == \A c1 \in DOMAIN table, c2 \in DOMAIN table : table[c1] = table[c2] => c1 = c2
IdsBelowNext == \A c \in DOMAIN table : table[c] < nextId
\* children exist and are older than their parents (the table is a DAG)
Acyclic == \A c \in DOMAIN table : \A i \in DOMAIN c[2] : c[2][i] \in IdsOf(table) /\ c[2][i] < table[c]
\* only well-typed nodes are stored
AllTyped == \A i \in IdsOf(table) : TypeOf(table, i) # "none"
\* structurally different expressions <=> distinct nodes
TermsDistinct == \A i \in IdsOf(table), j \in IdsOf(table) : i # j => TermOf(table, i) # TermOf(table, j)
\* nodes are immutable and never leave the table
Monotone == [][\A c \in DOMAIN table : c \in DOMAIN table' /\ table'[c] = table[c]]_vars

\* ---------------------------------------------------------------- declarative layer (terms)
\* documented normal form of constructor k applied to argument terms ts
NormTerm(k, ts) ==
   CASE k \in NaryC -> IF Len(ts) = 0 THEN UnitC(k) ELSE IF Len(ts) = 1 THEN ts[1] ELSE <<OpOf[k], ts, NONE>>
     [] k = "Not" -> IF ts[1][1] = "NOT" THEN ts[1][2][1] ELSE <<"NOT", ts, NONE>>
     [] k \in {"GE", "GT"} -> <<OpOf[k], <<ts[2], ts[1]>>, NONE>>
     [] k \in BinC \ {"GE", "GT"} -> <<OpOf[k], ts, NONE>>
     [] k = "FluentExp" -> ts[1]
     [] k = "TRUE" -> TrueC
     [] k = "FALSE" -> FalseC
=============================================================================
