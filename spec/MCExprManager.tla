---- MODULE MCExprManager ----
(* T1 for C16: the id-level machinery of ExprManager (table, promotion, NFId, TypeOf)     *)
(* against the declarative reading on terms.  Ghost variables remember the last call      *)
(* (constructor, argument TERMS at call time, outcome), the call texts rejected/accepted  *)
(* so far and the number of calls; they do not influence table/nextId.                    *)
EXTENDS ExprManager
VARIABLES last, rej, acc, cnt
mcvars == <<vars, last, rej, acc, cnt>>

NoCall == [k |-> "", ts |-> <<>>, ok |-> TRUE, res |-> 0]
MCInit == Init /\ last = NoCall /\ rej = {} /\ acc = {} /\ cnt = 0

Ghost(k, atoms, r) ==
   LET ts == TLCEval([i \in DOMAIN atoms |-> AtomTerm(table, atoms[i])])
   IN /\ last' = [k |-> k, ts |-> ts, ok |-> r.ok, res |-> r.res]
      /\ rej' = IF r.ok THEN rej ELSE rej \cup {<<k, ts>>}
      /\ acc' = IF r.ok THEN acc \cup {<<k, ts>>} ELSE acc
      /\ cnt' = cnt + 1
\* Mk / MkReject of ExprManager, with the outcome of the call computed once
MCNext == /\ cnt < MaxOps
          /\ \E call \in Calls :
                LET r == Apply(table, nextId, call[1], call[2], NoRec) IN
                /\ WFCall(call[1], call[2], table)
                /\ \/ MkWith(r)
                   \/ \E gap \in {0, 1} : MkRejectWith(r, gap)
                /\ Ghost(call[1], call[2], r)
MCSpec == MCInit /\ [][MCNext]_mcvars

\* the returned node denotes the documented normal form of the call (on terms)
NormalForm == (last.k # "" /\ last.ok) => TermOf(table, last.res) = NormTerm(last.k, last.ts)
\* a call is accepted iff its normal form is well typed: acceptance does not depend on the history
AcceptIffWellTyped == last.k # "" => (last.ok <=> TermType(NormTerm(last.k, last.ts)) # "none")
\* the same call text is never both rejected and accepted
RejectRepeatable == rej \cap acc = {}
\* building the same expression twice yields the same node: the result is the unique node denoting the term
HashCons == (last.k # "" /\ last.ok) =>
               \A i \in IdsOf(table) : TermOf(table, i) = NormTerm(last.k, last.ts) => i = last.res
MCMonotone == [][\A c \in DOMAIN table : c \in DOMAIN table' /\ table'[c] = table[c]]_mcvars
\* a rejected call leaves the table as the promotion of its arguments left it
RejectKeepsTable == [][(~last'.ok) => \A c \in DOMAIN table' \ DOMAIN table :
                                          c[1] \in {"FLUENT_EXP", "INT_CONSTANT", "REAL_CONSTANT"}]_mcvars
====
