---------------------------- MODULE ExecEnvTrace ----------------------------
(***************************************************************************)
(* C35: the simulated execution environment is faithful to its contingent  *)
(* problem.  Trace validation over UPSeqSem: every recorded run of the     *)
(* real SimulatedExecutionEnvironment (one problem, one random seed) is a  *)
(* behaviour                                                               *)
(*   Pick  : the environment picks the hidden initial state.  The first    *)
(*           observation (a sensing action observing every ground fluent)  *)
(*           must satisfy every oneof / or constraint, and every           *)
(*           non-hidden ground fluent must have the value the problem      *)
(*           declares (explicit, per-fluent default, per-type default).    *)
(*   Do(a) : each applied action is a UPSeqSem!Step from the current state *)
(*           (sensing actions are steps without effects); the environment  *)
(*           raises iff Step says the action is not applicable; the        *)
(*           observation returned afterwards equals the successor state.   *)
(* Total verdicts via `bad` = <<clause, step>>.                             *)
(***************************************************************************)
EXTENDS UPSeqSem, Json, IOUtils

Traces == ndJsonDeserialize(IOEnv.BATCH)
VARIABLES tid, l, st, bad
vars == <<tid, l, st, bad>>
R(t) == [P |-> Traces[t].P, keys |-> Traces[t].keys]

\* ground-fluent key index of a hidden literal [f, args, neg]
LitIdx(t, lit) == KeyIdx(R(t), lit.f, lit.args)
LitHolds(t, s, lit) == LET v == s[LitIdx(t, lit)] IN v.k = "b" /\ (v.b # lit.neg)
HiddenIdx(t) == {LitIdx(t, Traces[t].hidden.lits[i]) : i \in DOMAIN Traces[t].hidden.lits}

\* first violated clause of the picked initial state s0 ("" if none)
PickClause(t, s0) ==
   LET H  == Traces[t].hidden
       d0 == InitSt(R(t))
   IN IF \E i \in DOMAIN s0 : IsU(s0[i]) THEN "initial-state-has-undefined-fluent"
      ELSE IF \E i \in DOMAIN H.oneof :
                 Cardinality({j \in DOMAIN H.oneof[i] : LitHolds(t, s0, H.oneof[i][j])}) # 1
           THEN "oneof-constraint-violated"
      ELSE IF \E i \in DOMAIN H.or : ~\E j \in DOMAIN H.or[i] : LitHolds(t, s0, H.or[i][j])
           THEN "or-constraint-violated"
      ELSE IF \E i \in DOMAIN s0 : i \notin HiddenIdx(t) /\ ~IsU(d0[i]) /\ s0[i] # d0[i]
           THEN "non-hidden-fluent-not-at-declared-value"
      ELSE ""

Init == /\ tid \in DOMAIN Traces /\ l = 0 /\ bad = <<>>
        /\ st = InitSt(R(tid))            \* placeholder until Pick
Pick == /\ l = 0
        /\ st' = Traces[tid].s0
        /\ bad' = LET c == PickClause(tid, Traces[tid].s0) IN IF c = "" THEN <<>> ELSE <<c, 0>>
        /\ l' = 1 /\ UNCHANGED tid
Do == /\ l >= 1 /\ l <= Len(Traces[tid].steps)
      /\ LET e == Traces[tid].steps[l]
             r == Step(R(tid), [a |-> e.a, args |-> e.args], st)
             c == IF r.unspec THEN "U"
                  ELSE IF r.ok # (e.res = "ok") THEN "apply-spec-" \o r.why \o "-impl-" \o e.res
                  ELSE IF r.ok /\ e.obs # r.s THEN "observation-differs-from-successor"
                  ELSE IF r.ok /\ e.sensed # "ok" THEN "sensing-observation-" \o e.sensed
                  ELSE ""
         IN /\ st' = IF e.res = "ok" THEN e.obs ELSE st     \* follow the implementation's state
            /\ bad' = IF bad # <<>> \/ c = "" \/ c = "U" THEN bad ELSE <<c, l>>
      /\ l' = l + 1 /\ UNCHANGED tid
Next == Pick \/ Do
Spec == Init /\ [][Next]_vars

Done == l > Len(Traces[tid].steps)
Verdict == (Done /\ bad # <<>>) => PrintT(<<(IF bad[1] = "U" THEN "U" ELSE "FAIL"), Traces[tid].id, bad[1], bad[2]>>)
=============================================================================
