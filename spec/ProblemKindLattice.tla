------------------------- MODULE ProblemKindLattice -------------------------
(***************************************************************************)
(* The order on problem kinds of unified_planning.model.problem_kind       *)
(* (ProblemKind.__eq__/__le__/__hash__/union/intersection) together with   *)
(* the version mechanism of problem_kind_versioning (FEATURES_VERSIONS,    *)
(* get_valid_features, upgrade functions, equalize_versions).              *)
(*                                                                         *)
(* A kind is a pair (declared version, feature set).  dv = 0 stands for    *)
(* `version=None`: the version is then the newest version in which one of  *)
(* the features was introduced.  A feature f is introduced in Added[f] and *)
(* deprecated in Depr[f] (0 = never); a kind of version v may carry every  *)
(* feature introduced up to v (Avail) but only the non-deprecated ones     *)
(* (Valid) count.  Up[v] is the upgrade function from version v to v+1.    *)
(* All four tables are CONSTANTS: the driver reads them from the real      *)
(* module (restricted to a small feature universe) and hands them to TLC.  *)
(*                                                                         *)
(* Declarative layer: Den(k, w), the set of valid features the kind k      *)
(* denotes at version w >= Ver(k); Le is inclusion of denotations at the   *)
(* newer of the two versions (the older operand is upgraded), Eq is        *)
(* equality of versions and denotations, Union/Inter are the pointwise     *)
(* operations on upgraded feature sets.  IsLub/IsGlb say what a least      *)
(* upper / greatest lower bound is, without reference to Union/Inter.      *)
(*                                                                         *)
(* Property C33 (Laws): among kinds of one version Le is reflexive,        *)
(* transitive and antisymmetric w.r.t. Eq, Union/Inter are the lub/glb     *)
(* under Le, equal kinds have equal hashes (a hash may depend on Ver and   *)
(* Norm only: HashKey); comparing kinds of different versions upgrades the *)
(* older one and upgrading preserves Le.                                   *)
(*                                                                         *)
(* State machine: up to NObj kind objects, created by New (the            *)
(* constructor); every other public operation of the property is a query:  *)
(* it returns a value (ret) and leaves all objects unchanged (QueryPure).  *)
(***************************************************************************)
EXTENDS Integers, Sequences, FiniteSets, TLC

CONSTANTS NF,       \* features are 1..NF
          Latest,   \* LATEST_PROBLEM_KIND_VERSION
          Added,    \* [Feat -> 1..Latest]  version that introduced the feature
          Depr,     \* [Feat -> Nat]        version that deprecated it, 0 = not deprecated
          Up,       \* [1..Latest-1 -> [SUBSET Feat -> SUBSET Feat]]  upgrade v -> v+1 (inside the universe)
          UpOut,    \* [1..Latest-1 -> [SUBSET Feat -> Nat]]  number of result features outside the universe
          NObj,     \* number of live objects of the state machine
          FullBounds \* TRUE: lub/glb laws quantify over every kind of the version; FALSE: over Reps (see below)

Feat     == 1..NF
Versions == 1..Latest
Max2(x, y) == IF x >= y THEN x ELSE y

\* features a kind of version v may carry / that count in version v (get_valid_features);
\* tabulated once (TLC re-evaluates operator bodies on every use; zero-arity constant definitions
\* are evaluated once at start-up)
AvailT == TLCEval([v \in Versions |-> {f \in Feat : Added[f] <= v}])
ValidT == TLCEval([v \in Versions |-> {f \in AvailT[v] : Depr[f] = 0 \/ Depr[f] > v}])
Avail(v) == AvailT[v]
Valid(v) == ValidT[v]

-----------------------------------------------------------------------------
(* kinds *)
\* version=None: the newest version that introduced one of the features (1 if there is none)
NewInT == TLCEval([v \in Versions |-> {f \in Feat : Added[f] = v}])
RECURSIVE NewestIn(_, _)
NewestIn(F, v) == IF v = 1 \/ F \cap NewInT[v] # {} THEN v ELSE NewestIn(F, v - 1)
ComputedVer(F) == NewestIn(F, Latest)
Ver(k)    == IF k.dv # 0 THEN k.dv ELSE ComputedVer(k.f)
WFKind(k) == /\ k.dv \in 0..Latest
             /\ k.f \subseteq Feat
             /\ k.dv # 0 => k.f \subseteq Avail(k.dv)     \* asserted by the constructor and by set_*
Kinds     == {k \in [dv : 0..Latest, f : SUBSET Feat] : WFKind(k)}
KindsOfVerT   == TLCEval([v \in Versions |-> {k \in Kinds : Ver(k) = v}])
KindsOfVer(v) == KindsOfVerT[v]
NoKind    == [dv |-> 0, f |-> {}]

\* upgrading: feature set F of version v taken to version w >= v
RECURSIVE UpTo(_, _, _)
UpTo(F, v, w) == IF v >= w THEN F ELSE UpTo(Up[v][F], v + 1, w)
RECURSIVE OutTo(_, _, _)
OutTo(F, v, w) == IF v >= w THEN 0 ELSE UpOut[v][F] + OutTo(Up[v][F], v + 1, w)
Lift(k, w) == [dv |-> w, f |-> UpTo(k.f, Ver(k), w)]

\* denotation of k at version w >= Ver(k); Norm = denotation at its own version
Den(k, w) == Lift(k, w).f \cap Valid(w)
Norm(k)   == k.f \cap Valid(Ver(k))

-----------------------------------------------------------------------------
(* the operations of the property *)
Le(a, b)    == LET w == Max2(Ver(a), Ver(b)) IN Den(a, w) \subseteq Den(b, w)
\* == is specified among kinds of one version only (the statement is silent otherwise)
EqSpecified(a, b) == Ver(a) = Ver(b)
Eq(a, b)    == Ver(a) = Ver(b) /\ Norm(a) = Norm(b)
Union(a, b) == LET w == Max2(Ver(a), Ver(b)) IN [dv |-> w, f |-> Lift(a, w).f \cup Lift(b, w).f]
Inter(a, b) == LET w == Max2(Ver(a), Ver(b)) IN [dv |-> w, f |-> Lift(a, w).f \cap Lift(b, w).f]
\* everything a hash consistent with Eq may depend on
HashKey(k)  == <<Ver(k), Norm(k)>>

\* declarative bounds (no reference to Union / Inter): r is a least upper / greatest lower bound of a and b
\* among the kinds S of the newer version
IsUpper(r, a, b) == Le(a, r) /\ Le(b, r)
IsLower(r, a, b) == Le(r, a) /\ Le(r, b)
IsLubIn(S, r, a, b) == /\ Ver(r) = Max2(Ver(a), Ver(b)) /\ IsUpper(r, a, b)
                       /\ \A c \in S : IsUpper(c, a, b) => Le(r, c)
IsGlbIn(S, r, a, b) == /\ Ver(r) = Max2(Ver(a), Ver(b)) /\ IsLower(r, a, b)
                       /\ \A c \in S : IsLower(c, a, b) => Le(c, r)
\* one representative per Eq-class of version v: declared version v and only valid features.
\* NormalForm(c) is in Reps and Eq to c (RepOK); Le cannot tell Eq kinds of one version apart
\* (EqCongruent, checked for every pair); hence a bound that is least among Reps is least among all
\* kinds of the version.  The quick configuration quantifies over Reps, the thorough one over all kinds.
RepsT == TLCEval([v \in Versions |-> {[dv |-> v, f |-> N] : N \in SUBSET Valid(v)}])
NormalForm(c) == [dv |-> Ver(c), f |-> Norm(c)]
Others(v) == IF FullBounds THEN KindsOfVer(v) ELSE RepsT[v]
IsLub(r, a, b) == IsLubIn(Others(Max2(Ver(a), Ver(b))), r, a, b)
IsGlb(r, a, b) == IsGlbIn(Others(Max2(Ver(a), Ver(b))), r, a, b)

-----------------------------------------------------------------------------
(* the laws of C33, stated for a pair (a, b); third kinds are quantified inside *)
SameVer(a, b) == Ver(a) = Ver(b)
Reflexive(a)      == Le(a, a) /\ Eq(a, a)
RepsAreKinds      == TLCEval(\A v \in Versions : RepsT[v] \subseteq KindsOfVer(v))
RepOK(a)          == RepsAreKinds /\ NormalForm(a) \in RepsT[Ver(a)] /\ Eq(a, NormalForm(a))
Antisym(a, b)     == SameVer(a, b) => ((Le(a, b) /\ Le(b, a)) <=> Eq(a, b))
Transitive(a, b)  == (SameVer(a, b) /\ Le(a, b)) => \A c \in KindsOfVer(Ver(a)) : Le(b, c) => Le(a, c)
\* equal kinds cannot be told apart by Le among kinds of their version (so "the" lub is defined up to Eq)
EqCongruent(a, b) == Eq(a, b) => \A c \in KindsOfVer(Ver(a)) : (Le(a, c) <=> Le(b, c)) /\ (Le(c, a) <=> Le(c, b))
UnionIsLub(a, b)  == SameVer(a, b) => WFKind(Union(a, b)) /\ IsLub(Union(a, b), a, b)
InterIsGlb(a, b)  == SameVer(a, b) => WFKind(Inter(a, b)) /\ IsGlb(Inter(a, b), a, b)
HashConsistent(a, b) == Eq(a, b) => HashKey(a) = HashKey(b)
\* upgrading preserves <= ; comparing different versions is comparing after upgrading the older kind
UpgradeMonotone(a, b) == (SameVer(a, b) /\ Le(a, b)) => \A w \in Ver(a)..Latest : Le(Lift(a, w), Lift(b, w))
CrossByUpgrade(a, b)  == Ver(a) < Ver(b) => /\ Le(a, b) <=> Le(Lift(a, Ver(b)), b)
                                            /\ Le(b, a) <=> Le(b, Lift(a, Ver(b)))
\* the same holds for union / intersection of kinds of different versions (bounds among kinds of the newer version)
CrossBounds(a, b) == ~SameVer(a, b) => /\ WFKind(Union(a, b)) /\ IsLub(Union(a, b), a, b)
                                       /\ WFKind(Inter(a, b)) /\ IsGlb(Inter(a, b), a, b)
\* well-formedness of the upgrade tables on every kind: an upgraded kind is a kind of the new version
\* (no feature of a later version, nothing outside the universe) that keeps every feature still valid there
UpgradeWF(a) == \A w \in Ver(a)..Latest :
                   /\ OutTo(a.f, Ver(a), w) = 0
                   /\ Lift(a, w).f \subseteq Avail(w)
                   /\ (Norm(a) \cap Valid(w)) \subseteq Lift(a, w).f

-----------------------------------------------------------------------------
(* state machine: objects are created (constructor), then queried *)
VARIABLES objs, live, ret
vars == <<objs, live, ret>>

NoRet == [op |-> "none", i |-> 0, j |-> 0, w |-> 0, b |-> FALSE, k |-> NoKind]
Init == objs = [i \in 1..NObj |-> NoKind] /\ live = {} /\ ret = NoRet

\* ProblemKind(features, version): objects are numbered in creation order
New(i, k)    == /\ i \notin live /\ i = Cardinality(live) + 1 /\ k \in Kinds
                /\ objs' = [objs EXCEPT ![i] = k] /\ live' = live \cup {i} /\ ret' = NoRet

QEq(i, j)    == /\ EqSpecified(objs[i], objs[j])
                /\ ret' = [op |-> "eq", i |-> i, j |-> j, w |-> 0, b |-> Eq(objs[i], objs[j]), k |-> NoKind]
                /\ UNCHANGED <<objs, live>>
QLe(i, j)    == /\ ret' = [op |-> "le", i |-> i, j |-> j, w |-> 0, b |-> Le(objs[i], objs[j]), k |-> NoKind]
                /\ UNCHANGED <<objs, live>>
QUnion(i, j) == /\ ret' = [op |-> "union", i |-> i, j |-> j, w |-> 0, b |-> FALSE, k |-> Union(objs[i], objs[j])]
                /\ UNCHANGED <<objs, live>>
QInter(i, j) == /\ ret' = [op |-> "inter", i |-> i, j |-> j, w |-> 0, b |-> FALSE, k |-> Inter(objs[i], objs[j])]
                /\ UNCHANGED <<objs, live>>
\* a <= a.union(b) etc.: compound queries on the same objects
BoundOps == {"ub1", "ub2", "lb1", "lb2"}
QBound(i, j, which) ==
   LET a == objs[i]  b == objs[j]
       v == CASE which = "ub1" -> Le(a, Union(a, b)) [] which = "ub2" -> Le(b, Union(a, b))
              [] which = "lb1" -> Le(Inter(a, b), a) [] which = "lb2" -> Le(Inter(a, b), b)
   IN /\ ret' = [op |-> which, i |-> i, j |-> j, w |-> 0, b |-> v, k |-> NoKind]
      /\ UNCHANGED <<objs, live>>
\* upgrade both (same-version) objects to version w and compare the upgraded copies
QUpLe(i, j, w) == /\ SameVer(objs[i], objs[j]) /\ w \in Ver(objs[i])..Latest
                  /\ ret' = [op |-> "uple", i |-> i, j |-> j, w |-> w,
                             b |-> Le(Lift(objs[i], w), Lift(objs[j], w)), k |-> NoKind]
                  /\ UNCHANGED <<objs, live>>
\* an operation on which the property statement is silent (== across versions)
QUnspecified(i, j) == ~EqSpecified(objs[i], objs[j]) /\ ret' = [NoRet EXCEPT !.op = "unspecified"] /\ UNCHANGED <<objs, live>>

\* the operand pairs a query may take (a configuration may restrict them: MCProblemKindLattice)
OperandPairs(lv) == lv \X lv
Query == \E p \in OperandPairs(live) : LET i == p[1]  j == p[2] IN
           \/ QEq(i, j) \/ QLe(i, j) \/ QUnion(i, j) \/ QInter(i, j)
           \/ \E wh \in BoundOps : QBound(i, j, wh)
           \/ \E w \in Versions : QUpLe(i, j, w)
           \/ QUnspecified(i, j)
Next == (\E i \in 1..NObj, k \in Kinds : New(i, k)) \/ Query
Spec == Init /\ [][Next]_vars

\* every operation other than a constructor is a query
QueryPure == [][ret'.op # "none" => (objs' = objs /\ live' = live)]_vars

\* T1: the laws on the first two objects (all pairs; third kinds quantified inside the laws)
A1 == objs[1]
A2 == objs[2]
Both == live = {1, 2}
LawOrder   == Both => Reflexive(A1) /\ RepOK(A1) /\ Antisym(A1, A2) /\ Transitive(A1, A2) /\ EqCongruent(A1, A2)
LawBounds  == Both => UnionIsLub(A1, A2) /\ InterIsGlb(A1, A2)
LawHash    == Both => HashConsistent(A1, A2)
LawUpgrade == Both => UpgradeMonotone(A1, A2) /\ CrossByUpgrade(A1, A2)
LawCross   == Both => CrossBounds(A1, A2)
LawTables  == 1 \in live => UpgradeWF(A1)
\* the bound laws hold of the values the queries return
RetOK == /\ ret.op \in BoundOps => ret.b
         /\ (ret.op = "uple" /\ Le(objs[ret.i], objs[ret.j])) => ret.b
ViewObjs == <<objs, live>>
=============================================================================
