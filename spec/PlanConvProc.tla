---------------------------- MODULE PlanConvProc ----------------------------
(***************************************************************************)
(* C29 -- plan conversions of the durative-actions-to-processes compiler.  *)
(*                                                                         *)
(* A time-triggered plan of the original problem is a BAG of timed action  *)
(* instances  [t, a, args, d]  (start time, action name, actual            *)
(* parameters, duration; d = NONE for instantaneous actions); times are    *)
(* exact rationals (UPValues).  Plans are given as sequences, compared as  *)
(* bags (SameBag).                                                         *)
(*                                                                         *)
(* A plan of the COMPILED problem is a bag of timed events [t, c, args]    *)
(* (c = name of a compiled instantaneous action).  The compiler introduces *)
(*   StartName(a)  one "start" action per original action a (the clone of  *)
(*                 a, same name, when a is instantaneous), and             *)
(*   EndName(a)    one "first end" action per durative action whose        *)
(*                 duration is NOT fixed (open or non-degenerate interval):*)
(*                 it is applied FirstEndDelay(a) <= 0 before the end of   *)
(*                 the action, the earliest end-relative happening of a.   *)
(* A FIXED-duration action ([e, e] closed) has no end action: its end is   *)
(* an event of the compiled problem, never listed in plans, and its        *)
(* duration is the value of e under the actual parameters (e reads only    *)
(* parameters, constants and static fluents).                              *)
(*                                                                         *)
(* Pairing (declarative): for an instance x = (a, args) the k-th end event *)
(* of x (in time order) belongs to the k-th start event of x.              *)
(*                                                                         *)
(* Property: Back(Forward(p)) = p as bags, and in Forward(p) every end     *)
(* event lies strictly after its start event and not after start+duration. *)
(* Zone (InZone): every fixed-duration step carries the action's fixed     *)
(* duration; steps of ONE instance of a variable-duration action are       *)
(* strictly separated in time (otherwise the forward plan does not         *)
(* determine the original plan: the two plans {x@0 for 5, x@1 for 1} and   *)
(* {x@0 for 2, x@1 for 4} have the same events) and end after their first  *)
(* end event's offset (d + FirstEndDelay > 0).  Fixed-duration and         *)
(* instantaneous steps may overlap, coincide and repeat freely.            *)
(***************************************************************************)
EXTENDS UPSeqSem

TV(x) == NV(x.n, x.d)
RangeOf(f) == {f[i] : i \in DOMAIN f}
BagOf(sq) == [x \in RangeOf(sq) |-> Cardinality({i \in DOMAIN sq : sq[i] = x})]
SameBag(s1, s2) == BagOf(s1) = BagOf(s2)

RECURSIVE SortR(_)
SortR(S) == IF S = {} THEN <<>>
            ELSE LET m == CHOOSE x \in S : \A y \in S : RLe(x, y) IN <<m>> \o SortR(S \ {m})
MinR(S) == CHOOSE m \in S : \A y \in S : RLe(m, y)

\* ---------- the original actions ----------
IsDur(a) == a.kind = "dur"
IsVar(a) == IsDur(a) /\ (a.dur.lopen \/ a.dur.ropen \/ a.dur.lo # a.dur.hi)
IsFix(a) == IsDur(a) /\ ~IsVar(a)

\* delays of the end-relative timings used by the conditions and effects of a durative action
EndDelays(a) ==
   {TV(a.conds[i].iv.lo.delay) : i \in {j \in DOMAIN a.conds : a.conds[j].iv.lo.from = "end"}}
   \cup {TV(a.conds[i].iv.hi.delay) : i \in {j \in DOMAIN a.conds : a.conds[j].iv.hi.from = "end"}}
   \cup {TV(a.effects[i].t.delay) : i \in {j \in DOMAIN a.effects : a.effects[j].t.from = "end"}}
FirstEndDelay(a) == MinR(EndDelays(a) \cup {ZERO})

\* fluents written by some effect of the problem (all others are static)
Written(P) ==
   UNION {IF IsDur(P.actions[i])
          THEN {P.actions[i].effects[j].e.f.name : j \in DOMAIN P.actions[i].effects}
          ELSE {P.actions[i].effects[j].f.name : j \in DOMAIN P.actions[i].effects} : i \in DOMAIN P.actions}
   \cup {P.timed_effects[j].e.f.name : j \in DOMAIN P.timed_effects}

\* context: C.R = [P, keys], C.s0 = initial state (static fluents are read there)
Ctx(P, keys) == LET R == [P |-> P, keys |-> keys] IN [R |-> R, s0 |-> TLCEval(InitSt(R))]
\* the duration of a fixed-duration action under the actual parameters (UNDEF when it has no value)
FixedDur(C, it) == LET a == Act(C.R.P, it.a) IN Eval(C.R, a.dur.lo, C.s0, ParEnv(a, it))

\* ---------- plans ----------
Item(P, stp) == [t |-> TV(stp.t), a |-> stp.a, args |-> stp.args,
                 d |-> IF IsDur(Act(P, stp.a)) THEN TV(stp.d) ELSE NONE]
Items(P, plan) == [i \in DOMAIN plan |-> Item(P, plan[i])]
SameInst(x, y) == x.a = y.a /\ x.args = y.args
EndOf(it) == RAdd(it.t, it.d)

\* ---------- names of the compiled actions ----------
StartName(a) == IF IsDur(a) THEN a.name \o "_start" ELSE a.name
EndName(a) == a.name \o "_first_end"
CompiledNames(P) == [i \in DOMAIN P.actions |-> StartName(P.actions[i])]
                    \o [i \in DOMAIN P.actions |-> IF IsVar(P.actions[i]) THEN EndName(P.actions[i]) ELSE ""]
\* the naming scheme identifies the role of every compiled action (no two roles share a name)
NamesOK(P) == LET ns == CompiledNames(P) IN
              \A i, j \in DOMAIN ns : (i # j /\ ns[i] # "") => ns[i] # ns[j]
StartsOf(P, c) == {i \in DOMAIN P.actions : StartName(P.actions[i]) = c}
EndsOf(P, c) == {i \in DOMAIN P.actions : IsVar(P.actions[i]) /\ EndName(P.actions[i]) = c}
IsStartEv(P, e) == StartsOf(P, e.c) # {}
IsEndEv(P, e) == EndsOf(P, e.c) # {}
\* the original action a compiled event belongs to
OrigOf(P, e) == P.actions[CHOOSE i \in StartsOf(P, e.c) \cup EndsOf(P, e.c) : TRUE].name

\* ---------- Forward ----------
StartEv(P, it) == [t |-> it.t, c |-> StartName(Act(P, it.a)), args |-> it.args]
EndEv(P, it) == LET a == Act(P, it.a) IN
                [t |-> RAdd(EndOf(it), FirstEndDelay(a)), c |-> EndName(a), args |-> it.args]
RECURSIVE Forward(_,_)
Forward(P, items) ==
   IF items = <<>> THEN <<>>
   ELSE LET it == Head(items) IN
        <<StartEv(P, it)>> \o (IF IsVar(Act(P, it.a)) THEN <<EndEv(P, it)>> ELSE <<>>) \o Forward(P, Tail(items))

\* ---------- Back ----------
\* times of the start / end events of the instance of event e
StartTimes(P, evs, e) == {evs[i].t : i \in {j \in DOMAIN evs : IsStartEv(P, evs[j]) /\ OrigOf(P, evs[j]) = OrigOf(P, e)
                                                               /\ evs[j].args = e.args}}
EndTimes(P, evs, e) == {evs[i].t : i \in {j \in DOMAIN evs : IsEndEv(P, evs[j]) /\ OrigOf(P, evs[j]) = OrigOf(P, e)
                                                             /\ evs[j].args = e.args}}
NStartEvs(P, evs, e) == Cardinality({j \in DOMAIN evs : IsStartEv(P, evs[j]) /\ OrigOf(P, evs[j]) = OrigOf(P, e)
                                                        /\ evs[j].args = e.args})
NEndEvs(P, evs, e) == Cardinality({j \in DOMAIN evs : IsEndEv(P, evs[j]) /\ OrigOf(P, evs[j]) = OrigOf(P, e)
                                                      /\ evs[j].args = e.args})
\* the events of a variable-duration instance can be paired: as many ends as starts, all at distinct times
Pairable(P, evs, e) ==
   /\ NStartEvs(P, evs, e) = NEndEvs(P, evs, e)
   /\ Cardinality(StartTimes(P, evs, e)) = NStartEvs(P, evs, e)
   /\ Cardinality(EndTimes(P, evs, e)) = NEndEvs(P, evs, e)
\* rank of the start event e among the starts of its instance
RankOf(P, evs, e) == 1 + Cardinality({s \in StartTimes(P, evs, e) : RLt(s, e.t)})
BackDefined(C, evs) ==
   LET P == C.R.P IN
   \A i \in DOMAIN evs :
      /\ IsStartEv(P, evs[i]) \/ IsEndEv(P, evs[i])
      /\ IsVar(Act(P, OrigOf(P, evs[i]))) => Pairable(P, evs, evs[i])
BackItem(C, evs, e) ==
   LET P == C.R.P
       a == Act(P, OrigOf(P, e))
       it == [t |-> e.t, a |-> a.name, args |-> e.args]
       d == IF ~IsDur(a) THEN NONE
            ELSE IF IsFix(a) THEN FixedDur(C, it)
            ELSE LET E == SortR(EndTimes(P, evs, e))
                     k == RankOf(P, evs, e)
                 IN RSub(RSub(E[k], e.t), FirstEndDelay(a))
   IN [t |-> e.t, a |-> a.name, args |-> e.args, d |-> d]
Back(C, evs) == LET ss == SelectSeq(evs, LAMBDA e : IsStartEv(C.R.P, e)) IN
                [i \in DOMAIN ss |-> BackItem(C, evs, ss[i])]

\* ---------- zone ----------
\* "ok" or the reason why the plan is outside the zone of the property
Zone(C, items) ==
   LET P == C.R.P IN
   IF ~NamesOK(P) THEN "names"
   ELSE IF \E i \in DOMAIN items : IsFix(Act(P, items[i].a)) /\
              LET a == Act(P, items[i].a) fd == FixedDur(C, items[i]) IN
              \/ ~((FluentNames(a.dur.lo) \cap Written(P)) = {})
              \/ fd.k # "n"
              \/ ~RLt(ZERO, fd)
              \/ fd # items[i].d
        THEN "not-the-fixed-duration"
   ELSE IF \E i \in DOMAIN items : IsVar(Act(P, items[i].a)) /\
              ~RLt(ZERO, RAdd(items[i].d, FirstEndDelay(Act(P, items[i].a))))
        THEN "ends-before-first-end"
   ELSE IF \E i \in DOMAIN items : IsVar(Act(P, items[i].a)) /\
              \E j \in DOMAIN items : j # i /\ SameInst(items[i], items[j])
                   /\ RLe(items[i].t, items[j].t) /\ RLe(items[j].t, EndOf(items[i]))
        THEN "self-overlap"
   ELSE "ok"

\* ---------- the property, stated on an observed forward plan evs and an observed back plan ----------
\* every step has exactly its start event (same time, same parameters), and nothing else starts
StartsOK(P, items, evs) ==
   LET ss == SelectSeq(evs, LAMBDA e : IsStartEv(P, e)) IN
   SameBag([i \in DOMAIN ss |-> [t |-> ss[i].t, a |-> OrigOf(P, ss[i]), args |-> ss[i].args]],
           [i \in DOMAIN items |-> [t |-> items[i].t, a |-> items[i].a, args |-> items[i].args]])
\* as many end events as steps for the instances of variable-duration actions (none for the others)
EndsCountOK(P, items, evs) ==
   /\ \A i \in DOMAIN evs : IsEndEv(P, evs[i]) =>
         NEndEvs(P, evs, evs[i]) = Cardinality({j \in DOMAIN items : items[j].a = OrigOf(P, evs[i]) /\ items[j].args = evs[i].args})
   /\ \A i \in DOMAIN items : IsVar(Act(P, items[i].a)) =>
         \E j \in DOMAIN evs : IsEndEv(P, evs[j]) /\ OrigOf(P, evs[j]) = items[i].a /\ evs[j].args = items[i].args
\* the k-th end event of an instance lies in (start, start + duration] of the k-th step of that instance
EndInside(P, items, evs) ==
   \A i \in DOMAIN items : IsVar(Act(P, items[i].a)) =>
      LET e == StartEv(P, items[i])
          k == 1 + Cardinality({j \in DOMAIN items : SameInst(items[i], items[j]) /\ RLt(items[j].t, items[i].t)})
          S == SortR(StartTimes(P, evs, e))
          E == SortR(EndTimes(P, evs, e))
      IN (k <= Len(S) /\ k <= Len(E)) => (RLt(S[k], E[k]) /\ RLe(E[k], RAdd(S[k], items[i].d)))

\* the specification's own conversions satisfy the property inside the zone (checked on every judged plan
\* and exhaustively by MCPlanConvProc)
SpecRoundTrip(C, items) ==
   LET P == C.R.P
       f == Forward(P, items)
   IN /\ BackDefined(C, f)
      /\ SameBag(Back(C, f), items)
      /\ StartsOK(P, items, f) /\ EndsCountOK(P, items, f) /\ EndInside(P, items, f)
=============================================================================
