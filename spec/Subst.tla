------------------------------- MODULE Subst -------------------------------
(***************************************************************************)
(* C13 -- substitution replaces exactly the free occurrences of its keys.  *)
(*                                                                         *)
(* Expressions are the UPJ records of UPExpr ([op, args, name, v, vars]).  *)
(* A substitution map is a sequence of pairs [k |-> key, v |-> value] with *)
(* pairwise different keys.                                                *)
(*                                                                         *)
(* Two layers:                                                             *)
(*   Subst(e, m)      the reference algorithm: top-down, the first (hence  *)
(*                    maximal) key occurrence met on a path is replaced by *)
(*                    its value and not entered; entering a quantifier     *)
(*                    drops every pair whose key has a free variable bound *)
(*                    by that quantifier; everything else is rebuilt with  *)
(*                    the documented constructor normalisation             *)
(*                    Not(Not x) = x.                                      *)
(*   SubstDecl(e, m)  the property statement read literally: the set of    *)
(*                    positions MaxOcc(e, m) (occurrences of a key that is *)
(*                    active at that position and that are not below       *)
(*                    another such occurrence) and the term obtained by    *)
(*                    plugging the values at exactly these positions.      *)
(* MCSubst checks Subst = SubstDecl, the semantic corollary                *)
(*   Eval(Subst(e, m), sigma) = Eval(e, sigma[m])      (leaf keys)         *)
(* and preservation of well-sortedness on every enumerated case.           *)
(*                                                                         *)
(* Fails(c) is the judgement of one recorded call of FNode.substitute.     *)
(***************************************************************************)
EXTENDS UPExpr

\* ---------------------------------------------------------------------------------------
\* the world: vocabulary the real expressions are built from (emitted to the driver as data)
\* ---------------------------------------------------------------------------------------
BoolT == [k |-> "bool"]
IntT == [k |-> "int", lo |-> NONE, hi |-> NONE]
RealT == [k |-> "real", lo |-> NONE, hi |-> NONE]
UserT(n) == [k |-> "user", name |-> n]
FD(n, t, sig) == [name |-> n, type |-> t, sig |-> sig]
W == [types   |-> <<[name |-> "T", parent |-> ""], [name |-> "T2", parent |-> "T"]>>,
      objects |-> <<[name |-> "o1", type |-> "T"], [name |-> "o2", type |-> "T2"]>>,
      fluents |-> <<FD("a", BoolT, <<>>), FD("b", BoolT, <<>>), FD("c", BoolT, <<>>),
                    FD("x", IntT, <<>>), FD("y", IntT, <<>>), FD("r", RealT, <<>>),
                    FD("loc", UserT("T"), <<>>), FD("loc2", UserT("T2"), <<>>),
                    FD("p", BoolT, <<[name |-> "z", type |-> UserT("T")]>>)>>,
      ifuns   |-> <<>>,
      params  |-> <<[name |-> "k", type |-> IntT], [name |-> "u", type |-> UserT("T")]>>,
      vars    |-> <<[name |-> "v", type |-> UserT("T")], [name |-> "w", type |-> UserT("T2")]>>]

\* ---------------------------------------------------------------------------------------
\* constructors
\* ---------------------------------------------------------------------------------------
Node(op, args, name, val, vs) == [op |-> op, args |-> args, name |-> name, v |-> val, vars |-> vs]
Cst(val)    == Node("const", <<>>, "", val, <<>>)
Obj(n)      == Node("obj", <<>>, n, UNDEF, <<>>)
Par(n)      == Node("param", <<>>, n, UNDEF, <<>>)
Var(n)      == Node("var", <<>>, n, UNDEF, <<>>)
Fl0(n)      == Node("fluent", <<>>, n, UNDEF, <<>>)
Fl1(n, x)   == Node("fluent", <<x>>, n, UNDEF, <<>>)
Un(op, x)   == Node(op, <<x>>, "", UNDEF, <<>>)
Bin(op, x, y) == Node(op, <<x, y>>, "", UNDEF, <<>>)
Decl(seq, n) == seq[CHOOSE i \in DOMAIN seq : seq[i].name = n]
VDecl(n)    == [name |-> n, type |-> Decl(W.vars, n).type]
Qu(op, n, body) == Node(op, <<body>>, "", UNDEF, <<VDecl(n)>>)
IsQ(e) == e.op \in {"exists", "forall"}
Bound(e) == {e.vars[i].name : i \in DOMAIN e.vars}

RECURSIVE Subterms(_)
Subterms(e) == {e} \cup UNION {Subterms(e.args[i]) : i \in DOMAIN e.args}
\* normal form of the constructors: no double negation
NF(e) == \A t \in Subterms(e) : ~(t.op = "not" /\ t.args[1].op = "not")
RECURSIVE AllBound(_)
AllBound(e) == (IF IsQ(e) THEN Bound(e) ELSE {}) \cup UNION {AllBound(e.args[i]) : i \in DOMAIN e.args}
RECURSIVE Depth(_)
Depth(e) == IF e.args = <<>> THEN 0
            ELSE 1 + (CHOOSE d \in {Depth(e.args[i]) : i \in DOMAIN e.args} :
                         \A i \in DOMAIN e.args : Depth(e.args[i]) <= d)

\* ---------------------------------------------------------------------------------------
\* sorts and type compatibility of a map
\* ---------------------------------------------------------------------------------------
TyName(t) == IF t.k = "user" THEN t.name ELSE t.k
RECURSIVE Sort(_)
Sort(e) ==
   CASE e.op = "const"  -> (IF e.v.k = "b" THEN "bool" ELSE IF e.v.d = 1 THEN "int" ELSE "real")
     [] e.op = "obj"    -> Decl(W.objects, e.name).type
     [] e.op = "param"  -> TyName(Decl(W.params, e.name).type)
     [] e.op = "var"    -> TyName(Decl(W.vars, e.name).type)
     [] e.op = "fluent" -> TyName(Fl(W, e.name).type)
     [] e.op \in {"plus", "minus", "times"} ->
           (IF \E i \in DOMAIN e.args : Sort(e.args[i]) = "real" THEN "real" ELSE "int")
     [] e.op = "div"    -> "real"
     [] OTHER           -> "bool"
IsNum(s) == s \in {"int", "real"}
IsUser(s) == s \notin {"bool", "int", "real"}
Related(s, t) == s \in Anc(W, t) \/ t \in Anc(W, s)

\* every operator applied to operands of the sorts the documentation demands
RECURSIVE WellSorted(_)
WellSorted(e) ==
   /\ \A i \in DOMAIN e.args : WellSorted(e.args[i])
   /\ LET S(i) == Sort(e.args[i]) n == Len(e.args) IN
      CASE e.op \in {"const", "obj", "param", "var"} -> n = 0
        [] e.op = "fluent" -> LET sig == Fl(W, e.name).sig IN
              n = Len(sig) /\ \A i \in 1..n : IsUser(S(i)) /\ TyName(sig[i].type) \in Anc(W, S(i))
        [] e.op = "not" -> n = 1 /\ S(1) = "bool"
        [] e.op \in {"and", "or"} -> n >= 2 /\ \A i \in 1..n : S(i) = "bool"
        [] e.op \in {"implies", "iff"} -> n = 2 /\ S(1) = "bool" /\ S(2) = "bool"
        [] e.op \in {"exists", "forall"} -> n = 1 /\ S(1) = "bool" /\ Len(e.vars) >= 1
        [] e.op \in {"le", "lt", "minus", "div"} -> n = 2 /\ IsNum(S(1)) /\ IsNum(S(2))
        [] e.op \in {"plus", "times"} -> n >= 2 /\ \A i \in 1..n : IsNum(S(i))
        [] e.op = "eq" -> n = 2 /\ ((IsNum(S(1)) /\ IsNum(S(2))) \/ (IsUser(S(1)) /\ IsUser(S(2)) /\ Related(S(1), S(2))))
        [] OTHER -> FALSE

\* a key of the world whose numeric type carries no bounds
Unbounded(k) == k.op \in {"fluent", "param"}
\* "yes": the documentation makes the pair compatible; "no": sort mismatch (Boolean / numeric /
\* user type, or a user type that is not a descendant of the key's type); "either": numeric
\* pairs whose acceptance depends on inferred intervals (C15) or on the int <- real direction.
PairVerdict(k, val) ==
   LET sk == Sort(k) sv == Sort(val) IN
   IF sk = "bool" /\ sv = "bool" THEN "yes"
   ELSE IF IsUser(sk) /\ IsUser(sv) THEN (IF sk \in Anc(W, sv) THEN "yes" ELSE "no")
   ELSE IF IsNum(sk) /\ IsNum(sv) THEN (IF (sk = "real" \/ sv = "int") /\ Unbounded(k) THEN "yes" ELSE "either")
   ELSE "no"
MapVerdict(m) ==
   IF \E i \in DOMAIN m : PairVerdict(m[i].k, m[i].v) = "no" THEN "reject"
   ELSE IF \A i \in DOMAIN m : PairVerdict(m[i].k, m[i].v) = "yes" THEN "accept"
   ELSE "either"

\* ---------------------------------------------------------------------------------------
\* layer 1: the reference algorithm
\* ---------------------------------------------------------------------------------------
\* rebuild a node from new children through the constructor (Not(Not x) = x)
Mk(e, args) == IF e.op = "not" /\ args[1].op = "not" THEN args[1].args[1] ELSE [e EXCEPT !.args = args]
IsKey(m, e) == \E i \in DOMAIN m : m[i].k = e
ValOf(m, e) == m[CHOOSE i \in DOMAIN m : m[i].k = e].v
\* the pairs that stay active below a quantifier binding B
Below(m, B) == LET Keep(p) == FreeVars(p.k) \cap B = {} IN SelectSeq(m, Keep)
RECURSIVE Subst(_, _)
Subst(e, m) ==
   IF IsKey(m, e) THEN ValOf(m, e)
   ELSE IF IsQ(e) THEN Mk(e, <<Subst(e.args[1], Below(m, Bound(e)))>>)
   ELSE Mk(e, [i \in DOMAIN e.args |-> Subst(e.args[i], m)])

\* ---------------------------------------------------------------------------------------
\* layer 2: positions
\* ---------------------------------------------------------------------------------------
RECURSIVE Paths(_)
Paths(e) == {<<>>} \cup UNION {{<<i>> \o q : q \in Paths(e.args[i])} : i \in DOMAIN e.args}
RECURSIVE At(_, _)
At(e, q) == IF q = <<>> THEN e ELSE At(e.args[Head(q)], Tail(q))
\* variables bound by the quantifiers strictly above position q
RECURSIVE BoundAbove(_, _)
BoundAbove(e, q) == IF q = <<>> THEN {}
                    ELSE (IF IsQ(e) THEN Bound(e) ELSE {}) \cup BoundAbove(e.args[Head(q)], Tail(q))
\* position q holds a key that may be replaced there
KeyOcc(e, m, q) == \E i \in DOMAIN m : m[i].k = At(e, q) /\ FreeVars(m[i].k) \cap BoundAbove(e, q) = {}
MaxOcc(e, m) == {q \in Paths(e) : KeyOcc(e, m, q) /\ \A n \in 0..(Len(q) - 1) : ~KeyOcc(e, m, SubSeq(q, 1, n))}
\* e with the values plugged at the positions O (q: the position of the node being rebuilt)
RECURSIVE Plug(_, _, _, _)
Plug(root, m, O, q) ==
   LET e == At(root, q) IN
   IF q \in O THEN ValOf(m, e) ELSE Mk(e, [i \in DOMAIN e.args |-> Plug(root, m, O, Append(q, i))])
SubstDecl(e, m) == Plug(e, m, MaxOcc(e, m), <<>>)

\* ---------------------------------------------------------------------------------------
\* semantic corollary
\* ---------------------------------------------------------------------------------------
R == [P |-> W,
      keys |-> <<<<"a", <<>>>>, <<"b", <<>>>>, <<"c", <<>>>>, <<"x", <<>>>>, <<"y", <<>>>>, <<"r", <<>>>>,
                 <<"loc", <<>>>>, <<"loc2", <<>>>>, <<"p", <<"o1">>>>, <<"p", <<"o2">>>>>>]
Sg(ba, bb, bc, x, y, rn, rd, loc, p1, p2, k, u, v) ==
   [s   |-> <<BV(ba), BV(bb), BV(bc), NV(x, 1), NV(y, 1), NV(rn, rd), OV(loc), OV("o2"), BV(p1), BV(p2)>>,
    env |-> ("k" :> NV(k, 1)) @@ ("u" :> OV(u)) @@ ("v" :> OV(v)) @@ ("w" :> OV("o2"))]
Valuations ==
   {Sg(TRUE, FALSE, TRUE, 2, 0 - 1, 1, 2, "o1", TRUE, FALSE, 3, "o2", "o1"),
    Sg(FALSE, TRUE, FALSE, 0, 1, 3, 2, "o2", FALSE, TRUE, 0, "o1", "o2"),
    Sg(TRUE, TRUE, FALSE, 1, 1, 1, 1, "o1", TRUE, TRUE, 1, "o1", "o1"),
    Sg(FALSE, FALSE, TRUE, 0 - 2, 3, 0 - 1, 2, "o2", FALSE, FALSE, 2, "o2", "o2")}
\* keys that are part of an interpretation: nullary fluents, parameters, (free) variables
LeafKey(k) == k.op \in {"param", "var"} \/ (k.op = "fluent" /\ k.args = <<>>)
\* sigma[m]: every key is given the value its replacement has under sigma
RECURSIVE Upd(_, _, _, _)
Upd(sg, sg0, m, i) ==
   IF i > Len(m) THEN sg
   ELSE LET val == Eval(R, m[i].v, sg0.s, sg0.env)
            k == m[i].k
            nx == IF k.op = "fluent" THEN [sg EXCEPT !.s[KeyIdx(R, k.name, <<>>)] = val]
                  ELSE [sg EXCEPT !.env[k.name] = val]
        IN Upd(nx, sg0, m, i + 1)
\* the corollary is claimed when all keys are leaf keys and no value is captured by a binder of e
SemApplicable(e, m) ==
   /\ \A i \in DOMAIN m : LeafKey(m[i].k) /\ FreeVars(m[i].v) \cap AllBound(e) = {}
   /\ MapVerdict(m) # "reject"
SemOK(e, m, res) ==
   \A sg \in Valuations :
      LET u == Upd(sg, sg, m, 1) IN VEq(Eval(R, res, sg.s, sg.env), Eval(R, e, u.s, u.env))

\* ---------------------------------------------------------------------------------------
\* outside the documented domain: the result contains a division by a closed term that is zero
\* (its construction raises ZeroDivisionError in the type checker, with or without substitution)
\* ---------------------------------------------------------------------------------------
RECURSIVE Closed(_)
Closed(e) == e.op \notin {"fluent", "param", "var"} /\ ~IsQ(e) /\ \A i \in DOMAIN e.args : Closed(e.args[i])
Sg0 == CHOOSE sg \in Valuations : TRUE
ZeroTerm(e) == Closed(e) /\ LET val == Eval(R, e, Sg0.s, Sg0.env) IN IsU(val) \/ val.n = 0
ZeroDen(e) == \E t \in Subterms(e) : t.op = "div" /\ ZeroTerm(t.args[2])

\* ---------------------------------------------------------------------------------------
\* judgement of one recorded call  c = [e, m, kind, exc, res, n0, n1, untouched]
\*   kind "val": res is the projected result; kind "exc": exc is the exception class
\*   n0 / n1: size of the expression manager's table before / after the call
\*   untouched: projections of the expression, keys and values after the call equal those before
\* Clauses:  Reject / RejectClass   an ill-sorted map raises UPTypeError
\*           RejectClean            a UPTypeError leaves table size and inputs as they were
\*           Accept / EitherClass   a compatible map does not raise (an undecided one only UPTypeError)
\*           Result                 the value returned is Subst(e, m), syntactically
\*           Semantic               the value returned evaluates like e under sigma[m]
\*           InputsUntouched        the expression, keys and values are what they were
\* ---------------------------------------------------------------------------------------
Fails(c) ==
   LET mv == MapVerdict(c.m)
       ref == Subst(c.e, c.m)
       zd == c.kind = "exc" /\ c.exc = "ZeroDivisionError" /\ mv # "reject" /\ ZeroDen(ref)
   IN (IF mv = "reject" /\ c.kind # "exc" THEN {"Reject"} ELSE {})
      \cup (IF mv = "reject" /\ c.kind = "exc" /\ c.exc # "UPTypeError" THEN {"RejectClass"} ELSE {})
      \cup (IF c.kind = "exc" /\ c.exc = "UPTypeError" /\ (c.n0 # c.n1 \/ ~c.untouched) THEN {"RejectClean"} ELSE {})
      \cup (IF mv = "accept" /\ c.kind = "exc" /\ ~zd THEN {"Accept"} ELSE {})
      \cup (IF mv = "either" /\ c.kind = "exc" /\ c.exc # "UPTypeError" /\ ~zd THEN {"EitherClass"} ELSE {})
      \cup (IF mv # "reject" /\ c.kind = "val" /\ c.res # ref THEN {"Result"} ELSE {})
      \cup (IF c.kind = "val" /\ ~c.untouched THEN {"InputsUntouched"} ELSE {})
      \* for res = ref the corollary is MCSubst!Corollary (checked on the same cases); it is evaluated
      \* here on results that differ from the reference: "also semantically different"
      \cup (IF mv # "reject" /\ c.kind = "val" /\ c.res # ref /\ SemApplicable(c.e, c.m) /\ WellSorted(c.res)
                /\ ~SemOK(c.e, c.m, c.res) THEN {"Semantic"} ELSE {})
      \* outside the documented domain (not a failure; counted by the driver)
      \cup (IF zd THEN {"UNSPECIFIED"} ELSE {})

\* features of a case that enter the signature of a violation
Feature(c) ==
   LET m == c.m e == c.e
       sub == Subterms(e)
       qs  == {t \in sub : IsQ(t)}
       q   == qs # {} /\ \E i \in DOMAIN m : LET fv == FreeVars(m[i].k) IN fv # {} /\ \E t \in qs : fv \cap Bound(t) # {}
       nst == \E i \in DOMAIN m : \E j \in DOMAIN m : i # j /\ m[i].k \in Subterms(m[j].k)
       chn == \E i \in DOMAIN m : \E j \in DOMAIN m : i # j /\ m[j].k \in Subterms(m[i].v)
       cmp == \E i \in DOMAIN m : m[i].k.args # <<>>
       hit == \E i \in DOMAIN m : m[i].k \in sub
       idp == \E i \in DOMAIN m : m[i].k = m[i].v
   IN <<MapVerdict(m),
        IF idp THEN "identity-pair" ELSE IF q THEN "key-has-bound-var" ELSE IF nst THEN "nested-keys" ELSE IF chn THEN "key-in-value"
        ELSE IF cmp THEN "compound-key" ELSE IF hit THEN "leaf-key" ELSE "no-occurrence">>
=============================================================================
