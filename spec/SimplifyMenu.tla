---------------------------- MODULE SimplifyMenu ----------------------------
(***************************************************************************)
(* Data shared by the generator (SimplifyEnum) and the judge               *)
(* (SimplifyJudge) of C11: the small problem in which every expression is  *)
(* built, the typed leaf sets and the typed expression grammar.            *)
(*                                                                         *)
(* Problem Prob (a UPJ value, built in Python by harness.upj.build):       *)
(*   types T and Ts < T; objects o1 : Ts, o2 : T                           *)
(*   b1 b2 : bool          n : int[-1,2]         r : real (unbounded)      *)
(*   p(T) : bool           nxt(T) : T                                      *)
(*   s : int[0,3] = 2      STATIC (no action assigns it)                   *)
(*   sp(T) : bool          STATIC, sp(o1) = true, sp(o2) = false           *)
(*   action act(q : T) assigns b1 b2 n r p(q) nxt(q)                       *)
(* Expressions may mention the action parameter q and the variables x : T, *)
(* y : T, z : Ts (bound by the quantifiers of the grammar, free elsewhere).*)
(***************************************************************************)
EXTENDS UPExpr

\* ---------- expression constructors (uniform record shape) ----------
C(v)       == [op |-> "const", args |-> <<>>, name |-> "", v |-> v, vars |-> <<>>]
Fl0(f)     == [op |-> "fluent", args |-> <<>>, name |-> f, v |-> UNDEF, vars |-> <<>>]
Fl1(f, a)  == [op |-> "fluent", args |-> <<a>>, name |-> f, v |-> UNDEF, vars |-> <<>>]
Ob(o)      == [op |-> "obj", args |-> <<>>, name |-> o, v |-> UNDEF, vars |-> <<>>]
Par(q)     == [op |-> "param", args |-> <<>>, name |-> q, v |-> UNDEF, vars |-> <<>>]
Var(x)     == [op |-> "var", args |-> <<>>, name |-> x, v |-> UNDEF, vars |-> <<>>]
Op1(o, a)  == [op |-> o, args |-> <<a>>, name |-> "", v |-> UNDEF, vars |-> <<>>]
Op2(o, a, b) == [op |-> o, args |-> <<a, b>>, name |-> "", v |-> UNDEF, vars |-> <<>>]
Op3(o, a, b, c) == [op |-> o, args |-> <<a, b, c>>, name |-> "", v |-> UNDEF, vars |-> <<>>]
TT    == [k |-> "user", name |-> "T"]
BoolT == [k |-> "bool"]
IntT(lo, hi) == [k |-> "int", lo |-> NV(lo, 1), hi |-> NV(hi, 1)]
RealT == [k |-> "real", lo |-> NONE, hi |-> NONE]
TsT   == [k |-> "user", name |-> "Ts"]
Qv(o, vn, vt, body) == [op |-> o, args |-> <<body>>, name |-> "", v |-> UNDEF, vars |-> <<[name |-> vn, type |-> vt]>>]
Qx(o, body) == Qv(o, "x", TT, body)
Qy(o, body) == Qv(o, "y", TT, body)
Qz(o, body) == Qv(o, "z", TsT, body)
\* declared types of the variables of the grammar
VarTypes == [x |-> "T", y |-> "T", z |-> "Ts"]
TRUEc == C(BV(TRUE))
FALSEc == C(BV(FALSE))
Num(n, d) == C(NV(n, d))

\* ---------- the problem ----------
Sig1 == <<[name |-> "a", type |-> TT]>>
FD(n, t, sig) == [name |-> n, type |-> t, sig |-> sig, default |-> UNDEF]
IV(f, args, v) == [f |-> f, args |-> args, v |-> v]
Eff(f, args, v) == [kind |-> "assign", f |-> [name |-> f, args |-> args], v |-> v, c |-> TRUEc, forall |-> <<>>]
Prob ==
  [name |-> "c11",
   types |-> <<[name |-> "T", parent |-> ""], [name |-> "Ts", parent |-> "T"]>>,
   objects |-> <<[name |-> "o1", type |-> "Ts"], [name |-> "o2", type |-> "T"]>>,
   fluents |-> <<FD("b1", BoolT, <<>>), FD("b2", BoolT, <<>>), FD("n", IntT(0 - 1, 2), <<>>), FD("r", RealT, <<>>),
                 FD("s", IntT(0, 3), <<>>), FD("p", BoolT, Sig1), FD("nxt", TT, Sig1), FD("sp", BoolT, Sig1)>>,
   init |-> <<IV("b1", <<>>, BV(TRUE)), IV("b2", <<>>, BV(FALSE)), IV("n", <<>>, NV(0, 1)), IV("r", <<>>, NV(0, 1)),
              IV("s", <<>>, NV(2, 1)),
              IV("p", <<OV("o1")>>, BV(FALSE)), IV("p", <<OV("o2")>>, BV(TRUE)),
              IV("nxt", <<OV("o1")>>, OV("o2")), IV("nxt", <<OV("o2")>>, OV("o2")),
              IV("sp", <<OV("o1")>>, BV(TRUE)), IV("sp", <<OV("o2")>>, BV(FALSE))>>,
   actions |-> <<[name |-> "act", kind |-> "inst", params |-> <<[name |-> "q", type |-> TT]>>, pre |-> <<>>,
                  effects |-> <<Eff("b1", <<>>, TRUEc), Eff("b2", <<>>, TRUEc), Eff("n", <<>>, Num(1, 1)),
                                Eff("r", <<>>, Num(1, 2)), Eff("p", <<Par("q")>>, TRUEc),
                                Eff("nxt", <<Par("q")>>, Par("q"))>>,
                  conds |-> <<>>, dur |-> NONE, sim |-> FALSE]>>,
   goals |-> <<>>,
   ifuns |-> <<>>]

\* ground fluents, in the order of harness.upj.keys_of
Keys == <<<<"b1", <<>>>>, <<"b2", <<>>>>, <<"n", <<>>>>, <<"r", <<>>>>, <<"s", <<>>>>,
          <<"p", <<"o1">>>>, <<"p", <<"o2">>>>, <<"nxt", <<"o1">>>>, <<"nxt", <<"o2">>>>,
          <<"sp", <<"o1">>>>, <<"sp", <<"o2">>>>>>
Ctx == [P |-> Prob, keys |-> Keys]

\* static fluents by the documented definition: no effect of any action mentions them
Assigned(P) == UNION {{P.actions[i].effects[j].f.name : j \in DOMAIN P.actions[i].effects} : i \in DOMAIN P.actions}
StaticNames(P) == {P.fluents[i].name : i \in DOMAIN P.fluents} \ Assigned(P)
InitOf(P, key) == LET is == {i \in DOMAIN P.init : P.init[i].f = key[1] /\ [j \in DOMAIN P.init[i].args |-> ArgKey(P.init[i].args[j])] = key[2]}
                  IN P.init[CHOOSE i \in is : TRUE].v

\* ---------- typed leaves ----------
B1f == Fl0("b1")   B2f == Fl0("b2")   Nf == Fl0("n")   Rf == Fl0("r")   Sf == Fl0("s")
O1 == Ob("o1")     O2 == Ob("o2")     Q == Par("q")    X == Var("x")    Y == Var("y")    Z == Var("z")
BoolAtoms == {B1f, B2f, Fl1("p", X), Fl1("p", Q), Fl1("sp", O1), Fl1("sp", X), TRUEc, FALSEc}
NumAtoms  == {Nf, Rf, Sf, Num(0, 1), Num(1, 1), Num(0 - 1, 1), Num(2, 1), Num(1, 2)}
ObjAtoms  == {O1, O2, Q, X, Fl1("nxt", X), Fl1("nxt", Q)}

BoolOps == {"and", "or", "implies", "iff"}
CmpOps  == {"eq", "le", "lt"}
NumOps  == {"plus", "minus", "times", "div"}

\* one grammar level: Boolean / numeric expressions whose direct sub-terms come from B, N, O
BoolLevel(B, N, O) ==
   {Op1("not", a) : a \in B}
   \cup {Op2(o, a, b) : o \in BoolOps, a \in B, b \in B}
   \cup {Op2(o, a, b) : o \in CmpOps, a \in N, b \in N}
   \cup {Op2("eq", a, b) : a \in O, b \in O}
NumLevel(N) == {Op2(o, a, b) : o \in NumOps, a \in N, b \in N}
QuantLevel(B) == {Qx(o, a) : o \in {"exists", "forall"}, a \in B}
=============================================================================
