------------------------------ MODULE Renamer ------------------------------
(* C38 -- the names chosen by the PDDL and ANML writers.                    *)
(*                                                                         *)
(* Declarative layer.  A name is a sequence of code points.  The state is   *)
(*   kw  the keyword set (under the language's case rule) of the language   *)
(*       fragment of the problem the current writer was constructed for --  *)
(*       a function of THAT problem alone (KwFor), whatever was written     *)
(*       before (the implementation-shaped layer, RenamerImpl, keeps the    *)
(*       module-level set the real PDDLWriter aliases);                     *)
(*   nm  the naming produced by the current writer:                         *)
(*       [lang, feats, done, hasfresh,                                      *)
(*        items  : Seq([kind, orig, named, name, back, fresh]),             *)
(*        spaces : Seq([sec, items : Seq(index)]),  (flags: SecVar etc.)    *)
(*        text   : Seq([names : Seq(name)])   (aligned with spaces, or <<>>)*)
(*        tback  : Seq([s, n, ok, rn])]                                     *)
(*       item.name  = look-up item -> name  (get_pddl_name / harvested)     *)
(*       item.back  = index of the item returned by name -> item            *)
(*       item.fresh = the name the same item gets on first use in a fresh   *)
(*                    process (hasfresh)                                    *)
(*       text[k]    = names harvested from the declarations of the emitted  *)
(*                    text for namespace spaces[k]                          *)
(*       tback      = for every harvested name n: get_item_named(n)         *)
(*                    succeeded (ok) and get_pddl_name of the result (rn)   *)
(* Actions: Touch (a writer is constructed), Write (a writer is constructed *)
(* and emits).  ANY naming is a possible next state; the property is the    *)
(* invariant Good: Failures(kw, nm) = {}.  Failures lists <<clause, index>>.*)
(***************************************************************************)
EXTENDS Naturals, Sequences, FiniteSets, TLC, Json, IOUtils

Rng(f) == {f[x] : x \in DOMAIN f}

(* ------------------------- characters, identifiers --------------------- *)
IsUpper(c) == c >= 65 /\ c <= 90
IsLower(c) == c >= 97 /\ c <= 122
IsLetter(c) == IsUpper(c) \/ IsLower(c)
IsDigit(c) == c >= 48 /\ c <= 57
US == 95
HY == 45
QM == 63
LowerC(c) == IF IsUpper(c) THEN c + 32 ELSE c
Fold(n) == [i \in 1..Len(n) |-> LowerC(n[i])]

\* PDDL (both readers: Word(alphas, alphanums + "_" + "-")): a letter, then letters, digits, '-', '_'
\* ANML (anml_grammar.py: Word(alphas + "_", alphanums + "_")): a letter or '_', then letters, digits, '_'
IdStart(lang, c) == IsLetter(c) \/ (lang = "anml" /\ c = US)
IdChar(lang, c) == IsLetter(c) \/ IsDigit(c) \/ c = US \/ (lang = "pddl" /\ c = HY)
Ident(lang, n) == /\ Len(n) >= 1
                  /\ IdStart(lang, n[1])
                  /\ \A i \in 2..Len(n) : IdChar(lang, n[i])
VarKinds == {"param", "qvar"}
\* PDDL variables (action / predicate parameters, quantified variables) are '?' + identifier
ValidName(lang, isvar, n) ==
   IF lang = "pddl" /\ isvar THEN Len(n) >= 2 /\ n[1] = QM /\ Ident(lang, Tail(n))
   ELSE Ident(lang, n)

\* case rule: PDDL names are case-insensitive, ANML names are case-sensitive
Key(lang, n) == IF lang = "pddl" THEN Fold(n) ELSE n

(* ------------------------------ keywords ------------------------------- *)
\* the real keyword sets, read by the driver from the writer modules in a fresh process
KWRaw == JsonDeserialize(IOEnv.KW)
KW == [general |-> Rng(KWRaw.general), temporal |-> Rng(KWRaw.temporal), pddl3 |-> Rng(KWRaw.pddl3),
       plus |-> Rng(KWRaw.plus), contingent |-> Rng(KWRaw.contingent), anml |-> Rng(KWRaw.anml)]
Ext(feats) == (IF "temporal" \in feats THEN KW.temporal ELSE {}) \cup
              (IF "traj" \in feats THEN KW.pddl3 ELSE {}) \cup
              (IF "plus" \in feats THEN KW.plus ELSE {}) \cup
              (IF "contingent" \in feats THEN KW.contingent ELSE {})
\* keywords of the language fragment a problem with features `feats` is written in
KwFor(lang, feats) == IF lang = "anml" THEN KW.anml ELSE KW.general \cup Ext(feats)
KeySet(lang, K) == {Key(lang, k) : k \in K}

OBJECT == <<111, 98, 106, 101, 99, 116>>
TOTALCOST == <<116, 111, 116, 97, 108, 45, 99, 111, 115, 116>>

(* ------------------------------- clauses ------------------------------- *)
\* Failures are <<clause, index, detail>>: index of the item / section / harvested name, detail = what the
\* driver puts in the signature (kind and a syntactic feature of the ORIGINAL name, or the section)
NoNaming == [lang |-> "none", feats |-> {}, done |-> FALSE, hasfresh |-> FALSE, items |-> <<>>, spaces |-> <<>>,
             text |-> <<>>, tback |-> <<>>]

AllKw(lang) == IF lang = "anml" THEN KW.anml
               ELSE KW.general \cup KW.temporal \cup KW.pddl3 \cup KW.plus \cup KW.contingent
AllKwKeys(lang) == KeySet(lang, AllKw(lang))
OrigFeature(lang, n) ==
   IF Len(n) = 0 THEN "empty"
   ELSE IF \E i \in 1..Len(n) : n[i] > 127 THEN "nonascii"
   ELSE IF \E i \in 1..Len(n) : ~IdChar(lang, n[i]) THEN "symbol"
   ELSE IF ~IdStart(lang, n[1]) THEN "badstart"
   ELSE IF Key(lang, n) \in AllKwKeys(lang) THEN "keyword"
   ELSE IF n # Fold(n) THEN "uppercase"
   ELSE "plain"
Det(N, i) == <<N.items[i].kind, OrigFeature(N.lang, N.items[i].orig)>>

IsVar(it) == it.kind \in VarKinds
\* namespaces by section name:
\*  types objects fluents actions           model elements (PDDL); global (ANML / T1: all of them)
\*  signature parameters                    the parameters of one fluent / action
\*  scope top vars                          parameters + quantified variables of one action / of the problem-level
\*                                          conditions (declared several times in the text: multi)
\*  files                                   domain and problem name (text only: free)
SecVar(sec) == sec \in {"signature", "parameters", "scope", "top", "vars"}
SecMulti(sec) == sec \in {"scope", "top"}
SecFree(sec) == sec = "files"
NamesOf(N, S) == {N.items[i].name : i \in {j \in S : N.items[j].named}}
\* names the language (or the writer) reserves in a section: `object` is PDDL's predefined root type and
\* may be used without being declared (see RootReserved below for when a user type may have that name);
\* `total-cost` is the function the writer itself declares for costs
Builtin(N, s) == IF N.lang # "pddl" THEN {}
                 ELSE IF N.spaces[s].sec = "types" THEN {OBJECT}
                 ELSE IF N.spaces[s].sec = "fluents" THEN {TOTALCOST} ELSE {}

\* namespaces all of whose elements are always emitted (the PDDL writer omits actions whose preconditions
\* are trivially false, and simplification may remove a quantifier)
\* The reserved word of the PDDL type namespace.  `object` is the predefined root type: every type is a
\* sub-type of it and every object belongs to it.  A user type may therefore be WRITTEN as `object` (and then be
\* used without a declaration) only when it is the only user type of the problem -- typing is then flat and the
\* user type coincides with the root type.  As soon as the problem has a second user type (two unrelated types,
\* or a type hierarchy, which needs at least two types) the name `object` -- under PDDL's case rule, so also the
\* lowered form of `Object`, `OBJECT` ... -- is not available for a user type: it would make that type the
\* father of every other type, or be declared as `object ... - object`.
TypeItems(N) == {j \in DOMAIN N.items : N.items[j].kind = "type"}
RootReserved(N) == N.lang = "pddl" /\ Cardinality(TypeItems(N)) > 1
RootTaken(N, j) == RootReserved(N) /\ N.items[j].kind = "type" /\ Key(N.lang, N.items[j].name) = OBJECT
\* the same on the emitted text: with several user types, (:types ...) must not declare `object` itself, and a
\* user type whose name is `object` cannot be "used undeclared"
RootDeclared(N, s, n) == RootReserved(N) /\ N.spaces[s].sec = "types" /\ Key(N.lang, n) = OBJECT
Undeclared(N, s) == IF RootReserved(N) /\ N.spaces[s].sec = "types" THEN {} ELSE Builtin(N, s)

SecMust(sec) == sec \in {"types", "objects", "fluents", "signature", "global", "vars"}
MustItem(N, i) == \E k \in DOMAIN N.spaces : SecMust(N.spaces[k].sec) /\ i \in Rng(N.spaces[k].items)
Named(N) == {<<"Named", i, Det(N, i)>> : i \in {j \in DOMAIN N.items : N.done /\ MustItem(N, j) /\ ~N.items[j].named}}
Valid(N) == {<<"Valid", i, Det(N, i)>> : i \in {j \in DOMAIN N.items :
                N.items[j].named /\ ~ValidName(N.lang, IsVar(N.items[j]), N.items[j].name)}}
NotKeyword(K, N) == {<<"NotKeyword", i, Det(N, i)>> : i \in {j \in DOMAIN N.items :
                N.items[j].named /\ (Key(N.lang, N.items[j].name) \in K \/ RootTaken(N, j))}}
Distinct(N) == {<<"Distinct", j, Det(N, j)>> : j \in {b \in DOMAIN N.items :
                \E k \in DOMAIN N.spaces : \E a \in Rng(N.spaces[k].items) :
                   /\ b \in Rng(N.spaces[k].items) /\ a < b
                   /\ N.items[a].named /\ N.items[b].named
                   /\ Key(N.lang, N.items[a].name) = Key(N.lang, N.items[b].name)}}
\* name -> item after item -> name is the identity (only the PDDL writer has look-ups)
InverseLk(N) == {<<"Inverse", i, Det(N, i)>> : i \in {j \in DOMAIN N.items :
                N.lang = "pddl" /\ N.items[j].named /\ N.items[j].back # j}}
\* the declarations of the emitted text, harvested independently of the look-ups
TextValid(K, N) == {<<"TextValid", k, <<N.spaces[k].sec>> >> : k \in {s \in DOMAIN N.text :
                \E q \in DOMAIN N.text[s].names :
                   LET n == N.text[s].names[q]
                   IN \/ RootDeclared(N, s, n)
                      \/ n \notin Builtin(N, s) /\ (~ValidName(N.lang, SecVar(N.spaces[s].sec), n) \/ Key(N.lang, n) \in K)}}
DupKeys(N, s) == {Key(N.lang, N.text[s].names[q]) : q \in {r \in DOMAIN N.text[s].names :
                    \E t \in DOMAIN N.text[s].names : t < r /\ Key(N.lang, N.text[s].names[t]) = Key(N.lang, N.text[s].names[r])}}
TextDistinct(N) == {<<"TextDistinct", k,
                      <<N.spaces[k].sec, IF DupKeys(N, k) \subseteq KeySet(N.lang, Builtin(N, k)) THEN "reserved" ELSE "names">> >> :
                    k \in {s \in DOMAIN N.text : ~SecMulti(N.spaces[s].sec) /\ DupKeys(N, s) # {}}}
TextAgrees(N) == {<<"TextAgrees", k, <<N.spaces[k].sec>> >> : k \in {s \in DOMAIN N.text :
                /\ ~SecFree(N.spaces[s].sec)
                /\ LET H == Rng(N.text[s].names)
                       S == Rng(N.spaces[s].items)
                   IN ~ /\ (H \ Builtin(N, s)) \subseteq NamesOf(N, S)
                        /\ ((IF SecMust(N.spaces[s].sec) THEN NamesOf(N, S) ELSE {}) \ Undeclared(N, s)) \subseteq H}}
\* tback[r] = [s (section), n, ok, rn]
TextInverse(N) == {<<"TextInverse", q, <<N.spaces[N.tback[q].s].sec>> >> : q \in {r \in DOMAIN N.tback :
                /\ N.tback[r].n \notin Builtin(N, N.tback[r].s)
                /\ (~N.tback[r].ok \/ N.tback[r].rn # N.tback[r].n)}}
\* the names are a function of the problem: the same as on first use in a fresh process
HistoryIndependent(N) == {<<"HistoryIndependent", i, Det(N, i)>> : i \in {j \in DOMAIN N.items :
                N.hasfresh /\ N.items[j].named /\ N.items[j].name # N.items[j].fresh}}

\* only the assignment of the names within the namespaces differs from first use, not the names themselves
FreshNamesOf(N, S) == {N.items[i].fresh : i \in {j \in S : N.items[j].named}}
Permuted(N) == \A k \in DOMAIN N.spaces : NamesOf(N, Rng(N.spaces[k].items)) = FreshNamesOf(N, Rng(N.spaces[k].items))

Failures(K, N) ==
   IF N.lang = "none" THEN {}
   ELSE Named(N) \cup Valid(N) \cup NotKeyword(K, N) \cup Distinct(N) \cup InverseLk(N) \cup TextValid(K, N)
        \cup TextDistinct(N) \cup TextAgrees(N) \cup TextInverse(N) \cup HistoryIndependent(N)
ClausesOf(F) == {f[1] : f \in F}

(* --------------------------- declarative machine ----------------------- *)
VARIABLES kw, nm
dvars == <<kw, nm>>
DInit == kw = {} /\ nm = NoNaming
\* a writer is constructed for a problem with features `feats` (nothing emitted / observed)
Touch(lang, feats) == kw' = KeySet(lang, KwFor(lang, feats)) /\ nm' = NoNaming
\* a writer is constructed and emits the naming N
Write(lang, feats, N) == kw' = KeySet(lang, KwFor(lang, feats)) /\ nm' = N
Good == Failures(kw, nm) = {}
=============================================================================
