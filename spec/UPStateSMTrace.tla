---------------------------- MODULE UPStateSMTrace ----------------------------
(* Trace validation for C36.  Every recorded call history of real UPState    *)
(* objects is replayed through UPStateSM's own actions.  A record holds, per *)
(* call: the call (op, s, t, f, lim, u), its result r on the objects that    *)
(* live through the whole history (get: value index / 99 = raised            *)
(* UPStateMissingFluentError; eq: 0/1; hash: hash id; 97 = any other         *)
(* exception, class name in x), and obs: the full observation of the states  *)
(* w taken on a fresh replica of the history prefix (so that observing does  *)
(* not disturb the history): g = get_value of every fluent, h = hash id      *)
(* (0 = raised), e = s == s' for every observed s' (2 = raised), and sh =    *)
(* the private shape <<_ancestors, _father is None, _hash cached,            *)
(* MAX_ANCESTORS>> \o own _values, read before the queries.                  *)
(* Hash ids are an injective renaming of Python's hash values within a trace.*)
(*                                                                           *)
(* Verdict clauses (C36, judged against the finite-map layer `map`):         *)
(*   raises     a call raised something it should not                        *)
(*   get, obs-get     get_value # most recent update / default / raise       *)
(*   eq, obs-eq       ==  #  (same finite map)                               *)
(*   hash-equal       two states with the same finite map, anywhere in the   *)
(*                    trace, with different hashes (also: unstable hash)     *)
(*   obs-hash         hash() raised                                          *)
(*   design-get/eq    the Impl layer itself disagrees with the finite map    *)
(*                    (T1 beyond its bounds; not an observation of the code) *)
(*   obs-set, config  machinery: the observation does not cover w / the      *)
(*                    Problem's defaults are not the constant Def            *)
(* Not a verdict: `drift` remembers the first call after which the recorded  *)
(* private shape differs from the Impl layer (the model no longer mirrors    *)
(* the code's data structure; C36 does not constrain the data structure).    *)
EXTENDS UPStateSM, Json, IOUtils
Traces == ndJsonDeserialize(IOEnv.TRACES)
VARIABLES tid, l, bad, drift, hof
tvars == <<vars, tid, l, bad, drift, hof>>

RAISED == 97
\* the fluents of the driver's Problem: b (default false), n (default 1), m (no default),
\* q(o1), q(o2) (default true); the driver records the defaults it reads from the real Problem
Def3T == <<0, 1, ND>>
Def5T == <<0, 1, ND, 1, 1>>
Set(q) == {q[i] : i \in DOMAIN q}

\* P: the specification's state after the call, as a record
OpClause(o, P) ==
   IF o.r = RAISED THEN "raises"
   ELSE CASE o.op = "get"  -> IF o.r # map[o.s][o.f] THEN "get"
                              ELSE IF GetRec(ImplState, o.s, o.f).res # map[o.s][o.f] THEN "design-get" ELSE ""
          [] o.op = "eq"   -> IF o.r \notin {0, 1} \/ ((o.r = 1) # (map[o.s] = map[o.t])) THEN "eq"
                              ELSE IF EqRec(ImplState, o.s, o.t).res # (map[o.s] = map[o.t]) THEN "design-eq" ELSE ""
          [] o.op = "hash" -> IF o.r <= 0 THEN "raises" ELSE ""
          [] OTHER         -> IF o.r # 0 THEN "raises" ELSE ""

ObsClause(obs, i, P) ==
   LET b == obs[i] IN
   IF \E f \in F : b.g[f] # P.map[b.s][f] THEN "obs-get"
   ELSE IF b.h <= 0 THEN "obs-hash"
   ELSE IF \E j \in DOMAIN obs : b.e[j] \notin {0, 1} \/ ((b.e[j] = 1) # (P.map[b.s] = P.map[obs[j].s])) THEN "obs-eq"
   ELSE ""

\* <<finite map, hash id>> pairs produced by this call
HashPairs(o, P) ==
   {<<P.map[o.obs[i].s], o.obs[i].h>> : i \in {j \in DOMAIN o.obs : o.obs[j].h > 0}}
   \cup (IF o.op = "hash" /\ o.r > 0 /\ o.r # RAISED THEN {<<P.map[o.s], o.r>>} ELSE {})
HashClash(Q) == \E p \in Q, q \in Q : p[1] = q[1] /\ p[2] # q[2]

FirstBad(o, P) ==
   LET c == OpClause(o, P) IN
   IF c # "" THEN c
   ELSE IF Set(o.w) # {o.obs[i].s : i \in DOMAIN o.obs} \/ Len(o.w) # Len(o.obs)
           \/ ~(Set(o.w) \subseteq 1..P.n) \/ \E i \in DOMAIN o.obs : Len(o.obs[i].e) # Len(o.obs) THEN "obs-set"
   ELSE LET bs == {i \in DOMAIN o.obs : ObsClause(o.obs, i, P) # ""} IN
        IF bs # {} THEN ObsClause(o.obs, CHOOSE i \in bs : \A j \in bs : i <= j, P)
        ELSE IF HashClash(hof \cup HashPairs(o, P)) THEN "hash-equal"
        ELSE ""

\* does the recorded private shape of every observed state equal the Impl layer?
ShapeDiffers(o, P) ==
   \E i \in DOMAIN o.obs :
      LET b == o.obs[i] IN
      /\ b.sh # <<>> /\ b.s \in 1..P.n
      /\ \/ b.sh[1] # P.anc[b.s]
         \/ (b.sh[2] = 1) # (P.father[b.s] = 0)
         \/ (b.sh[3] = 1) # (P.hc[b.s] # NOHASH)
         \/ b.sh[4] # P.lim[b.s]
         \/ \E f \in F : b.sh[4 + f] # P.vals[b.s][f]

TraceInit == /\ tid \in DOMAIN Traces /\ l = 1 /\ drift = 0 /\ hof = {}
             /\ bad = IF Traces[tid].def = Def THEN <<>> ELSE <<"config", 0>>
             /\ n = 0 /\ father = <<>> /\ vals = <<>> /\ anc = <<>> /\ lim = <<>> /\ hc = <<>>
             /\ map = <<>>
             /\ base = Traces[tid].base
TraceNext ==
   /\ l <= Len(Traces[tid].ops)
   /\ LET o == Traces[tid].ops[l] IN
      /\ CASE o.op = "new"   -> New(o.u, o.lim)
           [] o.op = "child" -> MakeChild(o.s, o.u)
           [] o.op = "hash"  -> Hash(o.s)
           [] o.op = "repr"  -> Repr(o.s)
           [] o.op = "eq"    -> Eq(o.s, o.t)
           [] o.op = "get"   -> Get(o.s, o.f)
      /\ LET P == [n |-> n', father |-> father', vals |-> vals', anc |-> anc', lim |-> lim', hc |-> hc', map |-> map'] IN
         /\ bad' = IF bad # <<>> THEN bad
                   ELSE LET c == FirstBad(o, P) IN IF c = "" THEN <<>> ELSE <<c, l>>
         /\ drift' = IF drift # 0 THEN drift ELSE IF ShapeDiffers(o, P) THEN l ELSE 0
         /\ hof' = hof \cup HashPairs(o, P)
   /\ l' = l + 1 /\ tid' = tid
TraceSpec == TraceInit /\ [][TraceNext]_tvars

Done == l > Len(Traces[tid].ops)
\* total verdict: never fails for machinery reasons, prints the failing clause
Verdict == /\ (Done /\ bad # <<>>) => PrintT(<<"FAIL", Traces[tid].id, bad[1], bad[2]>>)
           /\ (Done /\ drift # 0) => PrintT(<<"DRIFT", Traces[tid].id, "shape", drift>>)
=============================================================================
