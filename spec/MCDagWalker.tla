---- MODULE MCDagWalker ----
(* model-checking configurations of DagWalker: expression DAGs, keyword-argument sets and *)
(* failure sets (cfg files cannot define operators or sets of tuples)                      *)
EXTENDS DagWalker, DagWalkerMenu

UpTo(NN, MM, k) == {S \in SUBSET (NN \X MM) : Cardinality(S) <= k}
MapsTwo == {"m1", "m2"}
MapsOne == {"m1"}

\* DAG A (4 nodes): 1, 2 leaves; 3 = op(1, 2); 4 = op(3, 1)
NodesA == 1..4
KidsA(n) == CASE n = 3 -> <<1, 2>> [] n = 4 -> <<3, 1>> [] OTHER -> <<>>
BadA0Two == UpTo(NodesA, MapsTwo, 0)
BadA1Two == UpTo(NodesA, MapsTwo, 1)
BadA2Two == UpTo(NodesA, MapsTwo, 2)
BadA1One == UpTo(NodesA, MapsOne, 1)
BadA2One == UpTo(NodesA, MapsOne, 2)

\* DAG B (6 nodes): 1, 2, 3 leaves; 4 = op(1, 2); 5 = op(2, 4) (shares 2); 6 = op(5, 3, 4) (shares 4)
NodesB == 1..6
KidsB(n) == CASE n = 4 -> <<1, 2>> [] n = 5 -> <<2, 4>> [] n = 6 -> <<5, 3, 4>> [] OTHER -> <<>>
BadB1Two == UpTo(NodesB, MapsTwo, 1)
BadB1One == UpTo(NodesB, MapsOne, 1)

\* Concrete configurations: sub-DAGs of the expression table of DagWalkerMenu, node and map
\* numbers are those of Tab / MapTab, the failing pair is the one observed on the real walk
\* functions.  A counterexample of these configurations is a history the driver replays
\* verbatim on the real walkers.
MenuKids(n) == Tab[n].kids
\*  Substituter: x (1), y (2), x / y (8), y + x / y (9); maps 1 (y := 7), 2 (y := 0);
\*  rebuilding x / y under y := 0 raises ZeroDivisionError in the type checker
NodesSub == {1, 2, 8, 9}
RootsSub == {2, 9}
MapsSub  == {1, 2}
BadSub   == {{<<8, 2>>}}
\*  Simplifier: y + 1 / (u * 0) and its sub-terms; no keyword arguments (map 0);
\*  folding 1 / 0 raises ZeroDivisionError
NodesSimp == {2, 3, 5, 6, 12, 13, 14}
RootsSimp == {2, 14}
MapsSimp  == {0}
BadSimp   == {{<<13, 0>>}}
====
