------------------------------ MODULE SeqSemObs ------------------------------
(***************************************************************************)
(* C01 / C02 judge.  TLC explores the SPECIFICATION's transition system    *)
(* (UPSeqSem!Step) of every problem of the batch from its initial state to *)
(* the recorded depth, and checks in every state it reaches that the       *)
(* observation graph recorded from the real UPSequentialSimulator contains *)
(* this state and that, for EVERY ground action instance, the recorded     *)
(* verdicts and successor agree with Step (outside the unspecified zones). *)
(* Because TLC walks the specification's own transitions, a simulator that *)
(* loses, invents or alters a transition is reported at the first state    *)
(* where it shows.                                                         *)
(*                                                                         *)
(* Verdicts are total: Agrees is always TRUE and prints                    *)
(*    <<"FAIL", pid, clause, obs index, action index>>                      *)
(* for every disagreement; <<"U", pid, n>> counts unspecified comparisons.  *)
(***************************************************************************)
EXTENDS UPSeqSem, Json, IOUtils

Batch == ndJsonDeserialize(IOEnv.BATCH)
\* which property is judged: "C01" (apply/goal vs Step) or "C02" (query consistency and purity)
Mode == IOEnv.MODE

VARIABLES pid, st, depth
vars == <<pid, st, depth>>

R(p) == [P |-> Batch[p].P, keys |-> Batch[p].keys]

Init == /\ pid \in DOMAIN Batch
        /\ st = InitSt(R(pid))
        /\ depth = 0

Next == /\ depth < Batch[pid].depth
        /\ Batch[pid].init.built
        /\ InitOK3(R(pid), InitSt(R(pid))) = "T"
        /\ \E ga \in GActs(Batch[pid].P) :
              LET r == Step(R(pid), ga, st) IN
              /\ r.ok /\ ~r.unspec
              /\ st' = r.s
        /\ depth' = depth + 1
        /\ UNCHANGED pid

Spec == Init /\ [][Next]_vars

\* ---------- look-ups in the observation graph ----------
ObsIdx(p, s) == {i \in DOMAIN Batch[p].obs : Batch[p].obs[i].s = s}
ActIdx(o, ga) == {j \in DOMAIN o.acts : o.acts[j].a = ga.a /\ o.acts[j].args = ga.args}
T3(b) == IF b THEN "T" ELSE "F"

\* ---------- C01 clauses for one (state, ground action) ----------
\* returns "" (agree), "U" (unspecified) or the name of the violated clause
ClauseC01(p, o, ga) ==
   LET r  == Step(R(p), ga, st)
       js == ActIdx(o, ga)
   IN IF js = {} THEN "missing-action"
      ELSE LET rec == o.acts[CHOOSE j \in js : TRUE] IN
           IF r.unspec THEN "U"
           ELSE IF rec.app # T3(r.ok)
                THEN (IF r.ok THEN "app-spec-applicable-impl-" \o rec.app
                      ELSE "app-spec-inapplicable-" \o r.why \o "-impl-" \o rec.app)
           ELSE IF r.ok /\ rec.succ # r.s THEN "succ"
           ELSE ""

\* ---------- C02 clauses: mutual consistency of the queries, purity ----------
ClauseC02(p, o, ga) ==
   LET js == ActIdx(o, ga) IN
   IF js = {} THEN "missing-action"
   ELSE LET j   == CHOOSE j \in js : TRUE
            rec == o.acts[j]
        IN IF rec.isapp # rec.app THEN "isapp-" \o rec.isapp \o "-apply-" \o rec.app
           ELSE IF rec.isapp2 # rec.isapp THEN "isapp-unstable"
           ELSE IF rec.app2 # rec.app \/ rec.succ2 # rec.succ THEN "apply-unstable"
           ELSE IF (j \in {o.yielded[k] : k \in DOMAIN o.yielded}) # (rec.app = "T") THEN "yielded-" \o rec.app
           ELSE IF rec.after # st THEN "state-mutated"
           ELSE ""

StateClauseC01(p, o) ==
   LET g == Goal3(R(p), st) IN
   IF g = "?" THEN "U" ELSE IF o.goal # g THEN "goal-spec-" \o g \o "-impl-" \o o.goal ELSE ""

StateClauseC02(p, o) ==
   \* unsat = -1: get_unsatisfied_goals raised the documented missing-fluent error, i.e. it did
   \* not return an empty list; -2: it raised something else
   IF o.goal = "X" \/ o.unsat = 0 - 2 THEN "state-query-raises"
   ELSE IF (o.goal = "T") # (o.unsat = 0) THEN "isgoal-vs-unsat"
   ELSE IF o.goal2 # o.goal THEN "isgoal-unstable"
   \* an enumeration left open across the other queries yields the same set as a fresh one
   ELSE IF {o.yielded2[k] : k \in DOMAIN o.yielded2} # {o.yielded[k] : k \in DOMAIN o.yielded}
        THEN "get_applicable_actions-interleaved-differs"
   ELSE IF o.after # st THEN "state-mutated-by-state-query"
   ELSE IF o.unsat < 0 THEN ""
   ELSE LET u3 == UnsatGoals3(R(p), st)
            nF == Cardinality({i \in DOMAIN u3 : u3[i] = "F"})
        IN IF \E i \in DOMAIN u3 : u3[i] = "?" THEN "U"
           ELSE IF o.unsat # nF THEN "unsat-count"
           ELSE ""

Report(p, c, i, j) == IF c = "" \/ c = "U" THEN TRUE ELSE PrintT(<<"FAIL", Batch[p].pid, c, i, j>>)

Agrees ==
   LET p  == pid
       i3 == InitOK3(R(p), InitSt(R(p)))
   IN IF depth = 0 /\ (i3 # "T" \/ ~Batch[p].init.built)
      THEN \* initial-state rejection: built iff the initial state satisfies bounds and invariants
           IF i3 = "?" THEN PrintT(<<"U", Batch[p].pid, 1>>)
           ELSE IF Mode = "C01" /\ Batch[p].init.built # (i3 = "T")
                THEN PrintT(<<"FAIL", Batch[p].pid, "init-spec-" \o i3 \o "-impl-" \o Batch[p].init.exc, 0, 0>>)
                ELSE TRUE
      ELSE LET is == ObsIdx(p, st) IN
           IF is = {} THEN PrintT(<<"FAIL", Batch[p].pid, "missing-state", depth, 0>>)
           ELSE LET i  == CHOOSE i \in is : TRUE
                    o  == Batch[p].obs[i]
                    GA == GActs(Batch[p].P)
                    cs == IF Mode = "C01"
                          THEN {<<ClauseC01(p, o, ga), ga>> : ga \in GA}
                          ELSE {<<LET c2 == ClauseC02(p, o, ga) IN
                                   IF c2 # "" THEN c2 ELSE ClauseC01(p, o, ga), ga>> : ga \in GA}
                    sc == IF Mode = "C01" THEN StateClauseC01(p, o) ELSE StateClauseC02(p, o)
                    nu == Cardinality({c \in cs : c[1] = "U"}) + (IF sc = "U" THEN 1 ELSE 0)
                IN /\ \A c \in cs : Report(p, c[1], i,
                            LET js == ActIdx(o, c[2]) IN IF js = {} THEN 0 ELSE CHOOSE j \in js : TRUE)
                   /\ Report(p, sc, i, 0)
                   /\ (nu = 0 \/ PrintT(<<"U", Batch[p].pid, nu>>))
                   /\ (Cardinality(GA) = Len(o.acts) \/ PrintT(<<"FAIL", Batch[p].pid, "ground-action-count", i, 0>>))

\* design-level sanity of the specification itself: reachable states are well-typed
TypeOK == (depth > 0) => TypeOKState(R(pid), st)
=============================================================================
