----------------------------- MODULE SubstEnum -----------------------------
(* G1 generator for C13 (run together with the T1 invariants of MCSubst):   *)
(* writes the world (IOEnv.DESC, one JSON record) and the groups of         *)
(* SubstCases (IOEnv.OUT, ndjson of [e, ms]: an expression and the maps it  *)
(* is paired with) and prints how many cases (of 1 in FS groups) carry each *)
(* feature (vacuity guard of the driver).                                   *)
EXTENDS MCSubst, Json, IOUtils
CONSTANT FS  \* the feature census looks at 1 in FS groups
\* features of the cases of 1 in FS groups (inner functions forced: TLC's function values are lazy)
Feats == TLCEval([i \in DOMAIN Groups |->
            IF i % FS = 0 THEN TLCEval([j \in DOMAIN Groups[i].ms |-> Feature([e |-> Groups[i].e, m |-> Groups[i].ms[j]])])
            ELSE <<>>])
Count(f) == SumRange([i \in DOMAIN Feats |-> Cardinality({j \in DOMAIN Feats[i] : Feats[i][j] = f})], 1, Len(Feats))
Verdicts == {"accept", "reject", "either"}
Kinds == {"identity-pair", "key-has-bound-var", "nested-keys", "key-in-value", "compound-key", "leaf-key", "no-occurrence"}
ASSUME ndJsonSerialize(IOEnv.DESC, <<W>>)
ASSUME ndJsonSerialize(IOEnv.OUT, Groups)
ASSUME PrintT(<<"EMITTED", NCases, NShallow, Len(Groups)>>)
ASSUME \A f \in Verdicts \X Kinds : PrintT(<<"FEATURE", f[1], f[2], Count(f)>>)
=============================================================================
