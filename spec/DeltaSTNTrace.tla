---------------------------- MODULE DeltaSTNTrace ----------------------------
(* Trace validation for C25: every recorded call history of the real        *)
(* DeltaSimpleTemporalNetwork is replayed through DeltaSTN's own actions;   *)
(* after every call the recorded observations (check_stn, get_stn_model,    *)
(* get_constraints, known events) of every live network must equal the Impl *)
(* layer state, and the Spec layer predicates (Floyd-Warshall consistency,  *)
(* least non-negative solution) must hold of the recorded values.           *)
(* Verdicts are total: a mismatch is remembered in `bad` (clause, step) and *)
(* printed when the trace has been consumed.                                *)
EXTENDS DeltaSTN, Json, IOUtils
Traces == ndJsonDeserialize(IOEnv.TRACES)
VARIABLES tid, l, bad
tvars == <<vars, tid, l, bad>>

ObsOf(r) == [x \in Ev |-> r.model[x]]
\* S = the specification's state after the call, as a record
\* name of the first violated clause for one observation record r of network r.n ("" if none)
Clause(r, S) ==
   LET n == r.n
       C == {<<r.cons[i][1], r.cons[i][2], r.cons[i][3]>> : i \in DOMAIN r.cons}
       K == {r.known[i] : i \in DOMAIN r.known}
       cl == Closure(S.all[n])
   IN IF n \notin S.live THEN "live"
      ELSE IF r.sat # S.sat[n] THEN "impl-sat"
      ELSE IF r.sat # ConsistentCl(cl) THEN "spec-consistent"
      ELSE IF K # S.known[n] THEN "impl-known"
      ELSE IF ~r.sat THEN ""
      ELSE IF \E x \in K : r.model[x] # 0 - S.dist[n][x] THEN "impl-model"
      ELSE IF ~Satisfies(ObsOf(r), S.all[n]) THEN "spec-model-satisfies"
      ELSE IF \E x \in K : r.model[x] < 0 \/ r.model[x] # LeastCl(cl, K, x) THEN "spec-model-least"
      ELSE IF C # AdjCons(S.adj[n]) THEN "impl-constraints"
      ELSE IF C # Tightest(S.all[n]) THEN "spec-constraints"
      ELSE ""
FirstBad(obs, S) ==
   LET bs == {i \in DOMAIN obs : Clause(obs[i], S) # ""} IN
   IF {obs[i].n : i \in DOMAIN obs} # S.live THEN "live-set"
   ELSE IF bs = {} THEN "" ELSE Clause(obs[CHOOSE i \in bs : \A j \in bs : i <= j], S)

TraceInit == /\ tid \in DOMAIN Traces /\ l = 1 /\ bad = <<>> /\ Init
TraceNext ==
   /\ l <= Len(Traces[tid].ops)
   /\ LET o == Traces[tid].ops[l] IN
      /\ CASE o.op = "add"   -> Add(o.n, o.x, o.y, o.b)
           [] o.op = "copy"  -> Copy(o.n, o.m)
           [] o.op = "touch" -> Touch(o.n, o.x, o.y)
      /\ bad' = IF bad # <<>> THEN bad
                ELSE LET c == FirstBad(o.obs, [live |-> live', adj |-> adj', dist |-> dist', known |-> known', sat |-> sat', all |-> all']) IN IF c = "" THEN <<>> ELSE <<c, l>>
   /\ l' = l + 1 /\ tid' = tid
TraceSpec == TraceInit /\ [][TraceNext]_tvars

Done == l > Len(Traces[tid].ops)
\* total verdict: never fails for machinery reasons, prints the failing clause
Verdict == (Done /\ (bad # <<>> \/ diverged)) =>
              PrintT(<<"FAIL", Traces[tid].id, IF bad # <<>> THEN bad[1] ELSE "diverged",
                       IF bad # <<>> THEN bad[2] ELSE 0>>)
=============================================================================
