----------------------------- MODULE SubstCases -----------------------------
(***************************************************************************)
(* The finite case space of C13 (G1): (expression, substitution map)       *)
(* pairs over the world of Subst.                                          *)
(*                                                                         *)
(* Expressions: every well-sorted expression of depth <= 2 over the leaf   *)
(* sets of the tier (typed grammar: not/and/or/implies/iff, p(.), = <= <   *)
(* on numeric and user terms, + - * /, exists/forall over a depth-1 body), *)
(* plus a fixed family of quantified expressions with depth-2 bodies, free *)
(* and bound occurrences of the same variable and nested binders.          *)
(*                                                                         *)
(* Maps are built from the expression they are applied to:                 *)
(*   M0      the empty map                                                 *)
(*   M1(e)   one pair: key any sub-term of e (leaf or compound) or a       *)
(*           foreign leaf; value any member of the value pool of the key's *)
(*           sort (leaves, compound terms, terms with the variable v), or  *)
(*           a value of a wrong sort (Boolean / numeric / user / unrelated *)
(*           user type)                                                    *)
(*   M2(e)   two pairs: a first pair p1 of M1(e) and a second key taken    *)
(*           from: the sub-terms of e (keys nested in keys, keys below a   *)
(*           binder), the sub-terms of p1's value (a key inside an         *)
(*           inserted value), the sub-terms of e after p1 has been applied *)
(*           (a key that only exists once the children have been           *)
(*           rewritten), foreign leaves; second value from a small pool    *)
(*           including p1's key (swap) or a wrong sort                     *)
(*   M3      a fixed list of three-pair maps (cycles, chains, pinned keys). *)
(*   Wrap1(e) (part of M1) a compound key mapped to a term that contains it *)
(*           (k -> k and b, k -> k + 1)                                     *)
(*   Id1(e)  one identity pair k -> k, k any sub-term of e (depth <= 1 and  *)
(*           the fixed family only: the result is e)                        *)
(*   Pin(e)  two pairs one of which is an identity pair k -> k, k any       *)
(*           sub-term of e; the other key is any other sub-term of e (a     *)
(*           key INSIDE the pinned one, a key that contains it, a disjoint  *)
(*           one); its value from the small pool, itself (two identity      *)
(*           pairs), the pinned key, or a wrong sort.  Under the top-down   *)
(*           reading k -> k is not a no-op: every occurrence of k is a      *)
(*           maximal match that comes out as it is, so keys inside it are   *)
(*           not replaced there.  The identity pair comes first or second   *)
(*           (alternating with the group).  Deep expressions: 1 in SP.      *)
(* Every expression of depth <= 1 gets all its maps (SS = 1; otherwise M2   *)
(* for 1 in SS first pairs).  Deeper expressions                           *)
(* are thinned deterministically: 1 in SD expressions is used; of its maps *)
(* M1 1 in S1, M2 only for 1 in SE                                         *)
(* expressions and there for 1 in S2 first pairs (the fixed quantifier     *)
(* family DQ: all of M1, M2 for 1 in SQ first pairs), positions rotated by *)
(* Off (the driver derives Off from the run's seed).                       *)
(***************************************************************************)
EXTENDS Subst, FiniteSets, SequencesExt
CONSTANTS Thorough,   \* BOOLEAN: wider leaf sets and operator sets
          SS, SD, S1, SE, S2, SQ, \* thinning strides (1 = keep everything)
          SP,         \* stride of the pinned-key maps Pin(e) of the deep expressions
          Off         \* rotation of the thinning

\* ---- leaves ---------------------------------------------------------------------------
A == Fl0("a")   B == Fl0("b")   C == Fl0("c")
X == Fl0("x")   Y == Fl0("y")   Rr == Fl0("r")
LOC == Fl0("loc")   LOC2 == Fl0("loc2")
V == Var("v")   Wv == Var("w")   O1 == Obj("o1")   O2 == Obj("o2")
Kp == Par("k")  Up == Par("u")
TrueC == Cst(BV(TRUE))
One == Cst(NV(1, 1))   Two == Cst(NV(2, 1))   Half == Cst(NV(1, 2))
P(t) == Fl1("p", t)
Not(t) == Un("not", t)

B0 == {A, B} \cup (IF Thorough THEN {TrueC} ELSE {})
N0 == {X, One} \cup (IF Thorough THEN {Half} ELSE {})
U0 == {V, LOC} \cup (IF Thorough THEN {O1} ELSE {})
BOps1 == {"and", "or", "implies", "iff"}
BOps2 == IF Thorough THEN BOps1 ELSE {"and", "iff"}
Rels == {"eq", "le", "lt"}
AOps == {"plus", "minus", "times", "div"}
Qs == {"exists", "forall"}
QVars == {"v"} \cup (IF Thorough THEN {"w"} ELSE {})

\* ---- depth 1 --------------------------------------------------------------------------
B1 == {Not(t) : t \in B0} \cup {Bin(o, s, t) : o \in BOps1, s \in B0, t \in B0}
      \cup {P(t) : t \in U0} \cup {Bin(o, s, t) : o \in Rels, s \in N0, t \in N0}
      \cup {Bin("eq", s, t) : s \in U0, t \in U0}
N1 == {Bin(o, s, t) : o \in AOps, s \in N0, t \in N0}
BL1 == B0 \cup B1
NL1 == N0 \cup N1
E01 == B0 \cup N0 \cup U0 \cup B1 \cup N1

\* ---- depth 2 --------------------------------------------------------------------------
\* (normal forms by construction; a division by a closed zero term cannot be built)
D2 == {Not(t) : t \in {t \in B1 : t.op # "not"}}
      \cup {Bin(o, s, t) : o \in BOps2, s \in BL1, t \in BL1}
      \cup {e \in {Bin(o, s, t) : o \in Rels \cup AOps, s \in NL1, t \in NL1} : ~ZeroDen(e)}
      \cup {Qu(q, n, t) : q \in Qs, n \in QVars, t \in B1}
\* fixed family (always used): quantified expressions with deeper bodies, free + bound occurrences,
\* nested binders; expressions over the remaining leaf kinds
QBodies == {Bin("and", P(V), A), Bin("and", A, P(V)), Bin("or", Not(P(V)), B), Bin("and", P(V), P(LOC)),
            Bin("implies", Bin("eq", V, LOC), P(V)), Bin("iff", P(V), Not(A)),
            Bin("and", P(V), Qu("exists", "w", Bin("eq", V, Wv))),
            Bin("or", P(V), Qu("forall", "v", P(V))),
            Bin("and", A, Qu("exists", "w", P(Wv)))}
DQ == {Qu(q, "v", t) : q \in Qs, t \in QBodies}
      \cup {Bin("and", P(V), Qu("exists", "v", P(V))), Bin("and", Qu("forall", "v", Bin("and", A, P(V))), A),
            Bin("implies", Qu("exists", "v", Not(P(V))), Bin("eq", V, LOC)),
            Not(Qu("exists", "v", Bin("and", P(V), Not(A)))),
            Qu("forall", "v", Qu("exists", "w", Bin("and", P(V), P(Wv)))),
            \* the leaf kinds that are not among the quick tier's leaves (every walk_* of the identity walker)
            Bin("and", TrueC, Not(A)), Bin("le", Half, Bin("plus", X, Rr)), Bin("eq", O1, LOC), Bin("or", P(O1), P(O2)),
            Bin("lt", Kp, Bin("times", X, Kp)), Bin("eq", Up, LOC), Bin("implies", P(Up), Bin("eq", Wv, LOC2)),
            \* n-ary operators and a quantifier binding two variables
            Node("and", <<A, B, Not(A)>>, "", UNDEF, <<>>), Node("plus", <<X, One, X>>, "", UNDEF, <<>>),
            Node("or", <<P(V), A, Qu("exists", "v", P(V))>>, "", UNDEF, <<>>), Node("times", <<X, Kp, One>>, "", UNDEF, <<>>),
            Node("forall", <<Bin("eq", V, Wv)>>, "", UNDEF, <<VDecl("v"), VDecl("w")>>),
            Node("exists", <<Bin("and", P(V), Bin("eq", Wv, LOC))>>, "", UNDEF, <<VDecl("w"), VDecl("v")>>)}
Shallow == E01
DQSeq == SetToSeq(DQ)
DeepAll == SetToSeq((D2 \ E01) \ DQ)
\* the expressions of this run: depth <= 1, the fixed family, 1 in SD of the other deep ones
DeepSeq == LET r == Off % SD IN [j \in 1..((Len(DeepAll) + r) \div SD) |-> DeepAll[SD * j - r]]
NShallow == Cardinality(Shallow)
NFixed == NShallow + Len(DQSeq)
ExprSeq == SetToSeq(Shallow) \o DQSeq \o DeepSeq

\* ---- value pools (constants: TLC evaluates them once) ------------------------------------
ValsB  == {A, B, Not(A), P(V), Bin("and", A, B)} \cup (IF Thorough THEN {TrueC, C, Not(P(LOC))} ELSE {})
ValsI  == {One, X, Bin("plus", X, One)} \cup (IF Thorough THEN {Half, Y, Kp, Two} ELSE {})
ValsR  == {Half, X, Rr}
ValsT  == {LOC, V, O1} \cup (IF Thorough THEN {O2, Wv, Up} ELSE {})
ValsT2 == {O2} \cup (IF Thorough THEN {Wv, LOC2} ELSE {})
Vals(s) == CASE s = "bool" -> ValsB [] s = "int" -> ValsI [] s = "real" -> ValsR [] s = "T" -> ValsT [] s = "T2" -> ValsT2
\* values of a wrong sort
BadB  == {One} \cup (IF Thorough THEN {LOC} ELSE {})
BadN  == {A} \cup (IF Thorough THEN {LOC} ELSE {})
BadT  == {A} \cup (IF Thorough THEN {One} ELSE {})
BadT2 == {LOC} \cup (IF Thorough THEN {A, One} ELSE {})
Bad(s) == CASE s = "bool" -> BadB [] s \in {"int", "real"} -> BadN [] s = "T" -> BadT [] s = "T2" -> BadT2
\* small pools for the second pair
V2B == {B, Not(A)}   V2I == {One, X}   V2R == {Half}   V2T == {LOC, O1}   V2T2 == {O2}
Vals2(s) == CASE s = "bool" -> V2B [] s = "int" -> V2I [] s = "real" -> V2R [] s = "T" -> V2T [] s = "T2" -> V2T2
Foreign == {C, Y} \cup (IF Thorough THEN {LOC2, Kp} ELSE {})

Pair(k, val) == [k |-> k, v |-> val]
Good1(e) == UNION {{Pair(k, val) : val \in Vals(Sort(k)) \ {k}} : k \in Subterms(e)}
BadFor   == UNION {{Pair(k, val) : val \in Bad(Sort(k))} : k \in Foreign}
Bad1(e)  == UNION {{Pair(k, val) : val \in Bad(Sort(k))} : k \in Subterms(e)} \cup BadFor
For1     == UNION {{Pair(k, val) : val \in Vals2(Sort(k))} : k \in Foreign}
\* a compound key mapped to a term that contains it (leaf keys: a -> a and b, x -> x + 1 are in the pools;
\* no compound user terms exist), and a key mapped to itself
Wrap(k)  == IF Sort(k) = "bool" THEN Bin("and", k, B) ELSE Bin("plus", k, One)
Wrap1(e) == {Pair(k, Wrap(k)) : k \in {t \in Subterms(e) : t.args # <<>> /\ ~IsUser(Sort(t))}}
Id1(e)   == {<<Pair(k, k)>> : k \in Subterms(e)}
M1(e) == {<<p>> : p \in Good1(e) \cup Bad1(e) \cup For1 \cup Wrap1(e)}
\* second keys for a first pair p1 (sub = Subterms(e)); a key that only exists after p1 has been
\* applied may be a division by a closed zero term, which cannot be built
Keys2(sub, p1) == (sub \cup Subterms(p1.v) \cup {k \in {Subst(t, <<p1>>) : t \in sub} : ~ZeroDen(k)} \cup Foreign) \ {p1.k}
Second(sub, p1) ==
   UNION {LET s == Sort(k) IN
          {Pair(k, val) : val \in (Vals2(s) \cup (IF PairVerdict(k, p1.k) # "no" THEN {p1.k} ELSE {})
                                    \cup (IF k \in sub THEN Bad(s) ELSE {})) \ {k}}
          : k \in Keys2(sub, p1)}
\* two-pair maps whose first pair is taken from G (good pairs) or from D (ill-sorted pairs)
M2of(e, G, D) == LET sub == Subterms(e) IN
   UNION {{<<p1, p2>> : p2 \in Second(sub, p1)} : p1 \in G}
   \cup UNION {{<<p1, p2>> : p2 \in {p \in For1 : p.k # p1.k}} : p1 \in D}
M2(e) == M2of(e, Good1(e), Bad1(e))
\* maps with an identity pair k -> k (k pinned) and a second pair on another sub-term of e
PinSecond(sub, k) ==
   UNION {LET s == Sort(k2) IN
          {Pair(k2, val) : val \in Vals2(s) \cup {k2} \cup (IF PairVerdict(k2, k) # "no" THEN {k} ELSE {}) \cup Bad(s)}
          : k2 \in sub \ {k}}
Pin(e, flip) == LET sub == Subterms(e) IN
   UNION {{IF flip THEN <<p2, Pair(k, k)>> ELSE <<Pair(k, k), p2>> : p2 \in PinSecond(sub, k)} : k \in sub}
M3 == {<<Pair(P(V), P(V)), Pair(V, LOC), Pair(A, B)>>,
       <<Pair(X, One), Pair(Bin("plus", X, One), Bin("plus", X, One)), Pair(One, X)>>,
       <<Pair(A, A), Pair(Bin("and", A, B), Bin("and", A, B)), Pair(B, Not(B))>>,
       <<Pair(A, B), Pair(B, C), Pair(C, A)>>,
       <<Pair(A, B), Pair(Bin("and", B, B), C), Pair(Not(B), A)>>,
       <<Pair(V, LOC), Pair(P(LOC), A), Pair(P(V), B)>>,
       <<Pair(X, One), Pair(Bin("plus", One, One), X), Pair(One, Y)>>,
       <<Pair(A, Not(A)), Pair(Not(A), A), Pair(B, Bin("and", A, B))>>,
       <<Pair(LOC, O1), Pair(P(O1), B), Pair(B, One)>>}
Hits(e, m) == \E i \in DOMAIN m : m[i].k \in Subterms(e)

\* deterministic thinning of a set: the members at positions = r (mod n) of its canonical order
Thin(S, n, r) == IF n = 1 THEN S ELSE LET q == SetToSeq(S) IN {q[i] : i \in {j \in DOMAIN q : j % n = r % n}}

\* one group per expression: the expression and the maps it is paired with
MapsOf(i) ==
   LET e == ExprSeq[i]
       m3 == {m \in M3 : Hits(e, m)}
       pin == Pin(e, (i + Off) % 2 = 0)
   IN IF i <= NShallow THEN {<<>>} \cup M1(e) \cup M2of(e, Thin(Good1(e), SS, i + Off), Thin(Bad1(e), SS, i + Off)) \cup m3
                            \cup Id1(e) \cup Thin(pin, SS, i + Off)
      ELSE IF i <= NFixed THEN {<<>>} \cup M1(e) \cup M2of(e, Thin(Good1(e), SQ, i + Off), Thin(Bad1(e), SQ, i + Off)) \cup m3
                               \cup Id1(e) \cup Thin(pin, SQ, i + Off)
      ELSE Thin(M1(e), S1, i + Off) \cup Thin(pin, SP, i + Off)
           \cup (IF (i + Off) % SE = 0
                 THEN M2of(e, Thin(Good1(e), S2, i + Off), Thin(Bad1(e), S2, i + Off)) \cup m3 ELSE {})
Groups == TLCEval([i \in DOMAIN ExprSeq |-> [e |-> ExprSeq[i], ms |-> SetToSeq(MapsOf(i))]])
\* sum of f[lo..hi] (balanced recursion: TLC's stack is shallow)
RECURSIVE SumRange(_, _, _)
SumRange(f, lo, hi) == IF lo > hi THEN 0 ELSE IF lo = hi THEN f[lo]
                       ELSE LET mid == (lo + hi) \div 2 IN SumRange(f, lo, mid) + SumRange(f, mid + 1, hi)
NCases == SumRange([i \in DOMAIN Groups |-> Len(Groups[i].ms)], 1, Len(Groups))
=============================================================================
