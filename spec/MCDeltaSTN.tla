---- MODULE MCDeltaSTN ----
(* exhaustive configuration of DeltaSTN (cfg files cannot express negative literals) *)
EXTENDS DeltaSTN
BndMC == (0-2)..2
====
