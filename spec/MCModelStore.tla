---------------------------- MODULE MCModelStore ----------------------------
(***************************************************************************)
(* T1 for C23: the call layer of ModelStore keeps the declarative          *)
(* invariant.                                                              *)
(*  HSpec   every history of ModelStoreMenu!HistSet (the full cross      *)
(*          product call x target type x value that is also replayed on    *)
(*          the library) is run through the call layer, both branches      *)
(*          where the verdict is unspecified.                              *)
(*  MCSpec  free interleavings: every history of at most MaxOps calls      *)
(*          drawn from a menu (targets x MCVals x storing calls).          *)
(* Checked in every reachable model:                                       *)
(*   Stored            StoreOK (value level)                               *)
(*   RejectJustified   a call the guard rejects would break StoreOK        *)
(*   AcceptSafe        a call the guard accepts keeps StoreOK              *)
(*   RejectUnchanged   a rejected call leaves the model unchanged          *)
(***************************************************************************)
EXTENDS ModelStoreMenu
CONSTANTS MaxOps, MCValNames
VARIABLES n, h
mcvars == <<vars, n, h>>

Justified(s) == (Enabled(m, s) /\ Verdict(m, s) = "no")  => ~StoreOK(Apply(m, s))
Safe(s)      == (Enabled(m, s) /\ Verdict(m, s) = "yes") => StoreOK(Apply(m, s))

\* ---------- the histories of the case space ----------
HInit == Init /\ n = 0 /\ h \in HistSet
HNext == /\ n < Len(h.steps) /\ n' = n + 1 /\ h' = h
         /\ LET s == h.steps[n + 1] IN Accepts(s) \/ Rejects(s)
HSpec == HInit /\ [][HNext]_mcvars
HRejectJustified == n < Len(h.steps) => Justified(h.steps[n + 1])
HAcceptSafe      == n < Len(h.steps) => Safe(h.steps[n + 1])
\* every call of a history is enabled as long as the problem exists (vacuity guard)
HEnabled == (n < Len(h.steps) /\ (n = 0 \/ m.has \/ h.steps[1].op # "new_problem")) => Enabled(m, h.steps[n + 1])

\* ---------- free interleavings over a menu ----------
Label(e) == IF e.op = "const" THEN (IF e.v.k = "b" THEN "true" ELSE ToString(e.v.n) \o "/" \o ToString(e.v.d)) ELSE e.name
MCVals == TLCEval({e \in Vals : Label(e) \in MCValNames})
Menu == TLCEval(
   {NewProblem(TNone, ENone)} \cup {NewProblem(TypeByName(t), e) : t \in Targets, e \in MCVals}
   \cup {AddFluent(F(t), e) : t \in Targets, e \in MCVals \cup {ENone}}
   \cup {SetInit(F(t), e) : t \in Targets, e \in MCVals}
   \cup {AddEffect(c, k, F(t), e) : c \in Conts, k \in Kinds, t \in Targets, e \in MCVals}
   \cup {Instance(TypeByName(t), e) : t \in Targets, e \in MCVals})
NoHist == H("", "", 0, <<>>)
MCInit == Init /\ n = 0 /\ h = NoHist
MCNext == /\ n < MaxOps /\ n' = n + 1 /\ h' = h
          /\ \E s \in Menu : Accepts(s) \/ Rejects(s)
MCSpec == MCInit /\ [][MCNext]_mcvars
RejectJustified == n < MaxOps => \A s \in Menu : Justified(s)
AcceptSafe      == n < MaxOps => \A s \in Menu : Safe(s)
=============================================================================
