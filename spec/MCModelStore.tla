---------------------------- MODULE MCModelStore ----------------------------
(***************************************************************************)
(* T1 for C23: the call layer of ModelStore keeps the declarative          *)
(* invariant.  TLC explores every history of at most MaxOps calls drawn    *)
(* from the menu (targets x MCVals x storing calls) and checks             *)
(*   Stored            StoreOK in every reachable model (value level)      *)
(*   RejectJustified   a call the guard rejects would break StoreOK        *)
(*   AcceptSafe        a call the guard accepts keeps StoreOK              *)
(*   RejectUnchanged   a rejected call leaves the model unchanged          *)
(***************************************************************************)
EXTENDS ModelStoreMenu
CONSTANTS MaxOps, MCValNames
VARIABLE n
MCVals == {e \in Vals : (IF e.op = "const" THEN (IF e.v.k = "b" THEN "true" ELSE ToString(e.v.n) \o "/" \o ToString(e.v.d)) ELSE e.name) \in MCValNames}
Menu ==
   {NewProblem(TNone, ENone)} \cup {NewProblem(TypeByName(t), e) : t \in Targets, e \in MCVals}
   \cup {AddFluent(F(t), e) : t \in Targets, e \in MCVals \cup {ENone}}
   \cup {SetInit(F(t), e) : t \in Targets, e \in MCVals}
   \cup {AddEffect(c, k, F(t), e) : c \in Conts, k \in Kinds, t \in Targets, e \in MCVals}
   \cup {Instance(TypeByName(t), e) : t \in Targets, e \in MCVals}
MCInit == Init /\ n = 0
MCNext == /\ n < MaxOps /\ n' = n + 1
          /\ \E s \in Menu : Accepts(s) \/ Rejects(s)
MCSpec == MCInit /\ [][MCNext]_<<vars, n>>
RejectJustified == \A s \in Menu : (Enabled(m, s) /\ Verdict(m, s) = "no") => ~StoreOK(Apply(m, s))
AcceptSafe      == \A s \in Menu : (Enabled(m, s) /\ Verdict(m, s) = "yes") => StoreOK(Apply(m, s))
\* the menu reaches every verdict of every call (vacuity guard, reported by PrintT)
VerdictsReached == {<<s.op, Verdict(Apply(Empty, NewProblem(TNone, ENone)), s)>> : s \in {x \in Menu : x.op # "new_problem"}}
ASSUME \A x \in VerdictsReached : PrintT(<<"VR", x[1], x[2]>>)
=============================================================================
