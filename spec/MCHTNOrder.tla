---------------------------- MODULE MCHTNOrder ----------------------------
(* exhaustive configurations of HTNOrder (cfg files cannot express sets of records) *)
EXTENDS HTNOrder
AllPrecs == {Prec(a, b) : a \in Task, b \in Task}
\* one-feature deviations from a genuine precedence between subtasks 1 and 2 (N >= 2)
Deviations ==
   { Cn("le", Tm("end", 1, 0), Tm("start", 2, 0)),
     Cn("eq", Tm("end", 1, 0), Tm("start", 2, 0)),
     Cn("nlt", Tm("start", 2, 0), Tm("end", 1, 0)),
     Cn("lt", Tm("start", 1, 0), Tm("start", 2, 0)),
     Cn("lt", Tm("end", 1, 0), Tm("end", 2, 0)),
     Cn("lt", Tm("end", 1, 2), Tm("start", 2, 0)),
     Cn("lt", Tm("end", 1, 0), Tm("start", 2, 1)),
     Cn("lt", Tm("end", 0, 0), Tm("start", 2, 0)),
     Cn("lt", Tm("end", 1, 0), Tm("start", 0, 0)),
     Cn("lt", Tm("gstart", 0, 0), Tm("start", 2, 0)),
     Cn("lt", Tm("end", 1, 0), Tm("const", 0, 10)) }
\* configuration A: constraint lists in every insertion order (order-sensitive scan with break)
UniverseA == AllPrecs \cup Deviations \cup {NonTemporal}
\* configuration B: every precedence relation incl. self-loops, one deviation, as sets (VIEW)
UniverseB == AllPrecs \cup {Cn("le", Tm("end", 1, 0), Tm("start", 2, 0)), NonTemporal}
\* configuration C: every irreflexive precedence relation and one deviation, as sets (VIEW)
UniverseC == {Prec(q[1], q[2]) : q \in {q \in Task \X Task : q[1] # q[2]}} \cup {Cn("le", Tm("end", 1, 0), Tm("start", 2, 0))}
SetView == <<Range(subs), Range(cons)>>
=============================================================================
