------------------------------- MODULE Deorder -------------------------------
(***************************************************************************)
(* C27 -- deordering a valid sequential plan keeps every linearisation     *)
(* valid.                                                                  *)
(*                                                                         *)
(* A record of the batch is one observation of the real code:              *)
(*    pid    index of the problem (UPJ) in PROBS                           *)
(*    goals  the goals of the problem handed to the real code (the         *)
(*           generated ones, or a transcription of the final state TLC     *)
(*           computed in phase 1)                                          *)
(*    plan   sequence of pairwise distinct ground action instances         *)
(*    exc    "" or the class of the exception raised by                    *)
(*           SequentialPlan(plan).convert_to(PARTIAL_ORDER_PLAN, problem)  *)
(*    nodes  plan indices of the nodes of the returned graph (0 = a node   *)
(*           that is no instance of the plan), sorted                      *)
(*    edges  adjacency of the returned partial-order plan, projected on    *)
(*           plan indices: <<i, j>> = instance i is ordered before j       *)
(*    lins   PartialOrderPlan.all_sequential_plans(), as index sequences   *)
(*    back   convert_to(SEQUENTIAL_PLAN) of the partial-order plan         *)
(*                                                                         *)
(* The oracle has three parts, all evaluated by TLC.                       *)
(*  (1) DOWN-SET LATTICE.  For a record whose plan is VALID according to   *)
(*      UPSeqSem!SeqVerdict, TLC explores the lattice of down-sets of the  *)
(*      recorded order: a state is (set of executed plan indices, current  *)
(*      problem state); an index is enabled when all its recorded          *)
(*      predecessors are executed.  Every behaviour from {} to 1..n is a   *)
(*      linearisation and every linearisation is such a behaviour, so      *)
(*         EnabledApplicable  every enabled index is Step-applicable       *)
(*         SameFinalState     at done = 1..n the state is the final state  *)
(*                            of the original plan (hence the goal holds)  *)
(*      checked in every reachable state cover ALL linearisations with at  *)
(*      most 2^n * (states per down-set) states instead of n! runs.        *)
(*  (2) FOOTPRINTS.  Reads/Writes are the ground read and write sets of a  *)
(*      ground action after expansion of quantifiers and forall effects,   *)
(*      defined syntactically on the UPJ action.  Two positions i < j with *)
(*      W(i) \cap (R(j) \cup W(j)) # {} or W(j) \cap (R(i) \cup W(i)) # {} *)
(*      must stay ordered: <<i, j>> in the transitive closure of edges.    *)
(*  (3) LINEARISATIONS.  The recorded all_sequential_plans() is exactly    *)
(*      the set of linear extensions of the recorded order (and their      *)
(*      number equals the number of maximal chains of the down-set         *)
(*      lattice, counted by a separate recursion); convert_to(SEQUENTIAL)  *)
(*      returns one of them.                                               *)
(* Verdicts are total: the invariant is always TRUE and prints             *)
(*    <<"REC", id, class, nlin, ndown>>   once per record                  *)
(*    <<"FAIL", id, clause, detail>>      for every violated clause        *)
(*    <<"U", id, i>>                      an enabled step in an            *)
(*                                        unspecified zone (not judged)    *)
(*    <<"SOLE", id, channel>>             evidence only: the record has a  *)
(*                                        dependent pair that is dependent *)
(*                                        through this channel alone       *)
(***************************************************************************)
EXTENDS UPSeqSem, Json, IOUtils

Probs == ndJsonDeserialize(IOEnv.PROBS)
Batch == ndJsonDeserialize(IOEnv.BATCH)

\* the problem of a record: the corpus problem with the goals the record was run with
RR(rec) == [P |-> [Probs[rec.pid].P EXCEPT !.goals = rec.goals], keys |-> Probs[rec.pid].keys]

\* ------------------------------------------------------------------------
\* finite orders on 1..n given as a set of pairs
\* ------------------------------------------------------------------------
EdgeSet(rec) == {<<rec.edges[k][1], rec.edges[k][2]>> : k \in DOMAIN rec.edges}
RECURSIVE Warshall(_,_,_)
Warshall(M, k, n) ==
   IF k > n THEN M
   ELSE Warshall(M \cup {<<a, b>> \in (1..n) \X (1..n) : <<a, k>> \in M /\ <<k, b>> \in M}, k + 1, n)
TC(E, n) == Warshall(E, 1, n)
Acyclic(E, n) == \A i \in 1..n : <<i, i>> \notin TC(E, n)
Preds(E, i) == {e[1] : e \in {x \in E : x[2] = i}}
EnabledIn(E, n, D) == {i \in (1..n) \ D : Preds(E, i) \subseteq D}
IsDownSet(E, D) == \A e \in E : e[2] \in D => e[1] \in D
DownSets(E, n) == {D \in SUBSET (1..n) : IsDownSet(E, D)}
\* number of linear extensions = number of maximal chains {} -> 1..n of the down-set lattice
RECURSIVE SumOver(_,_,_,_)
RECURSIVE Chains(_,_,_)
Chains(E, n, D) == IF D = 1..n THEN 1 ELSE SumOver(E, n, D, EnabledIn(E, n, D))
SumOver(E, n, D, S) == IF S = {} THEN 0
                       ELSE LET i == CHOOSE x \in S : TRUE IN
                            Chains(E, n, D \cup {i}) + SumOver(E, n, D, S \ {i})
\* the linear extensions themselves
RECURSIVE Perms(_)
Perms(S) == IF S = {} THEN {<<>>} ELSE UNION {{<<x>> \o p : p \in Perms(S \ {x})} : x \in S}
Pos(p, x) == CHOOSE k \in DOMAIN p : p[k] = x
LinExt(E, n) == {p \in Perms(1..n) : \A e \in E : Pos(p, e[1]) < Pos(p, e[2])}

\* ------------------------------------------------------------------------
\* ground read / write sets (indices into R.keys)
\* ------------------------------------------------------------------------
IsStaticArg(e) == e.op \in {"obj", "param", "var", "const"}
ArgVal(e, env) == IF e.op = "obj" THEN OV(e.name)
                  ELSE IF e.op \in {"param", "var"} THEN env[e.name] ELSE e.v
GKey(Rx, name, args, env) == KeyIdx(Rx, name, [i \in DOMAIN args |-> ArgKey(ArgVal(args[i], env))])
\* a fluent applied to an argument that itself reads the state: the deordering documents
\* (by its error message) that it rejects such plans
RECURSIVE NestedE(_)
NestedE(e) == \/ (e.op = "fluent" /\ \E i \in DOMAIN e.args : ~IsStaticArg(e.args[i]))
              \/ \E i \in DOMAIN e.args : NestedE(e.args[i])
NestedAct(a) == \/ \E i \in DOMAIN a.pre : NestedE(a.pre[i])
                \/ \E i \in DOMAIN a.effects :
                      \/ NestedE(a.effects[i].c) \/ NestedE(a.effects[i].v)
                      \/ \E j \in DOMAIN a.effects[i].f.args :
                            ~IsStaticArg(a.effects[i].f.args[j])
\* ground fluents occurring in e (quantifiers expanded over all objects of the variable types)
RECURSIVE GF(_,_,_)
GF(Rx, e, env) ==
   IF e.op \in {"exists", "forall"}
   THEN UNION {GF(Rx, e.args[1], en) : en \in Envs(Rx.P, e.vars, env)}
   ELSE (IF e.op = "fluent" THEN {GKey(Rx, e.name, e.args, env)} ELSE {})
        \cup UNION {GF(Rx, e.args[i], env) : i \in DOMAIN e.args}
\* the expanded effects of a ground action: <<effect, environment>>
XEffects(Rx, a, env) == UNION {{<<a.effects[i], en>> : en \in Envs(Rx.P, a.effects[i].forall, env)} :
                                 i \in DOMAIN a.effects}
Writes(Rx, ga) ==
   LET a == Act(Rx.P, ga.a) IN
   {GKey(Rx, x[1].f.name, x[1].f.args, x[2]) : x \in XEffects(Rx, a, ParEnv(a, ga))}
Reads(Rx, ga) ==
   LET a == Act(Rx.P, ga.a)
       env == ParEnv(a, ga)
   IN UNION {GF(Rx, a.pre[i], env) : i \in DOMAIN a.pre}
      \cup UNION {GF(Rx, x[1].c, x[2]) \cup GF(Rx, x[1].v, x[2])
                  \cup (IF x[1].kind = "assign" THEN {} ELSE {GKey(Rx, x[1].f.name, x[1].f.args, x[2])}) :
                  x \in XEffects(Rx, a, env)}
Dependent(Rx, ga, gb) ==
   LET wa == Writes(Rx, ga) wb == Writes(Rx, gb) IN
   \/ wa \cap (Reads(Rx, gb) \cup wb) # {}
   \/ wb \cap (Reads(Rx, ga) \cup wa) # {}

\* ------------------------------------------------------------------------
\* classification of a record (evaluated once per record and mode, in Init)
\*   mode "impl"   : the order recorded from the real code is judged
\*   mode "design" : T1 on the corpus -- the SPECIFICATION's own minimal order (exactly the
\*                   dependent pairs, in plan order) is put through the same lattice
\*                   exploration: "ordering the dependent pairs suffices" is a theorem about
\*                   UPSeqSem and Reads/Writes that TLC checks on every recorded plan
\* ------------------------------------------------------------------------
N(rec) == Len(rec.plan)
Distinct(rec) == \A i, j \in 1..N(rec) : i < j => rec.plan[i] # rec.plan[j]
Nested(rec) == \E i \in 1..N(rec) : NestedAct(Act(Probs[rec.pid].P, rec.plan[i].a))
GraphOK(rec) == /\ rec.nodes = [i \in 1..N(rec) |-> i]
                /\ \A e \in EdgeSet(rec) : e[1] \in 1..N(rec) /\ e[2] \in 1..N(rec)
                /\ Acyclic(EdgeSet(rec), N(rec))
DepPairs(rec) ==
   LET n == N(rec)
       W == TLCEval([i \in 1..n |-> Writes(RR(rec), rec.plan[i])])
       Rd == TLCEval([i \in 1..n |-> Reads(RR(rec), rec.plan[i])])
   IN {p \in (1..n) \X (1..n) :
          /\ p[1] < p[2]
          /\ \/ W[p[1]] \cap (Rd[p[2]] \cup W[p[2]]) # {}
             \/ W[p[2]] \cap (Rd[p[1]] \cup W[p[1]]) # {}}
\* ------------------------------------------------------------------------
\* evidence: the CHANNEL through which a dependent pair is dependent.
\* Reads(Rx, ga) is split by the syntactic position of the read:
\*    "pre"           preconditions
\*    "cond"/"value"  condition / value of an effect, fluent applications that do NOT mention a
\*                    variable bound by the effect's forall
\*    "forall-cond"/"forall-value"
\*                    fluent applications in the condition / value of a forall effect that mention
\*                    the quantified variable: these ground reads exist only after the expansion
\*                    of the forall effect
\*    "incdec"        the target of an increase/decrease
\* and "write" stands for write-write.  A pair of DepPairs(rec) is a SOLE WITNESS of channel ch
\* when ch is the only channel through which it is dependent and the other dependent pairs do
\* not order it transitively: an implementation that loses exactly that channel is then caught
\* by OrderKept on this record.  Printed as <<"SOLE", id, ch>> (evidence / vacuity only; the
\* verdicts do not use it).  <<"CHERR", id, i>> = the split does not add up to Reads (a defect
\* of this specification).
\* ------------------------------------------------------------------------
ReadChannels == {"pre", "cond", "value", "forall-cond", "forall-value", "incdec"}
MentionsVar(e, V) == \E i \in DOMAIN e.args : e.args[i].op = "var" /\ e.args[i].name \in V
\* ground fluents of the fluent applications of e for which MentionsVar(_, V) = want
RECURSIVE GFS(_,_,_,_,_)
GFS(Rx, e, env, V, want) ==
   IF e.op \in {"exists", "forall"}
   THEN UNION {GFS(Rx, e.args[1], en, V, want) : en \in Envs(Rx.P, e.vars, env)}
   ELSE (IF e.op = "fluent" /\ MentionsVar(e, V) = want THEN {GKey(Rx, e.name, e.args, env)} ELSE {})
        \cup UNION {GFS(Rx, e.args[i], env, V, want) : i \in DOMAIN e.args}
QVars(ef) == {ef.forall[i].name : i \in DOMAIN ef.forall}
ReadsCh(Rx, ga, ch) ==
   LET a == Act(Rx.P, ga.a)
       env == ParEnv(a, ga)
       X == XEffects(Rx, a, env)
   IN IF ch = "pre" THEN UNION {GF(Rx, a.pre[i], env) : i \in DOMAIN a.pre}
      ELSE IF ch = "cond" THEN UNION {GFS(Rx, x[1].c, x[2], QVars(x[1]), FALSE) : x \in X}
      ELSE IF ch = "value" THEN UNION {GFS(Rx, x[1].v, x[2], QVars(x[1]), FALSE) : x \in X}
      ELSE IF ch = "forall-cond" THEN UNION {GFS(Rx, x[1].c, x[2], QVars(x[1]), TRUE) : x \in X}
      ELSE IF ch = "forall-value" THEN UNION {GFS(Rx, x[1].v, x[2], QVars(x[1]), TRUE) : x \in X}
      ELSE UNION {IF x[1].kind = "assign" THEN {} ELSE {GKey(Rx, x[1].f.name, x[1].f.args, x[2])} : x \in X}
SoleWitnesses(rec) ==
   LET n == N(rec)
       Rx == RR(rec)
       W == TLCEval([i \in 1..n |-> Writes(Rx, rec.plan[i])])
       RC == TLCEval([i \in 1..n |-> [ch \in ReadChannels |-> ReadsCh(Rx, rec.plan[i], ch)]])
       Rd == TLCEval([i \in 1..n |-> UNION {RC[i][ch] : ch \in ReadChannels}])
       \* = DepPairs(rec) when the split adds up (checked below)
       dp == {p \in (1..n) \X (1..n) :
                /\ p[1] < p[2]
                /\ \/ W[p[1]] \cap (Rd[p[2]] \cup W[p[2]]) # {}
                   \/ W[p[2]] \cap (Rd[p[1]] \cup W[p[1]]) # {}}
       ChOf(p) == {ch \in ReadChannels : \/ W[p[1]] \cap RC[p[2]][ch] # {}
                                         \/ W[p[2]] \cap RC[p[1]][ch] # {}}
                  \cup (IF W[p[1]] \cap W[p[2]] # {} THEN {"write"} ELSE {})
       sole == {p \in dp : Cardinality(ChOf(p)) = 1 /\ p \notin TC(dp \ {p}, n)}
   IN /\ \A i \in 1..n : \/ Rd[i] = Reads(Rx, rec.plan[i])
                         \/ PrintT(<<"CHERR", rec.id, i>>)
      /\ \A ch \in UNION {ChOf(p) : p \in sole} : PrintT(<<"SOLE", rec.id, ch>>)

Classify(rec, m) ==
   LET v == SeqVerdict(RR(rec), rec.plan)
       none == <<>>
   IN
   IF ~Distinct(rec) THEN [c |-> "not-distinct", fin |-> none, E |-> {}]
   ELSE IF v.v = "unspec" THEN [c |-> "unspec-plan", fin |-> none, E |-> {}]
   ELSE IF v.v # "VALID" THEN [c |-> "not-valid", fin |-> none, E |-> {}]
   ELSE IF m = "design" THEN
        (IF Nested(rec) THEN [c |-> "nested", fin |-> none, E |-> {}]
         ELSE [c |-> "judged", fin |-> v.S[Len(v.S)], E |-> DepPairs(rec)])
   ELSE IF rec.exc # "" THEN
        (IF Nested(rec) /\ rec.exc = "UPUsageError" THEN [c |-> "nested-rejected", fin |-> none, E |-> {}]
         ELSE [c |-> "raises", fin |-> none, E |-> {}])
   ELSE IF ~GraphOK(rec) THEN [c |-> "malformed", fin |-> none, E |-> {}]
   ELSE [c |-> "judged", fin |-> v.S[Len(v.S)], E |-> EdgeSet(rec)]

\* TLC integers are 32 bit: a linearisation that builds large numbers is not followed (counted as unspecified)
Big(s) == \E i \in DOMAIN s : s[i].k = "n" /\ (s[i].n > 5000 \/ s[i].n < 0 - 5000 \/ s[i].d > 500)

CONSTANT Modes            \* {"impl"} or {"impl", "design"}
VARIABLES id, mode, done, st, cls
vars == <<id, mode, done, st, cls>>

Init == /\ id \in DOMAIN Batch
        /\ mode \in Modes
        /\ done = {}
        /\ st = InitSt(RR(Batch[id]))
        /\ cls = Classify(Batch[id], mode)

Next == /\ cls.c = "judged"
        /\ \E i \in EnabledIn(cls.E, N(Batch[id]), done) :
              LET r == Step(RR(Batch[id]), Batch[id].plan[i], st) IN
              /\ r.ok /\ ~r.unspec /\ ~Big(r.s)
              /\ done' = done \cup {i}
              /\ st' = r.s
        /\ UNCHANGED <<id, mode, cls>>
Spec == Init /\ [][Next]_vars

\* ------------------------------------------------------------------------
\* clauses
\* ------------------------------------------------------------------------
\* (2) every dependent pair keeps its plan order
OrderKept(rec) ==
   LET tc == TC(EdgeSet(rec), N(rec)) IN
   \A p \in DepPairs(rec) : p \in tc \/ PrintT(<<"FAIL", rec.id, "dependent-pair-not-ordered", p[1], p[2]>>)
\* (3) the enumerated linearisations are exactly the linear extensions
LinsOK(rec) ==
   LET n == N(rec)
       E == EdgeSet(rec)
       le == LinExt(E, n)
       got == {rec.lins[k] : k \in DOMAIN rec.lins}
       ch == Chains(E, n, {})
   IN /\ (got # le => PrintT(<<"FAIL", rec.id, "linearisations-differ", Len(rec.lins), Cardinality(le)>>))
      /\ (Len(rec.lins) # ch => PrintT(<<"FAIL", rec.id, "linearisation-count", Len(rec.lins), ch>>))
      /\ (rec.back \notin le => PrintT(<<"FAIL", rec.id, "back-conversion-no-linearisation", rec.back>>))
\* record-level clauses, evaluated in the initial state of the record
RecordClauses(rec) ==
   LET n == N(rec) E == EdgeSet(rec) IN
   IF cls.c = "judged"
   THEN /\ PrintT(<<"REC", rec.id, cls.c, Chains(E, n, {}), Cardinality(DownSets(E, n))>>)
        /\ (Nested(rec) \/ (OrderKept(rec) /\ SoleWitnesses(rec)))
        /\ LinsOK(rec)
   ELSE /\ PrintT(<<"REC", rec.id, cls.c, 0, 0>>)
        /\ (cls.c = "raises" => PrintT(<<"FAIL", rec.id, "raises-" \o rec.exc, 0>>))
        /\ (cls.c = "malformed" => PrintT(<<"FAIL", rec.id, "malformed-graph", rec.nodes>>))
\* (1) state-level clauses (tag "T1-" in design mode)
Tag == IF mode = "design" THEN "T1-" ELSE ""
EnabledApplicable(rec) ==
   \A i \in EnabledIn(cls.E, N(rec), done) :
      LET r == Step(RR(rec), rec.plan[i], st) IN
      IF r.unspec \/ (r.ok /\ Big(r.s)) THEN (mode = "design" \/ PrintT(<<"U", rec.id, i>>))
      ELSE r.ok \/ PrintT(<<"FAIL", rec.id, Tag \o "enabled-step-inapplicable-" \o r.why, i, done>>)
SameFinalState(rec) ==
   done = 1..N(rec) =>
      /\ (st # cls.fin => PrintT(<<"FAIL", rec.id, Tag \o "final-state-differs", 0, done>>))
      /\ (Goal3(RR(rec), st) = "F" => PrintT(<<"FAIL", rec.id, Tag \o "goal-unsatisfied", 0, done>>))

Judge == LET rec == Batch[id] IN
         /\ ((done = {} /\ mode = "impl") => RecordClauses(rec))
         /\ (cls.c = "judged" => EnabledApplicable(rec) /\ SameFinalState(rec))
=============================================================================
