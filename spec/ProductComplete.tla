--------------------------- MODULE ProductComplete ---------------------------
(***************************************************************************)
(* C07 (compiler completeness) by subset construction.                     *)
(* TLC explores every P-behaviour up to the depth bound; SQ is the set of  *)
(* Q-states reachable by Q-sequences that map back to the P-sequence so    *)
(* far (closed under at most two steps that map back to nothing).          *)
(*   Complete == P reached a goal state (and its trajectory constraints    *)
(*               hold) => some Q-state in the closure of SQ is a Q goal    *)
(* Steps of the original plan that do not change the state may be absent   *)
(* from the compiled counterpart (DESIGN.md 7.1-8).                        *)
(***************************************************************************)
EXTENDS UPSeqSem, Json, IOUtils

Corpus == ndJsonDeserialize(IOEnv.BATCH)

VARIABLES cid, sp, SQ, plan
vars == <<cid, sp, SQ, plan>>
RP(c) == [P |-> Corpus[c].P, keys |-> Corpus[c].pkeys]
RQ(c) == [P |-> Corpus[c].Q, keys |-> Corpus[c].qkeys]

\* Q ground actions that map back to P ground action b ([pa, pargs]; pa = "" for silent ones)
QActsOf(c, b) == {[a |-> Corpus[c].back[j].qa, args |-> Corpus[c].back[j].qargs] :
                     j \in {j \in DOMAIN Corpus[c].back :
                              Corpus[c].back[j].pa = b.a /\ (b.a = "" \/ Corpus[c].back[j].pargs = b.args)}}
QSucc(c, S, b) == UNION {{Step(RQ(c), ga, s).s : ga \in {g \in QActsOf(c, b) :
                               LET r == Step(RQ(c), g, s) IN r.ok /\ ~r.unspec}} : s \in S}
Silent == [a |-> "", args |-> <<>>]
Close(c, S) == LET S1 == S \cup QSucc(c, S, Silent) IN S1 \cup QSucc(c, S1, Silent)

Init == /\ cid \in DOMAIN Corpus
        /\ sp = InitSt(RP(cid)) /\ SQ = {InitSt(RQ(cid))} /\ plan = <<>>

Next == /\ Len(plan) < Corpus[cid].depth
        /\ SmallSt(sp) /\ \A s \in SQ : SmallSt(s)
        /\ InitOK3(RP(cid), InitSt(RP(cid))) = "T"
        /\ \E b \in GActs(Corpus[cid].P) :
             LET rp == Step(RP(cid), b, sp)
                 nq == QSucc(cid, Close(cid, SQ), b)
             IN /\ rp.ok /\ ~rp.unspec
                /\ sp' = rp.s
                /\ plan' = Append(plan, b)
                \* a step that does not change the state may be dropped by the compiler (7.1-8)
                /\ SQ' = IF nq = {} /\ rp.s = sp THEN SQ ELSE nq
        /\ UNCHANGED cid
Spec == Init /\ [][Next]_vars

PlanStr == [i \in DOMAIN plan |-> plan[i].a]
\* any unspecified Q-step on the way makes the case unjudgeable: tracked conservatively by
\* requiring a definite verdict only when no Q-step from the closure was unspecified
QUnspec(c, S) == \E s \in S : \E j \in DOMAIN Corpus[c].back :
                    Step(RQ(c), [a |-> Corpus[c].back[j].qa, args |-> Corpus[c].back[j].qargs], s).unspec
Complete ==
   LET ip == InitOK3(RP(cid), InitSt(RP(cid)))
       iq == InitOK3(RQ(cid), InitSt(RQ(cid)))
       cl == Close(cid, SQ)
   IN IF ip # "T" THEN TRUE
      ELSE IF Goal3(RP(cid), sp) # "T" THEN TRUE
      ELSE IF Len(Corpus[cid].P.traj) > 0 THEN TRUE     \* trajectory constraints: soundness only
      ELSE IF iq = "?" THEN TRUE
      ELSE IF iq = "F" THEN PrintT(<<"FAIL", Corpus[cid].cid, "original-solvable-but-compiled-initial-state-invalid", PlanStr>>)
      ELSE IF \E s \in cl : Goal3(RQ(cid), s) # "F" THEN TRUE
      ELSE IF QUnspec(cid, cl) THEN TRUE
      ELSE PrintT(<<"FAIL", Corpus[cid].cid, IF cl = {} THEN "no-compiled-counterpart" ELSE "compiled-counterpart-misses-goal", PlanStr>>)
=============================================================================
