------------------------------- MODULE UPExpr -------------------------------
(***************************************************************************)
(* Expressions of the abstract model (UPJ) and their meaning.              *)
(*                                                                         *)
(* An expression is a record [op, args, name, v, vars]:                    *)
(*   op   "const" (v) | "param" "var" (name) | "obj" (name)                *)
(*        "fluent" (name, args) | "ifun" (name, args)                      *)
(*        "not" "and" "or" "implies" "iff" "eq" "le" "lt"                   *)
(*        "plus" "minus" "times" "div" | "exists" "forall" (vars, args[1]) *)
(*   vars sequence of [name, type] (quantifiers only)                      *)
(* R is a problem context [P |-> problem, keys |-> <<ground fluents>>]; a  *)
(* state s is the sequence of values aligned with R.keys.                  *)
(*                                                                         *)
(* Eval is strict three-valued evaluation (every operand is evaluated, an  *)
(* undefined operand or a fluent with no value makes the result UNDEF).    *)
(* Cond3 is the judged verdict of a condition: the strict value when it is *)
(* defined, otherwise supervaluation over all well-typed completions of    *)
(* the undefined ground fluents: "F" (must count as unsatisfied) when the  *)
(* completions disagree, "?" (unspecified by the documentation) when the   *)
(* condition does not actually depend on the undefined fluents.            *)
(***************************************************************************)
EXTENDS UPValues

\* ---------- problem tables ----------
RECURSIVE Anc(_,_)
Anc(P, t) == LET ps == {P.types[i].parent : i \in {j \in DOMAIN P.types : P.types[j].name = t}}
             IN {t} \cup UNION {Anc(P, p) : p \in ps \ {""}}
ObjsOf(P, t) == {P.objects[i].name : i \in {j \in DOMAIN P.objects : t \in Anc(P, P.objects[j].type)}}
Fl(P, n) == P.fluents[CHOOSE i \in DOMAIN P.fluents : P.fluents[i].name = n]
IFun(P, n) == P.ifuns[CHOOSE i \in DOMAIN P.ifuns : P.ifuns[i].name = n]
KeyIdx(R, name, args) == CHOOSE i \in DOMAIN R.keys : R.keys[i][1] = name /\ R.keys[i][2] = args
HasKey(R, name, args) == \E i \in DOMAIN R.keys : R.keys[i][1] = name /\ R.keys[i][2] = args

\* values of a type (finite types only; numeric types need both bounds)
ValsOfType(P, t) ==
   IF t.k = "bool" THEN {BV(TRUE), BV(FALSE)}
   ELSE IF t.k = "user" THEN {OV(o) : o \in ObjsOf(P, t.name)}
   ELSE {NV(n, 1) : n \in t.lo.n .. t.hi.n}

\* all environments extending env with bindings for the typed variables vs
RECURSIVE Envs(_,_,_)
Envs(P, vs, env) ==
   IF vs = <<>> THEN {env}
   ELSE UNION {Envs(P, Tail(vs), (Head(vs).name :> x) @@ env) : x \in ValsOfType(P, Head(vs).type)}

\* the key component of a value used as a fluent argument (object name, or the value itself)
ArgKey(v) == IF v.k = "o" THEN v.o ELSE IF v.k = "b" THEN (IF v.b THEN "true" ELSE "false") ELSE ToString(v.n)

\* ---------- strict evaluation ----------
RECURSIVE Eval(_,_,_,_)
EvalArgs(R, es, s, env) == [i \in DOMAIN es |-> Eval(R, es[i], s, env)]
RECURSIVE FoldNum(_,_,_)
FoldNum(op, vs, i) ==
   IF i = Len(vs) THEN vs[i]
   ELSE IF op = "plus" THEN RAdd(vs[i], FoldNum(op, vs, i + 1)) ELSE RMul(vs[i], FoldNum(op, vs, i + 1))
Eval(R, e, s, env) ==
  CASE e.op = "const" -> e.v
    [] e.op \in {"param", "var"} -> env[e.name]
    [] e.op = "obj" -> OV(e.name)
    [] e.op = "fluent" ->
          LET a == EvalArgs(R, e.args, s, env) IN
          IF AnyU(a) THEN UNDEF ELSE s[KeyIdx(R, e.name, [i \in DOMAIN a |-> ArgKey(a[i])])]
    [] e.op = "ifun" ->
          LET a == EvalArgs(R, e.args, s, env)
              f == IFun(R.P, e.name)
              rows == {i \in DOMAIN f.table : \A j \in DOMAIN a : VEq(f.table[i].args[j], a[j])}
          IN IF AnyU(a) \/ rows = {} THEN UNDEF ELSE f.table[CHOOSE i \in rows : TRUE].v
    [] e.op = "not" -> LET a == Eval(R, e.args[1], s, env) IN IF IsU(a) THEN UNDEF ELSE BV(~a.b)
    [] e.op = "and" -> LET a == EvalArgs(R, e.args, s, env) IN
                       IF AnyU(a) THEN UNDEF ELSE BV(\A i \in DOMAIN a : a[i].b)
    [] e.op = "or" -> LET a == EvalArgs(R, e.args, s, env) IN
                      IF AnyU(a) THEN UNDEF ELSE BV(\E i \in DOMAIN a : a[i].b)
    [] e.op = "implies" -> LET a == EvalArgs(R, e.args, s, env) IN
                           IF AnyU(a) THEN UNDEF ELSE BV(a[1].b => a[2].b)
    [] e.op = "iff" -> LET a == EvalArgs(R, e.args, s, env) IN
                       IF AnyU(a) THEN UNDEF ELSE BV(a[1].b <=> a[2].b)
    [] e.op = "eq" -> LET a == EvalArgs(R, e.args, s, env) IN
                      IF AnyU(a) THEN UNDEF ELSE BV(VEq(a[1], a[2]))
    [] e.op = "le" -> LET a == EvalArgs(R, e.args, s, env) IN
                      IF AnyU(a) THEN UNDEF ELSE BV(RLe(a[1], a[2]))
    [] e.op = "lt" -> LET a == EvalArgs(R, e.args, s, env) IN
                      IF AnyU(a) THEN UNDEF ELSE BV(RLt(a[1], a[2]))
    [] e.op \in {"plus", "times"} -> LET a == EvalArgs(R, e.args, s, env) IN
                      IF AnyU(a) THEN UNDEF ELSE FoldNum(e.op, a, 1)
    [] e.op = "minus" -> LET a == EvalArgs(R, e.args, s, env) IN
                      IF AnyU(a) THEN UNDEF ELSE RSub(a[1], a[2])
    [] e.op = "div" -> LET a == EvalArgs(R, e.args, s, env) IN
                      IF AnyU(a) THEN UNDEF ELSE RDiv(a[1], a[2])
    [] e.op \in {"exists", "forall"} ->
          LET rs == {Eval(R, e.args[1], s, en) : en \in Envs(R.P, e.vars, env)} IN
          IF \E r \in rs : IsU(r) THEN UNDEF
          ELSE IF e.op = "exists" THEN BV(\E r \in rs : r.b) ELSE BV(\A r \in rs : r.b)

Holds(R, e, s, env) == LET r == Eval(R, e, s, env) IN r.k = "b" /\ r.b

\* ---------- supervaluation over undefined ground fluents ----------
DomOf(R, i) == LET t == Fl(R.P, R.keys[i][1]).type IN
   IF t.k \in {"bool", "user"} THEN ValsOfType(R.P, t)
   ELSE IF t.lo.k # "none" /\ t.hi.k # "none" /\ t.k = "int" THEN ValsOfType(R.P, t)
   ELSE {NV(n, 1) : n \in (0 - 2)..4}
UndefIdx(s) == {i \in DOMAIN s : IsU(s[i])}
Completions(R, s) ==
   LET U == UndefIdx(s) IN
   IF U = {} THEN {s}
   ELSE {[i \in DOMAIN s |-> IF i \in U THEN c[i] ELSE s[i]] :
           c \in {c \in [U -> UNION {DomOf(R, i) : i \in U}] : \A i \in U : c[i] \in DomOf(R, i)}}
MaxUndef == 4
Cond3(R, e, s, env) ==
   LET r == Eval(R, e, s, env) IN
   IF ~IsU(r) THEN (IF r.b THEN "T" ELSE "F")
   ELSE IF Cardinality(UndefIdx(s)) > MaxUndef \/ UndefIdx(s) = {} THEN "?"
   ELSE LET vs == {Eval(R, e, c, env) : c \in Completions(R, s)} IN
        IF Cardinality(vs) = 1 THEN "?" ELSE "F"
All3(S) == IF "F" \in S THEN "F" ELSE IF "?" \in S THEN "?" ELSE "T"

\* ---------- syntactic helpers ----------
RECURSIVE FluentNames(_)
FluentNames(e) == (IF e.op = "fluent" THEN {e.name} ELSE {}) \cup UNION {FluentNames(e.args[i]) : i \in DOMAIN e.args}
RECURSIVE FreeVars(_)
FreeVars(e) == IF e.op = "var" THEN {e.name}
               ELSE IF e.op \in {"exists", "forall"}
                    THEN FreeVars(e.args[1]) \ {e.vars[i].name : i \in DOMAIN e.vars}
                    ELSE UNION {FreeVars(e.args[i]) : i \in DOMAIN e.args}
RECURSIVE Size(_)
SumSeq(f) == LET RECURSIVE S(_) S(i) == IF i > Len(f) THEN 0 ELSE f[i] + S(i + 1) IN S(1)
Size(e) == 1 + SumSeq([i \in DOMAIN e.args |-> Size(e.args[i])])
=============================================================================
