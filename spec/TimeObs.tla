------------------------------- MODULE TimeObs -------------------------------
(***************************************************************************)
(* C04 / C05 judge.  Every recorded (problem, time-triggered plan,          *)
(* validator status) is one initial state.                                 *)
(*  C05: the TimeTriggeredPlanValidator status must equal                  *)
(*       UPTimeSem!TimeVerdict.                                            *)
(*  C04 (instantaneous problems, pairwise distinct start times):           *)
(*       spec level  TimeVerdict(plan) = SeqVerdict(AsSequential(plan))    *)
(*       (the two specifications are mutually consistent -- T1),           *)
(*       impl level  both validators return their specification's verdict  *)
(*       and the two recorded verdicts are equal.                          *)
(* Total verdicts: <<"FAIL", pid, plan index, clause>>, <<"U", pid, pi>>.    *)
(***************************************************************************)
EXTENDS UPTimeSem, Json, IOUtils

Batch == ndJsonDeserialize(IOEnv.BATCH)
Mode == IOEnv.MODE
VARIABLES pid, pi
vars == <<pid, pi>>
R(p) == [P |-> Batch[p].P, keys |-> Batch[p].keys]
Init == pid \in DOMAIN Batch /\ pi \in DOMAIN Batch[pid].plans
Next == UNCHANGED vars
Spec == Init /\ [][Next]_vars

ClauseC05(p, rec) ==
   LET v == TimeVerdict(R(p), rec.steps) IN
   IF v.v = "unspec" THEN "U"
   ELSE IF rec.tt \notin {"VALID", "INVALID"} THEN "tt-raises-" \o rec.tt \o "-spec-" \o v.v \o "-" \o v.why
   ELSE IF rec.tt # v.v THEN "tt-spec-" \o v.v \o "-" \o v.why \o "-impl-" \o rec.tt
   ELSE ""

ClauseC04(p, rec) ==
   LET tv == TimeVerdict(R(p), rec.steps)
       sv == SeqVerdict(R(p), AsSequential(rec.steps))
   IN IF ~DistinctStarts(rec.steps) THEN "U"
      ELSE IF tv.v = "unspec" \/ sv.v = "unspec" THEN
           (IF rec.tt \in {"VALID", "INVALID"} /\ rec.seq \in {"VALID", "INVALID"} /\ rec.tt # rec.seq
               /\ InitOK3(R(p), InitSt(R(p))) = "T"
            THEN "validators-disagree-tt-" \o rec.tt \o "-seq-" \o rec.seq \o "-spec-unspec-"
                    \o (LET w == IF sv.v = "unspec" THEN sv.why ELSE tv.why
                        \* "ok" + unspecified = zone 7.1-3 (equal values written by different assignments of one step)
                        IN IF w = "ok" THEN "equal-values-from-two-assignments" ELSE w)
            ELSE "U")
      ELSE IF tv.v # sv.v THEN "SPEC-INCONSISTENT-time-" \o tv.v \o "-" \o tv.why \o "-seq-" \o sv.v \o "-" \o sv.why
      ELSE IF InitOK3(R(p), InitSt(R(p))) # "T" THEN "U"    \* C04 assumes a valid initial state
      ELSE IF rec.tt \notin {"VALID", "INVALID"} THEN "tt-raises-" \o rec.tt
      ELSE IF rec.seq \notin {"VALID", "INVALID"} THEN "seq-raises-" \o rec.seq
      ELSE IF rec.tt # rec.seq THEN "validators-disagree-tt-" \o rec.tt \o "-seq-" \o rec.seq \o "-spec-" \o tv.v \o "-" \o tv.why
      ELSE IF rec.tt # tv.v THEN "both-wrong-spec-" \o tv.v \o "-" \o tv.why \o "-impl-" \o rec.tt
      ELSE ""

Judge == LET rec == Batch[pid].plans[pi]
             c == IF Mode = "C04" THEN ClauseC04(pid, rec) ELSE ClauseC05(pid, rec) IN
         IF c = "" THEN TRUE
         ELSE IF c = "U" THEN PrintT(<<"U", Batch[pid].pid, pi>>)
         ELSE PrintT(<<"FAIL", Batch[pid].pid, pi, c>>)
=============================================================================
