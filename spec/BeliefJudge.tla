----------------------------- MODULE BeliefJudge -----------------------------
(***************************************************************************)
(* C30, third stage: compares the answers of the two exhaustive            *)
(* explorations of Belief.tla for every compilation (one row = one initial *)
(* state of this module).                                                  *)
(*   kg   a goal state of the compiled problem K is reachable              *)
(*   pg   a conformant plan for (P, S) exists (belief-space exploration)   *)
(*   pgk  a conformant plan for (P, kept tags) exists (only if haspgk)     *)
(*   sf   Belief!Sound already failed for this row                         *)
(* Clauses (all printed as <<"FAIL", id, clause>>, invariant stays TRUE):  *)
(*   complete     pg => kg                                                 *)
(*   sound        kg => pg      (printed only when Sound did not fail)     *)
(*   raises       the compiler raised although a conformant plan exists    *)
(*   dominated    pg = pgk: dropping the states the compiler considers     *)
(*                dominated does not change the conformant answer          *)
(*   variants     a variant row (base # 0) whose distinct initial states   *)
(*                equal the base's (duplicates / order), or whose kept     *)
(*                tags equal the base's (all added states were dropped as  *)
(*                dominated), has the same kg and pg as its base           *)
(*   actionwise   the real plan_back_conversion of sampled multi-action    *)
(*                plans of K equals the concatenation of the per-action    *)
(*                table used by Belief!BackOf                              *)
(***************************************************************************)
EXTENDS Integers, Sequences, FiniteSets, TLC, Json, IOUtils

Rows == ndJsonDeserialize(IOEnv.BATCH)
VARIABLE r
Init == r \in DOMAIN Rows
Next == UNCHANGED r
Spec == Init /\ [][Next]_r

SeqSet(s) == {s[i] : i \in DOMAIN s}
RowOf(id) == Rows[CHOOSE j \in DOMAIN Rows : Rows[j].id = id]
HasRow(id) == \E j \in DOMAIN Rows : Rows[j].id = id

TableOf(back, name) ==
   LET js == {j \in DOMAIN back : back[j].qa = name}
   IN IF js = {} THEN <<[a |-> "?", args |-> <<>>]>> ELSE back[CHOOSE j \in js : TRUE].pas
RECURSIVE Flat(_,_,_)
Flat(back, ks, i) == IF i > Len(ks) THEN <<>> ELSE TableOf(back, ks[i]) \o Flat(back, ks, i + 1)

Judged(x) == x.raised = "none" /\ ~x.unspec

Fails(x) ==
   (IF Judged(x) /\ x.pg /\ ~x.kg THEN {"conformant-plan-exists-but-compiled-unsolvable"} ELSE {})
   \cup (IF Judged(x) /\ x.kg /\ ~x.pg /\ ~x.sf THEN {"compiled-solvable-but-no-conformant-plan"} ELSE {})
   \cup (IF x.raised # "none" /\ ~x.unspec /\ x.pg THEN {"compiler-raises-but-conformant-plan-exists"} ELSE {})
   \cup (IF Judged(x) /\ x.haspgk /\ x.pg # x.pgk THEN {"dropping-dominated-states-changes-conformant-answer"} ELSE {})
   \cup (IF Judged(x) /\ x.base # 0 /\ HasRow(x.base)
         THEN LET b == RowOf(x.base) IN
              IF ~Judged(b) THEN {}
              ELSE IF SeqSet(b.inits) = SeqSet(x.inits)
              THEN (IF b.kg # x.kg \/ b.pg # x.pg
                    THEN {"duplicate-or-reordered-states-change-answer"} ELSE {})
              ELSE IF SeqSet(b.kept) = SeqSet(x.kept)
              THEN (IF b.kg # x.kg \/ b.pg # x.pg THEN {"added-dominated-states-change-answer"} ELSE {})
              ELSE {}
         ELSE {})
   \cup (IF x.raised = "none" /\ \E i \in DOMAIN x.samples : x.samples[i].p # Flat(x.back, x.samples[i].k, 1)
         THEN {"plan-back-conversion-not-actionwise"} ELSE {})

Verdict == LET x == Rows[r] IN \A cl \in Fails(x) : PrintT(<<"FAIL", x.id, cl>>)
=============================================================================
