---------------------------- MODULE CompilerJudge ----------------------------
(***************************************************************************)
(* C08 / C09 judge over recorded compilations (one record = one initial    *)
(* state).                                                                 *)
(* C08  WellFormed(Q): names unique per namespace, every referenced        *)
(*      fluent / object / type / parameter / variable declared or bound,   *)
(*      a plan back-conversion is available, and the compiler did not      *)
(*      raise inside its supported kind.                                   *)
(* C09  the kind of the compiled problem is contained in the kind the      *)
(*      compiler declares for the input kind; a factory pipeline accepts   *)
(*      every intermediate problem.                                        *)
(* Total verdicts: <<"FAIL", cid, clause>>.                                 *)
(***************************************************************************)
EXTENDS UPExpr, Json, IOUtils

Corpus == ndJsonDeserialize(IOEnv.BATCH)
Mode == IOEnv.MODE
VARIABLES cid
Init == cid \in DOMAIN Corpus
Next == UNCHANGED cid
Spec == Init /\ [][Next]_cid

SeqSet(s) == {s[i] : i \in DOMAIN s}
NoDup(s) == Cardinality(SeqSet(s)) = Len(s)

\* ---------- references made by expressions ----------
RECURSIVE Refs(_,_)
\* set of <<kind, name>> references of expression e under bound variable names B
Refs(e, B) ==
   (CASE e.op = "fluent" -> {<<"fluent", e.name>>}
      [] e.op = "obj"    -> {<<"object", e.name>>}
      [] e.op = "param"  -> {<<"param", e.name>>}
      [] e.op = "var"    -> IF e.name \in B THEN {} ELSE {<<"freevar", e.name>>}
      [] e.op = "const"  -> IF e.v.k = "o" THEN {<<"object", e.v.o>>} ELSE {}
      [] OTHER -> {})
   \cup (IF e.op \in {"exists", "forall"}
         THEN {<<"type", e.vars[i].type.name>> : i \in {j \in DOMAIN e.vars : e.vars[j].type.k = "user"}}
              \cup Refs(e.args[1], B \cup {e.vars[i].name : i \in DOMAIN e.vars})
         ELSE UNION {Refs(e.args[i], B) : i \in DOMAIN e.args})
TypeRefs(t) == IF t.k = "user" THEN {<<"type", t.name>>} ELSE {}
EffRefs(ef) ==
   LET B == {ef.forall[i].name : i \in DOMAIN ef.forall} IN
   {<<"fluent", ef.f.name>>} \cup UNION {Refs(ef.f.args[i], B) : i \in DOMAIN ef.f.args}
   \cup Refs(ef.v, B) \cup Refs(ef.c, B) \cup UNION {TypeRefs(ef.forall[i].type) : i \in DOMAIN ef.forall}
ActRefs(a) ==
   UNION {TypeRefs(a.params[i].type) : i \in DOMAIN a.params}
   \cup UNION {Refs(a.pre[i], {}) : i \in DOMAIN a.pre}
   \cup UNION {IF a.kind = "inst" THEN EffRefs(a.effects[i]) ELSE EffRefs(a.effects[i].e) : i \in DOMAIN a.effects}
   \cup UNION {Refs(a.conds[i].c, {}) : i \in DOMAIN a.conds}
\* parameter references must be bound by the action's own parameters
ParamOK(a) == {r[2] : r \in {r \in ActRefs(a) : r[1] = "param"}} \subseteq {a.params[i].name : i \in DOMAIN a.params}

Undeclared(Q) ==
   LET F == {Q.fluents[i].name : i \in DOMAIN Q.fluents}
       O == {Q.objects[i].name : i \in DOMAIN Q.objects}
       T == {Q.types[i].name : i \in DOMAIN Q.types}
       refs == UNION {ActRefs(Q.actions[i]) : i \in DOMAIN Q.actions}
               \cup UNION {Refs(Q.goals[i], {}) : i \in DOMAIN Q.goals}
               \cup UNION {Refs(Q.invariants[i], {}) : i \in DOMAIN Q.invariants}
               \cup UNION {Refs(Q.traj[i], {}) : i \in DOMAIN Q.traj}
               \cup {<<"fluent", Q.init[i].f>> : i \in DOMAIN Q.init}
               \cup UNION {{<<"object", Q.init[i].args[j].o>> : j \in {j \in DOMAIN Q.init[i].args : Q.init[i].args[j].k = "o"}} : i \in DOMAIN Q.init}
               \cup {<<"object", Q.init[i].v.o>> : i \in {j \in DOMAIN Q.init : Q.init[j].v.k = "o"}}
               \cup UNION {TypeRefs(Q.fluents[i].type) : i \in DOMAIN Q.fluents}
               \cup UNION {UNION {TypeRefs(Q.fluents[i].sig[j].type) : j \in DOMAIN Q.fluents[i].sig} : i \in DOMAIN Q.fluents}
               \cup {<<"type", Q.objects[i].type>> : i \in DOMAIN Q.objects}
               \cup {<<"type", Q.types[i].parent>> : i \in {j \in DOMAIN Q.types : Q.types[j].parent # ""}}
   IN {r \in refs : \/ (r[1] = "fluent" /\ r[2] \notin F)
                    \/ (r[1] = "object" /\ r[2] \notin O)
                    \/ (r[1] = "type" /\ r[2] \notin T)
                    \/ r[1] = "freevar"}

ClauseC08(r) ==
   IF r.raised # "none" THEN "raises-" \o r.raised
   ELSE LET Q == r.Q
            u == Undeclared(Q) IN
        IF ~NoDup(r.qnames.actions) THEN "duplicate-action-name"
        ELSE IF ~NoDup(r.qnames.fluents) THEN "duplicate-fluent-name"
        ELSE IF ~NoDup(r.qnames.objects) THEN "duplicate-object-name"
        ELSE IF ~NoDup(r.qnames.types) THEN "duplicate-type-name"
        ELSE IF SeqSet(r.qnames.objects) \cap SeqSet(r.qnames.fluents) # {} THEN "object-fluent-name-clash"
        ELSE IF u # {} THEN "undeclared-" \o (CHOOSE x \in u : TRUE)[1]
        ELSE IF \E i \in DOMAIN Q.actions : ~ParamOK(Q.actions[i]) THEN "unbound-parameter"
        ELSE IF ~r.has_back_conversion THEN "no-plan-back-conversion"
        ELSE ""

ClauseC09(r) ==
   \* a pipeline chosen by the factory must accept every intermediate problem it produces; other
   \* exceptions of a stage are compiler failures (C08), not kind containment
   IF r.raised # "none" THEN (IF r.pipeline /\ r.stage_rejected THEN "pipeline-stage-rejects-intermediate-problem" ELSE "")
   ELSE IF r.pipeline THEN ""
   ELSE IF r.declared_exc # "none" THEN "resulting-kind-raises-" \o r.declared_exc
   ELSE LET extra == SeqSet(r.qkind) \ SeqSet(r.declared) IN
        IF extra = {} THEN "" ELSE "undeclared-feature-" \o (CHOOSE f \in extra : \A g \in extra : f = g \/ f \in extra)
\* (the driver lists every extra feature; the clause names one deterministically below)
ExtraFeatures(r) == SeqSet(r.qkind) \ SeqSet(r.declared)

Judge == LET r == Corpus[cid] IN
         IF Mode = "C08"
         THEN LET c == ClauseC08(r) IN IF c = "" THEN TRUE ELSE PrintT(<<"FAIL", r.cid, c>>)
         ELSE IF r.raised = "none" /\ ~r.pipeline /\ r.declared_exc = "none"
              THEN \A f \in ExtraFeatures(r) : PrintT(<<"FAIL", r.cid, "undeclared-feature-" \o f>>)
              ELSE LET c == ClauseC09(r) IN IF c = "" THEN TRUE ELSE PrintT(<<"FAIL", r.cid, c>>)
=============================================================================
