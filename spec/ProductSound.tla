---------------------------- MODULE ProductSound ----------------------------
(***************************************************************************)
(* C06 (compiler soundness) as a product exploration.                      *)
(* For every recorded compilation  P --compile--> Q  with the table `back` *)
(* (real map_back_action_instance evaluated on every ground action of Q),  *)
(* TLC explores every Q-behaviour (UPSeqSem!Step on Q) up to the depth     *)
(* bound together with the P-behaviour it maps back to.  `bad` becomes     *)
(* TRUE when a mapped-back step is not applicable in P.                    *)
(*   Sound == Q reached a goal state  =>  the mapped-back plan was         *)
(*            executable in P and reached a goal state of P                *)
(* This is exactly "every plan valid for the compiled problem maps back to *)
(* a plan valid for the original problem", with no alarm on dead ends.     *)
(* Trajectory constraints of P are judged by PDDL3 monitors (`mon`).       *)
(* Total verdicts: <<"FAIL", cid, clause, compiled plan>> is printed and   *)
(* the invariant stays TRUE.                                               *)
(***************************************************************************)
EXTENDS UPSeqSem, Json, IOUtils

Corpus == ndJsonDeserialize(IOEnv.BATCH)

VARIABLES cid, sq, sp, bad, plan, mon
vars == <<cid, sq, sp, bad, plan, mon>>

RP(c) == [P |-> Corpus[c].P, keys |-> Corpus[c].pkeys]
RQ(c) == [P |-> Corpus[c].Q, keys |-> Corpus[c].qkeys]

\* back table look-up: [pa, pargs] of the original ground action, pa = "" when dropped
BackOf(c, ga) ==
   LET js == {j \in DOMAIN Corpus[c].back : Corpus[c].back[j].qa = ga.a /\ Corpus[c].back[j].qargs = ga.args}
   IN IF js = {} THEN [pa |-> "?", pargs |-> <<>>]
      ELSE LET b == Corpus[c].back[CHOOSE j \in js : TRUE] IN [pa |-> b.pa, pargs |-> b.pargs]

\* ---------- PDDL3 monitors for P's trajectory constraints over the state sequence ----------
\* mon[i] is the monitor state of P.traj[i]:  a record [seen, viol, hold]
TrajBody(tc) == IF tc.op = "forall" THEN tc.args[1] ELSE tc
\* instances of a (possibly quantified) trajectory constraint
TrajInst(P, tc) == IF tc.op = "forall" THEN {[c |-> tc.args[1], env |-> en] : en \in Envs(P, tc.vars, <<>>)}
                   ELSE {[c |-> tc, env |-> <<>>]}
AllTraj(P) == UNION {TrajInst(P, P.traj[i]) : i \in DOMAIN P.traj}
\* monitor state per instance: function from instance to [a, b, done]
\*   sometime phi:            a = phi held at some state
\*   at-most-once phi:        a = currently inside a phi-interval, b = one interval already ended, v = violated
\*   sometime-before phi psi: a = psi seen strictly before, v = violated (phi held with no earlier psi)
\*   sometime-after phi psi:  a = obligation pending (phi held, psi not yet since)
MonInit(R, s) == [x \in AllTraj(R.P) |->
   LET h(e) == Cond3(R, e, s, x.env) IN
   CASE x.c.op = "sometime" -> [a |-> h(x.c.args[1]) = "T", b |-> FALSE, v |-> FALSE, u |-> h(x.c.args[1]) = "?"]
     [] x.c.op = "amo" -> [a |-> h(x.c.args[1]) = "T", b |-> FALSE, v |-> FALSE, u |-> h(x.c.args[1]) = "?"]
     [] x.c.op = "sbefore" -> [a |-> h(x.c.args[2]) = "T", b |-> FALSE, v |-> h(x.c.args[1]) = "T",
                               u |-> h(x.c.args[1]) = "?" \/ h(x.c.args[2]) = "?"]
     [] x.c.op = "safter" -> [a |-> h(x.c.args[1]) = "T" /\ h(x.c.args[2]) # "T", b |-> FALSE, v |-> FALSE,
                              u |-> h(x.c.args[1]) = "?" \/ h(x.c.args[2]) = "?"]
     [] OTHER -> [a |-> FALSE, b |-> FALSE, v |-> FALSE, u |-> TRUE]]
MonStep(R, m, s) == [x \in DOMAIN m |->
   LET h(e) == Cond3(R, e, s, x.env)
       o == m[x] IN
   CASE x.c.op = "sometime" -> [o EXCEPT !.a = o.a \/ h(x.c.args[1]) = "T", !.u = o.u \/ h(x.c.args[1]) = "?"]
     [] x.c.op = "amo" ->
          LET now == h(x.c.args[1]) = "T" IN
          [a |-> now, b |-> o.b \/ (o.a /\ ~now), v |-> o.v \/ (now /\ ~o.a /\ o.b), u |-> o.u \/ h(x.c.args[1]) = "?"]
     [] x.c.op = "sbefore" ->
          [a |-> o.a \/ h(x.c.args[2]) = "T", b |-> FALSE, v |-> o.v \/ (h(x.c.args[1]) = "T" /\ ~o.a),
           u |-> o.u \/ h(x.c.args[1]) = "?" \/ h(x.c.args[2]) = "?"]
     [] x.c.op = "safter" ->
          [a |-> IF h(x.c.args[2]) = "T" THEN FALSE ELSE (o.a \/ h(x.c.args[1]) = "T"), b |-> FALSE, v |-> FALSE,
           u |-> o.u \/ h(x.c.args[1]) = "?" \/ h(x.c.args[2]) = "?"]
     [] OTHER -> o]
\* verdict of all trajectory constraints at the end of the sequence: "T" / "F" / "?"
MonVerdict(m) ==
   IF \E x \in DOMAIN m : m[x].u THEN "?"
   ELSE IF \A x \in DOMAIN m :
              CASE x.c.op = "sometime" -> m[x].a
                [] x.c.op = "amo" -> ~m[x].v
                [] x.c.op = "sbefore" -> ~m[x].v
                [] x.c.op = "safter" -> ~m[x].a
                [] OTHER -> TRUE
        THEN "T" ELSE "F"

Init == /\ cid \in DOMAIN Corpus
        /\ sq = InitSt(RQ(cid)) /\ sp = InitSt(RP(cid))
        /\ bad = FALSE /\ plan = <<>>
        /\ mon = MonInit(RP(cid), InitSt(RP(cid)))

Next == /\ Len(plan) < Corpus[cid].depth
        /\ SmallSt(sq) /\ SmallSt(sp)
        /\ InitOK3(RQ(cid), InitSt(RQ(cid))) = "T"
        /\ InitOK3(RP(cid), InitSt(RP(cid))) # "?"
        /\ \E ga \in GActs(Corpus[cid].Q) :
             LET rq == Step(RQ(cid), ga, sq)
                 b  == BackOf(cid, ga)
             IN /\ rq.ok /\ ~rq.unspec
                /\ sq' = rq.s
                /\ plan' = Append(plan, ga)
                /\ IF bad \/ b.pa = ""
                   THEN UNCHANGED <<sp, bad, mon>>
                   ELSE IF b.pa = "?" THEN sp' = sp /\ bad' = TRUE /\ mon' = mon
                   ELSE LET rp == Step(RP(cid), [a |-> b.pa, args |-> b.pargs], sp) IN
                        /\ ~rp.unspec          \* unspecified original step: this branch is not judged
                        /\ IF rp.ok THEN sp' = rp.s /\ bad' = FALSE /\ mon' = MonStep(RP(cid), mon, rp.s)
                           ELSE sp' = sp /\ bad' = TRUE /\ mon' = mon
        /\ UNCHANGED cid
Spec == Init /\ [][Next]_vars

PlanStr == [i \in DOMAIN plan |-> plan[i].a]
Sound ==
   LET gq == Goal3(RQ(cid), sq)
       iq == InitOK3(RQ(cid), InitSt(RQ(cid)))
       ip == InitOK3(RP(cid), InitSt(RP(cid)))
   IN IF iq # "T" \/ ip = "?" THEN TRUE
      ELSE IF gq # "T" THEN TRUE
      ELSE IF ip = "F" THEN PrintT(<<"FAIL", Corpus[cid].cid, "compiled-valid-but-original-initial-state-invalid", PlanStr>>)
      ELSE IF bad THEN PrintT(<<"FAIL", Corpus[cid].cid, "mapped-back-step-inapplicable", PlanStr>>)
      ELSE IF Goal3(RP(cid), sp) = "F" THEN PrintT(<<"FAIL", Corpus[cid].cid, "mapped-back-plan-misses-goal", PlanStr>>)
      ELSE IF MonVerdict(mon) = "F" THEN PrintT(<<"FAIL", Corpus[cid].cid, "mapped-back-plan-violates-trajectory-constraint", PlanStr>>)
      ELSE TRUE
=============================================================================
