------------------------------ MODULE HTNOrder ------------------------------
(***************************************************************************)
(* Ordering extraction of HTN task networks, as implemented by             *)
(* unified_planning.model.htn.ordering.ordering / _build_total_order and   *)
(* exposed by AbstractTaskNetwork.partial_order() / total_order()          *)
(* (TaskNetwork and Method).                                               *)
(*                                                                         *)
(* State (shaped like the Python object): subs = _subtasks (identifiers in *)
(* insertion order), cons = _constraints (insertion order, no duplicates). *)
(* One action per public call: AddSubtask, AddConstraint (set_ordered and  *)
(* set_strictly_before are sequences of AddConstraint).                    *)
(*                                                                         *)
(* A timing is [tk, c, d]: tk in start/end (of container c, 0 = none),     *)
(* gstart/gend (c = 0) or const (a number, no timepoint); d = delay (or    *)
(* the value of a const) counted in HALF units so that 1/2 is an integer.  *)
(* A constraint is [op, l, r]: lt (l < r), le, eq, nlt (not (l < r)) or    *)
(* nontemp (a constraint without any timing; l, r are dummies).            *)
(*                                                                         *)
(* Two layers:                                                             *)
(*  - Impl layer: ImplOrdering = ordering() as written (scan with break,   *)
(*    length comparison, _build_total_order picking the unique task        *)
(*    without pending predecessor, TotalOrder storing consecutive pairs).  *)
(*  - Spec layer (property C34): the network is "qualitative" iff every    *)
(*    temporal constraint is a strict end-before-start precedence Prec(a,b)*)
(*    between subtasks; then partial_order = exactly those precedences,    *)
(*    total_order = the unique linear extension iff exactly one exists;    *)
(*    otherwise neither is reported.  Clause(o, T, C) names the first      *)
(*    clause an observation o violates ("" if none).                       *)
(* Unspecified zone (DESIGN 7.1 item 9), kept minimal: when the            *)
(* precedences admit exactly one linear ordering AND contain redundant     *)
(* (transitively implied) pairs, the implementation reports the chain of   *)
(* consecutive pairs.  There, instead of literal equality, the judge       *)
(* demands a subset of the given precedences with the same transitive      *)
(* closure.  Everywhere else equality is literal (as sets of pairs).       *)
(***************************************************************************)
EXTENDS Integers, Sequences, FiniteSets, TLC

CONSTANTS N,         \* subtasks are 1..N
          MaxCons,   \* bound on Len(cons)            (exhaustive configurations only)
          Universe   \* constraints Next chooses from (exhaustive configurations only)

Task == 1..N

VARIABLES subs, cons
vars == <<subs, cons>>

Range(s) == {s[i] : i \in DOMAIN s}

Tm(tk, c, d) == [tk |-> tk, c |-> c, d |-> d]
Cn(op, l, r) == [op |-> op, l |-> l, r |-> r]
\* the strict end-before-start precedence "a ends before b starts"
Prec(a, b) == Cn("lt", Tm("end", a, 0), Tm("start", b, 0))
NonTemporal == Cn("nontemp", Tm("const", 0, 0), Tm("const", 0, 0))

\* a constraint is temporal iff some timing occurs in it (AnyChecker(is_timing_exp))
Temporal(c) == c.op # "nontemp"

-----------------------------------------------------------------------------
(* the object and its public calls *)
Init == subs = <<>> /\ cons = <<>>

AddSubtask(t) == /\ t \notin Range(subs)
                 /\ subs' = Append(subs, t)
                 /\ UNCHANGED cons

\* add_constraint: stored unless already present
Stored(cs, c) == IF c \in Range(cs) THEN cs ELSE Append(cs, c)
AddConstraint(c) == /\ cons' = Stored(cons, c)
                    /\ UNCHANGED subs

\* macro step: the sequential composition AddSubtask(ts[1]) ; ... ; AddConstraint(cs[1]) ; ...
\* (used by the trace judge for bulk cases that are observed only once, after the last call)
RECURSIVE StoredAll(_, _, _)
StoredAll(cs, new, i) == IF i > Len(new) THEN cs ELSE StoredAll(Stored(cs, new[i]), new, i + 1)
Build(ts, cs) == /\ \A i \in DOMAIN ts : ts[i] \notin Range(subs) /\ \A j \in 1..(i - 1) : ts[j] # ts[i]
                 /\ subs' = subs \o ts
                 /\ cons' = StoredAll(cons, cs, 1)

\* partial_order() / total_order() do not change the object
Query == UNCHANGED vars

Mentions(c) == {x \in {c.l.c, c.r.c} : x # 0}
NextSubtask == Len(subs) < N /\ AddSubtask(Len(subs) + 1)
NextConstraint == \E c \in Universe : /\ Len(cons) < MaxCons
                                      /\ Mentions(c) \subseteq Range(subs)
                                      /\ AddConstraint(c)
Next == NextSubtask \/ NextConstraint
Spec == Init /\ [][Next]_vars

-----------------------------------------------------------------------------
(* Impl layer: ordering() as written *)

\* the chain of syntactic tests inside the for loop (any failing test is a `break`)
ImplIsPrec(c) ==
   /\ c.op = "lt"                                  \* c.is_lt()
   /\ c.l.tk # "const" /\ c.r.tk # "const"         \* both sides are timing expressions
   /\ c.l.d = 0 /\ c.r.d = 0                       \* no delay
   /\ c.l.tk = "end" /\ c.r.tk = "start"           \* END before START
   /\ c.l.c # 0 /\ c.r.c # 0                       \* containers are not None

RECURSIVE ImplScan(_, _, _)
ImplScan(tcs, i, acc) ==
   IF i > Len(tcs) THEN acc
   ELSE IF ImplIsPrec(tcs[i]) THEN ImplScan(tcs, i + 1, Append(acc, <<tcs[i].l.c, tcs[i].r.c>>))
   ELSE acc   \* break

\* _build_total_order(tasks, precedences)
RECURSIVE ImplBuild(_, _, _)
ImplBuild(pending, precs, order) ==
   IF pending = {} THEN [ok |-> TRUE, order |-> order]
   ELSE LET firsts == {t \in pending : \A i \in DOMAIN precs : precs[i][2] # t} IN
        IF Cardinality(firsts) # 1 THEN [ok |-> FALSE, order |-> <<>>]
        ELSE LET f == CHOOSE t \in firsts : TRUE IN
             ImplBuild(pending \ {f}, SelectSeq(precs, LAMBDA p : p[1] # f), Append(order, f))

ConsecutivePairs(s) == [i \in 1..(Len(s) - 1) |-> <<s[i], s[i + 1]>>]

\* ordering(task_ids, temporal_constraints): kind in temporal / partial / total
ImplOrdering(ss, cs) ==
   LET tcs == SelectSeq(cs, Temporal)
       precs == ImplScan(tcs, 1, <<>>)
   IN IF Len(precs) # Len(tcs) THEN [kind |-> "temporal", precs |-> <<>>, order |-> <<>>]
      ELSE LET b == ImplBuild(Range(ss), precs, <<>>) IN
           IF b.ok THEN [kind |-> "total", precs |-> ConsecutivePairs(b.order), order |-> b.order]
           ELSE [kind |-> "partial", precs |-> precs, order |-> <<>>]

None == [k |-> "none", v |-> <<>>]
Some(v) == [k |-> "list", v |-> v]
\* what partial_order() / total_order() return, as an observation record
ImplObs(ss, cs) ==
   LET o == ImplOrdering(ss, cs) IN
   [po |-> IF o.kind \in {"partial", "total"} THEN Some(o.precs) ELSE None,
    to |-> IF o.kind = "total" THEN Some(o.order) ELSE None]

-----------------------------------------------------------------------------
(* Spec layer: property C34 *)

\* all temporal constraints are strict end-before-start precedences between subtasks of T
\* (i.e. \A c \in C : \E a, b \in T : c = Prec(a, b), written without the quantifier)
Qualitative(T, C) == \A c \in C : c.l.c \in T /\ c.r.c \in T /\ c = Prec(c.l.c, c.r.c)
Precs(C) == {<<c.l.c, c.r.c>> : c \in C}

\* bijections T -> 1..|T| (positions in a linear ordering), extended by 0 outside T
RECURSIVE Positions(_)
Positions(T) ==
   IF T = {} THEN {<<>>}
   ELSE UNION {{p @@ (t :> Cardinality(T)) : p \in Positions(T \ {t})} : t \in T}
PositionsOf == TLCEval([T \in SUBSET Task |-> {[t \in Task |-> IF t \in T THEN p[t] ELSE 0] : p \in Positions(T)}])

\* the linear orderings of ALL subtasks that respect every precedence (a before b)
LinExts(T, P) == {pos \in PositionsOf[T] : \A p \in P : pos[p[1]] < pos[p[2]]}
AsSeq(T, pos) == [i \in 1..Cardinality(T) |-> CHOOSE t \in T : pos[t] = i]

RECURSIVE TC(_)
TC(R) == LET R2 == R \cup UNION {{<<p[1], q[2]>> : q \in {x \in R : x[1] = p[2]}} : p \in R}
         IN IF R2 = R THEN R ELSE TC(R2)

\* everything the verdict needs to know about the network (T = subtasks, C = temporal constraints)
Analysis(T, C) ==
   IF ~Qualitative(T, C) THEN [qual |-> FALSE, P |-> {}, nlin |-> 0, s |-> <<>>, chain |-> {}]
   ELSE LET P == Precs(C)
            L == LinExts(T, P)
        IN IF Cardinality(L) # 1 THEN [qual |-> TRUE, P |-> P, nlin |-> Cardinality(L), s |-> <<>>, chain |-> {}]
           ELSE LET s == AsSeq(T, CHOOSE pos \in L : TRUE) IN
                [qual |-> TRUE, P |-> P, nlin |-> 1, s |-> s, chain |-> Range(ConsecutivePairs(s))]

\* the unspecified zone: exactly one linear ordering, and the given precedences are not just its chain
ZoneA(A) == A.qual /\ A.nlin = 1 /\ A.P # A.chain
InZone(T, C) == ZoneA(Analysis(T, C))

\* o = [po |-> [k, v], to |-> [k, v]], k in list / none / exc
ClauseA(o, A) ==
   IF o.po.k = "exc" \/ o.to.k = "exc" THEN "raises"
   ELSE IF ~A.qual
   THEN \* some other kind of temporal constraint: neither order is reported
        IF o.po.k # "none" THEN "other-kind-partial-order-reported"
        ELSE IF o.to.k # "none" THEN "other-kind-total-order-reported"
        ELSE ""
   ELSE LET R == Range(o.po.v) IN
        IF o.po.k # "list" THEN "partial-order-missing"
        ELSE IF ZoneA(A) /\ ~(R \subseteq A.P /\ TC(R) = TC(A.P)) THEN "partial-order-total-equivalent"
        ELSE IF ~ZoneA(A) /\ R # A.P THEN "partial-order-exact"
        ELSE IF A.nlin = 1 /\ o.to.k # "list" THEN "total-order-missing"
        ELSE IF A.nlin = 1 /\ o.to.v # A.s THEN "total-order-wrong"
        ELSE IF A.nlin # 1 /\ o.to.k # "none" THEN "total-order-spurious"
        ELSE ""
Clause(o, T, C) == ClauseA(o, Analysis(T, C))

SubtaskSet == Range(subs)
TemporalSet == {c \in Range(cons) : Temporal(c)}

-----------------------------------------------------------------------------
(* T1: the algorithm as written satisfies the property on every reachable network *)
DesignOK == Clause(ImplObs(subs, cons), SubtaskSet, TemporalSet) = ""
\* in the zone the implementation reports exactly the chain of the unique ordering
ZoneIsChain == InZone(SubtaskSet, TemporalSet) =>
                  LET o == ImplObs(subs, cons) IN o.po.v = ConsecutivePairs(o.to.v)
\* a precedence in the sense of the property is exactly what the scan accepts
PrecAgree == \A c \in Range(cons) : Mentions(c) \subseteq Task =>
                (ImplIsPrec(c) <=> \E a \in Task, b \in Task : c = Prec(a, b))
\* the quantifier-free form of Qualitative is the quantified one
QualAgree == Qualitative(SubtaskSet, TemporalSet) <=>
                \A c \in TemporalSet : \E a \in SubtaskSet, b \in SubtaskSet : c = Prec(a, b)
TypeOK == /\ Len(subs) <= N /\ Len(cons) <= MaxCons
          /\ \A i \in DOMAIN cons, j \in DOMAIN cons : i # j => cons[i] # cons[j]
=============================================================================
