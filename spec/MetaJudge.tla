------------------------------ MODULE MetaJudge ------------------------------
(***************************************************************************)
(* C31: meta-engines (interpreted-functions planner, oversubscription      *)
(* planner) wrapped around an exact breadth-first planner return only      *)
(* valid plans and truthful statuses.                                      *)
(* For every recorded (problem, status, plan) TLC                          *)
(*  - judges the returned plan with UPSeqSem!SeqVerdict on the ORIGINAL    *)
(*    problem (interpreted functions as tables; the oversubscription       *)
(*    metric does not affect validity: hard goals only);                   *)
(*  - explores the problem's whole reachable state space (UPSeqSem!Step,   *)
(*    finite by construction of the corpus) and checks in every reachable  *)
(*    goal state:  status SOLVED_OPTIMALLY  =>  gain(state) <= gain of the *)
(*    returned plan's final state;  status UNSOLVABLE_* / no plan  =>  no  *)
(*    reachable goal state exists (the planner finds a plan whenever the   *)
(*    problem is solvable).                                                *)
(* Total verdicts: <<"FAIL", id, clause>>.                                   *)
(***************************************************************************)
EXTENDS UPSeqSem, Json, IOUtils

Batch == ndJsonDeserialize(IOEnv.BATCH)
VARIABLES pid, st, tainted
vars == <<pid, st, tainted>>
R(p) == [P |-> Batch[p].P, keys |-> Batch[p].keys]

Init == pid \in DOMAIN Batch /\ st = InitSt(R(pid)) /\ tainted = FALSE
\* tainted: an unspecified step was skipped on the way (completeness claims are then not judged)
Next == /\ InitOK3(R(pid), InitSt(R(pid))) = "T"
        /\ \E ga \in GActs(Batch[pid].P) :
             LET r == Step(R(pid), ga, st) IN
             /\ r.ok /\ ~r.unspec /\ st' = r.s
        /\ UNCHANGED <<pid, tainted>>
Spec == Init /\ [][Next]_vars

Gain(p, s) == LET m == Batch[p].P.metric IN
              IF m.kind = "oversub" THEN MetricValue(m, R(p), <<>>, <<s>>) ELSE ZERO
\* does some ground action have an unspecified step in this state? (then reachability is not exact)
AnyUnspec(p, s) == \E ga \in GActs(Batch[p].P) : Step(R(p), ga, s).unspec

PlanClause(p) ==
   LET rec == Batch[p]
       v == SeqVerdict(R(p), rec.plan) IN
   IF ~rec.has_plan THEN ""
   ELSE IF v.v = "unspec" THEN "U"
   ELSE IF v.v # "VALID" THEN "returned-plan-" \o v.v \o "-" \o v.why
   ELSE ""
PlanGain(p) == LET v == SeqVerdict(R(p), Batch[p].plan) IN Gain(p, v.S[Len(v.S)])

Judge ==
   LET p == pid
       rec == Batch[p]
       isInit == st = InitSt(R(p))
       g == Goal3(R(p), st)
   IN /\ (~isInit \/ LET c == PlanClause(p) IN
                     IF c = "" THEN TRUE
                     ELSE IF c = "U" THEN PrintT(<<"U", rec.id, "plan">>)
                     ELSE PrintT(<<"FAIL", rec.id, c>>))
      /\ (~isInit \/ ((rec.status \in {"SOLVED_SATISFICING", "SOLVED_OPTIMALLY"}) = rec.has_plan)
            \/ PrintT(<<"FAIL", rec.id, "status-" \o rec.status \o "-without-matching-plan">>))
      /\ IF g # "T" THEN TRUE
         ELSE IF ~rec.has_plan
              THEN (IF rec.status \in {"UNSOLVABLE_PROVEN", "UNSOLVABLE_INCOMPLETELY"} /\ rec.complete
                    THEN PrintT(<<"FAIL", rec.id, "solvable-but-" \o rec.status>>) ELSE TRUE)
         ELSE IF rec.status = "SOLVED_OPTIMALLY" /\ PlanClause(p) = ""
                 /\ RLt(PlanGain(p), Gain(p, st))
              THEN PrintT(<<"FAIL", rec.id, "reported-optimal-but-a-reachable-goal-state-has-higher-gain">>)
              ELSE TRUE
=============================================================================
