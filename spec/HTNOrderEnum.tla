--------------------------- MODULE HTNOrderEnum ---------------------------
(* G1 generator for C34.  TLC enumerates task networks and writes them as  *)
(* ndjson, one case per line:                                              *)
(*   [fam, n, p, o, dup, nt]                                               *)
(*   n   number of subtasks (identifiers 1..n)                             *)
(*   p   sequence of precedence pairs <<a, b>> ("a ends before b starts")  *)
(*   o   sequence (0 or 1) of constraints of another kind (HTNOrder shape)  *)
(*   dup index into p of a precedence that is stated a second time (0: no) *)
(*   nt  TRUE: a non-temporal constraint is added as well                  *)
(* Relations are numbered by bit masks over the pair sequence, so that a   *)
(* run can emit a slice Lo..Hi (step Step) of the space.                   *)
(*   Fam = "rel"    every relation (with self-loops iff Diag); Full: every *)
(*                  dup and nt variant; Half: no/one dup x nt; else one    *)
(*                  variant per relation                                   *)
(*   Fam = "loop"   every irreflexive relation plus one self-loop          *)
(*   Fam = "mixed"  every irreflexive relation with one constraint of      *)
(*                  another kind; Full: each deviation of each ordered     *)
(*                  pair, else Rounds deviations per relation, round-robin *)
(*   Fam = "devs"   the deviations alone (empty relation)                  *)
(***************************************************************************)
EXTENDS HTNOrder, Json, IOUtils, SequencesExt
CONSTANTS Fam, Diag, Full, Half, Lo, Hi, Step, Rounds

Pairs == IF Diag THEN Task \X Task ELSE {q \in Task \X Task : q[1] # q[2]}
PairSeq == TLCEval(SetToSeq(Pairs))
Bit(m, i) == (m \div (2 ^ (i - 1))) % 2 = 1
RelSeq(m) == SetToSeq({PairSeq[i] : i \in {j \in 1..Len(PairSeq) : Bit(m, j)}})
Masks == {m \in Lo..Hi : m % Step = 0}

\* constraints that are NOT strict end-before-start precedences between subtasks, each one or two
\* features away from Prec(a, b)
Dev(a, b) ==
   {Cn(op, Tm("end", a, 0), Tm("start", b, 0)) : op \in {"le", "eq", "nlt"}}
   \cup {Cn("lt", Tm(k[1], a, 0), Tm(k[2], b, 0)) : k \in {<<"start", "start">>, <<"end", "end">>, <<"start", "end">>}}
   \cup {Cn("lt", Tm("end", a, d[1]), Tm("start", b, d[2])) :
            d \in {<<2, 0>>, <<0 - 2, 0>>, <<0, 2>>, <<0, 0 - 2>>, <<1, 0>>, <<0, 1>>, <<2, 2>>, <<2, 0 - 2>>}}
   \cup {Cn("lt", Tm("end", 0, 0), Tm("start", b, 0)), Cn("lt", Tm("end", a, 0), Tm("start", 0, 0))}
   \cup {Cn("lt", Tm("gstart", 0, 0), Tm("start", b, 0)), Cn("lt", Tm("end", a, 0), Tm("gend", 0, 0)),
         Cn("lt", Tm("gstart", 0, 4), Tm("start", b, 0))}
   \cup {Cn("lt", Tm("end", a, 0), Tm("const", 0, 10)), Cn("lt", Tm("const", 0, 3), Tm("start", b, 0))}
   \cup {Cn("le", Tm("start", a, 0), Tm("start", b, 0)), Cn("eq", Tm("start", a, 0), Tm("start", b, 0)),
         Cn("le", Tm("end", a, 2), Tm("start", b, 0)), Cn("nlt", Tm("start", b, 0), Tm("end", a, 0))}
   \cup {Cn("lt", Tm("start", a, 0), Tm("end", a, 0)), Cn("le", Tm("end", a, 0), Tm("start", a, 0))}
DevAll == UNION {Dev(q[1], q[2]) : q \in {q \in Task \X Task : q[1] # q[2]}}
DevSeq == TLCEval(SetToSeq(DevAll))

Case(fam, p, o, dup, nt) == [fam |-> fam, n |-> N, p |-> p, o |-> o, dup |-> dup, nt |-> nt]

RelCases ==
   IF Full
   THEN UNION {LET p == RelSeq(m) IN {Case("rel", p, <<>>, d, t) : d \in 0..Len(p), t \in BOOLEAN} : m \in Masks}
   ELSE UNION {LET p == RelSeq(m)
                   d == IF Len(p) > 0 THEN 1 + (m % Len(p)) ELSE 0
               IN IF Half THEN {Case("rel", p, <<>>, x, t) : x \in {0, d}, t \in BOOLEAN}
                  ELSE {Case("rel", p, <<>>, IF m % 3 = 0 THEN d ELSE 0, m % 4 = 1)} : m \in Masks}
LoopCases == {Case("loop", RelSeq(m) \o <<<<1 + (m % N), 1 + (m % N)>>>>, <<>>, 0, FALSE) : m \in Masks}
MixedCases ==
   IF Full
   THEN {Case("mixed", RelSeq(m), <<d>>, 0, FALSE) : m \in Masks, d \in DevAll}
   ELSE {Case("mixed", RelSeq(m), <<DevSeq[1 + ((m + 7 * r) % Len(DevSeq))]>>, 0, m % 5 = 2) : m \in Masks, r \in 1..Rounds}
DevCases == {Case("devs", <<>>, <<d>>, 0, FALSE) : d \in DevAll}

\* bulk families are built as sequences directly (no set normalisation of ~10^5 records)
MaskSeq == [k \in 1..((Hi - Lo) \div Step + 1) |-> Lo + (k - 1) * Step]
RelCase1(m) == LET p == RelSeq(m)
                   d == IF Len(p) > 0 THEN 1 + (m % Len(p)) ELSE 0
               IN Case("rel", p, <<>>, IF m % 3 = 0 THEN d ELSE 0, m % 4 = 1)
LoopCase(m) == Case("loop", RelSeq(m) \o <<<<1 + (m % N), 1 + (m % N)>>>>, <<>>, 0, FALSE)
MixedCase(m, r) == Case("mixed", RelSeq(m), <<DevSeq[1 + ((m + 7 * r) % Len(DevSeq))]>>, 0, m % 5 = 2)
CaseSeq == CASE Fam = "rel" /\ ~Full /\ ~Half -> [k \in DOMAIN MaskSeq |-> RelCase1(MaskSeq[k])]
             [] Fam = "rel"                    -> SetToSeq(RelCases)
             [] Fam = "loop"                   -> [k \in DOMAIN MaskSeq |-> LoopCase(MaskSeq[k])]
             [] Fam = "mixed" /\ ~Full         -> [k \in 1..(Len(MaskSeq) * Rounds) |->
                                                     MixedCase(MaskSeq[1 + ((k - 1) \div Rounds)], 1 + ((k - 1) % Rounds))]
             [] Fam = "mixed"                  -> SetToSeq(MixedCases)
             [] Fam = "devs"                   -> SetToSeq(DevCases)

ASSUME Hi < 2 ^ Len(PairSeq)
ASSUME Lo % Step = 0
ASSUME ndJsonSerialize(IOEnv.OUT, CaseSeq)
ASSUME PrintT(<<"EMITTED", Len(CaseSeq)>>)
EnumNext == UNCHANGED vars
=============================================================================
