------------------------------ MODULE UPStateSM ------------------------------
(***************************************************************************)
(* Planning states of unified_planning.model.state.UPState (property C36). *)
(*                                                                         *)
(* Two layers over the same call histories:                                *)
(*  - Impl layer (variables n, father, vals, anc, lim, hc, base): shaped   *)
(*    like the Python objects.  State s (numbered in creation order) has   *)
(*    father[s] (_father, 0 = None), vals[s] (its OWN _values dict, a      *)
(*    vector over the fluents with ABS = key not in the dict), anc[s]      *)
(*    (_ancestors), lim[s] (type(s).MAX_ANCESTORS, NONE = None), hc[s]     *)
(*    (_hash, NOHASH = None).  base is UPState.MAX_ANCESTORS: make_child   *)
(*    builds `UPState(...)`, never `type(self)(...)`, so only root states  *)
(*    created by the user carry a subclass limit.                          *)
(*    One action per public call, with the side effects of the code:       *)
(*      New        UPState(values, problem): keeps non-default values only *)
(*      MakeChild  make_child: links to the father, or (limit None or      *)
(*                 _ancestors >= limit) builds a father-less state from    *)
(*                 the whole chain -- the father itself is NOT condensed   *)
(*      Hash       __hash__ : _condense_state, then fills the _hash cache  *)
(*      Repr       __repr__ : _condense_state                              *)
(*      Eq         __eq__   : hash(self) == hash(oth) (condenses and       *)
(*                 caches both), then compares the two _values dicts       *)
(*      Get        get_value: walks the chain, then the default; a miss    *)
(*                 formats the state into the error message, i.e. calls    *)
(*                 __repr__, i.e. condenses the state                      *)
(*  - Spec layer (variable map): map[s] is the finite map the property     *)
(*    talks about: most recent update along the history, else the default, *)
(*    else ND (get_value raises UPStateMissingFluentError).                *)
(*                                                                         *)
(* C36: get_value(s, f) = map[s][f];  s == t  <=>  map[s] = map[t];        *)
(*      map[s] = map[t]  =>  hash(s) = hash(t); whatever calls came before.*)
(***************************************************************************)
EXTENDS Integers, Sequences, FiniteSets, TLC

CONSTANTS NF,        \* fluent expressions are 1..NF
          Def,       \* Def[f]: default value of f, or ND (no default)
          MaxN,      \* bound on the number of states created
          MaxRoots,  \* Next creates user states (New) only while fewer than MaxRoots states exist
          RootLims,  \* MAX_ANCESTORS of the classes used for user-created states
          BaseLims,  \* possible values of UPState.MAX_ANCESTORS (classes of all children)
          Dicts      \* dictionaries (vectors F -> value or ABS) used by Next

F      == 1..NF
ABS    == 98         \* key not in a dict
ND     == 99         \* no default; as a get_value result: raises UPStateMissingFluentError
NONE   == 0          \* MAX_ANCESTORS = None
NOHASH == 0 - 1      \* _hash = None

VARIABLES n, father, vals, anc, lim, hc, base, map
vars == <<n, father, vals, anc, lim, hc, base, map>>

\* the Impl layer as a record, so that the code's functions can be applied to any state
ImplState == [father |-> father, vals |-> vals, anc |-> anc, lim |-> lim, hc |-> hc]

-----------------------------------------------------------------------------
(* Impl layer: the code's functions *)

\* _is_nondefault(fluent, value)
IsNonDefault(f, v) == Def[f] = ND \/ Def[f] # v
\* {k: v for k, v in d.items() if self._is_nondefault(k, v)}
Filter(d) == TLCEval([f \in F |-> IF d[f] # ABS /\ IsNonDefault(f, d[f]) THEN d[f] ELSE ABS])

\* the while-loop over current_instance: first dict along the father chain that has the key
RECURSIVE Lookup(_, _, _)
Lookup(S, s, f) == IF s = 0 THEN ABS
                   ELSE IF S.vals[s][f] # ABS THEN S.vals[s][f]
                   ELSE Lookup(S, S.father[s], f)
\* condensed_values / complete_values built with setdefault from s upwards
Chain(S, s) == TLCEval([f \in F |-> Lookup(S, s, f)])

\* reduce(xor, map(hash, self._values.items()), 0): commutative and deliberately lossy
RECURSIVE HSum(_, _)
HSum(d, f) == IF f = 0 THEN 0 ELSE HSum(d, f - 1) + (IF d[f] = ABS THEN 0 ELSE 2 * f + d[f] + 1)
HashOf(d) == HSum(d, NF) % 5

\* _condense_state
CondenseRec(S, s) ==
   IF S.father[s] = 0 THEN S
   ELSE [S EXCEPT !.vals[s] = Filter(Chain(S, s)), !.anc[s] = 0, !.father[s] = 0]

\* __hash__ (the returned value is .hc[s] of the result)
HashRec(S, s) ==
   LET C == CondenseRec(S, s) IN
   IF C.hc[s] = NOHASH THEN [C EXCEPT !.hc[s] = HashOf(C.vals[s])] ELSE C

\* __eq__
EqRec(S, s, t) ==
   LET B == HashRec(HashRec(S, s), t) IN
   [st |-> B, res |-> (B.hc[s] = B.hc[t] /\ B.vals[s] = B.vals[t])]

\* get_value; res = ND stands for raising UPStateMissingFluentError
GetRec(S, s, f) ==
   LET v == Lookup(S, s, f) IN
   IF v # ABS THEN [st |-> S, res |-> v]
   ELSE IF Def[f] # ND THEN [st |-> S, res |-> Def[f]]
   ELSE [st |-> CondenseRec(S, s), res |-> ND]

\* UPState.__init__ of a state with dict d, father p (0 = None), of a class with limit L
Mk(S, d, p, L) ==
   [father |-> Append(S.father, p),
    vals   |-> Append(S.vals, IF p = 0 THEN Filter(d) ELSE d),
    anc    |-> Append(S.anc, IF p = 0 THEN 0 ELSE S.anc[p] + 1),
    lim    |-> Append(S.lim, L),
    hc     |-> Append(S.hc, NOHASH)]

\* make_child(p, u) -- the new state is always an instance of UPState itself (limit b)
ChildRec(S, p, u, b) ==
   IF S.lim[p] = NONE \/ S.anc[p] >= S.lim[p]
   THEN LET complete == [f \in F |-> IF u[f] # ABS THEN u[f] ELSE Lookup(S, p, f)]
        IN Mk(S, Filter(complete), 0, b)
   ELSE Mk(S, u, p, b)

-----------------------------------------------------------------------------
(* Spec layer: finite maps *)

RootMap(d)     == [f \in F |-> IF d[f] # ABS THEN d[f] ELSE Def[f]]
ChildMap(m, u) == [f \in F |-> IF u[f] # ABS THEN u[f] ELSE m[f]]

-----------------------------------------------------------------------------
(* Actions: one per public call *)

Install(T) == LET S == T IN   \* evaluate the code's function once
              /\ father' = S.father /\ vals' = S.vals /\ anc' = S.anc
              /\ lim' = S.lim /\ hc' = S.hc

Init == /\ n = 0 /\ father = <<>> /\ vals = <<>> /\ anc = <<>> /\ lim = <<>> /\ hc = <<>>
        /\ base \in BaseLims
        /\ map = <<>>

New(d, L) ==
   /\ n < MaxN
   /\ Install(Mk(ImplState, d, 0, L))
   /\ map' = Append(map, RootMap(d))
   /\ n' = n + 1 /\ UNCHANGED base

MakeChild(p, u) ==
   /\ n < MaxN /\ p \in 1..n
   /\ Install(ChildRec(ImplState, p, u, base))
   /\ map' = Append(map, ChildMap(map[p], u))
   /\ n' = n + 1 /\ UNCHANGED base

Hash(s) == /\ s \in 1..n /\ Install(HashRec(ImplState, s)) /\ UNCHANGED <<n, base, map>>
Repr(s) == /\ s \in 1..n /\ Install(CondenseRec(ImplState, s)) /\ UNCHANGED <<n, base, map>>
Eq(s, t) == /\ s \in 1..n /\ t \in 1..n /\ Install(EqRec(ImplState, s, t).st) /\ UNCHANGED <<n, base, map>>
Get(s, f) == /\ s \in 1..n /\ f \in F /\ Install(GetRec(ImplState, s, f).st) /\ UNCHANGED <<n, base, map>>

\* Next explores New, MakeChild, Hash and Repr only.  The other two calls add no successor
\* states: Eq(s, t) leaves the state Hash(s) followed by Hash(t) leaves, Get(s, f) leaves the
\* state unchanged or as Repr(s) leaves it (both by definition of EqRec and GetRec), and their
\* RESULTS are checked in every reachable state by GetOK and EqOK below.  The trace
\* specification uses all six actions.
\* (the disjuncts are split by the branch of the code they take, for -coverage)
AtLimit(p)   == lim[p] = NONE \/ anc[p] >= lim[p]
NewStep      == n < MaxRoots /\ \E d \in Dicts, L \in RootLims : New(d, L)
LinkStep     == \E p \in 1..n, u \in Dicts : ~AtLimit(p) /\ MakeChild(p, u)
FlattenStep  == \E p \in 1..n, u \in Dicts : AtLimit(p) /\ MakeChild(p, u)
HashCondStep == \E s \in 1..n : father[s] # 0 /\ Hash(s)
HashRootStep == \E s \in 1..n : father[s] = 0 /\ Hash(s)
ReprCondStep == \E s \in 1..n : father[s] # 0 /\ Repr(s)
ReprRootStep == \E s \in 1..n : father[s] = 0 /\ Repr(s)
Next == \/ NewStep \/ LinkStep \/ FlattenStep
        \/ HashCondStep \/ HashRootStep \/ ReprCondStep \/ ReprRootStep
Spec == Init /\ [][Next]_vars

-----------------------------------------------------------------------------
(* T1: the Impl layer refines the finite-map layer *)

\* what the public queries would return in the current state
GetNow(s, f)  == GetRec(ImplState, s, f).res
EqNow(s, t)   == EqRec(ImplState, s, t).res
HashNow(s)    == HashRec(ImplState, s).hc[s]

\* get_value: most recent update, else default, else raises
GetOK  == \A s \in 1..n, f \in F : GetNow(s, f) = map[s][f]
\* == holds exactly between states denoting the same map
EqOK   == \A s \in 1..n, t \in 1..n : EqNow(s, t) <=> (map[s] = map[t])
\* equal states have equal hashes; a cached hash is the hash a fresh computation would give
HashOK == /\ \A s \in 1..n, t \in 1..n : (map[s] = map[t]) => HashNow(s) = HashNow(t)
          /\ \A s \in 1..n : hc[s] # NOHASH => (father[s] = 0 /\ hc[s] = HashOf(vals[s]))

\* the invariant stated in the code: a state without father stores non-default values only;
\* a state with a father is an unhashed instance of the base class
RECURSIVE Depth(_)
Depth(s) == IF father[s] = 0 THEN 0 ELSE 1 + Depth(father[s])
ShapeOK == \A s \in 1..n :
             /\ father[s] < s
             /\ father[s] = 0 => (anc[s] = 0 /\ vals[s] = Filter(vals[s]))
             /\ father[s] # 0 => (lim[s] = base /\ hc[s] = NOHASH)
             /\ Depth(s) <= anc[s]
\* the purpose of MAX_ANCESTORS: a state is linked to a father only within the father's limit,
\* so no chain is longer than the largest limit in use
ChainBounded == \A s \in 1..n : father[s] # 0 =>
                   (lim[father[s]] # NONE /\ Depth(s) <= anc[s] /\ anc[s] <= lim[father[s]])

\* states are immutable as maps (the Spec layer only appends); with GetOK and EqOK holding in
\* every reachable state this gives: no call changes what an existing state answers
Immutable == [][\A s \in 1..n : map'[s] = map[s]]_vars
=============================================================================
