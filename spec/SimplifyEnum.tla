---------------------------- MODULE SimplifyEnum ----------------------------
(***************************************************************************)
(* G1 generator of C11.  TLC enumerates, as set expressions over the typed *)
(* grammar of SimplifyMenu, and writes as ndjson (one case per line):      *)
(*   d1   every expression of depth <= 1 over the full leaf sets           *)
(*   q1   Exists x / Forall x over every Boolean d1 expression             *)
(*   d2   every expression of depth exactly 2 over the core leaf sets      *)
(*        CoreB / CoreN (Boolean connectives over Boolean depth-1 terms,   *)
(*        comparisons and arithmetic over numeric depth-1 terms)           *)
(*   qe   quantified conjunctions with equalities between object terms     *)
(*        (x = t, t = x, x = nxt(x), 3-ary conjunctions, nested            *)
(*        quantifiers re-binding x, a quantifier next to a free x)         *)
(*   cap  Exists x. (x = t(y) /\ Q y. body(x, y)) with y free outside: the  *)
(*        eliminated variable is replaced by a term whose variable is       *)
(*        re-bound inside (capture)                                        *)
(*   sub  Exists / Forall z : Ts over conjunctions equating z with terms of *)
(*        the supertype T (q, o2, nxt(..), free x)                         *)
(* and, for the seeded depth-2/3 compositions made by the driver, the      *)
(* indexed pools B1 / N1 (file POOL).  The problem itself goes to PROB.    *)
(* The "big" family (constants beyond 2^53, BigArith limb form): every     *)
(* arithmetic / comparison node kind over all ordered operand pairs, and   *)
(* 3-ary sums / products with a fluent, goes to BIG.                       *)
(***************************************************************************)
EXTENDS SimplifyMenu, BigArith, Json, IOUtils, SequencesExt

CONSTANTS CoreB, CoreN, BigOps, Tier

\* ---------- depth <= 1, full leaves ----------
D1B == BoolAtoms \cup BoolLevel(BoolAtoms, NumAtoms, ObjAtoms)
D1N == NumAtoms \cup NumLevel(NumAtoms)
FamD1 == D1B \cup D1N
FamQ1 == QuantLevel(D1B)

\* ---------- depth 2, core leaves ----------
\* quick: 3 Boolean / 3 numeric core leaves, inner implies/iff only over fluents, no inner division;
\* thorough: 4 / 4 core leaves (with the static fluents sp(o1), s), every operator at both levels.
Quick == Tier = "quick"
CoreBQuick == {B1f, B2f, TRUEc}
CoreNQuick == {Nf, Num(1, 1), Num(0 - 1, 1)}
CoreBThorough == {B1f, B2f, TRUEc, Fl1("sp", O1)}
CoreNThorough == {Nf, Sf, Num(1, 1), Num(0 - 1, 1)}
CB1 == CoreB \cup {Op1("not", a) : a \in CoreB}
       \cup {Op2(o, a, b) : o \in {"and", "or"}, a \in CoreB, b \in CoreB}
       \cup {Op2(o, a, b) : o \in {"implies", "iff"}, a \in (IF Quick THEN CoreB \ {TRUEc} ELSE CoreB),
                                                       b \in (IF Quick THEN CoreB \ {TRUEc} ELSE CoreB)}
CN1 == CoreN \cup {Op2(o, a, b) : o \in (IF Quick THEN NumOps \ {"div"} ELSE NumOps), a \in CoreN, b \in CoreN}
CC1 == {Op2(o, a, b) : o \in CmpOps, a \in CoreN, b \in CoreN}
FamD2 == ({Op1("not", a) : a \in CB1 \cup CC1}
          \cup {Op2(o, a, b) : o \in BoolOps, a \in CB1, b \in CB1}
          \cup {Op2(o, a, b) : o \in CmpOps, a \in CN1, b \in CN1}
          \cup NumLevel(CN1)) \ FamD1

\* ---------- quantifiers and equalities ----------
EqO == {Op2("eq", a, b) : a \in ObjAtoms, b \in ObjAtoms}
EqX == {e \in EqO : e.args[1] = X \/ e.args[2] = X}
QB  == {Fl1("p", X), Fl1("p", Q), B1f, Fl1("sp", X), TRUEc, Op1("not", Fl1("p", X)), Fl1("p", Fl1("nxt", X))}
QBs == {Fl1("p", X), B1f, Fl1("sp", X), Op2("eq", Fl1("nxt", X), O1)}
\* binary conjunctions: quick = at least one conjunct equates x directly with a term
Conj2 == IF Quick
         THEN {Op2("and", a, b) : a \in EqX, b \in EqO \cup QB} \cup {Op2("and", a, b) : a \in EqO \cup QB, b \in EqX}
         ELSE {Op2("and", a, b) : a \in EqO \cup QB, b \in EqO \cup QB}
Conj3 == {Op3("and", e, a, b) : e \in EqX, a \in QBs, b \in QBs}
         \cup {Op3("and", e, f, a) : e \in EqX, f \in EqX, a \in (IF Quick THEN {Fl1("p", X)} ELSE QBs)}
         \cup (IF Quick THEN {} ELSE {Op3("and", a, e, b) : e \in EqX, a \in QBs, b \in QBs})
Inner == {Fl1("p", X), Op2("eq", X, Fl1("nxt", X)), Op2("eq", X, Q), Op2("and", Op2("eq", X, O1), Fl1("p", X))}
Nested == {Op2("and", e, Qx(o, a)) : e \in EqX, o \in {"exists", "forall"}, a \in Inner}
Outer == {Op2(o, Qx("exists", Op2("and", e, a)), b) : o \in {"and", "or"}, e \in EqX, a \in QBs, b \in {Fl1("p", X), Op2("eq", X, O1)}}
FamQE == (QuantLevel(Conj2) \cup {Qx("exists", a) : a \in Conj3 \cup Nested}
          \cup (IF Quick THEN {} ELSE {Qx("forall", a) : a \in Conj3 \cup Nested}) \cup Outer) \ FamQ1

\* ---------- capture: the eliminated variable is replaced by a term whose variable y is re-bound inside ----------
CapEq == {Op2("eq", X, t) : t \in {Y, Fl1("nxt", Y)}} \cup {Op2("eq", t, X) : t \in {Y, Fl1("nxt", Y)}}
CapIn == {Op2("eq", Y, X), Op2("eq", X, Y), Op2("or", Fl1("p", Y), Op2("eq", X, Y)),
          Op2("and", Fl1("p", Y), Op2("eq", X, Y)), Fl1("p", X), Op2("eq", Fl1("nxt", Y), X)}
FamCap == {Qx("exists", Op2("and", e, Qy(o, b))) : e \in CapEq, o \in {"exists", "forall"}, b \in CapIn}
          \cup {Qx("exists", Op2("and", Qy(o, b), e)) : e \in CapEq, o \in {"exists", "forall"}, b \in CapIn}
          \cup {Qx("exists", Op3("and", e, Qy(o, b), Fl1("p", Y))) : e \in CapEq, o \in {"exists", "forall"}, b \in CapIn}

\* ---------- subtypes: z ranges over Ts, the terms it is equated with have the supertype T ----------
SubT == {Q, O2, O1, X, Fl1("nxt", O1), Fl1("nxt", Z)}
SubEq == {Op2("eq", Z, t) : t \in SubT} \cup {Op2("eq", t, Z) : t \in SubT}
SubPhi == {Fl1("p", Z), Fl1("sp", Z), Op2("eq", Fl1("nxt", Z), O1), TRUEc}
FamSub == SubEq
          \cup {Qz(o, e) : o \in {"exists", "forall"}, e \in SubEq}
          \cup {Qz(o, Op2("and", e, f)) : o \in {"exists", "forall"}, e \in SubEq, f \in SubPhi}
          \cup {Qz(o, Op2("and", f, e)) : o \in {"exists", "forall"}, e \in SubEq, f \in SubPhi}

Cases == [f \in {"d1", "q1", "d2", "qe", "cap", "sub"} |->
            CASE f = "d1" -> FamD1 [] f = "q1" -> FamQ1 [] f = "d2" -> FamD2 [] f = "qe" -> FamQE
              [] f = "cap" -> FamCap [] f = "sub" -> FamSub]
Rows(f) == LET s == SetToSeq(Cases[f]) IN [i \in DOMAIN s |-> [fam |-> f, e |-> s[i]]]

ASSUME ndJsonSerialize(IOEnv.PROB, <<[P |-> Prob, keys |-> Keys]>>)
ASSUME ndJsonSerialize(IOEnv.OUT, Rows("d1") \o Rows("q1") \o Rows("d2") \o Rows("qe") \o Rows("cap") \o Rows("sub"))
ASSUME ndJsonSerialize(IOEnv.POOL, <<[B |-> SetToSeq(D1B \cup FamQ1), N |-> SetToSeq(D1N)]>>)
ASSUME PrintT(<<"EMITTED", Cardinality(FamD1), Cardinality(FamQ1), Cardinality(FamD2), Cardinality(FamQE),
                 Cardinality(FamCap), Cardinality(FamSub)>>)

\* ---------- big constants ----------
BC(q) == [op |-> "const", args |-> <<>>, name |-> "", q |-> q]
BF(f) == [op |-> "fluent", args |-> <<>>, name |-> f, q |-> QInt(0)]
BOp(o, as) == [op |-> o, args |-> as, name |-> "", q |-> QInt(0)]
P2x53 == NPow(<<2>>, 53)
P2x60 == NPow(<<2>>, 60)
P10x30 == NPow(<<10>>, 30)
P10x20 == NPow(<<10>>, 20)
BigQuick ==
  {QZ(ZNat(NAdd(P2x53, <<1>>))), QZ(ZNat(NAdd(P2x60, <<2>>))), QZ(ZNat(P10x30)), QInt(2), QInt(0 - 3),
   QZ(ZNeg(ZNat(NAdd(P2x60, <<2>>)))), QMk(ZNat(P10x20), <<3>>), QInt(0)}
BigThorough ==
  BigQuick \cup
  {QZ(ZNat(NSub(P2x53, <<1>>))), QZ(ZNat(NAdd(NPow(<<2>>, 59), <<1>>))), QZ(ZNat(NPow(<<10>>, 10))), QInt(3),
   QMk(ZNat(NAdd(P2x53, <<1>>)), <<2>>), QMk(ZInt(1), <<3>>), QMk(ZNeg(ZNat(P10x30)), <<7>>),
   QZ(ZNat(NAdd(NPow(<<2>>, 64), <<1>>)))}
BigKinds == {"plus", "minus", "times", "div", "le", "lt", "eq"}
FamBig2 == {BOp(o, <<BC(a), BC(b)>>) : o \in BigKinds, a \in BigOps, b \in BigOps}
FamBig3 == {BOp(o, <<BF("n"), BC(a), BC(b)>>) : o \in {"plus", "times"}, a \in BigOps, b \in BigOps}
           \cup {BOp(o, <<BC(a), BF("r"), BC(b)>>) : o \in {"plus", "times"}, a \in BigOps, b \in BigOps}
\* depth 2 (thorough): a folded big sub-term inside every node kind
FamBigD2 == IF Tier = "quick" THEN {}
            ELSE {BOp(o, <<BOp(i, <<BC(a), BC(b)>>), BC(c)>>) :
                     o \in BigKinds, i \in {"plus", "minus", "times", "div"}, a \in BigQuick, b \in BigQuick \ {QInt(0)},
                     c \in {QZ(ZNat(NAdd(P2x53, <<1>>))), QInt(2), QMk(ZNat(P10x20), <<3>>)}}
BigRows(S) == LET s == SetToSeq(S) IN [i \in DOMAIN s |-> [fam |-> "big", e |-> s[i]]]
ASSUME ndJsonSerialize(IOEnv.BIG, BigRows(FamBig2 \cup FamBig3 \cup FamBigD2))
ASSUME PrintT(<<"EMITTEDBIG", Cardinality(FamBig2), Cardinality(FamBig3), Cardinality(FamBigD2)>>)

VARIABLE dummy
Init == dummy = 0
Next == UNCHANGED dummy
=============================================================================
