---------------------------- MODULE UPStateSMEnum ----------------------------
(* G1 generator for C36: every well-formed call history of length L over the  *)
(* public calls of UPStateSM (uniform record shape), written as ndjson.       *)
(* Op records: op in new/child/hash/repr/eq/get; s, t states (creation order),*)
(* f fluent, u dictionary (vector over the fluents, 98 = key absent), lim     *)
(* (filled by the driver: MAX_ANCESTORS of the class of a user-created state),*)
(* w the states observed after the call (here: all states that exist).        *)
(* Histories are prefix-closed by construction (some call is always enabled), *)
(* and the driver observes after EVERY call, so only length L is emitted.     *)
EXTENDS Integers, Sequences, FiniteSets, TLC, Json, IOUtils, SequencesExt
CONSTANTS NF,        \* fluents 1..NF
          L,         \* number of calls
          MaxN,      \* at most MaxN states
          MaxRoots,  \* at most MaxRoots user-created states
          Roots,     \* dictionaries for user-created states
          Upds,      \* dictionaries for make_child
          Kinds,     \* subset of {"hash", "repr", "get", "eq"}: the condensing calls to interleave
          GetF       \* fluents read by interleaved get calls (those without default: a miss condenses)
F   == 1..NF
ABS == 98
Z   == [f \in F |-> ABS]
D(a, b, c) == <<a, b, c>>

\* three fluents: 1 has default 0, 2 has default 1, 3 has no default (cf. Def3 in MCUPStateSM)
RootsQ == {D(ABS, ABS, ABS), D(1, 1, 0)}
UpdsQ  == {D(ABS, ABS, ABS), D(1, ABS, ABS), D(0, ABS, ABS), D(ABS, 0, ABS), D(ABS, ABS, 1)}
RootsT == {D(ABS, ABS, ABS), D(1, 1, 0), D(0, 0, 1)}
UpdsT  == UpdsQ \cup {D(ABS, 1, ABS), D(1, 0, 0)}
RootsD == {D(ABS, ABS, ABS)}
UpdsD  == {D(1, ABS, ABS), D(0, ABS, 1), D(ABS, 0, ABS)}
KindsAll == {"hash", "repr", "get", "eq"}
KindsD   == {"hash", "get"}

Op(op, s, t, f, u) == [op |-> op, s |-> s, t |-> t, f |-> f, lim |-> 0, u |-> u, w |-> <<>>]
Created(h) == Cardinality({i \in DOMAIN h : h[i].op \in {"new", "child"}})
NRoots(h)  == Cardinality({i \in DOMAIN h : h[i].op = "new"})

OpsAfter(h) ==
   LET k == Created(h) IN
   (IF k < MaxN /\ NRoots(h) < MaxRoots THEN {Op("new", 0, 0, 0, d) : d \in Roots} ELSE {})
   \cup (IF k < MaxN THEN {Op("child", p, 0, 0, u) : p \in 1..k, u \in Upds} ELSE {})
   \cup (IF "hash" \in Kinds THEN {Op("hash", s, 0, 0, Z) : s \in 1..k} ELSE {})
   \cup (IF "repr" \in Kinds THEN {Op("repr", s, 0, 0, Z) : s \in 1..k} ELSE {})
   \cup (IF "get" \in Kinds THEN {Op("get", s, 0, f, Z) : s \in 1..k, f \in GetF} ELSE {})
   \cup (IF "eq" \in Kinds THEN {Op("eq", p[1], p[2], 0, Z) : p \in {q \in (1..k) \X (1..k) : q[1] < q[2]}} ELSE {})

RECURSIVE Hist(_)
Hist(k) == IF k = 1 THEN {<<Op("new", 0, 0, 0, d)>> : d \in Roots}
           ELSE UNION {{Append(h, o) : o \in OpsAfter(h)} : h \in Hist(k - 1)}

\* after call i every state created so far is observed
Fill(h) == [i \in DOMAIN h |-> [h[i] EXCEPT !.w = [j \in 1..Created(SubSeq(h, 1, i)) |-> j]]]
Histories == {Fill(h) : h \in Hist(L)}
ASSUME ndJsonSerialize(IOEnv.OUT, SetToSeq({[ops |-> h] : h \in Histories}))
ASSUME PrintT(<<"EMITTED", Cardinality(Histories)>>)
VARIABLE dummy
Init == dummy = 0
Next == UNCHANGED dummy
=============================================================================
