------------------------------- MODULE Linear -------------------------------
(***************************************************************************)
(* C17 -- what "linear", "positive fluent" and "negative fluent" MEAN.     *)
(*                                                                         *)
(* The analysis under test (LinearChecker.get_fluents) answers, for a      *)
(* numeric expression e of a problem P, a triple                           *)
(*      (is_linear, positive fluents, negative fluents).                   *)
(* This module gives the semantic reading of that answer by exhaustive     *)
(* evaluation (UPExpr!Eval, exact rationals) on the finite grid that the   *)
(* declared types of P span:                                               *)
(*   - every non-static numeric fluent ranges over its declared bounded    *)
(*     integer type;                                                       *)
(*   - a static fluent (written by no effect) only has its initial value   *)
(*     (the documented reason why LinearChecker takes the problem);        *)
(*   - every parameter of the action in whose scope e is written ranges    *)
(*     over its declared bounded integer type.                             *)
(* A grid point where e has no value (division by zero) carries no claim.  *)
(*                                                                         *)
(*   Monotone(P, e, x, dir, Grid)  e is non-decreasing ("up") /            *)
(*        non-increasing ("down") in fluent x, for all values of the other *)
(*        fluents and of the parameters;                                   *)
(*   Affine(P, e, Grid)  for every parameter valuation, e is an affine     *)
(*        function of the non-static fluents on the grid.                  *)
(*                                                                         *)
(* Affine is decided with second differences.  Lemma (integer boxes): a    *)
(* function f on a product of integer intervals is affine iff for all      *)
(* points p and all unit directions i, j (i = j included)                  *)
(*        f(p + ei + ej) - f(p + ei) - f(p + ej) + f(p) = 0                *)
(* whenever the four (three) points lie in the box: all first differences  *)
(* are then constant over the box, which is connected by unit steps.  With *)
(* undefined points the test is weaker, never stronger: a reported         *)
(* non-zero second difference always exhibits 3 or 4 defined points that   *)
(* no affine function interpolates.                                        *)
(***************************************************************************)
EXTENDS UPExpr

\* ---------- the problem context (nullary fluents only) ----------
Keys(P) == [i \in DOMAIN P.fluents |-> <<P.fluents[i].name, <<>>>>]
Ctx(P)  == [P |-> P, keys |-> Keys(P)]
ActNamed(P, a) == P.actions[CHOOSE i \in DOMAIN P.actions : P.actions[i].name = a]
FlIdx(P, x) == CHOOSE i \in DOMAIN P.fluents : P.fluents[i].name = x
FlNames(P) == {P.fluents[i].name : i \in DOMAIN P.fluents}

\* a fluent is static iff no effect of the problem writes it (instantaneous actions only)
Written(P) == UNION {{P.actions[i].effects[j].f.name : j \in DOMAIN P.actions[i].effects} : i \in DOMAIN P.actions}
IsStatic(P, i) == P.fluents[i].name \notin Written(P)
NonStatic(P) == {i \in DOMAIN P.fluents : ~IsStatic(P, i)}
InitOf(P, i) == LET es == {j \in DOMAIN P.init : P.init[j].f = P.fluents[i].name} IN
                IF es # {} THEN P.init[CHOOSE j \in es : TRUE].v ELSE P.fluents[i].default

\* ---------- the grid ----------
FlDom(P, i) == IF IsStatic(P, i) THEN {InitOf(P, i)} ELSE ValsOfType(P, P.fluents[i].type)
RECURSIVE StatesFrom(_, _)
StatesFrom(P, i) == IF i > Len(P.fluents) THEN {<<>>}
                    ELSE {<<v>> \o t : v \in FlDom(P, i), t \in StatesFrom(P, i + 1)}
\* a grid point: s = state vector aligned with Keys(P), env = parameter valuation
GridOf(P, scope) == {[s |-> s, env |-> en] : s \in StatesFrom(P, 1), en \in Envs(P, ActNamed(P, scope).params, <<>>)}

\* the value table of e on the grid (evaluated once)
ValTab(P, e, Grid) == LET R == Ctx(P) IN TLCEval([g \in Grid |-> Eval(R, e, g.s, g.env)])
DefinedOnGrid(V) == \A g \in DOMAIN V : ~IsU(V[g])
DefinedSomewhere(V) == \E g \in DOMAIN V : ~IsU(V[g])

\* ---------- monotonicity ----------
\* V = ValTab(P, e, Grid); i = index of the fluent; for all values of the others (g ranges over
\* the whole grid) and every larger value v of fluent i
MonotoneV(P, V, i, dir) ==
   \A g \in DOMAIN V : \A v \in FlDom(P, i) :
      RLt(g.s[i], v) =>
         LET h == [g EXCEPT !.s[i] = v]
             a == V[g]
             b == V[h]
         IN IsU(a) \/ IsU(b) \/ (IF dir = "up" THEN RLe(a, b) ELSE RLe(b, a))
Monotone(P, e, x, dir, Grid) == MonotoneV(P, ValTab(P, e, Grid), FlIdx(P, x), dir)
\* e takes two different values at two points that differ only in fluent i
DependsV(P, V, i) == ~(MonotoneV(P, V, i, "up") /\ MonotoneV(P, V, i, "down"))

\* ---------- affinity ----------
Shift(g, i) == [g EXCEPT !.s[i] = RAdd(@, ONE)]
AffineV(P, V) ==
   \A g \in DOMAIN V : \A i \in NonStatic(P) : \A j \in NonStatic(P) :
      i <= j =>
         LET gi  == Shift(g, i)
             gj  == Shift(g, j)
             gij == Shift(gi, j)
         IN (gi \in DOMAIN V /\ gj \in DOMAIN V /\ gij \in DOMAIN V
             /\ ~IsU(V[g]) /\ ~IsU(V[gi]) /\ ~IsU(V[gj]) /\ ~IsU(V[gij]))
            => RAdd(V[gij], V[g]) = RAdd(V[gi], V[gj])
Affine(P, e, Grid) == AffineV(P, ValTab(P, e, Grid))

\* ---------- the property: judging one answer of the analysis ----------
\* ans = [lin |-> BOOLEAN, pos |-> set of fluent names, neg |-> set of fluent names]
\* The set of violated clauses, each with the fluent it is about ("" for the affine clause):
\*   pos-only-not-nondecreasing   x reported only among the positive fluents, e not non-decreasing in x
\*   neg-only-not-nonincreasing   x reported only among the negative fluents, e not non-increasing in x
\*   absent-but-dependent         x reported in neither set although the value of e depends on x
\*                                (get_fluents documents the two sets as THE fluents appearing in e; the
\*                                kind computation treats an absent fluent as unconstrained)
\*   linear-not-affine            reported linear, but not affine in the fluents
Violations(P, V, ans) ==
   IF ~ans.lin THEN {}
   ELSE {<<"pos-only-not-nondecreasing", P.fluents[i].name>> :
             i \in {k \in NonStatic(P) : P.fluents[k].name \in ans.pos \ ans.neg /\ ~MonotoneV(P, V, k, "up")}}
        \cup {<<"neg-only-not-nonincreasing", P.fluents[i].name>> :
             i \in {k \in NonStatic(P) : P.fluents[k].name \in ans.neg \ ans.pos /\ ~MonotoneV(P, V, k, "down")}}
        \cup {<<"absent-but-dependent", P.fluents[i].name>> :
             i \in {k \in NonStatic(P) : P.fluents[k].name \notin ans.pos \cup ans.neg /\ DependsV(P, V, k)}}
        \cup (IF AffineV(P, V) THEN {} ELSE {<<"linear-not-affine", "">>})
Sound(P, e, Grid, ans) == Violations(P, ValTab(P, e, Grid), ans) = {}
=============================================================================
