------------------------------- MODULE Linear -------------------------------
(***************************************************************************)
(* C17 -- what "linear", "positive fluent" and "negative fluent" MEAN.     *)
(*                                                                         *)
(* The analysis under test (LinearChecker.get_fluents) answers, for a      *)
(* numeric expression e of a problem P, a triple                           *)
(*      (is_linear, positive fluents, negative fluents).                   *)
(* This module gives the semantic reading of that answer by exhaustive     *)
(* evaluation (UPExpr!Eval, exact rationals) on the finite grid that the   *)
(* declared types of P span:                                               *)
(*   - every non-static numeric fluent ranges over its declared bounded    *)
(*     integer type;                                                       *)
(*   - a static fluent (written by no effect) only has its initial value   *)
(*     (the documented reason why LinearChecker takes the problem);        *)
(*   - every parameter of the action in whose scope e is written ranges    *)
(*     over its declared bounded integer type.                             *)
(* A grid point where e has no value (division by zero) carries no claim.  *)
(*                                                                         *)
(*   Monotone(P, e, x, dir, Grid)  e is non-decreasing ("up") /            *)
(*        non-increasing ("down") in fluent x, for all values of the other *)
(*        fluents and of the parameters;                                   *)
(*   Affine(P, e, Grid)  for every parameter valuation, e is an affine     *)
(*        function of the non-static fluents on the grid.                  *)
(*                                                                         *)
(* Affine is decided with second differences.  Lemma (integer boxes): a    *)
(* function f on a product of integer intervals is affine iff for all      *)
(* points p and all unit directions i, j (i = j included)                  *)
(*        f(p + ei + ej) - f(p + ei) - f(p + ej) + f(p) = 0                *)
(* whenever the four (three) points lie in the box: all first differences  *)
(* are then constant over the box, which is connected by unit steps.  With *)
(* undefined points the test is weaker, never stronger: a reported         *)
(* non-zero second difference always exhibits 3 or 4 defined points that   *)
(* no affine function interpolates.                                        *)
(***************************************************************************)
EXTENDS UPExpr

\* ---------- the problem context (nullary fluents only) ----------
Keys(P) == [i \in DOMAIN P.fluents |-> <<P.fluents[i].name, <<>>>>]
Ctx(P)  == [P |-> P, keys |-> Keys(P)]
ActNamed(P, a) == P.actions[CHOOSE i \in DOMAIN P.actions : P.actions[i].name = a]
FlIdx(P, x) == CHOOSE i \in DOMAIN P.fluents : P.fluents[i].name = x
FlNames(P) == {P.fluents[i].name : i \in DOMAIN P.fluents}

\* a fluent is static iff no effect of the problem writes it (instantaneous actions only)
Written(P) == UNION {{P.actions[i].effects[j].f.name : j \in DOMAIN P.actions[i].effects} : i \in DOMAIN P.actions}
IsStatic(P, i) == P.fluents[i].name \notin Written(P)
NonStatic(P) == {i \in DOMAIN P.fluents : ~IsStatic(P, i)}
InitOf(P, i) == LET es == {j \in DOMAIN P.init : P.init[j].f = P.fluents[i].name} IN
                IF es # {} THEN P.init[CHOOSE j \in es : TRUE].v ELSE P.fluents[i].default

\* ---------- the grid ----------
FlDom(P, i) == IF IsStatic(P, i) THEN {InitOf(P, i)} ELSE ValsOfType(P, P.fluents[i].type)
RECURSIVE StatesFrom(_, _)
StatesFrom(P, i) == IF i > Len(P.fluents) THEN {<<>>}
                    ELSE {<<v>> \o t : v \in FlDom(P, i), t \in StatesFrom(P, i + 1)}
\* a grid point: s = state vector aligned with Keys(P), env = parameter valuation
Points(P, scope) == {[s |-> s, env |-> en] : s \in StatesFrom(P, 1), en \in Envs(P, ActNamed(P, scope).params, <<>>)}
RECURSIVE SetToSeqL(_)
SetToSeqL(S) == IF S = {} THEN <<>> ELSE LET x == CHOOSE x \in S : TRUE IN <<x>> \o SetToSeqL(S \ {x})
\* g and h give the same value to every parameter and to every fluent but i
SameBut(g, h, i) == g.env = h.env /\ \A j \in DOMAIN g.s : j # i => g.s[j] = h.s[j]
\* The grid with its neighbourhood tables (computed once per problem; points are numbered so
\* that value tables are plain sequences):
\*   pts       the points, in some order
\*   ns        the indices of the non-static fluents
\*   above[i][k]  the points that differ from point k only in fluent i, where they have a LARGER value
\*   succ[i][k]   the point that differs from point k only in fluent i, with value + 1 (0: none)
GridOf(P, scope) ==
   LET pts == TLCEval(SetToSeqL(Points(P, scope)))
       N == Len(pts)
       ns == NonStatic(P)
   IN [pts |-> pts, ns |-> ns,
       above |-> TLCEval([i \in ns |-> [k \in 1..N |->
                    {h \in 1..N : SameBut(pts[k], pts[h], i) /\ RLt(pts[k].s[i], pts[h].s[i])}]]),
       succ |-> TLCEval([i \in ns |-> [k \in 1..N |->
                    LET hs == {h \in 1..N : SameBut(pts[k], pts[h], i) /\ pts[h].s[i] = RAdd(pts[k].s[i], ONE)}
                    IN IF hs = {} THEN 0 ELSE CHOOSE h \in hs : TRUE]])]

\* the value table of e on the grid (evaluated once): V[k] = value of e at point k
ValTab(P, e, Grid) == LET R == Ctx(P) IN
   TLCEval([k \in 1..Len(Grid.pts) |-> Eval(R, e, Grid.pts[k].s, Grid.pts[k].env)])
DefinedOnGrid(V) == \A k \in DOMAIN V : ~IsU(V[k])
DefinedSomewhere(V) == \E k \in DOMAIN V : ~IsU(V[k])

\* ---------- monotonicity ----------
\* V = ValTab(P, e, Grid); i = index of the fluent.  For all values of the others (k ranges over
\* the whole grid) and every larger value of fluent i:
MonotoneV(Grid, V, i, dir) ==
   \A k \in DOMAIN V : \A h \in Grid.above[i][k] :
      IsU(V[k]) \/ IsU(V[h]) \/ (IF dir = "up" THEN RLe(V[k], V[h]) ELSE RLe(V[h], V[k]))
Monotone(P, e, x, dir, Grid) == MonotoneV(Grid, ValTab(P, e, Grid), FlIdx(P, x), dir)
\* e takes two different values at two points that differ only in fluent i
DependsV(Grid, V, i) == ~(MonotoneV(Grid, V, i, "up") /\ MonotoneV(Grid, V, i, "down"))

\* ---------- affinity ----------
AffineV(Grid, V) ==
   \A k \in DOMAIN V : \A i \in Grid.ns : \A j \in Grid.ns :
      i <= j =>
         LET ki  == Grid.succ[i][k]
             kj  == Grid.succ[j][k]
             kij == IF ki = 0 THEN 0 ELSE Grid.succ[j][ki]
         IN (ki # 0 /\ kj # 0 /\ kij # 0 /\ ~IsU(V[k]) /\ ~IsU(V[ki]) /\ ~IsU(V[kj]) /\ ~IsU(V[kij]))
            => RAdd(V[kij], V[k]) = RAdd(V[ki], V[kj])
Affine(P, e, Grid) == AffineV(Grid, ValTab(P, e, Grid))

\* ---------- the property: judging one answer of the analysis ----------
\* ans = [lin |-> BOOLEAN, pos |-> set of fluent names, neg |-> set of fluent names]
\* The set of violated clauses, each with the fluent it is about ("" for the affine clause):
\*   pos-only-not-nondecreasing   x reported only among the positive fluents, e not non-decreasing in x
\*   neg-only-not-nonincreasing   x reported only among the negative fluents, e not non-increasing in x
\*   absent-but-dependent         x reported in neither set although the value of e depends on x
\*                                (get_fluents documents the two sets as THE fluents appearing in e; the
\*                                kind computation treats an absent fluent as unconstrained)
\*   linear-not-affine            reported linear, but not affine in the fluents
Violations(P, Grid, V, ans) ==
   IF ~ans.lin THEN {}
   ELSE {<<"pos-only-not-nondecreasing", P.fluents[i].name>> :
             i \in {k \in Grid.ns : P.fluents[k].name \in ans.pos \ ans.neg /\ ~MonotoneV(Grid, V, k, "up")}}
        \cup {<<"neg-only-not-nonincreasing", P.fluents[i].name>> :
             i \in {k \in Grid.ns : P.fluents[k].name \in ans.neg \ ans.pos /\ ~MonotoneV(Grid, V, k, "down")}}
        \cup {<<"absent-but-dependent", P.fluents[i].name>> :
             i \in {k \in Grid.ns : P.fluents[k].name \notin ans.pos \cup ans.neg /\ DependsV(Grid, V, k)}}
        \cup (IF AffineV(Grid, V) THEN {} ELSE {<<"linear-not-affine", "">>})
Sound(P, e, Grid, ans) == Violations(P, Grid, ValTab(P, e, Grid), ans) = {}
=============================================================================
