------------------------- MODULE EffectConflictsTrace -------------------------
(* Trace validation for C24.  Every recorded call history of a real            *)
(* InstantaneousAction / DurativeAction / Problem is replayed through          *)
(* EffectConflicts!Call; after every call the recorded observations            *)
(*   r   0 = returned, 1 = UPConflictingEffectsException, 2 = another exception *)
(*   st  per time point, the stored effects (indices into the call table)      *)
(*   sm  per time point, the simulated effect set there (0 = none)             *)
(*   pr  probe answers <<candidate index, r>>: the candidate call tried on a   *)
(*       copy of the container (may be <<>> when the step was not probed);     *)
(*       candidates: the probe calls at the time points 1..nt of the trace     *)
(* are compared with the primed state of both layers.  Verdicts are total: at  *)
(* most one failure per class is remembered in `bad` and printed when the      *)
(* trace is consumed.  Classes:                                                *)
(*   "S" the property (Spec layer, ConflictSpec; the literal "a rejected call  *)
(*       changes no observation" clause compares consecutive records only),    *)
(*   "O" order independence of the whole history (recorded data vs Conflicts), *)
(*   "I" conformance of the code to the Impl layer with the configured         *)
(*       Repaired flag (used to decide which T1 configuration speaks for the   *)
(*       code; not a property verdict by itself),                              *)
(*   "M" malformed record (machinery).                                         *)
(* After the first failure of a class the layer and the object have diverged,  *)
(* so later failures of that class are consequences and are not reported.      *)
EXTENDS EffectConflicts, Json, IOUtils

Traces  == ndJsonDeserialize(IOEnv.TRACES)
TableIn == ndJsonDeserialize(IOEnv.TABLE)

\* the driver built its calls from the same table this module computes
ASSUME TableOK ==
   /\ Len(TableIn) = NU
   /\ \A i \in 1..NU : LET r == TableIn[i] IN r.idx = i /\ Op(r.k, r.fl, r.v, r.c, r.s, r.t) = Universe[i]

VARIABLES tid, l, bad
tvars == <<vars, tid, l, bad>>

\* probe candidates of a container in a history that uses the time points 1..nt
\* (TLCEval: tabulate once; lazily built functions are re-evaluated on every application)
ProbeIdxTab == TLCEval([cn \in Containers |-> [n \in Tm |->
                  {i \in 1..NU : Universe[i] \in ProbeSet /\ Supports(cn, Universe[i]) /\ Universe[i].t <= n}]])
ProbeIdx(cn, n) == ProbeIdxTab[cn][n]
ProbeCount == TLCEval([cn \in Containers |-> [n \in Tm |-> Cardinality(ProbeIdxTab[cn][n])]])

Touch(c) == IF IsSim(c) THEN SimFl(c.s) ELSE {c.fl}
\* P: a state of the layers as a record.  Feature of a set of mismatching calls: all of them touch
\* a fluent that the Impl layer holds in incdec without a stored increase/decrease justifying it
LeakedIn(P, t) == P.incdec[t] \ IncDecOf(P.eff[t])
Feat(cs, P) == IF cs # {} /\ \A c \in cs : Touch(c) \cap LeakedIn(P, c.t) # {} THEN "leaked-incdec" ELSE "other"

\* ---- shape of one observation record -------------------------------------------------
ShapeOK(o, cn, n) ==
   /\ Len(o.st) = NT /\ Len(o.sm) = NT
   /\ \A t \in Tm : \A j \in DOMAIN o.st[t] : o.st[t][j] \in 0..NU    \* 0 = an effect that is not in the table
   /\ o.r \in {0, 1, 2}
   /\ o.pr # <<>> => /\ Len(o.pr) = ProbeCount[cn][n]
                     /\ {o.pr[j][1] : j \in DOMAIN o.pr} = ProbeIdx(cn, n)
                     /\ \A j \in DOMAIN o.pr : o.pr[j][2] \in {0, 1, 2}
StoredOps(ix) == [j \in DOMAIN ix |-> IF ix[j] = 0 THEN NoOp ELSE Universe[ix[j]]]

\* ---- class S: the property ------------------------------------------------------------
SpecProbeBad(o, P) ==
   {Universe[o.pr[j][1]] : j \in {j \in DOMAIN o.pr :
        LET c == Universe[o.pr[j][1]] IN
        o.pr[j][2] = 2 \/ ((o.pr[j][2] = 1) # SpecRaise(c, P.seff[c.t], P.ssim[c.t]))}}
ChangedProbes(o, prev) ==
   {Universe[o.pr[j][1]] : j \in {j \in DOMAIN o.pr : o.pr[j] # prev.pr[j]}}

\* x: the call, o: its record, prev: the previous record, Q / P: layers before / after the call.
\* Result: <<>> or <<"S", clause, feature>>
ClauseS(x, o, prev, Q, P) ==
   IF o.r = 2 THEN <<"S", "exception-class", "other">>
   ELSE IF (o.r = 1) # P.last.spec THEN <<"S", "spec-raise", Feat({x}, Q)>>
   ELSE IF \E t \in Tm : StoredOps(o.st[t]) # P.seff[t] THEN <<"S", "spec-stored", "other">>
   ELSE IF \E t \in Tm : o.sm[t] # P.ssim[t] THEN <<"S", "spec-sim", "other">>
   ELSE IF o.r # 0 /\ (o.st # prev.st \/ o.sm # prev.sm) THEN <<"S", "reject-unchanged", "stored-changed">>
   ELSE IF o.r # 0 /\ o.pr # <<>> /\ prev.pr # <<>> /\ o.pr # prev.pr
        THEN <<"S", "reject-unchanged", Feat(ChangedProbes(o, prev), P)>>
   ELSE IF \E j \in DOMAIN o.pr : o.pr[j][2] = 2 THEN <<"S", "exception-class", "probe">>
   ELSE LET m == SpecProbeBad(o, P) IN
        IF m # {} THEN <<"S", "spec-probe", Feat(m, P)>> ELSE <<>>

\* ---- class I: conformance to the Impl layer -------------------------------------------
ImplProbeBad(o, P) ==
   \E j \in DOMAIN o.pr : LET c == Universe[o.pr[j][1]] IN
        (o.pr[j][2] = 1) # ImplCheck(c, P.assigned[c.t], P.incdec[c.t], P.sim[c.t]).raise
ClauseI(x, o, P) ==
   IF (o.r = 1) # P.last.raised THEN <<"I", "impl-raise", "other">>
   ELSE IF \E t \in Tm : StoredOps(o.st[t]) # P.eff[t] THEN <<"I", "impl-stored", "other">>
   ELSE IF \E t \in Tm : o.sm[t] # P.sim[t] THEN <<"I", "impl-sim", "other">>
   ELSE IF ImplProbeBad(o, P) THEN <<"I", "impl-probe", "other">>
   ELSE <<>>

\* ---- class O: order independence of the recorded history ------------------------------
OpsAt(tr, t) == {Universe[tr.ops[j].i] : j \in {j \in DOMAIN tr.ops : Universe[tr.ops[j].i].t = t}}
RaisedAt(tr, t) == \E j \in DOMAIN tr.ops : Universe[tr.ops[j].i].t = t /\ tr.ops[j].r = 1
ClauseO(tr) ==
   IF \E t \in Tm : OneSim(OpsAt(tr, t)) /\ (RaisedAt(tr, t) # Conflicts(OpsAt(tr, t)))
   THEN <<"O", "order-free", "other">> ELSE <<>>

\* ---- bookkeeping of verdicts ----------------------------------------------------------
Has(b, cls) == \E j \in DOMAIN b : b[j][1] = cls
AddBad(b, v, step) == IF v = <<>> \/ Has(b, v[1]) THEN b ELSE Append(b, <<v[1], v[2], step, v[3]>>)

InitP == TLCEval([eff |-> [t \in Tm |-> <<>>], assigned |-> [t \in Tm |-> [x \in Fl |-> NoVal]],
          incdec |-> [t \in Tm |-> {}], sim |-> [t \in Tm |-> 0],
          seff |-> [t \in Tm |-> <<>>], ssim |-> [t \in Tm |-> 0],
          last |-> [op |-> NoOp, raised |-> FALSE, why |-> "none", spec |-> FALSE]])
NoRec == [r |-> 0, st |-> <<>>, sm |-> <<>>, pr |-> <<>>]

\* the fresh container: nothing stored, no candidate is rejected
InitBad(tr) ==
   LET o == [r |-> 0, st |-> tr.init.st, sm |-> tr.init.sm, pr |-> tr.init.pr] IN
   IF tr.nt \notin Tm \/ ~ShapeOK(o, tr.c, tr.nt) THEN <<<<"M", "shape", 0, "other">>>>
   ELSE AddBad(AddBad(<<>>, ClauseS(NoOp, o, o, InitP, InitP), 0), ClauseI(NoOp, o, InitP), 0)

TraceInit == /\ tid \in DOMAIN Traces /\ l = 1 /\ Init
             /\ bad = InitBad(Traces[tid])

TraceNext ==
   /\ l <= Len(Traces[tid].ops)
   /\ LET tr == Traces[tid]
          o  == tr.ops[l]
          x  == Universe[o.i]
          prev == IF l = 1 THEN [r |-> 0, st |-> tr.init.st, sm |-> tr.init.sm, pr |-> tr.init.pr] ELSE tr.ops[l - 1]
          Q  == [eff |-> eff, assigned |-> assigned, incdec |-> incdec, sim |-> sim,
                 seff |-> seff, ssim |-> ssim, last |-> last]
      IN /\ Call(x)
         /\ bad' = LET P == [eff |-> eff', assigned |-> assigned', incdec |-> incdec', sim |-> sim',
                             seff |-> seff', ssim |-> ssim', last |-> last']
                   IN IF ~Supports(tr.c, x) THEN AddBad(bad, <<"M", "unsupported-call", "other">>, l)
                      ELSE IF ~ShapeOK(o, tr.c, tr.nt) \/ x.t > tr.nt THEN AddBad(bad, <<"M", "shape", "other">>, l)
                      ELSE LET b1 == AddBad(bad, ClauseS(x, o, prev, Q, P), l)
                               b2 == AddBad(b1, ClauseI(x, o, P), l)
                           IN IF l = Len(tr.ops) THEN AddBad(b2, ClauseO(tr), l) ELSE b2
   /\ l' = l + 1 /\ tid' = tid
TraceSpec == TraceInit /\ [][TraceNext]_tvars

Done == l > Len(Traces[tid].ops)
\* total verdict: never fails for machinery reasons, prints every remembered failure (one short
\* tuple per failure: TLC wraps long values over several lines)
Verdict == (Done /\ bad # <<>>) =>
              \A j \in DOMAIN bad : PrintT(<<"FAIL", Traces[tid].id, bad[j][1], bad[j][2], bad[j][3], bad[j][4]>>)
=============================================================================
