---------------------------- MODULE FactoryJudge ----------------------------
(***************************************************************************)
(* Judge for C32.  IOEnv.BATCHES: one record per batch = one fresh          *)
(* Environment's factory with its registry as READ from the real classes:  *)
(*   id                                                                    *)
(*   nf        number of universe features (feature ids 1..nf; further ids  *)
(*             are the remaining features of the library)                  *)
(*   engines   sequence (engine id = position) of                          *)
(*             [name, modes, feats, plans, comps, opt, any, sup]           *)
(*             sup = masks m over the universe for which the class's own   *)
(*             supports(kind m) answered True (assumption check only)      *)
(*   prefs     sequence of preference lists (sequences of engine ids) the  *)
(*             driver installed with factory.preference_list = ...         *)
(*   qm        ids of the features of the QUALITY_METRICS group             *)
(*   rk        groups [e, ck, rows]: rows[j] = [in, out |-> [k, f, x]] is    *)
(*             what the real resulting_problem_kind of engine e returned   *)
(*             (out.k = "kind") or raised (out.k = "exc") for kind `in`    *)
(*   reqs      sequence of requests                                        *)
(*             [mode, f, ck, pk, og, ag, cks, call, p, obs, all]           *)
(*             p    index into prefs                                       *)
(*             obs  what the mode's entry point did:                       *)
(*                  [k |-> "engine", n |-> ids of the returned class]      *)
(*                  [k |-> "pipeline", st |-> ids per stage]               *)
(*                  [k |-> "exc", x |-> exception class]                   *)
(*                  [k |-> "timeout"]  [k |-> "skip"] (not called)         *)
(*             all  what get_all_applicable_engines did:                   *)
(*                  [k |-> "names", n |-> ids]  "exc" / "timeout" / "skip" *)
(*                                                                         *)
(* One TLC state per request; Verdict is always TRUE and prints            *)
(*   <<"FAIL", batch id, request number, clause, stage, exception class>>  *)
(*   <<"ASSUME", batch id, engine id>>   supports() is not feature         *)
(*                                        inclusion for this class         *)
(*   <<"STATS", batch id, decisive clauses, outcomes>>  (vacuity evidence)  *)
(***************************************************************************)
EXTENDS Factory, Json, IOUtils

Batches == ndJsonDeserialize(IOEnv.BATCHES)

EngRec(e) == [modes |-> Range(e.modes), feats |-> Range(e.feats), plans |-> Range(e.plans),
              comps |-> Range(e.comps), opt |-> Range(e.opt), any |-> Range(e.any)]
\* per batch: the registry, the resulting-kind table and the preference lists in Factory's shapes.
\* (Constant-level definitions, evaluated once: the bound names must differ from the variables.)
Regs == TLCEval([bb \in DOMAIN Batches |-> [e \in DOMAIN Batches[bb].engines |-> EngRec(Batches[bb].engines[e])]])
RKOf(groups) == [kk \in {<<groups[j].e, groups[j].ck>> : j \in DOMAIN groups} |->
                   LET g == groups[CHOOSE j \in DOMAIN groups : <<groups[j].e, groups[j].ck>> = kk]
                   IN [j \in DOMAIN g.rows |->
                         [in |-> Range(g.rows[j].in),
                          out |-> [k |-> g.rows[j].out.k, f |-> Range(g.rows[j].out.f), x |-> g.rows[j].out.x]]]]
RKs == TLCEval([bb \in DOMAIN Batches |-> RKOf(Batches[bb].rk)])
Prefs == TLCEval([bb \in DOMAIN Batches |-> Batches[bb].prefs])

VARIABLES b, i
jvars == <<b, i>>
JInit == b \in DOMAIN Batches /\ i = 0
JNext == i = 0 /\ i' \in 1..Len(Batches[b].reqs) /\ b' = b
JudgeSpec == JInit /\ [][JNext]_jvars

ReqOf(q) == Req(q.mode, Range(q.f), q.ck, q.pk, q.og, q.ag)
NoSuitable == "UPNoSuitableEngineAvailableException"

\* Two defects of the pinned tree are recognised by name, so that only these (and not any other
\* unexpected exception) can be listed as known findings:
\*  - _get_engine_class builds its error report while scanning: for an engine that implements the
\*    mode but does not qualify it asserts issubclass(EngineClass, OneshotPlannerMixin) whenever an
\*    optimality guarantee is requested -- false for replanners, plan repairers, portfolio selectors.
\*    The assertion is reached iff such an engine precedes the first qualifying one.
\*  - _get_engine refuses Replanner(problem, SOLVED_OPTIMALLY) with UPUsageError when the problem
\*    HAS a quality metric (inverted test), after an engine was selected.
ErrorReportAsserts(reg, prefs, r) ==
   /\ r.og # None
   /\ \E n \in DOMAIN prefs :
         /\ \A j \in 1..n : ~Qualifies(reg[prefs[j]], r)
         /\ r.mode \in reg[prefs[n]].modes
         /\ "oneshot_planner" \notin reg[prefs[n]].modes

\* <<clause, stage, exception class>> of the mode entry point's answer (clause "" = accepted)
ObsClause(reg, prefs, rk, qm, q) ==
   LET o == q.obs IN
   IF o.k = "skip" THEN <<"", 0, "">>
   ELSE IF o.k = "timeout" THEN <<"no-answer-within-time-limit", 0, "">>
   ELSE IF q.call = "pipe" THEN
      LET cks == q.cks
          want == Pipe(reg, prefs, rk, Range(q.f), cks)
      IN IF o.k = "pipeline" THEN
            LET c == PipelineClause(reg, prefs, cks, want, [j \in DOMAIN o.st |-> Range(o.st[j])])
            IN <<c[1], c[2], IF want.k = "rk-raises" THEN want.x ELSE "">>
         ELSE IF o.k = "exc" /\ o.x = NoSuitable THEN
            LET c == PipelineNoSuitableClause(want) IN <<c[1], c[2], IF want.k = "rk-raises" THEN want.x ELSE "">>
         ELSE IF o.k = "exc" THEN
            (IF want.k = "rk-raises" THEN <<"pipeline-resulting-kind-raises", want.at, want.x>>
             ELSE <<"unexpected-exception", 0, o.x>>)
         ELSE <<"pipeline-not-returned", 0, "">>
   ELSE
      LET r == ReqOf(q)
          want == Select(reg, prefs, r)
      IN IF o.k = "engine" THEN <<EngineClause(reg, prefs, r, want, Range(o.n)), 0, "">>
         ELSE IF o.k = "exc" /\ o.x = NoSuitable THEN <<NoSuitableClause(want), 0, "">>
         ELSE IF o.k = "exc" /\ o.x = "AssertionError" /\ ErrorReportAsserts(reg, prefs, r)
              THEN <<"error-report-asserts-oneshot-planner", 0, o.x>>
         ELSE IF o.k = "exc" /\ o.x = "UPUsageError" /\ want # NoEngine /\ q.mode = "replanner"
                 /\ q.og = "SOLVED_OPTIMALLY" /\ Range(q.f) \cap qm # {}
              THEN <<"replanner-optimal-refused-although-problem-has-metric", 0, o.x>>
         \* the factory explicitly refuses an optimal Replanner for a problem WITHOUT quality metric
         \* ("The problem has no quality metrics but the engine is required to be optimal!"): the
         \* property statement is silent about this request; it is not judged
         ELSE IF o.k = "exc" /\ o.x = "UPUsageError" /\ q.mode = "replanner"
                 /\ q.og = "SOLVED_OPTIMALLY" /\ Range(q.f) \cap qm = {}
              THEN <<"", 0, "">>
         ELSE IF o.k = "exc" THEN <<"unexpected-exception", 0, o.x>>
         ELSE <<"unexpected-answer", 0, o.k>>

\* the same for get_all_applicable_engines
AllObsClause(reg, prefs, q) ==
   LET o == q.all IN
   IF o.k = "skip" THEN <<"", 0, "">>
   ELSE IF o.k = "timeout" THEN <<"all-applicable-no-answer-within-time-limit", 0, "">>
   ELSE IF o.k = "exc" THEN <<"all-applicable-raises", 0, o.x>>
   ELSE <<AllClause(reg, prefs, ReqOf(q), Range(o.n)), 0, "">>

Report(id, n, c) == c[1] = "" \/ PrintT(<<"FAIL", id, n, c[1], c[2], c[3]>>)

\* assumption: for kinds of the latest version without deprecated features the class's own
\* supports() is inclusion of the kind's features in supported_kind().features
Bit(m, j) == (m \div (2 ^ (j - 1))) % 2 = 1
AssumeOK(B, reg) ==
   \A e \in DOMAIN reg :
      LET S == Range(B.engines[e].sup)
          FU == reg[e].feats \cap (1..B.nf)
      IN \/ /\ Cardinality(S) = 2 ^ Cardinality(FU)      \* as many kinds as FU has subsets ...
            /\ \A m \in S : \A j \in 1..B.nf : Bit(m, j) => j \in FU     \* ... and each one is a subset
         \/ PrintT(<<"ASSUME", B.id, e>>)

\* vacuity evidence over the requests of the batch's first preference list: which clauses of
\* Qualifies excluded an engine that implements the requested mode (or "mode" itself), and
\* which outcomes the specification demands
Stats(B, reg, prefs, rk) ==
   LET qs == {n \in DOMAIN B.reqs : B.reqs[n].p = 1}
       single == {n \in qs : B.reqs[n].call # "pipe"}
       pipes == qs \ single
       lacks == UNION {{Lacks(reg[prefs[1][j]], ReqOf(B.reqs[n])) : j \in DOMAIN prefs[1]} : n \in single}
       outs == {IF Select(reg, prefs[1], ReqOf(B.reqs[n])) = NoEngine THEN "none" ELSE "engine" : n \in single}
               \cup {"pipe-" \o Pipe(reg, prefs[1], rk, Range(B.reqs[n].f), B.reqs[n].cks).k : n \in pipes}
               \* pipelines of three and more stages (the kind reaching a stage is no longer what the
               \* previous compiler makes of the REQUESTED kind): a whole pipeline is demanded / the
               \* chain breaks at the third stage or later
               \cup {LET w == Pipe(reg, prefs[1], rk, Range(B.reqs[n].f), B.reqs[n].cks)
                     IN IF w.k = "none" /\ w.at >= 3 THEN "long-none-at-late-stage" ELSE "long-" \o w.k
                     : n \in {p \in pipes : Len(B.reqs[p].cks) >= 3}}
   IN PrintT(<<"STATS", B.id, lacks, outs>>)

Verdict ==
   LET B == Batches[b] IN
   IF i = 0 THEN AssumeOK(B, Regs[b]) /\ (B.stats => Stats(B, Regs[b], Prefs[b], RKs[b]))
   ELSE LET q == B.reqs[i]
            pl == Prefs[b][q.p]
        IN /\ Report(B.id, i, ObsClause(Regs[b], pl, RKs[b], Range(B.qm), q))
           /\ Report(B.id, i, AllObsClause(Regs[b], pl, q))
=============================================================================
