-------------------------- MODULE NormalFormsJudge --------------------------
(***************************************************************************)
(* C12 judge.  Reads what the real Nnf / Dnf classes returned and judges   *)
(* it with the declarative layer of NormalForms.                           *)
(*                                                                         *)
(* IOEnv.CTX : one record [P, keys, atoms]: the problem as projected from   *)
(*             the real Problem object, its ground fluents, and the table   *)
(*             of atoms (full UPExpr records) the skeletons refer to        *)
(* IOEnv.OBS : one record per case                                          *)
(*    id, fam, c   the case (family and code of NormalFormsEnum)            *)
(*    e            the expression as enumerated (skeleton over atoms)       *)
(*    ein          the projection of the FNode built from e (the object the *)
(*                 library was actually given)                              *)
(*    nnf, dnf     [st, exc, out]: st = "ok" (out = projection of the       *)
(*                 result), "exc" (exc = exception class) or "timeout"      *)
(*                                                                         *)
(* Clauses (first violated one per conversion is reported):                 *)
(*    input-build        ein is not equivalent to e (or could not be built) *)
(*    nnf-raises / dnf-raises / nnf-timeout / dnf-timeout                   *)
(*    nnf-shape          the NNF result is not IsNNF                        *)
(*    nnf-equiv          the NNF result is not Equiv to the input           *)
(*    dnf-shape          the DNF result is not IsDNF                        *)
(*    dnf-equiv          the DNF result is not Equiv to the input           *)
(* together with an input feature computed here: "valid-product-term" when  *)
(* some conjunction of the input's NNF has a product term made of valid     *)
(* literals only (NormalForms!HasValidProductTerm), else "plain".           *)
(* Verdicts are total: Verdict is always TRUE and prints                    *)
(*    <<"FAIL", id, clause, detail, feature>>                               *)
(***************************************************************************)
EXTENDS NormalForms, Json, IOUtils, SequencesExt

Obs == ndJsonDeserialize(IOEnv.OBS)
CtxRec == ndJsonDeserialize(IOEnv.CTX)[1]
R == [P |-> CtxRec.P, keys |-> CtxRec.keys]
A == CtxRec.atoms
SS == TLCEval(SetToSeq(States(R)))
N == DOMAIN SS
\* truth table and Boolean-ness of every atom of the table, by UPExpr!Eval
T == TLCEval(AtomTT(R, A, SS))
B == TLCEval(AtomBool(R, A, SS))
Count == Len(Obs)

\* one state per observation, below NB block states (m = 0 root, m = -k block k, m > 0 record m)
VARIABLE m
NB == IF Count < 64 THEN Count ELSE 64
Init == m = 0
Next == \/ m = 0 /\ m' \in {0 - k : k \in 1..NB}
        \/ m < 0 /\ m' \in {(0 - m) + NB * j : j \in 0..((Count + m) \div NB)}
Spec == Init /\ [][Next]_m

\* well-formed skeleton over the table whose atoms all have a Boolean value in every state
RECURSIVE Good(_)
Good(sk) == /\ Len(sk) >= 2 /\ sk[1] \in 0..5
            /\ IF sk[1] = 0 THEN Len(sk) = 2 /\ sk[2] \in DOMAIN A /\ IsAtom(A[sk[2]]) /\ B[sk[2]]
               ELSE /\ (sk[1] = 1 => Len(sk) = 2) /\ (sk[1] \in {4, 5} => Len(sk) = 3)
                    /\ \A i \in Kids(sk) : Good(sk[i])

\* clause violated by one conversion result r against the truth table mi of the input (<<"", "">> if none)
ConvClause(tag, r, mi, shapeOK(_)) ==
   IF r.st = "timeout" THEN <<tag \o "-timeout", "">>
   ELSE IF r.st # "ok" THEN <<tag \o "-raises", r.exc>>
   ELSE IF ~SkOK(A, r.out) THEN <<tag \o "-shape", "malformed">>
   ELSE IF ~shapeOK(r.out) THEN <<tag \o "-shape", "">>
   ELSE IF ~BoolEverywhere(B, r.out) THEN <<tag \o "-equiv", "not-boolean">>
   ELSE LET mo == TT(T, N, r.out)
        IN IF mi = mo THEN <<"", "">>
           ELSE <<tag \o "-equiv", IF mo \subseteq mi THEN "loses-models"
                                    ELSE IF mi \subseteq mo THEN "gains-models" ELSE "differs">>

Feature(ein) == IF HasValidProductTerm(T, N, MNnf(ein, TRUE)) THEN "valid-product-term" ELSE "plain"

Report(o, c, f) == c[1] = "" \/ PrintT(<<"FAIL", o.id, c[1], c[2], f>>)

Verdict ==
   m > 0 =>
      LET o == Obs[m] IN
      IF ~Good(o.e) THEN PrintT(<<"FAIL", o.id, "machinery-bad-case", "", "">>)
      ELSE IF o.built # "ok" THEN PrintT(<<"FAIL", o.id, "input-build", o.built, "">>)
      ELSE IF ~SkOK(A, o.ein) THEN PrintT(<<"FAIL", o.id, "input-build", "malformed", "">>)
      ELSE LET mi == TT(T, N, o.ein) IN
           IF ~SkEq(o.ein, o.e) /\ (~Good(o.ein) \/ TT(T, N, o.e) # mi)
           THEN PrintT(<<"FAIL", o.id, "input-build", "not-equivalent", "">>)
           ELSE LET f == Feature(o.ein) IN
                /\ Report(o, ConvClause("nnf", o.nnf, mi, IsNNF), f)
                /\ Report(o, ConvClause("dnf", o.dnf, mi, IsDNF), f)
                /\ (f = "plain" \/ PrintT(<<"FEATURE", o.id, f>>))

\* the context the judge evaluates in (printed once, for the evidence)
ASSUME PrintT(<<"CONTEXT", Count, Len(SS), Len(A)>>)
=============================================================================
