---------------------------- MODULE DagWalkerMenu ----------------------------
(* Data shared by the C14 generator (DagWalkerEnum), the judge (DagWalkerTrace) and the *)
(* concrete design checks (MCDagWalker): the vocabulary, the expression DAG table, the  *)
(* substitution maps, and the walkers an Environment shares between calls.             *)
(* Python rebuilds every expression from these tables in each Environment.             *)
EXTENDS Integers, Sequences

\* ---- vocabulary -------------------------------------------------------------------------
Sy(kind, name, ty, bounded, lo, hi, arg) ==
   [kind |-> kind, name |-> name, ty |-> ty, bounded |-> bounded, lo |-> lo, hi |-> hi, arg |-> arg]
Syms == <<
   Sy("fluent",   "x", "int",  TRUE,  0, 10, ""),     \* x : int[0, 10]
   Sy("fluent",   "y", "int",  TRUE,  0, 10, ""),     \* y : int[0, 10]
   Sy("fluent",   "u", "int",  FALSE, 0, 0,  ""),     \* u : int (unbounded)
   Sy("fluent",   "b", "bool", FALSE, 0, 0,  ""),     \* b : bool
   Sy("fluent",   "p", "bool", FALSE, 0, 0,  "T"),    \* p(T) : bool
   Sy("object",   "o1", "T",   FALSE, 0, 0,  ""),
   Sy("object",   "o2", "T",   FALSE, 0, 0,  ""),
   Sy("variable", "v", "T",    FALSE, 0, 0,  ""),
   Sy("ifun",     "g", "int",  FALSE, 0, 0,  "int")   \* g(a) = 10 // a : raises on 0
>>

\* ---- expression DAG: node i refers to earlier nodes only ---------------------------------
N(op, name, val, kids) == [op |-> op, name |-> name, val |-> val, kids |-> kids]
Tab == <<
   N("fl",     "x", 0, <<>>),        \*  1  x
   N("fl",     "y", 0, <<>>),        \*  2  y
   N("fl",     "u", 0, <<>>),        \*  3  u
   N("fl",     "b", 0, <<>>),        \*  4  b
   N("int",    "",  0, <<>>),        \*  5  0
   N("int",    "",  1, <<>>),        \*  6  1
   N("int",    "",  7, <<>>),        \*  7  7
   N("div",    "",  0, <<1, 2>>),    \*  8  x / y
   N("plus",   "",  0, <<2, 8>>),    \*  9  y + x / y            (y shared)
   N("le",     "",  0, <<8, 6>>),    \* 10  x / y <= 1
   N("and",    "",  0, <<10, 4>>),   \* 11  (x / y <= 1) & b
   N("times",  "",  0, <<3, 5>>),    \* 12  u * 0
   N("div",    "",  0, <<6, 12>>),   \* 13  1 / (u * 0)          (constant folding divides by zero)
   N("plus",   "",  0, <<2, 13>>),   \* 14  y + 1 / (u * 0)
   N("var",    "v", 0, <<>>),        \* 15  v
   N("fl",     "p", 0, <<15>>),      \* 16  p(v)
   N("and",    "",  0, <<16, 10>>),  \* 17  p(v) & (x / y <= 1)
   N("exists", "v", 0, <<17>>),      \* 18  exists v . p(v) & (x / y <= 1)
   N("ifn",    "g", 0, <<12>>),      \* 19  g(u * 0)             (interpreted function raises when folded)
   N("plus",   "",  0, <<2, 19>>),   \* 20  y + g(u * 0)
   N("le",     "",  0, <<2, 7>>),    \* 21  y <= 7
   N("div",    "",  0, <<1, 5>>),    \* 22  x / 0                (construction raises in the type checker)
   N("plus",   "",  0, <<4, 6>>),    \* 23  b + 1                (ill-typed construction)
   N("obj",    "o1", 0, <<>>),       \* 24  o1
   N("fl",     "p", 0, <<24>>),      \* 25  p(o1)
   N("forall", "v", 0, <<16>>),      \* 26  forall v . p(v)
   N("and",    "",  0, <<26, 21>>),  \* 27  (forall v . p(v)) & y <= 7
   N("minus",  "",  0, <<9, 2>>)     \* 28  (y + x / y) - y
>>
ASSUME \A i \in DOMAIN Tab : \A j \in DOMAIN Tab[i].kids : Tab[i].kids[j] < i

\* ---- substitution maps: sequences of <<key node, value node>> -----------------------------
Mp(pairs) == [pairs |-> pairs]
MapTab == <<
   Mp(<< <<2, 7>> >>),               \* 1  y := 7
   Mp(<< <<2, 5>> >>),               \* 2  y := 0      (x / 0 with bounded x: ZeroDivisionError mid-walk)
   Mp(<< <<1, 2>> >>),               \* 3  x := y
   Mp(<< <<4, 21>> >>),              \* 4  b := (y <= 7)
   Mp(<< <<8, 6>>, <<2, 5>> >>),     \* 5  x / y := 1, y := 0   (non-leaf key)
   Mp(<< <<2, 4>> >>),               \* 6  y := b      (ill-typed map: rejected before the walk)
   Mp(<< <<15, 24>> >>)              \* 7  v := o1
>>

\* ---- the walkers whose state is observed after every call ----------------------------------
\* oneShot = invalidate_memoization: the results of these walkers depend on more than the
\* expression (substitution map / object set), so their memo must not survive a call
Wk(name, oneShot) == [name |-> name, oneShot |-> oneShot]
Walkers == <<
   Wk("substituter",                     TRUE),    \* env.substituter
   Wk("simplifier",                      FALSE),   \* env.simplifier
   Wk("type_checker",                    FALSE),   \* env.type_checker
   Wk("free_vars_extractor",             FALSE),   \* env.free_vars_extractor
   Wk("free_vars_oracle",                FALSE),   \* env.free_vars_oracle
   Wk("names_extractor",                 FALSE),   \* env.names_extractor
   Wk("interpreted_functions_extractor", FALSE),   \* env.interpreted_functions_extractor
   Wk("quantifiers_remover",             TRUE)     \* one ExpressionQuantifiersRemover kept per Environment
>>
=============================================================================
