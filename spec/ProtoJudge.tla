---------------------------- MODULE ProtoJudge ----------------------------
(***************************************************************************)
(* C20 -- the judge of the protobuf round trip.                            *)
(*                                                                         *)
(* The codec has one transition:  y = Read(Write(x)).  One record of the   *)
(* batch is one such transition observed on the real code:                 *)
(*   [id, src, cls, must, w, r, mode, a, b, ka, kb, eq]                    *)
(*   cls   "problem" | "plan" | "pgr" | "vr" | "cr"                        *)
(*   w, r  "ok" | "raise"  (writer / reader; r = "skip" when w raised)     *)
(*   a, b  the projections of x and y made by the harness (UPJ for         *)
(*         problems, step lists for plans, field records for results);     *)
(*         mode = "opaque" when the class has no projection (scheduling    *)
(*         problems, hierarchical plans, schedules): then only eq / kind   *)
(*   ka kb the feature sets of x.kind and y.kind (problems)                *)
(*   eq    the implementation's own  x == y  (the property is phrased with *)
(*         it; for compilation results: of the compiled problems)          *)
(*                                                                         *)
(* LOSSLESS is decided here, independently of the implementation's ==:     *)
(*   NormUPJ(a) = NormUPJ(b)   TLC's value equality after the positions in *)
(*   which a model holds a collection without order (types, objects,       *)
(*   fluents, initial values, actions, goals, constraints, timed goals and *)
(*   effects, the conditions and effects of an action, cost and weight     *)
(*   tables, tasks, methods, subtasks) have been turned into bags;         *)
(*   parameters, signatures, expression arguments, quantified variables    *)
(*   and plan steps keep their order.  Numbers are canonical records, so   *)
(*   record equality is numeric equality at any magnitude.                 *)
(*   A constant expression node is a number record whose tag also names    *)
(*   the node kind: "n" / "N" is the node the expression manager builds    *)
(*   from the value (INT constant iff integral), "r" / "R" is the REAL      *)
(*   constant node with an integral value (Real(3/1), type real[3, 3]);    *)
(*   Int 3 and Real 3/1 are different records, so a codec that turns one   *)
(*   into the other fails the clause of the section holding the node.      *)
(* Verdicts are total: every failing clause prints <<"FAIL", id, clause>>. *)
(***************************************************************************)
EXTENDS Integers, Sequences, FiniteSets, TLC, Json, IOUtils

Batch == ndJsonDeserialize(IOEnv.BATCH)
VARIABLE id
Init == id \in DOMAIN Batch
Next == UNCHANGED id
Spec == Init /\ [][Next]_id

Range(s) == {s[i] : i \in DOMAIN s}
Bag(s) == TLCEval([x \in Range(s) |-> Cardinality({i \in DOMAIN s : s[i] = x})])
Map(s, Op(_)) == TLCEval([i \in DOMAIN s |-> Op(s[i])])

\* ---------- problems ----------
NormAction(a) ==
   [name |-> a.name, kind |-> a.kind, params |-> a.params, pre |-> Bag(a.pre), effects |-> Bag(a.effects),
    conds |-> Bag(a.conds), dur |-> a.dur, sim |-> a.sim]
NormMetric(m) ==
   [kind |-> m.kind, costs |-> Bag(m.costs), default |-> m.default, expr |-> m.expr, goals |-> Bag(m.goals)]
NormMethod(m) ==
   [name |-> m.name, params |-> m.params, task |-> m.task, targs |-> m.targs, subtasks |-> Bag(m.subtasks),
    constraints |-> Bag(m.constraints), pre |-> Bag(m.pre)]
NormHTN(h) ==
   IF h.k = "none" THEN h
   ELSE [k |-> "htn", tasks |-> Bag(h.tasks), methods |-> Bag(Map(h.methods, NormMethod)),
         netvars |-> Bag(h.netvars), netsubtasks |-> Bag(h.netsubtasks), netconstraints |-> Bag(h.netconstraints)]
NormUPJ(P) ==
   [name |-> P.name, types |-> Bag(P.types), objects |-> Bag(P.objects), fluents |-> Bag(P.fluents),
    init |-> Bag(P.init), actions |-> Bag(Map(P.actions, NormAction)), goals |-> Bag(P.goals),
    invariants |-> Bag(P.invariants), traj |-> Bag(P.traj), timed_goals |-> Bag(P.timed_goals),
    timed_effects |-> Bag(P.timed_effects), metric |-> NormMetric(P.metric), nmetrics |-> P.nmetrics,
    epsilon |-> P.epsilon, discrete |-> P.discrete, selfov |-> P.selfov, htn |-> NormHTN(P.htn)]
Sections == {"name", "types", "objects", "fluents", "init", "actions", "goals", "invariants", "traj", "timed_goals",
             "timed_effects", "metric", "nmetrics", "epsilon", "discrete", "selfov", "htn"}
\* (a = b, equality as written, implies equality of the normal forms: the normal forms are only built
\* for the pairs that differ somewhere)
ProblemClauses(a, b) ==
   IF a = b THEN {}
   ELSE LET na == NormUPJ(a)  nb == NormUPJ(b) IN {"upj-" \o s : s \in {s \in Sections : na[s] # nb[s]}}

\* ---------- plans ----------
\* [kind, steps: <<[a, args, t, d]>>]; the order of the steps is part of a plan
StepClauses(s, t) ==
   (IF s.a # t.a THEN {"plan-step-action"} ELSE {})
   \cup (IF s.args # t.args THEN {"plan-step-arguments"} ELSE {})
   \cup (IF s.t # t.t THEN {"plan-step-start"} ELSE {})
   \cup (IF s.d # t.d THEN {"plan-step-duration"} ELSE {})
PlanClauses(a, b) ==
   IF a.kind # b.kind THEN {"plan-kind"}
   ELSE IF Len(a.steps) # Len(b.steps) THEN {"plan-length"}
   ELSE UNION {StepClauses(a.steps[i], b.steps[i]) : i \in DOMAIN a.steps}

\* ---------- results ----------
\* optional containers are [k |-> "none"] or [k |-> "some", items |-> <<...>>]; protobuf cannot tell
\* an absent container from an empty one, which is named by its own clause
Blur(x) == IF x.k # "none" /\ x.items = <<>> THEN [k |-> "none"] ELSE x
Cont(x) == IF x.k = "none" THEN x ELSE [k |-> x.k, items |-> Bag(x.items)]
ContClause(f, x, y) ==
   IF Cont(x) = Cont(y) THEN {}
   ELSE IF Cont(Blur(x)) = Cont(Blur(y)) THEN {"absent-vs-empty-" \o f} ELSE {"res-" \o f}
ResultClauses(a, b) ==
   (IF a.status # b.status THEN {"res-status"} ELSE {})
   \cup (IF a.engine # b.engine THEN {"res-engine"} ELSE {})
   \cup PlanClauses(a.plan, b.plan)
   \cup ContClause("metrics", a.metrics, b.metrics)
   \cup (IF a.logs.k # "none" /\ b.logs.k # "none" /\ a.logs.items # <<>> /\ b.logs.items # <<>>
         THEN (IF a.logs.items # b.logs.items THEN {"res-log_messages"} ELSE {})    \* the order of a log is kept
         ELSE ContClause("log_messages", a.logs, b.logs))
   \cup (IF a.reason # b.reason THEN {"res-reason"} ELSE {})
   \cup (IF a.inapp # b.inapp THEN {"res-inapplicable_action"} ELSE {})
   \cup ContClause("metric_evaluations", a.mevals, b.mevals)
   \cup (IF Bag(a.map) # Bag(b.map) THEN {"res-map_back"} ELSE {})
   \cup (IF a.problem.k = "none" \/ b.problem.k = "none"
         THEN (IF a.problem.k # b.problem.k THEN {"res-problem"} ELSE {})
         ELSE ProblemClauses(a.problem.P, b.problem.P))

\* ---------- the verdict of one observed transition ----------
KindClauses(r) ==
   LET A == Range(r.ka)  B == Range(r.kb) IN
   {"kind-lost-" \o f : f \in A \ B} \cup {"kind-gained-" \o f : f \in B \ A}

Clauses(r) ==
   IF r.w = "raise"
   THEN (IF r.must THEN {"write-raises"} ELSE {})
   ELSE IF r.src = "fresh"
   THEN (IF r.r = "raise" \/ ~r.eq THEN {"env-mixup"} ELSE {})
   ELSE IF r.r = "raise" THEN {"read-raises"}
   ELSE LET proj == IF r.mode = "opaque" THEN {}
                    ELSE CASE r.cls = "problem" -> ProblemClauses(r.a, r.b)
                           [] r.cls = "plan" -> PlanClauses(r.a, r.b)
                           [] OTHER -> ResultClauses(r.a, r.b)
        IN proj \cup KindClauses(r)
           \* the implementation's own == is named only where it is the sole witness of a difference
           \cup (IF ~r.eq /\ proj = {} THEN {"impl-eq"} ELSE {})

Judge == LET r == Batch[id] IN \A c \in Clauses(r) : PrintT(<<"FAIL", r.id, c>>)
=============================================================================
