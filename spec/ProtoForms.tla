---------------------------- MODULE ProtoForms ----------------------------
(***************************************************************************)
(* C20 -- G1 generator: the FORM SPACE of the protobuf codec.              *)
(*                                                                         *)
(* A codec has a single transition (Write, then Read); what a specification *)
(* can contribute is the exhaustive space of forms the property names and  *)
(* an independent notion of equality (ProtoJudge).  This module defines    *)
(* the form space as TLA+ sets and turns every element into ONE minimal    *)
(* artefact: a complete UPJ problem (harness/upj.py builds it through the  *)
(* public API), plus, for plans and results, an abstract description over  *)
(* the fixed base problem BaseP.  TLC enumerates the sets and writes one   *)
(* ndjson line per artefact:                                               *)
(*   [cat, form, must, P, x, plan, res]                                    *)
(*   cat   category, form  compact name of the combination                 *)
(*   must  TRUE iff the property statement names the form explicitly       *)
(*         ("numeric types with any combination of finite and infinite     *)
(*         bounds, rational constants of any size, every timing and        *)
(*         interval form survive"): for those a writer rejection is a      *)
(*         violation, for the others it is only counted                    *)
(*   P     UPJ problem, x  settings UPJ does not carry (epsilon, flags,    *)
(*         temporal oversubscription), plan / res  descriptions or NoPlan  *)
(*                                                                         *)
(* Numbers: UPJ values [k |-> "n", n, d] while |n|, d < 2^30; larger ones  *)
(* are [k |-> "N", s, n, d] with little-endian base-10^4 limb sequences    *)
(* COMPUTED HERE with BigArith (10^12, 10^12/7, 2^62, 2^63-1, 2^63, 10^30) *)
(* and only transcribed digit-group by digit-group by Python.              *)
(*                                                                         *)
(* Node kind of a constant.  A number record in the position of a constant *)
(* EXPRESSION NODE (initial / default value, constant node of a condition, *)
(* effect value, cost, duration bound, actual parameter of a plan step)    *)
(* denotes the node the expression manager builds from the number: an      *)
(* INT constant when the value is integral, a REAL constant otherwise.     *)
(* The other node with an integral value -- the REAL constant 3/1, written *)
(* Real(Fraction(3)), of type real[3, 3] and different from Int(3) -- is   *)
(* [k |-> "r", n, d] (limb form [k |-> "R", s, n, d]): see RealNode.       *)
(***************************************************************************)
EXTENDS Integers, Sequences, FiniteSets, TLC, Json, IOUtils, SequencesExt

BA == INSTANCE BigArith

\* ---------- UPJ constructors ----------
NONE == [k |-> "none"]
UNDEF == [k |-> "u"]
NV(n, d) == [k |-> "n", n |-> n, d |-> d]
Z(n) == NV(n, 1)
BV(b) == [k |-> "b", b |-> b]
OV(o) == [k |-> "o", o |-> o]
Big(s, n, d) == [k |-> "N", s |-> s, n |-> n, d |-> d]
\* the REAL constant node whose value is the (integral) number v
RealNode(v) == IF v.k = "n" THEN [k |-> "r", n |-> v.n, d |-> v.d]
               ELSE [k |-> "R", s |-> v.s, n |-> v.n, d |-> v.d]

Mk(op, args, name, v, vars) == [op |-> op, args |-> args, name |-> name, v |-> v, vars |-> vars]
CE(v) == Mk("const", <<>>, "", v, <<>>)
FlE(n, args) == Mk("fluent", args, n, UNDEF, <<>>)
ObjE(n) == Mk("obj", <<>>, n, UNDEF, <<>>)
ParE(n) == Mk("param", <<>>, n, UNDEF, <<>>)
VarE(n) == Mk("var", <<>>, n, UNDEF, <<>>)
Un(op, a) == Mk(op, <<a>>, "", UNDEF, <<>>)
Bin(op, a, b) == Mk(op, <<a, b>>, "", UNDEF, <<>>)
Quant(op, vs, body) == Mk(op, <<body>>, "", UNDEF, vs)
NoE == Mk("none", <<>>, "", UNDEF, <<>>)
TrueE == CE(BV(TRUE))

TBool == [k |-> "bool"]
TUser(n) == [k |-> "user", name |-> n]
TNum(base, lo, hi) == [k |-> base, lo |-> lo, hi |-> hi]
TReal == TNum("real", NONE, NONE)
TInt == TNum("int", NONE, NONE)

Fl(name, type, sig, default) == [name |-> name, type |-> type, sig |-> sig, default |-> default]
Par(name, type) == [name |-> name, type |-> type]
Eff(kind, fname, fargs, v, c, forall) ==
   [kind |-> kind, f |-> [name |-> fname, args |-> fargs], v |-> v, c |-> c, forall |-> forall]
Tm(from, delay) == [from |-> from, delay |-> delay]
Iv(lo, hi, lopen, ropen) == [lo |-> lo, hi |-> hi, lopen |-> lopen, ropen |-> ropen]
Inst(name, params, pre, effects) ==
   [name |-> name, kind |-> "inst", params |-> params, pre |-> pre, effects |-> effects,
    conds |-> <<>>, dur |-> NONE, sim |-> FALSE]
Dura(name, params, dur, conds, effects) ==
   [name |-> name, kind |-> "dur", params |-> params, pre |-> <<>>, effects |-> effects,
    conds |-> conds, dur |-> dur, sim |-> FALSE]
Metric(kind, costs, default, expr, goals) ==
   [kind |-> kind, costs |-> costs, default |-> default, expr |-> expr, goals |-> goals]
NoMetric == Metric("none", <<>>, NoE, NoE, <<>>)

\* a problem over the fixed declarations  type T, objects o1 o2, fluent b(x: T): bool (default false)
Prob(fluents, init, actions, goals, tgoals, teffs, metric) ==
   [name |-> "p",
    types |-> << [name |-> "T", parent |-> ""] >>,
    objects |-> << [name |-> "o1", type |-> "T"], [name |-> "o2", type |-> "T"] >>,
    fluents |-> << Fl("b", TBool, << Par("x", TUser("T")) >>, BV(FALSE)) >> \o fluents,
    init |-> init, actions |-> actions, goals |-> goals, invariants |-> <<>>, traj |-> <<>>,
    timed_goals |-> tgoals, timed_effects |-> teffs,
    metric |-> metric, nmetrics |-> IF metric.kind = "none" THEN 0 ELSE 1, ifuns |-> <<>>]

B(o) == FlE("b", << ObjE(o) >>)
SetB == Inst("a", << Par("x", TUser("T")) >>, <<>>,
             << Eff("assign", "b", << ParE("x") >>, TrueE, TrueE, <<>>) >>)

NoX == [epsilon |-> NONE, discrete |-> FALSE, selfov |-> FALSE, toversub |-> FALSE]
NoPlan == [kind |-> "none", steps |-> <<>>]
NoRes == [cls |-> "none"]
Case(cat, form, must, P, x, plan, res) ==
   [cat |-> cat, form |-> form, must |-> must, P |-> P, x |-> x, plan |-> plan, res |-> res]
PCase(cat, form, must, P) == Case(cat, form, must, P, NoX, NoPlan, NoRes)

\* ---------- numbers named by tags ----------
P10_6 == TLCEval(BA!NatL(1000000))
P10_12 == TLCEval(BA!NMul(P10_6, P10_6))
P10_13 == TLCEval(BA!NMul(P10_12, BA!NatL(10)))
P10_30 == TLCEval(BA!NMul(BA!NMul(P10_12, P10_12), P10_6))
P2_30 == TLCEval(BA!NatL(1073741824))
P2_62 == TLCEval(BA!NMul(BA!NMul(P2_30, P2_30), BA!NatL(4)))
P2_63 == TLCEval(BA!NMul(P2_62, BA!NatL(2)))
One == BA!NatL(1)

Num(tag) ==
   CASE tag = "zero" -> Z(0)
     [] tag = "one" -> Z(1)
     [] tag = "two" -> Z(2)
     [] tag = "five" -> Z(5)
     [] tag = "seven" -> Z(7)
     [] tag = "neg" -> Z(0 - 5)
     [] tag = "neg3" -> Z(0 - 3)
     [] tag = "large" -> Z(1000000000)
     [] tag = "large2" -> Z(2000000000)
     [] tag = "neglarge" -> Z(0 - 1000000000)
     [] tag = "third" -> NV(1, 3)
     [] tag = "negthird" -> NV(0 - 1, 3)
     [] tag = "neg2third" -> NV(0 - 2, 3)
     [] tag = "r227" -> NV(22, 7)
     [] tag = "hundredth" -> NV(1, 100)
     [] tag = "big12" -> Big(1, P10_12, One)
     [] tag = "big13" -> Big(1, P10_13, One)
     [] tag = "negbig12" -> Big(0 - 1, P10_12, One)
     [] tag = "big12_7" -> Big(1, P10_12, BA!NatL(7))
     [] tag = "big13_7" -> Big(1, P10_13, BA!NatL(7))
     [] tag = "negbig12_7" -> Big(0 - 1, P10_12, BA!NatL(7))
     [] tag = "inv12" -> Big(1, One, P10_12)
     [] tag = "p62" -> Big(1, P2_62, One)
     [] tag = "maxi64" -> Big(1, BA!NSub(P2_63, One), One)
     [] tag = "mini64" -> Big(0 - 1, P2_63, One)
     [] tag = "over64" -> Big(1, P2_63, One)
     [] tag = "big30" -> Big(1, P10_30, One)
     [] tag = "big30_3" -> Big(1, P10_30, BA!NatL(3))
     [] tag = "inv63" -> Big(1, One, P2_63)
Bound(tag) == IF tag = "none" THEN NONE ELSE Num(tag)

\* ---------- 1. numeric type forms ----------
\* {int, real} x lower {none, 0, negative, large, beyond 2^31 (, 1/3)} x upper {none, finite, large,
\* beyond 2^31 (, 22/7, 10^13/7)} x position {fluent value, fluent parameter, action parameter,
\* quantified variable}; only lo <= hi
LoTags(base) == {"none", "zero", "neg", "large", "big12"} \cup (IF base = "real" THEN {"third"} ELSE {})
HiTags(base) == {"none", "seven", "large2", "big13"} \cup (IF base = "real" THEN {"r227", "big13_7"} ELSE {})
Rank(tag) == CASE tag \in {"zero", "neg", "third"} -> 0
               [] tag \in {"seven", "r227"} -> 1
               [] tag \in {"large", "large2"} -> 2
               [] tag \in {"big12", "big13", "big13_7"} -> 3
               [] tag = "none" -> 9
NTypeForms ==
   {f \in [base : {"int", "real"}, lo : LoTags("real"), hi : HiTags("real"), pos : {"fluent", "sig", "param", "var"}] :
       /\ f.lo \in LoTags(f.base) /\ f.hi \in HiTags(f.base)
       /\ (f.lo = "none" \/ Rank(f.lo) <= Rank(f.hi))
       \* a fluent parameter must have a finite domain (and == enumerates it): small bounded integers only
       /\ (f.pos = "sig" => f.base = "int" /\ f.lo \in {"zero", "neg"} /\ f.hi = "seven")}
NTypeCase(f) ==
   LET T == TNum(f.base, Bound(f.lo), Bound(f.hi))
       P == CASE f.pos = "fluent" ->
                   Prob(<< Fl("x", T, <<>>, UNDEF) >>, <<>>, << SetB >>,
                        << Bin("le", FlE("x", <<>>), FlE("x", <<>>)) >>, <<>>, <<>>, NoMetric)
              [] f.pos = "sig" ->
                   Prob(<< Fl("g", TBool, << Par("q", T) >>, BV(FALSE)) >>, <<>>, << SetB >>, << B("o1") >>, <<>>, <<>>, NoMetric)
              [] f.pos = "param" ->
                   Prob(<<>>, <<>>,
                        << Inst("a", << Par("q", T) >>, << Bin("le", ParE("q"), ParE("q")) >>,
                                << Eff("assign", "b", << ObjE("o1") >>, TrueE, TrueE, <<>>) >>) >>,
                        << B("o1") >>, <<>>, <<>>, NoMetric)
              [] f.pos = "var" ->
                   Prob(<<>>, <<>>, << SetB >>,
                        << Quant("forall", << Par("v", T) >>, Bin("le", VarE("v"), VarE("v"))) >>, <<>>, <<>>, NoMetric)
   IN PCase("ntype", f.base \o ":" \o f.lo \o ":" \o f.hi \o ":" \o f.pos, TRUE, P)

\* ---------- 2. constant forms ----------
\* node = "auto": the constant node the expression manager builds from the number;
\* node = "real": the REAL constant node with that (integral) value, in every position that holds an
\* expression node (an oversubscription weight is a number, not a node)
ConstTags == {"zero", "one", "neg", "large", "neglarge", "third", "negthird", "r227",
              "big12", "negbig12", "big12_7", "negbig12_7", "inv12", "p62", "maxi64", "mini64",
              "over64", "big30", "big30_3", "inv63"}
IntegralTags == {"zero", "one", "neg", "large", "neglarge", "big12", "negbig12", "p62", "maxi64", "mini64", "over64"}
AutoPos == {"init", "default", "goal", "effect", "cost", "weight"}
RealPos == {"init", "default", "goal", "effect", "cost", "costdefault", "pre", "incr", "dur", "teff", "final"}
ConstForms ==
   {f \in [c : ConstTags, pos : AutoPos \cup RealPos, node : {"auto", "real"}] :
       \/ (f.node = "auto" /\ f.pos \in AutoPos)
       \/ (f.node = "real" /\ f.pos \in RealPos /\ f.c \in IntegralTags)}
XR == Fl("x", TReal, <<>>, UNDEF)
ConstCase(f) ==
   LET c == IF f.node = "real" THEN RealNode(Num(f.c)) ELSE Num(f.c)
       asg == Inst("a", <<>>, <<>>, << Eff("assign", "x", <<>>, CE(c), TrueE, <<>>) >>)
       inc == Inst("a", <<>>, <<>>, << Eff("inc", "x", <<>>, CE(c), TrueE, <<>>) >>)
       pre == Inst("a", <<>>, << Bin("lt", CE(c), FlE("x", <<>>)) >>, << Eff("assign", "b", << ObjE("o1") >>, TrueE, TrueE, <<>>) >>)
       dur == Dura("d", << Par("x", TUser("T")) >>, Iv(CE(c), Bin("plus", CE(c), CE(Z(2))), FALSE, FALSE), <<>>,
                   << [t |-> Tm("end", Z(0)), e |-> Eff("assign", "b", << ParE("x") >>, TrueE, TrueE, <<>>)] >>)
       P == CASE f.pos = "init" ->
                   Prob(<< XR >>, << [f |-> "x", args |-> <<>>, v |-> c] >>, << SetB >>, << B("o1") >>, <<>>, <<>>, NoMetric)
              [] f.pos = "default" ->
                   Prob(<< Fl("x", TReal, <<>>, c) >>, <<>>, << SetB >>, << B("o1") >>, <<>>, <<>>, NoMetric)
              [] f.pos = "goal" ->
                   Prob(<< XR >>, <<>>, << SetB >>, << Bin("le", FlE("x", <<>>), CE(c)) >>, <<>>, <<>>, NoMetric)
              [] f.pos = "effect" ->
                   Prob(<< XR >>, <<>>, << asg >>, << B("o1") >>, <<>>, <<>>, NoMetric)
              [] f.pos = "cost" ->
                   Prob(<< XR >>, <<>>, << SetB >>, << B("o1") >>, <<>>, <<>>,
                        Metric("costs", << [a |-> "a", c |-> CE(c)] >>, NoE, NoE, <<>>))
              [] f.pos = "weight" ->
                   Prob(<< XR >>, <<>>, << SetB >>, << B("o1") >>, <<>>, <<>>,
                        Metric("oversub", <<>>, NoE, NoE, << [g |-> B("o2"), w |-> c] >>))
              [] f.pos = "costdefault" ->
                   Prob(<< XR >>, <<>>, << SetB >>, << B("o1") >>, <<>>, <<>>, Metric("costs", <<>>, CE(c), NoE, <<>>))
              [] f.pos = "pre" ->
                   Prob(<< XR >>, <<>>, << pre >>, << B("o1") >>, <<>>, <<>>, NoMetric)
              [] f.pos = "incr" ->
                   Prob(<< XR >>, <<>>, << inc >>, << B("o1") >>, <<>>, <<>>, NoMetric)
              [] f.pos = "dur" ->
                   Prob(<<>>, <<>>, << dur >>, << B("o1") >>, <<>>, <<>>, NoMetric)
              [] f.pos = "teff" ->
                   Prob(<< XR >>, <<>>, << SetB >>, << B("o1") >>, <<>>,
                        << [t |-> Tm("gstart", Z(5)), e |-> Eff("assign", "x", <<>>, CE(c), TrueE, <<>>)] >>, NoMetric)
              [] f.pos = "final" ->
                   Prob(<< XR >>, <<>>, << SetB >>, << B("o1") >>, <<>>, <<>>,
                        Metric("maxfinal", <<>>, NoE, Bin("plus", FlE("x", <<>>), CE(c)), <<>>))
   IN PCase("const", f.c \o (IF f.node = "real" THEN "~realnode" ELSE "") \o ":" \o f.pos, TRUE, P)

\* ---------- 3. timepoint kinds x delays ----------
DelayTags == {"zero", "five", "neg3", "third", "neg2third", "big12_7"}
TimingForms == [from : {"start", "end", "gstart", "gend"}, delay : DelayTags,
                pos : {"deff", "dcond", "tgoal", "teff"}]
D2 == Iv(CE(Z(2)), CE(Z(2)), FALSE, FALSE)
TimingCase(f) ==
   LET t == Tm(f.from, Num(f.delay))
       eff == Eff("assign", "b", << ParE("x") >>, TrueE, TrueE, <<>>)
       P == CASE f.pos = "deff" ->
                   Prob(<<>>, <<>>, << Dura("d", << Par("x", TUser("T")) >>, D2, <<>>, << [t |-> t, e |-> eff] >>) >>,
                        << B("o1") >>, <<>>, <<>>, NoMetric)
              [] f.pos = "dcond" ->
                   Prob(<<>>, <<>>,
                        << Dura("d", << Par("x", TUser("T")) >>, D2, << [iv |-> Iv(t, t, FALSE, FALSE), c |-> B("o2")] >>,
                                << [t |-> Tm("end", Z(0)), e |-> eff] >>) >>,
                        << B("o1") >>, <<>>, <<>>, NoMetric)
              [] f.pos = "tgoal" ->
                   Prob(<<>>, <<>>, << SetB >>, << B("o1") >>, << [iv |-> Iv(t, t, FALSE, FALSE), g |-> B("o2")] >>, <<>>, NoMetric)
              [] f.pos = "teff" ->
                   Prob(<<>>, <<>>, << SetB >>, << B("o1") >>, <<>>,
                        << [t |-> t, e |-> Eff("assign", "b", << ObjE("o2") >>, TrueE, TrueE, <<>>)] >>, NoMetric)
   IN PCase("timing", f.from \o ":" \o f.delay \o ":" \o f.pos, TRUE, P)

\* ---------- 4. interval openness ----------
IntervalForms == [lopen : BOOLEAN, ropen : BOOLEAN, pos : {"dur", "dcond", "tgoal"}, ends : {"int", "rat", "expr"}]
BStr(b) == IF b THEN "T" ELSE "F"
IntervalCase(f) ==
   LET lo == CASE f.ends = "int" -> CE(Z(1)) [] f.ends = "rat" -> CE(Num("third")) [] f.ends = "expr" -> FlE("x", <<>>)
       hi == CASE f.ends = "int" -> CE(Z(2)) [] f.ends = "rat" -> CE(Num("big12_7"))
               [] f.ends = "expr" -> Bin("plus", FlE("x", <<>>), CE(Z(1)))
       tlo == CASE f.ends = "int" -> Tm("start", Z(0)) [] f.ends = "rat" -> Tm("start", Num("third"))
                [] f.ends = "expr" -> Tm("start", Z(1))
       thi == CASE f.ends = "int" -> Tm("end", Z(0)) [] f.ends = "rat" -> Tm("end", Num("negthird"))
                [] f.ends = "expr" -> Tm("end", Z(0 - 1))
       glo == CASE f.ends = "int" -> Tm("gstart", Z(0)) [] f.ends = "rat" -> Tm("gstart", Num("third"))
                [] f.ends = "expr" -> Tm("gstart", Z(5))
       ghi == CASE f.ends = "int" -> Tm("gend", Z(0)) [] f.ends = "rat" -> Tm("gstart", Num("big12_7"))
                [] f.ends = "expr" -> Tm("gstart", Z(7))
       eff == [t |-> Tm("end", Z(0)), e |-> Eff("assign", "b", << ParE("x") >>, TrueE, TrueE, <<>>)]
       XI == Fl("x", TReal, <<>>, Z(3))
       P == CASE f.pos = "dur" ->
                   Prob(<< XI >>, <<>>, << Dura("d", << Par("x", TUser("T")) >>, Iv(lo, hi, f.lopen, f.ropen), <<>>, << eff >>) >>,
                        << B("o1") >>, <<>>, <<>>, NoMetric)
              [] f.pos = "dcond" ->
                   Prob(<< XI >>, <<>>,
                        << Dura("d", << Par("x", TUser("T")) >>, Iv(CE(Z(5)), CE(Z(5)), FALSE, FALSE),
                                << [iv |-> Iv(tlo, thi, f.lopen, f.ropen), c |-> B("o2")] >>, << eff >>) >>,
                        << B("o1") >>, <<>>, <<>>, NoMetric)
              [] f.pos = "tgoal" ->
                   Prob(<< XI >>, <<>>, << SetB >>, << B("o1") >>,
                        << [iv |-> Iv(glo, ghi, f.lopen, f.ropen), g |-> B("o2")] >>, <<>>, NoMetric)
   IN PCase("interval", BStr(f.lopen) \o BStr(f.ropen) \o ":" \o f.pos \o ":" \o f.ends, TRUE, P)

\* ---------- 5. effect kinds ----------
EffectForms ==
   {f \in [kind : {"assign", "inc", "dec"}, vt : {"num", "bool", "obj"}, cond : BOOLEAN, forall : BOOLEAN,
           at : {"inst", "dstart", "dend", "teff"}] : f.vt = "num" \/ f.kind = "assign"}
EffectCase(f) ==
   LET arg == IF f.forall THEN VarE("v") ELSE ObjE("o1")
       fname == CASE f.vt = "num" -> "cnt" [] f.vt = "bool" -> "b" [] f.vt = "obj" -> "nxt"
       val == CASE f.vt = "num" -> CE(Z(1)) [] f.vt = "bool" -> TrueE [] f.vt = "obj" -> ObjE("o2")
       cnd == IF f.cond THEN Un("not", FlE("b", << arg >>)) ELSE TrueE
       e == Eff(f.kind, fname, << arg >>, val, cnd, IF f.forall THEN << Par("v", TUser("T")) >> ELSE <<>>)
       fls == << Fl("cnt", TInt, << Par("x", TUser("T")) >>, Z(0)), Fl("nxt", TUser("T"), << Par("x", TUser("T")) >>, OV("o1")) >>
       P == CASE f.at = "inst" -> Prob(fls, <<>>, << Inst("a", <<>>, <<>>, << e >>) >>, << B("o1") >>, <<>>, <<>>, NoMetric)
              [] f.at = "dstart" ->
                   Prob(fls, <<>>, << Dura("d", <<>>, D2, <<>>, << [t |-> Tm("start", Z(0)), e |-> e] >>) >>, << B("o1") >>, <<>>, <<>>, NoMetric)
              [] f.at = "dend" ->
                   Prob(fls, <<>>, << Dura("d", <<>>, D2, <<>>, << [t |-> Tm("end", Z(0)), e |-> e] >>) >>, << B("o1") >>, <<>>, <<>>, NoMetric)
              [] f.at = "teff" ->
                   Prob(fls, <<>>, << SetB >>, << B("o1") >>, <<>>, << [t |-> Tm("gstart", Z(5)), e |-> e] >>, NoMetric)
   IN PCase("effect", f.kind \o ":" \o f.vt \o ":" \o (IF f.cond THEN "cond" ELSE "uncond") \o ":"
                      \o (IF f.forall THEN "forall" ELSE "plain") \o ":" \o f.at, FALSE, P)

\* ---------- 6. metric kinds ----------
MetricForms == {"costs-all", "costs-default", "costs-expr", "length", "makespan", "minfinal", "maxfinal",
                "oversub-int", "oversub-rat", "oversub-two", "toversub"}
MetricCase(m) ==
   LET a2 == Inst("a2", << Par("y", TUser("T")) >>, << B("o1") >>, << Eff("inc", "x", <<>>, CE(Z(1)), TrueE, <<>>) >>)
       M == CASE m = "costs-all" -> Metric("costs", << [a |-> "a", c |-> CE(Z(2))], [a |-> "a2", c |-> CE(Num("third"))] >>, NoE, NoE, <<>>)
              [] m = "costs-default" -> Metric("costs", << [a |-> "a2", c |-> CE(Z(3))] >>, CE(Z(1)), NoE, <<>>)
              [] m = "costs-expr" -> Metric("costs", << [a |-> "a", c |-> Bin("plus", FlE("x", <<>>), CE(Z(1)))], [a |-> "a2", c |-> CE(Z(0))] >>, NoE, NoE, <<>>)
              [] m = "length" -> Metric("length", <<>>, NoE, NoE, <<>>)
              [] m = "makespan" -> Metric("makespan", <<>>, NoE, NoE, <<>>)
              [] m = "minfinal" -> Metric("minfinal", <<>>, NoE, Bin("plus", FlE("x", <<>>), CE(Num("third"))), <<>>)
              [] m = "maxfinal" -> Metric("maxfinal", <<>>, NoE, Bin("times", FlE("x", <<>>), CE(Z(0 - 2))), <<>>)
              [] m = "oversub-int" -> Metric("oversub", <<>>, NoE, NoE, << [g |-> B("o2"), w |-> Z(5)] >>)
              [] m = "oversub-rat" -> Metric("oversub", <<>>, NoE, NoE, << [g |-> B("o2"), w |-> Num("negthird")] >>)
              [] m = "oversub-two" -> Metric("oversub", <<>>, NoE, NoE,
                                             << [g |-> B("o2"), w |-> Z(5)], [g |-> Un("not", B("o1")), w |-> Num("r227")] >>)
              [] m = "toversub" -> NoMetric
       P == Prob(<< Fl("x", TReal, <<>>, Z(0)) >>, <<>>, << SetB, a2 >>, << B("o1") >>, <<>>, <<>>, M)
   IN Case("metric", m, FALSE, P, [NoX EXCEPT !.toversub = (m = "toversub")], NoPlan, NoRes)

\* ---------- 7. problem-level settings outside UPJ ----------
FlagForms == [eps : {"none", "hundredth", "two", "big12_7"}, discrete : BOOLEAN, selfov : BOOLEAN]
FlagCase(f) ==
   Case("flags", f.eps \o ":" \o BStr(f.discrete) \o BStr(f.selfov), FALSE,
        Prob(<<>>, <<>>, << Dura("d", << Par("x", TUser("T")) >>, D2, <<>>,
                                  << [t |-> Tm("end", Z(0)), e |-> Eff("assign", "b", << ParE("x") >>, TrueE, TrueE, <<>>)] >>) >>,
             << B("o1") >>, <<>>, <<>>, NoMetric),
        [epsilon |-> Bound(f.eps), discrete |-> f.discrete, selfov |-> f.selfov, toversub |-> FALSE], NoPlan, NoRes)

\* ---------- 8. plans over the base problem ----------
\* actions  a(x: T),  n(k: int[0,3], r: real[0,3], c: bool),  d(x: T) durative with duration in [0, 5]
BaseP ==
   Prob(<<>>, <<>>,
        << SetB,
           Inst("n", << Par("k", TNum("int", Z(0), Z(3))), Par("r", TNum("real", Z(0), Z(3))), Par("c", TBool) >>, <<>>,
                << Eff("assign", "b", << ObjE("o2") >>, ParE("c"), TrueE, <<>>) >>),
           Dura("d", << Par("x", TUser("T")) >>, Iv(CE(Z(0)), CE(Z(5)), FALSE, FALSE), <<>>,
                << [t |-> Tm("end", Z(0)), e |-> Eff("assign", "b", << ParE("x") >>, TrueE, TrueE, <<>>)] >>) >>,
        << B("o1") >>, <<>>, <<>>, NoMetric)
Step(a, args, t, d) == [a |-> a, args |-> args, t |-> t, d |-> d]
StepsOf(shape, t, d) ==
   CASE shape = "empty" -> <<>>
     [] shape = "a" -> << Step("a", << OV("o1") >>, t, NONE) >>
     [] shape = "aa" -> << Step("a", << OV("o1") >>, t, NONE), Step("a", << OV("o2") >>, t, NONE) >>
     [] shape = "n-rat" -> << Step("n", << Z(2), Num("third"), BV(TRUE) >>, t, NONE) >>
     [] shape = "n-int" -> << Step("n", << Z(2), Z(1), BV(FALSE) >>, t, NONE) >>
     \* the actual parameter r is the REAL constant node 1/1 resp. 0/1 (n-int passes the INT constant 1)
     [] shape = "n-realnode" -> << Step("n", << Z(2), RealNode(Z(1)), BV(FALSE) >>, t, NONE),
                                   Step("n", << Z(0), RealNode(Z(0)), BV(TRUE) >>, t, NONE) >>
     [] shape = "d" -> << Step("d", << OV("o2") >>, t, d) >>
     [] shape = "ad" -> << Step("a", << OV("o1") >>, t, NONE), Step("d", << OV("o2") >>, t, d) >>
PlanForms ==
   {f \in [kind : {"seq", "tt", "po", "stn"}, shape : {"empty", "a", "aa", "n-rat", "n-int", "n-realnode", "d", "ad"},
           t : {"none", "zero", "third", "big12_7"}, d : {"none", "two", "third", "zero", "big12_7"}] :
      /\ (f.kind = "tt") = (f.t # "none")
      /\ (f.kind = "tt" /\ f.shape \in {"d", "ad"}) = (f.d # "none")
      /\ (f.shape = "empty" => f.t \in {"none", "zero"})
      /\ (f.kind \in {"po", "stn"} => f.shape \in {"empty", "aa"})}
PlanOf(f) == [kind |-> f.kind, steps |-> StepsOf(f.shape, Bound(f.t), Bound(f.d))]
PlanCase(f) ==
   Case("plan", f.kind \o ":" \o f.shape \o ":" \o f.t \o ":" \o f.d, FALSE, BaseP, NoX, PlanOf(f), NoRes)

\* ---------- 9. results ----------
PGStatus == {"SOLVED_SATISFICING", "SOLVED_OPTIMALLY", "UNSOLVABLE_PROVEN", "UNSOLVABLE_INCOMPLETELY", "TIMEOUT",
             "MEMOUT", "INTERNAL_ERROR", "UNSUPPORTED_PROBLEM", "INTERMEDIATE"}
Res(cls, status, metrics, logs, reason, inapp, mevals, comp) ==
   [cls |-> cls, status |-> status, metrics |-> metrics, logs |-> logs, reason |-> reason, inapp |-> inapp,
    mevals |-> mevals, comp |-> comp]
\* metrics / logs:  "none" (None), "empty", "one", "many"
PGForms ==
   {f \in [status : PGStatus, plan : {"none", "seq", "seq-empty", "tt"}, metrics : {"none", "empty", "one", "many"},
           logs : {"none", "empty", "one", "many"}] :
      \/ (f.metrics = "none" /\ f.logs = "none")
      \/ (f.status = "SOLVED_SATISFICING" /\ f.plan = "seq")}
PGPlan(p) == CASE p = "none" -> NoPlan
               [] p = "seq" -> [kind |-> "seq", steps |-> StepsOf("aa", NONE, NONE)]
               [] p = "seq-empty" -> [kind |-> "seq", steps |-> <<>>]
               [] p = "tt" -> [kind |-> "tt", steps |-> StepsOf("ad", Num("third"), Z(2))]
PGCase(f) ==
   Case("pgr", f.status \o ":" \o f.plan \o ":" \o f.metrics \o ":" \o f.logs, FALSE, BaseP, NoX, PGPlan(f.plan),
        Res("pgr", f.status, f.metrics, f.logs, "none", FALSE, FALSE, ""))
VRForms ==
   {f \in [status : {"VALID", "INVALID", "UNKNOWN"}, metrics : {"none", "empty", "one"}, logs : {"none", "empty", "one", "many"},
           reason : {"none", "INAPPLICABLE_ACTION", "UNSATISFIED_GOALS", "MUTEX_CONFLICT"}, inapp : BOOLEAN, mevals : BOOLEAN] :
      /\ (f.inapp => f.reason = "INAPPLICABLE_ACTION")
      /\ (f.reason # "none" => f.status = "INVALID")
      /\ (\/ (f.reason = "none" /\ ~f.mevals)
          \/ (f.metrics = "none" /\ f.logs = "empty"))}
VRCase(f) ==
   Case("vr", f.status \o ":" \o f.metrics \o ":" \o f.logs \o ":" \o f.reason \o ":" \o BStr(f.inapp) \o BStr(f.mevals),
        FALSE, BaseP, NoX, NoPlan, Res("vr", f.status, f.metrics, f.logs, f.reason, f.inapp, f.mevals, ""))
\* compilation results: the named real compiler applied to BaseC (input preparation, not judged here)
BaseC ==
   Prob(<< Fl("cnt", TNum("int", Z(0), Z(3)), <<>>, Z(0)) >>, <<>>,
        << Inst("a", << Par("x", TUser("T")) >>,
                << Un("not", B("o2")), Bin("or", FlE("b", << ParE("x") >>), Quant("exists", << Par("v", TUser("T")) >>, FlE("b", << VarE("v") >>))) >>,
                << Eff("assign", "b", << ParE("x") >>, TrueE, Un("not", FlE("b", << ParE("x") >>)), <<>>),
                   Eff("inc", "cnt", <<>>, CE(Z(1)), TrueE, <<>>) >>),
           Inst("z", <<>>, <<>>, << Eff("assign", "b", << ObjE("o1") >>, TrueE, TrueE, <<>>) >>) >>,
        << B("o1") >>, <<>>, <<>>, NoMetric)
CRForms == {"grounder", "cerm", "dcrm", "ncrm", "qrm", "btrm"}
CRCase(c) == Case("cr", c, FALSE, BaseC, NoX, NoPlan, Res("cr", "", "none", "none", "none", FALSE, FALSE, c))

\* ---------- emission ----------
MapSet(S, Op(_)) == LET s == SetToSeq(S) IN TLCEval([i \in DOMAIN s |-> Op(s[i])])
Cases == TLCEval(
   MapSet(NTypeForms, NTypeCase) \o MapSet(ConstForms, ConstCase) \o MapSet(TimingForms, TimingCase)
   \o MapSet(IntervalForms, IntervalCase) \o MapSet(EffectForms, EffectCase) \o MapSet(MetricForms, MetricCase)
   \o MapSet(FlagForms, FlagCase) \o MapSet(PlanForms, PlanCase) \o MapSet(PGForms, PGCase)
   \o MapSet(VRForms, VRCase) \o MapSet(CRForms, CRCase))

Sizes == << Cardinality(NTypeForms), Cardinality(ConstForms), Cardinality(TimingForms), Cardinality(IntervalForms),
            Cardinality(EffectForms), Cardinality(MetricForms), Cardinality(FlagForms), Cardinality(PlanForms),
            Cardinality(PGForms), Cardinality(VRForms), Cardinality(CRForms) >>

ASSUME ndJsonSerialize(IOEnv.OUT, Cases)
ASSUME PrintT(<<"EMITTED", Len(Cases)>> \o Sizes)

VARIABLE dummy
Init == dummy = 0
Next == UNCHANGED dummy
=============================================================================
