--------------------------- MODULE LinearAnalysis ---------------------------
(***************************************************************************)
(* C17, implementation-shaped layer: the sign-tracking algorithm of        *)
(* unified_planning/model/walkers/linear_checker.py as a recursive         *)
(* definition An(P, scope, e, mode) returning [lin, pos, neg], in two      *)
(* variants of walk_div:                                                   *)
(*   mode = "literal"  the code as written: the quotient swaps the two     *)
(*                     sets only when the divisor is a negative LITERAL    *)
(*                     (after the Simplifier folded closed sub-terms and   *)
(*                     replaced static fluents by their initial value);    *)
(*   mode = "bounds"   the repair: the sign of the divisor is taken from   *)
(*                     the bounds of its type exactly as walk_times takes  *)
(*                     the sign of a fluent-free factor (lower > 0: keep,  *)
(*                     upper < 0: swap, otherwise unknown: the fluents of  *)
(*                     the numerator go into BOTH sets).                   *)
(* T1 (checked by TLC over the whole enumerated space, see LinearTrace):   *)
(*   An(.., "bounds") satisfies Linear!Sound everywhere;                   *)
(*   An(.., "literal") does not (shortest witness x / q with q < 0).       *)
(* Of the Simplifier the model has: folding of closed terms, static        *)
(* fluents replaced by their value, 0 * e -> 0.  Other rewrites do not     *)
(* matter for T1, and the judge only COUNTS how often the as-written model *)
(* and the real answer differ (is_linear flag; the two sets when linear).  *)
(***************************************************************************)
EXTENDS Linear

\* ---------- bounds of an expression, as TypeChecker computes them ----------
Unb   == [fin |-> FALSE, lo |-> ZERO, hi |-> ZERO]
Pt(v) == [fin |-> TRUE, lo |-> v, hi |-> v]
Rng(t) == IF t.lo.k = "none" \/ t.hi.k = "none" THEN Unb ELSE [fin |-> TRUE, lo |-> t.lo, hi |-> t.hi]
ParType(P, scope, p) == LET ps == ActNamed(P, scope).params IN ps[CHOOSE i \in DOMAIN ps : ps[i].name = p].type
Min4(a, b, c, d) == RMin(RMin(a, b), RMin(c, d))
Max4(a, b, c, d) == RMax(RMax(a, b), RMax(c, d))
BMul(a, b) == IF ~a.fin \/ ~b.fin THEN Unb
              ELSE [fin |-> TRUE,
                    lo |-> Min4(RMul(a.lo, b.lo), RMul(a.lo, b.hi), RMul(a.hi, b.lo), RMul(a.hi, b.hi)),
                    hi |-> Max4(RMul(a.lo, b.lo), RMul(a.lo, b.hi), RMul(a.hi, b.lo), RMul(a.hi, b.hi))]
BAdd(a, b) == IF ~a.fin \/ ~b.fin THEN Unb ELSE [fin |-> TRUE, lo |-> RAdd(a.lo, b.lo), hi |-> RAdd(a.hi, b.hi)]
RECURSIVE BFold(_, _, _)
BFold(op, bs, i) == IF i = Len(bs) THEN bs[i]
                    ELSE IF op = "plus" THEN BAdd(bs[i], BFold(op, bs, i + 1)) ELSE BMul(bs[i], BFold(op, bs, i + 1))
RECURSIVE Bounds(_, _, _)
Bounds(P, scope, e) ==
   CASE e.op = "const"  -> Pt(e.v)
     [] e.op = "param"  -> Rng(ParType(P, scope, e.name))
     [] e.op = "fluent" -> LET i == FlIdx(P, e.name) IN
                           IF IsStatic(P, i) THEN Pt(InitOf(P, i)) ELSE Rng(P.fluents[i].type)
     [] e.op \in {"plus", "times"} -> BFold(e.op, [i \in DOMAIN e.args |-> Bounds(P, scope, e.args[i])], 1)
     [] e.op = "minus" -> LET a == Bounds(P, scope, e.args[1])
                              b == Bounds(P, scope, e.args[2])
                          IN IF ~a.fin \/ ~b.fin THEN Unb ELSE [fin |-> TRUE, lo |-> RSub(a.lo, b.hi), hi |-> RSub(a.hi, b.lo)]
     [] e.op = "div"   -> LET a == Bounds(P, scope, e.args[1])
                              b == Bounds(P, scope, e.args[2])
                          IN IF ~a.fin \/ ~b.fin \/ b.lo # b.hi \/ b.lo.n = 0 THEN Unb
                             ELSE [fin |-> TRUE, lo |-> RMin(RDiv(a.lo, b.lo), RDiv(a.hi, b.lo)),
                                                 hi |-> RMax(RDiv(a.lo, b.lo), RDiv(a.hi, b.lo))]
\* "+" strictly positive, "-" strictly negative, "?" unknown
SignOf(b) == IF ~b.fin THEN "?" ELSE IF RLt(ZERO, b.lo) THEN "+" ELSE IF RLt(b.hi, ZERO) THEN "-" ELSE "?"

\* ---------- what the Simplifier leaves as a literal ----------
RECURSIVE ClosedS(_, _)
ClosedS(P, e) == \/ e.op = "const"
                 \/ e.op = "fluent" /\ IsStatic(P, FlIdx(P, e.name))
                 \/ e.op \in {"plus", "minus", "times", "div"} /\ \A i \in DOMAIN e.args : ClosedS(P, e.args[i])
LitVal(P, e) == Eval(Ctx(P), e, [i \in DOMAIN P.fluents |-> InitOf(P, i)], <<>>)
NegLiteral(P, e) == ClosedS(P, e) /\ LET v == LitVal(P, e) IN ~IsU(v) /\ v.n < 0

ZeroLiteral(P, e) == ClosedS(P, e) /\ LET v == LitVal(P, e) IN ~IsU(v) /\ v.n = 0
RECURSIVE ZeroTerm(_, _)
ZeroTerm(P, e) == ZeroLiteral(P, e) \/ (e.op = "times" /\ \E i \in DOMAIN e.args : ZeroTerm(P, e.args[i]))

\* ---------- the input feature the known defect depends on (named in violation signatures) ----------
RECURSIVE SubExprs(_)
SubExprs(e) == {e} \cup UNION {SubExprs(e.args[i]) : i \in DOMAIN e.args}
RECURSIVE FluentFree(_, _)
FluentFree(P, e) == IF e.op = "fluent" THEN IsStatic(P, FlIdx(P, e.name)) ELSE \A i \in DOMAIN e.args : FluentFree(P, e.args[i])
\* the divisors of e that mention no (non-static) fluent, are not literals for the Simplifier, and
\* take a negative value somewhere on the grid
NegDivisors(P, e, Grid) ==
   {d \in {t.args[2] : t \in {u \in SubExprs(e) : u.op = "div"}} :
       /\ FluentFree(P, d) /\ ~ClosedS(P, d)
       /\ \E k \in DOMAIN Grid.pts : LET v == Eval(Ctx(P), d, Grid.pts[k].s, Grid.pts[k].env) IN ~IsU(v) /\ v.n < 0}
DivFeature(P, e, Grid) == IF NegDivisors(P, e, Grid) # {} THEN "nonliteral-divisor-can-be-negative"
                          ELSE "no-negative-nonliteral-divisor"

\* ---------- the analysis ----------
Lin(p, n) == [lin |-> TRUE, pos |-> p, neg |-> n]
NotLin    == [lin |-> FALSE, pos |-> {}, neg |-> {}]
NoFl(r)   == r.pos = {} /\ r.neg = {}
Signed(sg, p, n) == IF sg = "+" THEN Lin(p, n) ELSE IF sg = "-" THEN Lin(n, p) ELSE Lin(p \cup n, p \cup n)
RECURSIVE An(_, _, _, _)
An(P, scope, e, mode) ==
   LET rs == [i \in DOMAIN e.args |-> An(P, scope, e.args[i], mode)]
       allLin == \A i \in DOMAIN rs : rs[i].lin
       up == UNION {rs[i].pos : i \in DOMAIN rs}
       un == UNION {rs[i].neg : i \in DOMAIN rs}
   IN
   CASE e.op \in {"const", "param"} -> Lin({}, {})
     [] e.op = "fluent" -> IF IsStatic(P, FlIdx(P, e.name)) THEN Lin({}, {}) ELSE Lin({e.name}, {})
     [] e.op = "plus"  -> IF allLin THEN Lin(up, un) ELSE NotLin
     [] e.op = "minus" -> IF allLin THEN Lin(rs[1].pos \cup rs[2].neg, rs[1].neg \cup rs[2].pos) ELSE NotLin
     [] e.op = "times" /\ ZeroTerm(P, e) -> Lin({}, {})   \* Simplifier: 0 * e -> 0
     [] e.op = "times" ->
           LET withFl == {i \in DOMAIN rs : ~NoFl(rs[i])}
               sg == {SignOf(Bounds(P, scope, e.args[i])) : i \in DOMAIN rs \ withFl}
               nneg == Cardinality({i \in DOMAIN rs \ withFl : SignOf(Bounds(P, scope, e.args[i])) = "-"})
           IN IF ~allLin \/ Cardinality(withFl) > 1 THEN NotLin
              ELSE Signed(IF "?" \in sg THEN "?" ELSE IF nneg % 2 = 1 THEN "-" ELSE "+", up, un)
     [] e.op = "div" ->
           IF ~allLin \/ ~NoFl(rs[2]) THEN NotLin
           ELSE IF mode = "literal"
                THEN Signed(IF NegLiteral(P, e.args[2]) THEN "-" ELSE "+", rs[1].pos, rs[1].neg)
                ELSE Signed(SignOf(Bounds(P, scope, e.args[2])), rs[1].pos, rs[1].neg)
=============================================================================
