---------------------------- MODULE RenamerEnum ----------------------------
(* G1 generator for C38: every well-formed problem skeleton (sequence of     *)
(* <= MaxItems items (kind, adversarial name) x feature set) of the universe *)
(* RenamerImpl is model-checked over, written as ndjson; the driver builds   *)
(* each as a real problem and replays it on both writers.                    *)
EXTENDS RenamerImpl
Cases == {[feats |-> SetToSeq(f), items |-> s] : f \in UFeats, s \in ItemSeqs}
ASSUME ndJsonSerialize(IOEnv.OUT, SetToSeq(Cases))
ASSUME PrintT(<<"EMITTED", Cardinality(Cases)>>)
EInit == IInit
ENext == UNCHANGED ivars
=============================================================================
