---------------------------- MODULE ModelStoreTrace ----------------------------
(***************************************************************************)
(* C23 judge.  Every record of IOEnv.TRACES is one call history replayed   *)
(* on the real library (fresh Environment, fresh objects):                 *)
(*   id     history number                                                  *)
(*   pre    projection of the (empty) model before the first call          *)
(*   steps  <<[s, ok, exc, post]>>: the call (ModelStore!Call shape), did   *)
(*          it return, exception class ("" if ok), projection of the model  *)
(*          after the call:                                                 *)
(*          [has, fluents, tdefaults, init, effs, insts] in ModelStore's    *)
(*          shape plus ivals = the public Problem.initial_values view       *)
(*          (ivx = exception class if reading it raised, else "").          *)
(* The history is replayed through ModelStore's own call layer: the model  *)
(* variable m follows the implementation's decision (Apply when the call   *)
(* returned, unchanged when it raised; re-synchronised with the recorded    *)
(* model after a Stored / Unchanged fault) and every disagreement with the  *)
(* specification is remembered in `bad` as <<clause, step, feature>>:      *)
(*   Accept        Verdict = "yes" but the call raised                      *)
(*   Reject        Verdict = "no" but the call returned (ill-typed / non-   *)
(*                 constant value stored)                                   *)
(*   Unchanged     the call raised and the projection differs from m        *)
(*   Stored        the call returned and the projection differs from        *)
(*                 Apply(m, s): the value given is not the value stored     *)
(*   InitialValues Problem.initial_values differs from InitialValues(m')    *)
(*   StoreInv      the recorded model violates StoreOK although no Reject   *)
(*                 fault explains it                                        *)
(*   Enabled / Base   the history is not well-formed / the fresh model is   *)
(*                 not empty (driver bug: reported as machinery failure)    *)
(* Verdicts are total: Judged is always TRUE and prints                    *)
(*   <<"FAIL", id, clause, step, feature>>  and, per history,               *)
(*   <<"V", id, <<verdict of every step>>>>  (coverage, unspecified count). *)
(***************************************************************************)
EXTENDS ModelStore, Json, IOUtils
Traces == ndJsonDeserialize(IOEnv.TRACES)
VARIABLES tid, l, bad, vs
tvars == <<vars, tid, l, bad, vs>>

Fields == <<"has", "fluents", "tdefaults", "init", "effs", "insts">>
\* name of the first component in which a recorded projection differs from a model ("" if none)
Diff(p, mm) ==
   IF p.has # mm.has THEN "has"
   ELSE IF p.fluents # mm.fluents THEN "fluents"
   ELSE IF p.tdefaults # mm.tdefaults THEN "tdefaults"
   ELSE IF p.init # mm.init THEN "init"
   ELSE IF \E c \in {"inst", "dur", "timed"} :
              SelectSeq(p.effs, LAMBDA x : x.c = c) # SelectSeq(mm.effs, LAMBDA x : x.c = c) THEN "effs"
   ELSE IF p.insts # mm.insts THEN "insts"
   ELSE ""
AsModel(p) == [has |-> p.has, fluents |-> p.fluents, tdefaults |-> p.tdefaults, init |-> p.init,
               effs |-> p.effs, insts |-> p.insts]
HasReject(b) == \E i \in DOMAIN b : b[i][1] = "Reject"

Faults(r, step, mm, b) ==
   LET s  == r.s
       v  == Verdict(mm, s)
       m2 == IF r.ok THEN Apply(mm, s) ELSE mm
       d  == Diff(r.post, m2)
       f1 == IF ~Enabled(mm, s) THEN << <<"Enabled", step, s.op>> >> ELSE <<>>
       f2 == IF v = "yes" /\ ~r.ok THEN << <<"Accept", step, WhyOf(s)>> >> ELSE <<>>
       f3 == IF v = "no" /\ r.ok THEN << <<"Reject", step, WhyOf(s)>> >> ELSE <<>>
       f4 == IF d # "" THEN << <<IF r.ok THEN "Stored" ELSE "Unchanged", step, d>> >> ELSE <<>>
       f5 == IF m2.has /\ (r.post.ivx # "" \/ Range(r.post.ivals) # InitialValues(m2)) THEN << <<"InitialValues", step, "-">> >> ELSE <<>>
       f6 == IF ~HasReject(b \o f3) /\ ~StoreOK(AsModel(r.post)) THEN << <<"StoreInv", step, "-">> >> ELSE <<>>
   IN f1 \o f2 \o f3 \o f4 \o f5 \o f6

TraceInit == /\ tid \in DOMAIN Traces /\ l = 1 /\ vs = <<>> /\ Init
             /\ bad = IF Diff(Traces[tid].pre, Empty) # "" THEN << <<"Base", 0, Diff(Traces[tid].pre, Empty)>> >> ELSE <<>>
TraceNext ==
   /\ l <= Len(Traces[tid].steps)
   /\ LET r == Traces[tid].steps[l] IN
      \* the specification's own action when the implementation's decision is one the guard allows and
      \* the recorded model is the specified one; otherwise the decision is followed (and the model is
      \* re-synchronised with the recorded one, so that one fault is reported once and later calls are
      \* judged against the model the implementation really holds) -- Faults remembers why
      /\ LET s  == r.s
             m2 == IF r.ok THEN Apply(m, s) ELSE m
             synced  == Diff(r.post, m2) = ""
             allowed == Enabled(m, s) /\ Verdict(m, s) # (IF r.ok THEN "no" ELSE "yes")
         IN IF allowed /\ synced THEN (IF r.ok THEN Accepts(s) ELSE Rejects(s))
            ELSE /\ m' = IF synced THEN m2 ELSE AsModel(r.post)
                 /\ last' = [s |-> s, ok |-> r.ok]
      /\ bad' = bad \o Faults(r, l, m, bad)
      /\ vs' = Append(vs, Verdict(m, r.s))
   /\ l' = l + 1 /\ tid' = tid
TraceSpec == TraceInit /\ [][TraceNext]_tvars

Done == l > Len(Traces[tid].steps)
Judged == Done =>
   /\ PrintT(<<"V", Traces[tid].id, vs>>)
   /\ \A i \in DOMAIN bad : PrintT(<<"FAIL", Traces[tid].id, bad[i][1], bad[i][2], bad[i][3]>>)
=============================================================================
