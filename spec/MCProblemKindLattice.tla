------------------------ MODULE MCProblemKindLattice ------------------------
(* T1 configuration of ProblemKindLattice: constants come from the tables of *)
(* the real problem_kind_versioning module (ProblemKindLatticeTables).       *)
(* The same run emits the kinds / pairs / scripts (ProblemKindLatticeEnum).   *)
EXTENDS ProblemKindLatticeEnum   \* = ProblemKindLattice + tables + the G1 emission (one JVM start for both)
\* T1 visits every ordered pair of kinds as (object 1, object 2): queries on <<1, 2>> (on <<1, 1>> while
\* only one object exists) cover all operand pairs
FirstPair(lv) == {<<1, IF 2 \in lv THEN 2 ELSE 1>>}
\* every value a query returns obeys the bound / upgrade laws (checked on every transition)
RetLaws == [][RetOK']_vars
=============================================================================
