------------------------ MODULE MCProblemKindLattice ------------------------
(* T1 configuration of ProblemKindLattice: constants come from the tables of *)
(* the real problem_kind_versioning module (ProblemKindLatticeTables).       *)
EXTENDS ProblemKindLattice, ProblemKindLatticeTables
\* every value a query returns obeys the bound / upgrade laws (checked on every transition)
RetLaws == [][RetOK']_vars
=============================================================================
