---------------------------- MODULE ExprManagerTrace ----------------------------
(* Trace validation for C16.  Every recorded construction history of a real *)
(* ExpressionManager (fresh Environment) is replayed through ExprManager's  *)
(* own actions Mk / MkReject.  A record of one call holds                   *)
(*   k, a   the constructor and its atoms (<<"r", i, "">> = result of call i)*)
(*   r      <<"ok", node_id, object ordinal, node_type, child ids, payload>> *)
(*          or <<"exc", 0, 0, exception class, <<>>, "">>                    *)
(*   add    entries <<id, node_type, child ids, payload>> of                 *)
(*          ExpressionManager.expressions that were not there before the call*)
(*   del    entries that were there before and are not (or differ) now       *)
(*   n      len(expressions)                                                 *)
(* and the trace ends with `rr`, every earlier result re-read through the    *)
(* node's accessors.  New contents take the ids the real environment gave    *)
(* them (Rec); the specification requires them to be fresh and distinct.     *)
(* Verdicts are total: every violated clause is kept in `bad` as            *)
(* <<clause, call index>> and printed when the trace has been consumed.      *)
EXTENDS ExprManager, Json, IOUtils
Traces == ndJsonDeserialize(IOEnv.TRACES)
VARIABLES tid, l, bad, resid, seen, rejected, dead, cnt
tvars == <<vars, tid, l, bad, resid, seen, rejected, dead, cnt>>

ToSet(s) == {s[i] : i \in DOMAIN s}
EntC(e) == <<e[2], e[3], e[4]>>
\* recorded entries as a content -> id function
RecOf(S) == [c \in {EntC(e) : e \in S} |-> (CHOOSE e \in S : EntC(e) = c)[1]]
Functional(S) == \A e1 \in S, e2 \in S : EntC(e1) = EntC(e2) => e1 = e2
Injective(S) == \A e1 \in S, e2 \in S : e1[1] = e2[1] => e1 = e2

\* ---- start: the two Boolean constants exist (their ids are the environment's choice)
InitEntries == ToSet(Traces[tid].init)
InitOK == /\ Len(Traces[tid].init) = 2 /\ Functional(InitEntries) /\ Injective(InitEntries)
          /\ {EntC(e) : e \in InitEntries} = {TrueC, FalseC}
          /\ \A e \in InitEntries : e[1] > 0
TraceInit ==
   /\ tid \in DOMAIN Traces
   /\ l = 1 /\ resid = <<>> /\ seen = <<>> /\ rejected = {} /\ dead = FALSE
   /\ cnt = Len(Traces[tid].init)
   /\ IF InitOK THEN InitWith(RecOf(InitEntries)[TrueC], RecOf(InitEntries)[FalseC]) /\ bad = {}
      ELSE Init /\ bad = {<<"init-bool-constants", 0>>}

\* ---- clauses violated by the record o of one call
\* R = the specification's outcome, atoms = the call's arguments as specification atoms
Clauses(o, R, atoms) ==
   LET A == ToSet(o.add)
       Exp == EntriesOf(R.T) \ EntriesOf(table)
       extra == A \ Exp
       missing == {e \in Exp : \A f \in A : EntC(f) # EntC(e)}
       okI == o.r[1] = "ok"
       tableC ==
          (IF o.del # <<>> THEN {"table-keeps-entries"} ELSE {})
          \cup (IF extra = {} THEN {}
                ELSE IF ~R.ok /\ \E e \in extra : EntC(e) = R.c THEN {"reject-leaves-table-unchanged"}
                ELSE {"table-extra-node"})
          \cup (IF missing # {} THEN {"table-missing-node"} ELSE {})
          \cup (IF \E e \in A : e[1] < nextId \/ e[1] \in IdsOf(table) THEN {"new-ids-fresh"} ELSE {})
          \cup (IF ~Injective(A) THEN {"new-ids-distinct"} ELSE {})
          \cup (IF ~Functional(A) \/ \E e \in A : EntC(e) \in DOMAIN table THEN {"same-content-same-id"} ELSE {})
          \cup (IF o.n - cnt # Len(o.add) - Len(o.del) THEN {"table-count"} ELSE {})
       resultC ==
          (IF R.ok /\ ~okI THEN {"accepts-well-typed"} ELSE {})
          \cup (IF ~R.ok /\ okI THEN (IF R.c \in rejected THEN {"reject-repeatable"} ELSE {"rejects-ill-typed"}) ELSE {})
          \cup (IF R.ok /\ okI /\ o.r[2] # R.res
                THEN (IF R.res \in IdsOf(table) THEN {"same-content-same-node"} ELSE {"result-is-interned-node"}) ELSE {})
          \cup (IF R.ok /\ okI /\ <<o.r[4], o.r[5], o.r[6]>> # NodeOf(R.T, R.res) THEN {"result-content-normal-form"} ELSE {})
          \* identical node: one Python object per id and one id per object
          \cup (IF okI /\ ((o.r[2] \in DOMAIN seen /\ seen[o.r[2]] # o.r[3])
                           \/ (o.r[2] \notin DOMAIN seen /\ o.r[3] \in IdsOf(seen)))
                THEN {"identical-object"} ELSE {})
       \* declarative layer: when the record agrees with the id-level outcome, the recorded table is R.T and
       \* the node returned must denote the documented normal form of the call on TERMS
       termC == IF tableC = {} /\ resultC = {} /\ R.ok
                   /\ TermOf(R.T, o.r[2]) # NormTerm(o.k, [i \in DOMAIN atoms |-> AtomTerm(R.T, atoms[i])])
                THEN {"spec-normal-term"} ELSE {}
   IN tableC \cup resultC \cup termC

StaysInSync == {"reject-leaves-table-unchanged", "reject-repeatable", "rejects-ill-typed"}
CallStep ==
   /\ l <= Len(Traces[tid].ops)
   /\ LET o == Traces[tid].ops[l]
          refsOK == \A i \in DOMAIN o.a : o.a[i][1] = "r" => resid[o.a[i][2]] \in IdsOf(table)
          sAtoms == [i \in DOMAIN o.a |-> IF o.a[i][1] = "r" THEN <<"n", resid[o.a[i][2]], "">> ELSE o.a[i]]
      IN IF dead \/ ~refsOK \/ ~Specified(o.k, sAtoms, table)
         THEN \* an argument is the result of a call the specification did not accept, or the call lies
              \* in the unspecified zone: the rest of the trace is not judged
              /\ dead' = TRUE /\ resid' = Append(resid, 0)
              /\ UNCHANGED <<vars, bad, seen, rejected, cnt>>
         ELSE LET atoms == sAtoms
                  A == ToSet(o.add)
                  \* ids handed out by the environment are adopted only when they are fresh and distinct
                  Rec == IF Functional(A) /\ Injective(A) /\ \A e \in A : e[1] >= nextId THEN RecOf(A) ELSE NoRec
                  R == Apply(table, nextId, o.k, atoms, Rec)
                  cl == Clauses(o, R, atoms)
              IN /\ WFCall(o.k, atoms, table)
                 /\ (MkWith(R) \/ MkRejectWith(R, 0))     \* Mk / MkReject with the outcome computed once
                 /\ bad' = bad \cup {<<c, l>> : c \in cl}
                 /\ resid' = Append(resid, IF R.ok /\ o.r[1] = "ok" /\ o.r[2] \in IdsOf(R.T) THEN o.r[2] ELSE 0)
                 /\ seen' = IF o.r[1] = "ok" /\ o.r[2] \notin DOMAIN seen THEN seen @@ (o.r[2] :> o.r[3]) ELSE seen
                 /\ rejected' = IF R.ok THEN rejected ELSE rejected \cup {R.c}
                 /\ cnt' = o.n
                 \* after a divergence of a result or of the table the recorded ids no longer mean what the
                 \* specification's ids mean: the rest of the trace is not judged (the trace is reported).
                 \* A node left behind / returned by an ill-typed attempt is never referenced: judging goes on.
                 /\ dead' = (cl \ StaysInSync # {})
   /\ l' = l + 1 /\ tid' = tid

\* ---- the end of the trace: every earlier result is read again and must not have changed
Reread ==
   /\ l = Len(Traces[tid].ops) + 1
   /\ LET t == Traces[tid]
          changed == {i \in DOMAIN t.ops : t.ops[i].r[1] = "ok" /\
                         t.rr[i] # <<t.ops[i].r[2], t.ops[i].r[4], t.ops[i].r[5], t.ops[i].r[6]>>}
      IN bad' = bad \cup {<<"node-immutable", i>> : i \in changed}
   /\ l' = l + 1
   /\ UNCHANGED <<vars, tid, resid, seen, rejected, dead, cnt>>

TraceNext == CallStep \/ Reread
TraceSpec == TraceInit /\ [][TraceNext]_tvars

Done == l > Len(Traces[tid].ops) + 1
\* total verdict: never fails for machinery reasons, prints the failing clauses
Verdict == /\ (Done /\ bad # {}) => \A b \in bad : PrintT(<<"FAIL", Traces[tid].id, b[1], b[2]>>)
           /\ (Done /\ dead) => PrintT(<<"DEAD", Traces[tid].id>>)
=============================================================================
