-------------------------------- MODULE Bisim --------------------------------
(***************************************************************************)
(* Behavioural equivalence of two problems A and B over the same names     *)
(* (C18, C19, C21: B is A written and read back, already renamed back to   *)
(* A's identifiers by the driver using the writer's own look-up tables; or *)
(* the results of two readers on one text).                                *)
(* TLC explores A's reachable states (UPSeqSem!Step on A) to the depth     *)
(* bound; in every reachable state s it checks, for every ground action of *)
(* either problem, that A and B agree on applicability and successor, and  *)
(* that they agree on the goal verdict and on action costs.  Same objects  *)
(* and same initial state are checked in the initial state.                *)
(* A ground action that exists in only one problem is acceptable iff it is *)
(* applicable in no reachable state (writers drop actions whose            *)
(* preconditions simplify to false).                                       *)
(* Total verdicts: <<"FAIL", id, clause, action name>>.                      *)
(***************************************************************************)
EXTENDS UPSeqSem, Json, IOUtils

Corpus == ndJsonDeserialize(IOEnv.BATCH)
MaxDepth == Corpus[1].depth
VARIABLES cid, s, depth
vars == <<cid, s, depth>>
RA(c) == [P |-> Corpus[c].A, keys |-> Corpus[c].akeys]
RB(c) == [P |-> Corpus[c].B, keys |-> Corpus[c].bkeys]

KeySetA(c) == {Corpus[c].akeys[i] : i \in DOMAIN Corpus[c].akeys}
KeySetB(c) == {Corpus[c].bkeys[i] : i \in DOMAIN Corpus[c].bkeys}
SameKeys(c) == KeySetA(c) = KeySetB(c)
\* the state s (aligned with A's keys) in B's key order
ToB(c, st) == [i \in DOMAIN Corpus[c].bkeys |->
                 st[CHOOSE j \in DOMAIN Corpus[c].akeys : Corpus[c].akeys[j] = Corpus[c].bkeys[i]]]
ToA(c, st) == [i \in DOMAIN Corpus[c].akeys |->
                 st[CHOOSE j \in DOMAIN Corpus[c].bkeys : Corpus[c].bkeys[j] = Corpus[c].akeys[i]]]

\* Optional record field own_depth (C21; absent = the batch-wide bound MaxDepth): a depth bound of this pair only.
DepthOf(c) == IF "own_depth" \in DOMAIN Corpus[c] THEN Corpus[c].own_depth ELSE MaxDepth
Init == /\ cid \in DOMAIN Corpus
        /\ s = InitSt(RA(cid)) /\ depth = 0
Next == /\ depth < DepthOf(cid)
        /\ SameKeys(cid)
        /\ InitOK3(RA(cid), InitSt(RA(cid))) = "T"
        /\ \E ga \in GActs(Corpus[cid].A) :
              LET r == Step(RA(cid), ga, s) IN r.ok /\ ~r.unspec /\ s' = r.s
        /\ depth' = depth + 1 /\ UNCHANGED cid
Spec == Init /\ [][Next]_vars

ObjSet(P) == {<<P.objects[i].name, P.objects[i].type>> : i \in DOMAIN P.objects}
Report(c, clause, a) == PrintT(<<"FAIL", Corpus[c].cid, clause, a>>)

CostOf(R, ga, st) == IF R.P.metric.kind = "costs" THEN ActCost(R, R.P.metric, ga, st) ELSE NONE
\* Optional record field length_as_unit_costs (C18; absent = FALSE = the comparison above): PDDL has no
\* plan-length metric, its writer renders "length" as unit action costs; with the field TRUE a "length"
\* metric is compared through its metric increments (kind "costs", cost 1 for every action).
LenAsCosts(c) == "length_as_unit_costs" \in DOMAIN Corpus[c] /\ Corpus[c].length_as_unit_costs
MKind(c, P) == IF LenAsCosts(c) /\ P.metric.kind = "length" THEN "costs" ELSE P.metric.kind
CostOfC(c, R, ga, st) == IF LenAsCosts(c) /\ R.P.metric.kind = "length" THEN ONE ELSE CostOf(R, ga, st)
\* Optional record field final_value_metric (C21; absent = FALSE = not compared): when both problems carry a
\* metric on the final state (minfinal / maxfinal) its expression must have the same value in every reachable
\* state (any of them can be a final state); values reading undefined fluents are an unspecified zone.
FinalMetric(c) == "final_value_metric" \in DOMAIN Corpus[c] /\ Corpus[c].final_value_metric
IsFinalKind(P) == P.metric.kind \in {"minfinal", "maxfinal"}
SameFinalMetric(c, st, stb) ==
   ~FinalMetric(c) \/ ~IsFinalKind(Corpus[c].A) \/ ~IsFinalKind(Corpus[c].B)
   \/ LET va == Eval(RA(c), Corpus[c].A.metric.expr, st, <<>>)
          vb == Eval(RB(c), Corpus[c].B.metric.expr, stb, <<>>)
      IN IsU(va) \/ IsU(vb) \/ VEq(va, vb)

Equivalent ==
   LET c == cid IN
   IF ~SameKeys(c) THEN (depth > 0 \/ Report(c, "ground-fluents-differ", ""))
   ELSE
   LET GA == GActs(Corpus[c].A)
       GB == GActs(Corpus[c].B)
       sb == ToB(c, s)
   IN /\ (depth > 0 \/
            /\ (ObjSet(Corpus[c].A) = ObjSet(Corpus[c].B) \/ Report(c, "objects-differ", ""))
            /\ (ToA(c, InitSt(RB(c))) = s \/ Report(c, "initial-state-differs", ""))
            /\ (InitOK3(RB(c), InitSt(RB(c))) = InitOK3(RA(c), s) \/ Report(c, "initial-state-validity-differs", ""))
            /\ (MKind(c, Corpus[c].A) = MKind(c, Corpus[c].B) \/ Report(c, "metric-kind-differs", "")))
      /\ \A ga \in GA \cup GB :
           LET ra == IF ga \in GA THEN Step(RA(c), ga, s) ELSE [ok |-> FALSE, unspec |-> FALSE, s |-> s, why |-> "absent"]
               rb == IF ga \in GB THEN Step(RB(c), ga, sb) ELSE [ok |-> FALSE, unspec |-> FALSE, s |-> sb, why |-> "absent"]
           IN IF ra.unspec \/ rb.unspec THEN TRUE
              ELSE IF ra.ok # rb.ok
                   THEN Report(c, "applicability-A-" \o ra.why \o "-B-" \o rb.why, ga.a)
              ELSE IF ra.ok /\ ToA(c, rb.s) # ra.s THEN Report(c, "successor-differs", ga.a)
              ELSE IF ra.ok /\ ~VEq(CostOfC(c, RA(c), ga, s), CostOfC(c, RB(c), ga, sb)) THEN Report(c, "action-cost-differs", ga.a)
              ELSE TRUE
      /\ LET g1 == Goal3(RA(c), s)
             g2 == Goal3(RB(c), sb)
         IN g1 = "?" \/ g2 = "?" \/ g1 = g2 \/ Report(c, "goal-verdict-A-" \o g1 \o "-B-" \o g2, "")
      /\ (SameFinalMetric(c, s, sb) \/ Report(c, "metric-value-differs", ""))
=============================================================================
