----------------------------- MODULE PlanConvSTN -----------------------------
(***************************************************************************)
(* C26: time-triggered <-> STN plan conversions are faithful.              *)
(*                                                                         *)
(* Every recorded problem is one initial state and every recorded         *)
(* (time-triggered plan [, conversion results]) of it one successor state. *)
(* Two modes (IOEnv.MODE):                                                 *)
(*                                                                         *)
(*  "P1"  selection: prints <<"V", pid, pi>> iff the candidate plan is      *)
(*        VALID by the reference temporal semantics UPTimeSem!TimeVerdict  *)
(*        (the premise of C26 is decided here, not by the library).        *)
(*  "P3"  judge of the recorded conversion of a VALID plan                 *)
(*          stn  = plan.convert_to(STN_PLAN, problem)                      *)
(*          back = stn.convert_to(TIME_TRIGGERED_PLAN, problem)            *)
(*        An STN plan is a set of interval constraints over plan events    *)
(*            lo <= Time(b) - Time(a) <= hi                                *)
(*        (this is what the code implements; the docstring of STNPlan has  *)
(*        the difference the other way round).  Events: 1 = start of the   *)
(*        plan, 2 = end of the plan, 2i+1 / 2i+2 = start / end of step i.  *)
(*        STNSat is Floyd-Warshall consistency of the difference           *)
(*        constraints (operators of DeltaSTN, rationals scaled to integers *)
(*        by rec.scale).  Clauses:                                         *)
(*          premise           the original plan is VALID (re-evaluated)    *)
(*          conv-raises-X     the conversion raised X                      *)
(*          event             a constraint mentions an unknown node        *)
(*          is_consistent-... is_consistent() differs from STNSat          *)
(*          inconsistent      the STN plan is not satisfiable              *)
(*          orig-violates     original starts/durations violate a          *)
(*                            constraint (plan end := latest end)          *)
(*          back-raises-X     the back conversion raised X                 *)
(*          back-steps        the converted-back plan is not a re-timing   *)
(*                            of the same action instances                 *)
(*          back-not-solution its times do not satisfy the STN             *)
(*          back-INVALID-why  it is not VALID for the problem              *)
(* Verdict lines: <<"FAIL", pid, pi, clause>>, <<"U", pid, pi>> (the        *)
(* reference semantics leaves the converted-back plan unspecified).        *)
(***************************************************************************)
EXTENDS UPTimeSem, Json, IOUtils

CONSTANT MaxEv     \* 2 + 2 * (maximal number of plan steps)

Batch == ndJsonDeserialize(IOEnv.BATCH)
Mode == IOEnv.MODE
VARIABLES pid, pi
vars == <<pid, pi>>
R(p) == [P |-> Batch[p].P, keys |-> Batch[p].keys]
\* one initial state per problem (pi = 0), one successor per plan: TLC evaluates the invariant of
\* initial states sequentially but distributes the successors over its workers
Init == pid \in DOMAIN Batch /\ pi = 0
Next == pi = 0 /\ pi' \in DOMAIN Batch[pid].plans /\ pid' = pid
Spec == Init /\ [][Next]_vars

\* Floyd-Warshall over MaxEv events: W0 / FW / Closure / Consistent / Satisfies of DeltaSTN
\* (the state variables of that module are not used by these operators)
STN == INSTANCE DeltaSTN WITH NEv <- MaxEv, NNet <- 1, Bnd <- {0}, MaxOps <- 0,
          live <- {}, adj <- <<>>, dist <- <<>>, known <- <<>>, sat <- <<>>, all <- <<>>,
          nops <- 0, diverged <- FALSE

-----------------------------------------------------------------------------
(* STN plans as difference constraints *)

EvStart(i) == 2 * i + 1
EvEnd(i)   == 2 * i + 2
NEvents(steps) == 2 + 2 * Len(steps)

Integral(x, sc) == (x.n * sc) % x.d = 0
Sc(x, sc) == (x.n * sc) \div x.d

\* bounds are [has |-> BOOLEAN, n |-> Int, d |-> Nat \ {0}]
BoundsOf(cons) == {cons[i].lo : i \in {i \in DOMAIN cons : cons[i].lo.has}}
                  \cup {cons[i].hi : i \in {i \in DOMAIN cons : cons[i].hi.has}}

\* <<x, y, b>> stands for  Time(x) - Time(y) <= b
Diff(cons, sc) ==
   {<<cons[i].a, cons[i].b, 0 - Sc(cons[i].lo, sc)>> : i \in {i \in DOMAIN cons : cons[i].lo.has}}
   \cup {<<cons[i].b, cons[i].a, Sc(cons[i].hi, sc)>> : i \in {i \in DOMAIN cons : cons[i].hi.has}}

STNSat(C) == STN!Consistent(C)
Satisfies(t, C) == STN!Satisfies(t, C)

\* the time assignment denoted by a time-triggered plan whose step i is an instance of the
\* i-th step of the original plan (the end of the plan is the latest end of a step)
Assign(P, plan, sc) ==
   [e \in 1..MaxEv |->
      IF e = 1 THEN 0
      ELSE IF e = 2 THEN Sc(PlanEnd(P, plan), sc)
      ELSE LET i == (e - 1) \div 2 IN
           IF i > Len(plan) THEN 0
           ELSE IF e % 2 = 1 THEN Sc(TV(plan[i].t), sc) ELSE Sc(StepEnd(P, plan[i]), sc)]

TimesOf(P, plan) == {TV(plan[i].t) : i \in DOMAIN plan} \cup {StepEnd(P, plan[i]) : i \in DOMAIN plan}

\* back[j].i = index of the original step whose ActionInstance object the j-th converted-back step carries
IsRetiming(steps, back) ==
   /\ Len(back) = Len(steps)
   /\ {back[j].i : j \in DOMAIN back} = DOMAIN steps
   /\ \A j \in DOMAIN back : back[j].a = steps[back[j].i].a /\ back[j].args = steps[back[j].i].args
\* the converted-back plan listed in the order of the original steps
Reorder(steps, back) ==
   [i \in DOMAIN steps |-> LET b == back[CHOOSE j \in DOMAIN back : back[j].i = i] IN
                           [a |-> b.a, args |-> b.args, t |-> b.t, d |-> b.d]]

\* finer reason when a step of an INVALID plan fails: its duration constraint or one of its conditions
InvalidWhy(RR, plan) ==
   LET v == TimeVerdict(RR, plan) IN
   IF v.why # "steps" THEN v.why
   ELSE LET P   == RR.P
            Ev  == Events(P, plan)
            H   == SortT({e.t : e \in Ev})
            run == RunFrom(RR, Ev, H, 1, <<InitSt(RR)>>)
        IN IF \E i \in DOMAIN plan :
                 LET a == Act(P, plan[i].a) IN
                 a.kind = "dur" /\ DurCheck(RR, H, run.S, plan[i], a, ParEnv(a, plan[i])) = "F"
           THEN "steps-duration" ELSE "steps-condition"

-----------------------------------------------------------------------------
(* the clauses *)

Clauses(p, rec) ==
   LET RR    == R(p)
       P     == RR.P
       steps == rec.steps
       sc    == rec.scale
       v0    == TimeVerdict(RR, steps)
   IN IF v0.v # "VALID" THEN {"premise-" \o v0.v}
      ELSE IF rec.conv # "ok" THEN {"conv-raises-" \o rec.conv}
      ELSE IF \E i \in DOMAIN rec.cons : {rec.cons[i].a, rec.cons[i].b} \notin SUBSET (1..NEvents(steps))
           THEN {"event"}
      ELSE IF \E x \in BoundsOf(rec.cons) \cup TimesOf(P, steps) : ~Integral(x, sc) THEN {"MACHINERY-scale"}
      ELSE
      LET C   == Diff(rec.cons, sc)
          sat == STNSat(C)
          c1  == IF rec.consistent # sat
                 THEN {"is_consistent-" \o ToString(rec.consistent) \o "-spec-" \o ToString(sat)} ELSE {}
          c2  == IF ~sat THEN {"inconsistent"} ELSE {}
          c3  == IF ~Satisfies(Assign(P, steps, sc), C) THEN {"orig-violates"} ELSE {}
          c4  == IF rec.backconv # "ok" THEN {"back-raises-" \o rec.backconv}
                 ELSE IF ~IsRetiming(steps, rec.back) THEN {"back-steps"}
                 ELSE LET bk == Reorder(steps, rec.back)
                          vb == TimeVerdict(RR, bk)
                      IN (IF \E x \in TimesOf(P, bk) : ~Integral(x, sc) THEN {"MACHINERY-scale"}
                          ELSE IF ~Satisfies(Assign(P, bk, sc), C) THEN {"back-not-solution"} ELSE {})
                         \cup (IF vb.v = "INVALID" THEN {"back-INVALID-" \o InvalidWhy(RR, bk)}
                               ELSE IF vb.v = "unspec" THEN {"U"} ELSE {})
      IN c1 \cup c2 \cup c3 \cup c4

Judge ==
   pi = 0 \/
   LET rec == Batch[pid].plans[pi] IN
   IF Mode = "P1"
   THEN LET v == TimeVerdict(R(pid), rec.steps) IN
        IF v.v = "VALID" THEN PrintT(<<"V", Batch[pid].pid, pi>>)
        ELSE IF v.v = "unspec" THEN PrintT(<<"U", Batch[pid].pid, pi>>) ELSE TRUE
   ELSE \A c \in Clauses(pid, rec) :
           IF c = "U" THEN PrintT(<<"U", Batch[pid].pid, pi>>) ELSE PrintT(<<"FAIL", Batch[pid].pid, pi, c>>)
=============================================================================
