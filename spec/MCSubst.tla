------------------------------- MODULE MCSubst -------------------------------
(* T1 for C13: on every case of SubstCases (one state per case)              *)
(*   LayersAgree     the reference algorithm Subst = the positional reading  *)
(*                   SubstDecl of the property statement                     *)
(*   Corollary       Eval(Subst(e, m), sigma) = Eval(e, sigma[m]) for leaf   *)
(*                   keys, on every valuation of Subst!Valuations            *)
(*   SortPreserved   a map that is not rejected keeps the expression         *)
(*                   well-sorted (so the real result can be constructed)     *)
(*   NormalForm      results contain no double negation                      *)
(*   NoOccurrence    a map none of whose keys occurs leaves e as it is       *)
(*   WellFormedCase  generator sanity: e well-sorted, in normal form,        *)
(*                   constructible; keys pairwise different                  *)
(* The cases are spread over NB blocks: an initial state per block, then   *)
(* one successor per case of the block, so that TLC's workers share the     *)
(* evaluation of the invariants.                                            *)
EXTENDS SubstCases
VARIABLES blk, gi, mi
NB == 64
Init == blk \in 1..NB /\ gi = 0 /\ mi = 0
Next == /\ gi = 0 /\ blk' = blk
        /\ gi' \in {g \in DOMAIN Groups : g % NB = blk % NB}
        /\ mi' \in DOMAIN Groups[gi'].ms
Picked == gi # 0
E == Groups[gi].e
M == Groups[gi].ms[mi]
Ref == Subst(E, M)
LayersAgree == Picked => Ref = SubstDecl(E, M)
Corollary == (Picked /\ SemApplicable(E, M)) => SemOK(E, M, Ref)
SortPreserved == (Picked /\ MapVerdict(M) # "reject") => WellSorted(Ref)
NormalForm == Picked => NF(Ref)
NoOccurrence == (Picked /\ \A i \in DOMAIN M : M[i].k \notin Subterms(E)) => Ref = E
WellFormedCase == Picked =>
                  /\ WellSorted(E) /\ NF(E) /\ ~ZeroDen(E)
                  /\ \A i \in DOMAIN M : WellSorted(M[i].k) /\ WellSorted(M[i].v) /\ NF(M[i].k) /\ NF(M[i].v)
                                         /\ ~ZeroDen(M[i].k) /\ ~ZeroDen(M[i].v)
                  /\ \A i \in DOMAIN M : \A j \in DOMAIN M : i # j => M[i].k # M[j].k
=============================================================================
