------------------------------- MODULE MCSubst -------------------------------
(* T1 for C13: on every case of SubstCases (one state per case)              *)
(*   LayersAgree     the reference algorithm Subst = the positional reading  *)
(*                   SubstDecl of the property statement                     *)
(*   Corollary       Eval(Subst(e, m), sigma) = Eval(e, sigma[m]) for leaf   *)
(*                   keys, on every valuation of Subst!Valuations            *)
(*   SortPreserved   a map that is not rejected keeps the expression         *)
(*                   well-sorted (so the real result can be constructed)     *)
(*   NormalForm      results contain no double negation                      *)
(*   NoOccurrence    a map none of whose keys occurs leaves e as it is       *)
(*   WellFormedCase  generator sanity: e well-sorted, in normal form,        *)
(*                   constructible; keys pairwise different                  *)
(* The cases are spread over NB blocks: an initial state per block, then   *)
(* one successor per case of the block, so that TLC's workers share the     *)
(* evaluation of the invariants.                                            *)
EXTENDS SubstCases
VARIABLES blk, gi, mi
NB == 64
Init == blk \in 1..NB /\ gi = 0 /\ mi = 0
Next == /\ gi = 0 /\ blk' = blk
        /\ gi' \in {g \in DOMAIN Groups : g % NB = blk % NB}
        /\ mi' \in DOMAIN Groups[gi'].ms
Picked == gi # 0
E == Groups[gi].e
M == Groups[gi].ms[mi]
Ref == Subst(E, M)
LayersAgree == Picked => Ref = SubstDecl(E, M)
Corollary == (Picked /\ SemApplicable(E, M)) => SemOK(E, M, Ref)
SortPreserved == (Picked /\ MapVerdict(M) # "reject") => WellSorted(Ref)
NormalForm == Picked => NF(Ref)
NoOccurrence == (Picked /\ \A i \in DOMAIN M : M[i].k \notin Subterms(E)) => Ref = E
WellFormedCase == Picked =>
                  /\ WellSorted(E) /\ NF(E) /\ ~ZeroDen(E)
                  /\ \A i \in DOMAIN M : WellSorted(M[i].k) /\ WellSorted(M[i].v) /\ NF(M[i].k) /\ NF(M[i].v)
                                         /\ ~ZeroDen(M[i].k) /\ ~ZeroDen(M[i].v)
                  /\ \A i \in DOMAIN M : \A j \in DOMAIN M : i # j => M[i].k # M[j].k

\* ---- the reference on the examples of the Substituter.substitute docstring, and the teeth of the
\* ---- operators the judge relies on (a false ASSUME stops the run: machinery failure)
AB == Bin("and", A, B)
ASSUME Subst(AB, <<Pair(A, C), Pair(Bin("and", C, B), Not(C)), Pair(AB, C)>>) = C   \* docstring example 1
ASSUME Subst(A, <<Pair(A, C), Pair(C, B)>>) = C                                      \* docstring example 2
ASSUME MapVerdict(<<Pair(A, One), Pair(B, C)>>) = "reject"                           \* docstring example 3
ASSUME Subst(AB, <<Pair(A, B), Pair(Bin("and", B, B), C)>>) = Bin("and", B, B)       \* top-down, not bottom-up
ASSUME Subst(Qu("exists", "v", P(V)), <<Pair(P(V), A), Pair(V, LOC)>>) = Qu("exists", "v", P(V))
ASSUME Subst(Bin("and", P(V), Qu("exists", "v", P(V))), <<Pair(V, LOC)>>) = Bin("and", P(LOC), Qu("exists", "v", P(V)))
\* an identity pair pins its key: the occurrences of p(v) are maximal matches, v is replaced only outside them
ASSUME Subst(Bin("and", P(V), Bin("eq", V, LOC)), <<Pair(P(V), P(V)), Pair(V, O1)>>) = Bin("and", P(V), Bin("eq", O1, LOC))
ASSUME Subst(Bin("lt", Bin("plus", X, One), X), <<Pair(X, Y), Pair(Bin("plus", X, One), Bin("plus", X, One))>>)
       = Bin("lt", Bin("plus", X, One), Y)
ASSUME MaxOcc(Bin("and", P(V), Bin("eq", V, LOC)), <<Pair(P(V), P(V)), Pair(V, O1)>>) = {<<1>>, <<2, 1>>}
ASSUME Subst(Not(A), <<Pair(A, Not(B))>>) = B                                        \* Not(Not x) = x
ASSUME SemOK(A, <<Pair(A, B)>>, B) /\ ~SemOK(A, <<Pair(A, B)>>, A)
ASSUME SemOK(Bin("le", X, One), <<Pair(X, Bin("plus", X, One))>>, Bin("le", Bin("plus", X, One), One))
       /\ ~SemOK(Bin("le", X, One), <<Pair(X, Bin("plus", X, One))>>, Bin("le", X, One))
ASSUME ~SemApplicable(Qu("exists", "v", AB), <<Pair(A, P(V))>>)                      \* capture is outside the corollary
ASSUME ~WellSorted(Bin("and", A, One)) /\ ~NF(Not(Not(A))) /\ ZeroDen(Bin("div", X, Bin("minus", One, One)))
ASSUME MaxOcc(AB, <<Pair(A, B), Pair(AB, C)>>) = {<<>>} /\ MaxOcc(AB, <<Pair(A, B), Pair(B, A)>>) = {<<1>>, <<2>>}
=============================================================================
