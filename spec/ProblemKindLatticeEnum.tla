------------------------ MODULE ProblemKindLatticeEnum ------------------------
(***************************************************************************)
(* G1 generator for C33.  TLC enumerates                                   *)
(*  - every well-formed kind over the feature universe (all declared       *)
(*    versions and version=None), numbered in the order (dv, mask), with   *)
(*    the version the specification assigns to it (IOEnv.KINDS);           *)
(*  - every ordered pair of kinds, plus every kind paired with itself as   *)
(*    one object (al = 1), each with the script of queries to run on fresh *)
(*    objects (IOEnv.PAIRS, sc = index into IOEnv.SCRIPTS); a script is a  *)
(*    sequence of <<op, w>> with op 1 ==, 2 <=, 3 union,                   *)
(*    4 intersection, and for kinds of one version 5 a <= a|b, 6 b <= a|b, *)
(*    7 a&b <= a, 8 a&b <= b, 9 upgrade both to w and compare;             *)
(*  - rows = 1 asks for the third-kind rows (a|b <= c, c <= a&b for every  *)
(*    c of the same version, in the order of IOEnv.KINDS): the triples     *)
(*    (for a before or equal to b in that order; both calls are symmetric).*)
(***************************************************************************)
EXTENDS ProblemKindLattice, ProblemKindLatticeTables, SequencesExt
CONSTANTS Triples,     \* ask for the third-kind rows
          WithBounds   \* include the compound bound queries 5..8
Key(k)  == k.dv * NMask + MaskOf(k.f)
KindSeq == SortSeq(SetToSeq(Kinds), LAMBDA x, y : Key(x) < Key(y))
NK      == Len(KindSeq)
KindRows == [i \in 1..NK |-> [id |-> i, dv |-> KindSeq[i].dv, m |-> MaskOf(KindSeq[i].f), v |-> Ver(KindSeq[i])]]

\* scripts: 0 = kinds of different versions, v = two kinds of version v
Basic  == << <<1, 0>>, <<2, 0>>, <<3, 0>>, <<4, 0>> >>
Bounds == << <<5, 0>>, <<6, 0>>, <<7, 0>>, <<8, 0>> >>
ScriptRows == [n \in 1..(Latest + 1) |->
                 LET v == n - 1 IN
                 [sc |-> v, ops |-> IF v = 0 THEN Basic
                                    ELSE Basic \o (IF WithBounds THEN Bounds ELSE <<>>) \o [t \in 1..(Latest - v) |-> <<9, v + t>>]]]
VerSeq == [i \in 1..NK |-> Ver(KindSeq[i])]
ScriptOf(i, j) == IF VerSeq[i] = VerSeq[j] THEN VerSeq[i] ELSE 0
PairRows == [n \in 1..(NK * NK) |->
               LET i == ((n - 1) \div NK) + 1   j == ((n - 1) % NK) + 1 IN
               [a |-> i, b |-> j, al |-> 0, sc |-> ScriptOf(i, j),
                rows |-> IF Triples /\ VerSeq[i] = VerSeq[j] /\ i <= j THEN 1 ELSE 0]]
AliasRows == [i \in 1..NK |-> [a |-> i, b |-> i, al |-> 1, sc |-> VerSeq[i], rows |-> 0]]

ASSUME ndJsonSerialize(IOEnv.KINDS, KindRows)
ASSUME ndJsonSerialize(IOEnv.SCRIPTS, ScriptRows)
ASSUME ndJsonSerialize(IOEnv.PAIRS, PairRows \o AliasRows)
ASSUME PrintT(<<"EMITTED", NK, NK * NK + NK>>)
\* stand-alone use (no exploration); MCProblemKindLattice extends this module, so that the T1 run also emits the cases
EnumNext == UNCHANGED vars
=============================================================================
