---------------------------- MODULE ModelStoreEnum ----------------------------
(* G1 generator for C23: the declarations (OUT_DECL) and every call history of *)
(* ModelStoreMenu!HistSet (OUT), written as ndjson.                         *)
EXTENDS ModelStoreMenu, Json, IOUtils, SequencesExt, FiniteSets
ASSUME ndJsonSerialize(IOEnv.OUT_DECL, <<Decl>>)
ASSUME ndJsonSerialize(IOEnv.OUT, SetToSeq(HistSet))
ASSUME PrintT(<<"EMITTED", Cardinality(HistSet)>>)
EInit == Init
ENext == UNCHANGED vars
=============================================================================
