-------------------------- MODULE PlanConvProcEnum --------------------------
(***************************************************************************)
(* C29, T1 + G1.  For one small problem (IOEnv.P0 = [P, keys]) TLC builds  *)
(* EVERY time-triggered plan of at most L steps over the ground actions,   *)
(* the start times Times and, per step, the action's fixed duration or     *)
(* (variable-duration actions) each of its two duration bounds;            *)
(*  - writes them as ndjson (replayed on the real conversions), and        *)
(*  - checks on each of them the design-level theorem T1: inside the zone  *)
(*    the specification's Back(Forward(p)) is p and every end event lies   *)
(*    inside its action's duration.  AlwaysRoundTrip (expected to FAIL)    *)
(*    shows that the zone is needed: outside it Forward loses information. *)
(***************************************************************************)
EXTENDS PlanConvProc, Json, IOUtils, SequencesExt
CONSTANTS L, NTimes

In == JsonDeserialize(IOEnv.P0)
P0 == In.P
C0 == Ctx(In.P, In.keys)
AllTimes == <<NV(0, 1), NV(1, 1), NV(1, 2), NV(2, 1)>>
Times == {AllTimes[i] : i \in 1..NTimes}

Durs(ga) ==
   LET a == Act(P0, ga.a) IN
   IF ~IsDur(a) THEN {ZERO}
   ELSE IF IsFix(a) THEN {FixedDur(C0, ga)}
   ELSE {Eval(C0.R, a.dur.lo, C0.s0, ParEnv(a, ga)), Eval(C0.R, a.dur.hi, C0.s0, ParEnv(a, ga))}
Steps == TLCEval(UNION {{[a |-> ga.a, args |-> ga.args, t |-> t, d |-> d] : t \in Times, d \in Durs(ga)} : ga \in GActs(P0)})
Plans == TLCEval(UNION {[1..n -> Steps] : n \in 1..L})

ASSUME IOEnv.OUT = "" \/ ndJsonSerialize(IOEnv.OUT, SetToSeq({[steps |-> p] : p \in Plans}))
ASSUME PrintT(<<"EMITTED", Cardinality(Plans), Cardinality(Steps)>>)

\* (first, <<>>) are the initial states; each is expanded by one worker into the plans starting with `first`
VARIABLES first, plan
Init == first \in Steps /\ plan = <<>>
Next == plan = <<>> /\ plan' \in {p \in Plans : p[1] = first} /\ UNCHANGED first
Spec == Init /\ [][Next]_<<first, plan>>

T1 == plan = <<>> \/ (Zone(C0, Items(P0, plan)) = "ok" => SpecRoundTrip(C0, Items(P0, plan)))
AlwaysRoundTrip == plan = <<>> \/ SpecRoundTrip(C0, Items(P0, plan))
=============================================================================
