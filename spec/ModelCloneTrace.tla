---------------------------- MODULE ModelCloneTrace ----------------------------
(* Judge for C22.  Every recorded history of the real code                      *)
(*      pre-edits of the original ; clone() ; post-edits of both / one          *)
(* is consumed call by call.  A record holds the call (edit e, target tgt), the *)
(* outcome on each problem (ro / rc: "ok", an exception class, "-" = not        *)
(* called), the projections ao / ac of both problems on the universe of         *)
(* ModelClone after the call, `orig == clone` (eq), `clone == orig` (eqr), hash *)
(* equality (heq), kind equality (keq) and digests do / dc of a full structural *)
(* projection of both.                                                          *)
(* The state of the judge is the Spec layer's pair of contents (o, c); every    *)
(* call is judged with the Spec layer's own definitions against the contents    *)
(* recorded after the previous call:                                            *)
(*   acc-o / acc-c    the call succeeds iff SpecAcc says so (hence: on the      *)
(*                    clone iff on the original whenever their contents agree)  *)
(*   abs-o / abs-c    the content after the call is SpecStep of the content     *)
(*                    before (a rejected call changes nothing)                  *)
(*   indep-o/indep-c  a call on one problem leaves the other's content and      *)
(*                    digest unchanged                                          *)
(*   clone-abs        the clone's content is SpecClone of the original's        *)
(*   clone-orig       clone() leaves the original unchanged                     *)
(*   eq / eq-rev, kind, hash, proj   right after clone() and after equal        *)
(*                    histories (sync) the two problems are `==` (both ways),   *)
(*                    have equal kinds, equal hashes and equal full projections *)
(* Every deviation is reported at the call where it happens: the judge then     *)
(* continues from the *recorded* contents, so one defect is reported once and   *)
(* does not hide what follows.  Verdicts are total (PrintT of every failing     *)
(* clause; "U" = outside the specified zone: multi-agent `==` on a fluent       *)
(* without initial value raises).                                               *)
EXTENDS ModelClone, Json, IOUtils
Traces == ndJsonDeserialize(IOEnv.TRACES)
VARIABLES tid, l, o, c, cloned, sync, dg, bad
tvars == <<tid, l, o, c, cloned, sync, dg, bad>>

Ran(s) == {s[i] : i \in DOMAIN s}
ToP(j) == [fl |-> Ran(j.fl), idef |-> j.idef, objs |-> Ran(j.objs), acts |-> Ran(j.acts), aeffs |-> Ran(j.aeffs),
           goals |-> Ran(j.goals), teffs |-> Ran(j.teffs), tgoals |-> Ran(j.tgoals), traj |-> Ran(j.traj),
           mets |-> Ran(j.mets), init |-> Ran(j.init), tm |-> j.tm]
TF(b) == IF b THEN "T" ELSE "F"

\* one problem, one call.  who = "o" | "c"
JudgeOne(who, pre, e, applied, res, rabs) ==
   IF ~applied
   THEN (IF rabs # pre THEN {<<"indep-" \o who, DiffK(pre, rabs)>>} ELSE {})
        \cup (IF res # "-" THEN {<<"schema", <<"called">>>>} ELSE {})
   ELSE LET why == SpecAcc(pre, e)
            ok  == res = "ok"
            exp == SpecStep(pre, e, ok)
        IN (IF ok # (why = "") THEN {<<"acc-" \o who, <<IF why = "" THEN "spec-accepts" ELSE why, res>>>>} ELSE {})
           \cup (IF rabs # exp THEN {<<"abs-" \o who, DiffK(exp, rabs)>>} ELSE {})
\* the pair after a call.  The property speaks about the clone itself and about equal histories:
\* the pair is judged while sy holds (every call since the clone was made on both problems with the
\* same outcome, and no clause has failed so far -- after a deviation the premise "the clone was an
\* equal copy" is gone and only the per-problem clauses are judged)
JudgePair(k, ao, ac, r, sy) ==
   LET eqs == AbsEq(k, ao, ac)
       def == EqDefined(k, ao) /\ EqDefined(k, ac)
   IN IF ~(sy /\ eqs) THEN {}
      ELSE IF ~def THEN {<<"U", <<>>>>}
      ELSE (IF r.eq # "T" THEN {<<"eq", <<r.eq>>>>} ELSE {})
           \cup (IF r.eqr \notin {"T", "-"} THEN {<<"eq-rev", <<r.eqr>>>>} ELSE {})   \* "-" = not observed
           \cup (IF r.keq # "T" THEN {<<"kind", <<r.keq>>>>} ELSE {})
           \cup (IF r.heq # "T" THEN {<<"hash", <<r.heq>>>>} ELSE {})
           \cup (IF r.do # r.dc THEN {<<"proj", <<>>>>} ELSE {})

TraceInit == /\ tid \in DOMAIN Traces /\ l = 1
             /\ o = ToP(Traces[tid].base) /\ c = ToP(Traces[tid].base)
             /\ cloned = FALSE /\ sync = TRUE /\ dg = <<Traces[tid].bdo, "">> /\ bad = {}
TraceNext ==
   /\ l <= Len(Traces[tid].ops)
   /\ LET k  == Traces[tid].cls
          r  == Traces[tid].ops[l]
          ao == ToP(r.ao)
          ac == ToP(r.ac)
          sy == IF r.tgt = "clone" THEN TRUE
                ELSE sync /\ r.tgt = "both" /\ ((r.ro = "ok") = (r.rc = "ok"))
      IN /\ CASE r.tgt = "pre" ->
                   /\ bad' = JudgeOne("o", o, r.e, TRUE, r.ro, ao)
                             \cup (IF cloned \/ r.e \notin Edits(k) THEN {<<"schema", <<"pre">>>>} ELSE {})
                   /\ cloned' = FALSE
             [] r.tgt = "clone" ->
                   /\ bad' = (IF r.rc # "ok" THEN {<<"clone-raises", <<r.rc>>>>}
                              ELSE (IF ac # SpecClone(o) THEN {<<"clone-abs", DiffK(SpecClone(o), ac)>>} ELSE {})
                                   \cup JudgePair(k, ao, ac, r, TRUE))
                             \cup (IF ao # o \/ r.do # dg[1] THEN {<<"clone-orig", DiffK(o, ao)>>} ELSE {})
                             \cup (IF cloned THEN {<<"schema", <<"clone">>>>} ELSE {})
                   /\ cloned' = TRUE
             [] OTHER ->
                   /\ bad' = JudgeOne("o", o, r.e, r.tgt \in {"both", "o"}, r.ro, ao)
                             \cup JudgeOne("c", c, r.e, r.tgt \in {"both", "c"}, r.rc, ac)
                             \cup (IF r.tgt = "c" /\ r.do # dg[1] THEN {<<"indep-o", <<"proj">>>>} ELSE {})
                             \cup (IF r.tgt = "o" /\ r.dc # dg[2] THEN {<<"indep-c", <<"proj">>>>} ELSE {})
                             \cup JudgePair(k, ao, ac, r, sy)
                             \cup (IF ~cloned \/ r.e \notin Edits(k) \/ r.tgt \notin {"both", "o", "c"}
                                   THEN {<<"schema", <<"post">>>>} ELSE {})
                   /\ cloned' = cloned
         /\ o' = ao /\ c' = (IF r.tgt = "pre" THEN c ELSE ac)
         /\ sync' = (sy /\ bad' \subseteq {<<"U", <<>>>>}) /\ dg' = <<r.do, r.dc>>
   /\ l' = l + 1 /\ tid' = tid
TraceSpec == TraceInit /\ [][TraceNext]_tvars

\* total verdict: prints every failing clause of the call just consumed (call number l - 1)
Verdict == \A b \in bad : PrintT(<<IF b[1] = "U" THEN "U" ELSE "FAIL", Traces[tid].id, l - 1, b[1], b[2]>>)
=============================================================================
