---------------------------- MODULE ExprManagerEnum ----------------------------
(* G1 generator for C16: construction histories of ExprManager, written as  *)
(* ndjson.  A history is a sequence of constructor calls                    *)
(*      [k |-> constructor, a |-> <<atoms>>]                                *)
(* whose atoms are <<"r", i, "">> (the node returned by call i of the same  *)
(* history), <<"l", 0, name>> (a fluent object) or <<"v", 0, token>> (a     *)
(* numeric literal).  The specification's own Apply is threaded through the *)
(* history so that only results of accepted calls are referenced and the    *)
(* unspecified zone (Specified) is avoided.                                 *)
(*                                                                          *)
(* The plans to enumerate are read from IOEnv.PLANS (one JSON record each): *)
(*   name, mode, L, ctors, leaves, lits, maxar, direct                      *)
(* mode "seq":     every history of exactly L calls over the alphabet; with *)
(*                 direct = TRUE fluents and literals may be passed         *)
(*                 directly to every operator, otherwise they enter through *)
(*                 FluentExp(f) and Plus(v) / Times(v).                     *)
(* mode "respell": for every single call c over the alphabet with direct    *)
(*                 arguments: <<c, c>> followed by one re-spelling of c     *)
(*                 (any other literal in one position, mirrored comparison  *)
(*                 or swapped operands, unary And/Or/Plus/Times wrapper,    *)
(*                 double negation) -- every construction and every         *)
(*                 ill-typed attempt happens twice.                         *)
EXTENDS ExprManager, Json, IOUtils, SequencesExt

Plans == ndJsonDeserialize(IOEnv.PLANS)
SetOf(s) == {s[i] : i \in DOMAIN s}

E0 == [h |-> <<>>, T |-> (TrueC :> 1) @@ (FalseC :> 2), n |-> 3, res |-> <<>>]

\* atoms of the history language -> atoms of the specification
Res(e, a) == IF a[1] = "r" THEN <<"n", e.res[a[2]], "">> ELSE a
Step(e, k, as) ==
   LET r == Apply(e.T, e.n, k, [i \in DOMAIN as |-> Res(e, as[i])], NoRec)
   IN [h |-> Append(e.h, [k |-> k, a |-> as]), T |-> r.T, n |-> r.n, res |-> Append(e.res, IF r.ok THEN r.res ELSE 0)]

Refs(e) == {<<"r", i, "">> : i \in {j \in DOMAIN e.res : e.res[j] # 0}}
\* the calls of plan p available after history e
CallsAt(e, p, direct) ==
   LET C == SetOf(p.ctors)
       LA == {<<"l", 0, f>> : f \in SetOf(p.leaves)}
       VA == {<<"v", 0, v>> : v \in SetOf(p.lits)}
       R == Refs(e)
       D == IF direct THEN LA \cup VA ELSE {}
       U(k) == R \cup D \cup (IF k \in {"Plus", "Times"} THEN VA ELSE {})
       Sp(c) == Specified(c[1], [i \in DOMAIN c[2] |-> Res(e, c[2][i])], e.T)
   IN {c \in
      {<<k, <<>>>> : k \in C \cap (NaryC \cup {"TRUE", "FALSE"})}
      \cup {<<"FluentExp", <<a>>>> : a \in (IF "FluentExp" \in C THEN LA ELSE {})}
      \cup UNION {{<<k, <<a>>>> : a \in U(k)} : k \in C \cap (NaryC \cup {"Not"})}
      \cup {<<k, <<a, b>>>> : k \in C \cap (NaryC \cup BinC), a \in R \cup D, b \in R \cup D}
      \cup {<<k, <<a, b, c>>>> : k \in (IF p.maxar >= 3 THEN C \cap NaryC ELSE {}),
                                 a \in R \cup D, b \in R \cup D, c \in R \cup D}
      : Sp(c)}
Ext(e, p) == {Step(e, c[1], c[2]) : c \in CallsAt(e, p, p.direct)}

RECURSIVE Hist(_, _)
Hist(k, p) == IF k = 0 THEN {E0} ELSE UNION {Ext(e, p) : e \in Hist(k - 1, p)}

\* ---- re-spellings of a first call c (its result, when accepted, is <<"r", 1, "">>)
\* one literal argument replaced by any literal of the alphabet (equal-valued: same node expected;
\* different value: a distinct node expected)
ReLit(c, p) == {<<c[1], [c[2] EXCEPT ![q] = <<"v", 0, w>>]>> :
                  q \in {j \in DOMAIN c[2] : c[2][j][1] = "v"}, w \in SetOf(p.lits)}
Mirror(c) == CASE c[1] = "GE" -> {<<"LE", <<c[2][2], c[2][1]>>>>}
               [] c[1] = "LE" -> {<<"GE", <<c[2][2], c[2][1]>>>>}
               [] c[1] = "GT" -> {<<"LT", <<c[2][2], c[2][1]>>>>}
               [] c[1] = "LT" -> {<<"GT", <<c[2][2], c[2][1]>>>>}
               [] c[1] \in (NaryC \cup BinC) \ {"GE", "LE", "GT", "LT"} /\ Len(c[2]) = 2 -> {<<c[1], <<c[2][2], c[2][1]>>>>}
               [] OTHER -> {}
Wrap(p) == {<<k, <<<<"r", 1, "">>>>>> : k \in SetOf(p.ctors) \cap (NaryC \cup {"Not"})}
Respell(p) ==
   LET firsts == CallsAt(E0, p, TRUE)
       two(c) == Step(Step(E0, c[1], c[2]), c[1], c[2])
       third(c) == ReLit(c, p) \cup Mirror(c) \cup (IF two(c).res[1] # 0 THEN Wrap(p) ELSE {}) \cup {c}
       three(c) == {Step(two(c), d[1], d[2]) : d \in third(c)}
       \* a fourth call only after a Not wrapper: Not(Not(c))
       four(e) == IF e.h[3].k = "Not" /\ e.h[3].a = <<<<"r", 1, "">>>> /\ e.res[3] # 0
                  THEN Step(e, "Not", <<<<"r", 3, "">>>>) ELSE e
   IN UNION {{four(e) : e \in three(c)} : c \in firsts}

HistoriesOf(p) == IF p.mode = "seq" THEN Hist(p.L, p) ELSE Respell(p)
\* vacuity tags computed by the specification: number of rejected calls, and whether a rejected call is repeated
Rejected(e) == {j \in DOMAIN e.res : e.res[j] = 0}
All == UNION {{[plan |-> Plans[i].name, ops |-> e.h, nrej |-> Cardinality(Rejected(e)),
                rrep |-> \E j \in Rejected(e), m \in Rejected(e) : j < m /\ e.h[j] = e.h[m]] :
               e \in HistoriesOf(Plans[i])} : i \in DOMAIN Plans}
ASSUME LET A == All IN ndJsonSerialize(IOEnv.OUT, SetToSeq(A)) /\ PrintT(<<"EMITTED", Cardinality(A)>>)
VARIABLE dummy
EInit == dummy = 0 /\ Init
ENext == UNCHANGED <<dummy, vars>>
=============================================================================
