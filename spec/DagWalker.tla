------------------------------ MODULE DagWalker ------------------------------
(***************************************************************************)
(* The memoisation / work-stack discipline of                              *)
(* unified_planning.model.walkers.dag.DagWalker, the base class of the      *)
(* walkers an Environment shares between all calls (substituter,           *)
(* simplifier, type checker, free-variable / fluent / name extractors) and  *)
(* of the quantifier remover.                                               *)
(*                                                                         *)
(* Impl layer (variables memo, stack): shaped like the Python object.      *)
(*   memo   = self.memoization, keyed by the expression only (_get_key     *)
(*            ignores the keyword arguments in every subclass in the tree) *)
(*   stack  = self.stack, entries <<was_expanded, node>>                   *)
(*   Call   = walk(): shortcut when the root is memoised, else iter_walk   *)
(*   Pop    = one iteration of _process_stack                              *)
(*            (_push_with_children_to_stack / _compute_node_result)        *)
(*   Finish = return of iter_walk/walk; a one-shot walker                  *)
(*            (invalidate_memoization=True) clears memo here and only here *)
(*   a walk function may raise at a node (set `fail` of <<node, map>>      *)
(*   pairs, chosen once: the walk functions are deterministic); as the     *)
(*   code is written (ResetOnRaise = FALSE) the exception leaves stack and *)
(*   memo as they are; ResetOnRaise = TRUE is the repair (stack cleared,   *)
(*   a one-shot memo cleared, a persistent memo kept: its entries are      *)
(*   values of the pure function).                                         *)
(*   A node computed while a child is not memoised is the KeyError of      *)
(*   _compute_node_result.                                                 *)
(* Spec layer: the pure function R(root, map) / PureOutcome(root, map):    *)
(*   what the same call returns on a fresh walker.                         *)
(* Property C14: every completed call agrees with PureOutcome (history     *)
(* independence, also after failed calls); between calls the walker is     *)
(* Clean.                                                                  *)
(***************************************************************************)
EXTENDS Integers, Sequences, FiniteSets, TLC

CONSTANTS ResetOnRaise,   \* FALSE = the code as written, TRUE = exception-safe repair
          OneShot,        \* invalidate_memoization (TRUE for Substituter / quantifier remover)
          MaxCalls,       \* bound on the number of public calls
          BadSets,        \* the candidate sets of <<node, map>> pairs at which a walk function raises
          Nodes,          \* nodes of the expression DAG (positive integers)
          Roots,          \* the nodes public calls are made on (a subset of Nodes)
          Kids(_),        \* node -> sequence of children
          Maps            \* keyword arguments of a call (substitution maps); one element for walkers without kwargs

VARIABLES memo, stack, root, map, fail, ret, calls, pc
vars == <<memo, stack, root, map, fail, ret, calls, pc>>

-----------------------------------------------------------------------------
(* definitions shared with the trace specification *)

\* two call outcomes agree: same kind, same value / same exception class
Agree(o1, o2) == /\ o1.k = o2.k
                 /\ o1.k = "val" => o1.v = o2.v
                 /\ o1.k = "exc" => o1.cls = o2.cls

\* what a walker must look like between two public calls
Clean(stackLen, memoLen, oneShot) == stackLen = 0 /\ (oneShot => memoLen = 0)

-----------------------------------------------------------------------------
(* Spec layer *)

RECURSIVE R(_,_)
R(n, m) == [n |-> n, m |-> m, k |-> [i \in DOMAIN Kids(n) |-> R(Kids(n)[i], m)]]

RECURSIVE Reach(_)
Reach(n) == {n} \cup UNION {Reach(Kids(n)[i]) : i \in DOMAIN Kids(n)}

Val(v) == [k |-> "val", v |-> v, cls |-> ""]
Exc(c) == [k |-> "exc", v |-> 0, cls |-> c]

\* a fresh walker computes every node below the root exactly once
PureOutcome(r, m) == IF \E n \in Reach(r) : <<n, m>> \in fail THEN Exc("Raise") ELSE Val(R(r, m))

-----------------------------------------------------------------------------
(* Impl layer *)

MD == DOMAIN memo

Init == /\ memo = <<>> /\ stack = <<>> /\ root = 0
        /\ map = CHOOSE m \in Maps : TRUE                         \* (irrelevant before the first call)
        /\ fail \in BadSets
        /\ ret = Val(0) /\ calls = 0 /\ pc = "idle"

\* an exception propagates out of walk(): what is left behind
Raise(cls, rest) ==
   /\ ret' = Exc(cls) /\ pc' = "check"
   /\ IF ResetOnRaise THEN stack' = <<>> /\ memo' = IF OneShot THEN <<>> ELSE memo
                      ELSE stack' = rest /\ UNCHANGED memo

\* public call: DagWalker.walk(expression, **kwargs)
Call(r, m) ==
   /\ pc = "idle" /\ calls < MaxCalls
   /\ root' = r /\ map' = m /\ calls' = calls + 1 /\ UNCHANGED fail
   /\ IF r \in MD
      THEN ret' = Val(memo[r]) /\ pc' = "check" /\ UNCHANGED <<memo, stack>>      \* walk() shortcut
      ELSE stack' = Append(stack, <<FALSE, r>>) /\ pc' = "loop" /\ UNCHANGED <<memo, ret>>

\* one iteration of the loop of _process_stack
Pop ==
   /\ pc = "loop" /\ stack # <<>>
   /\ LET top  == stack[Len(stack)]
          rest == SubSeq(stack, 1, Len(stack) - 1)
          n    == top[2]
      IN IF top[1]
         THEN                                                    \* _compute_node_result
           IF n \in MD THEN stack' = rest /\ UNCHANGED <<memo, ret, pc>>
           ELSE IF \E i \in DOMAIN Kids(n) : Kids(n)[i] \notin MD
                THEN Raise("KeyError", rest)                     \* self.memoization[key of child]
           ELSE IF <<n, map>> \in fail
                THEN Raise("Raise", rest)                        \* the walk function raises
           ELSE /\ memo' = [x \in MD \cup {n} |->
                              IF x = n THEN [n |-> n, m |-> map, k |-> [i \in DOMAIN Kids(n) |-> memo[Kids(n)[i]]]]
                              ELSE memo[x]]
                /\ stack' = rest /\ UNCHANGED <<ret, pc>>
         ELSE                                                    \* _push_with_children_to_stack
           LET ks == SelectSeq(Kids(n), LAMBDA c : c \notin MD) IN
           /\ stack' = Append(rest, <<TRUE, n>>) \o [i \in 1..Len(ks) |-> <<FALSE, ks[i]>>]
           /\ UNCHANGED <<memo, ret, pc>>
   /\ UNCHANGED <<root, map, fail, calls>>

\* the stack is empty: iter_walk returns memo[root]; walk() invalidates a one-shot memo
Finish ==
   /\ pc = "loop" /\ stack = <<>>
   /\ IF root \in MD
      THEN /\ ret' = Val(memo[root]) /\ pc' = "check"
           /\ memo' = IF OneShot THEN <<>> ELSE memo
           /\ UNCHANGED stack
      ELSE Raise("KeyError", <<>>)
   /\ UNCHANGED <<root, map, fail, calls>>

\* the caller has the outcome
Return == pc = "check" /\ pc' = "idle" /\ UNCHANGED <<memo, stack, root, map, fail, ret, calls>>

Next == (\E r \in Roots, m \in Maps : Call(r, m)) \/ Pop \/ Finish \/ Return
Spec == Init /\ [][Next]_vars

-----------------------------------------------------------------------------
(* Properties *)

\* C14: every completed call returns what a fresh walker returns for the same arguments
HistoryIndependent == pc = "check" => Agree(ret, PureOutcome(root, map))

\* between calls the walker is clean
CleanBetweenCalls == pc = "idle" => Clean(Len(stack), Cardinality(MD), OneShot)

\* the memo only ever holds values of the pure function for the current keyword arguments
\* (a persistent memo is only sound for walkers without keyword arguments: Cardinality(Maps) = 1)
MemoSound == \A n \in MD : memo[n] = R(n, map)

\* the KeyError of _compute_node_result is unreachable
NoKeyError == ret.k = "exc" => ret.cls # "KeyError"

\* every entry of the work stack is a node, and expanded entries sit below their pending children
StackTyped == \A i \in DOMAIN stack : stack[i][2] \in Nodes
=============================================================================
