------------------------------ MODULE UPValues ------------------------------
(***************************************************************************)
(* Values of the abstract model of unified-planning problems (UPJ):        *)
(*   [k |-> "b", b |-> BOOLEAN]            Boolean                         *)
(*   [k |-> "n", n |-> Int, d |-> Nat\{0}] rational n/d in lowest terms     *)
(*   [k |-> "o", o |-> STRING]             object (by name)                *)
(*   [k |-> "u"]                           undefined (no value)            *)
(* Payload fields have distinct names so that TLC never has to compare a   *)
(* Boolean with a string when it orders mixed sets of values.              *)
(* Exact rational arithmetic; everything three-valued (UNDEF propagates).  *)
(***************************************************************************)
EXTENDS Integers, Sequences, FiniteSets, TLC

UNDEF == [k |-> "u"]
BV(x) == [k |-> "b", b |-> x]
OV(x) == [k |-> "o", o |-> x]
NONE  == [k |-> "none"]

RECURSIVE Gcd(_,_)
Gcd(a, b) == IF b = 0 THEN a ELSE Gcd(b, a % b)
Abs(x) == IF x < 0 THEN 0 - x ELSE x
\* normalised rational
NV(n, d) == LET s  == IF d < 0 THEN 0 - 1 ELSE 1
                g  == Gcd(Abs(n), Abs(d))
                gg == IF g = 0 THEN 1 ELSE g
            IN [k |-> "n", n |-> (s * n) \div gg, d |-> (s * d) \div gg]
ZERO == NV(0, 1)
ONE  == NV(1, 1)
IsU(v) == v.k = "u"
AnyU(vs) == \E i \in DOMAIN vs : IsU(vs[i])
\* TLC integers are 32-bit.  Arithmetic on operands beyond Small would overflow (TLC then aborts the whole
\* run): such a result is UNDEF, i.e. "no value the model can name", and everything that depends on it is
\* unspecified (three-valued evaluation).  All operations accept UNDEF operands.  Comparisons never multiply
\* (continued-fraction comparison), so they are exact for every representable operand.
SmallQB == 32767
SmallQ(a) == IF IsU(a) THEN FALSE ELSE (Abs(a.n) <= SmallQB /\ a.d <= SmallQB)
RAdd(a, b) == IF SmallQ(a) THEN (IF SmallQ(b) THEN NV(a.n * b.d + b.n * a.d, a.d * b.d) ELSE UNDEF) ELSE UNDEF
RSub(a, b) == IF SmallQ(a) THEN (IF SmallQ(b) THEN NV(a.n * b.d - b.n * a.d, a.d * b.d) ELSE UNDEF) ELSE UNDEF
RMul(a, b) == IF SmallQ(a) THEN (IF SmallQ(b) THEN NV(a.n * b.n, a.d * b.d) ELSE UNDEF) ELSE UNDEF
RDiv(a, b) == IF SmallQ(a) THEN (IF SmallQ(b) THEN (IF b.n = 0 THEN UNDEF ELSE NV(a.n * b.d, a.d * b.n)) ELSE UNDEF) ELSE UNDEF
RNeg(a) == IF IsU(a) THEN UNDEF ELSE NV(0 - a.n, a.d)
\* sign of p/q - r/s for q, s > 0, without multiplication
RECURSIVE CmpFrac(_,_,_,_)
CmpFrac(p, q, r, s) ==
   LET a == p \div q
       b == r \div s
   IN IF a < b THEN 0 - 1 ELSE IF a > b THEN 1
      ELSE LET x == p % q
               y == r % s
           IN IF x = 0 /\ y = 0 THEN 0 ELSE IF x = 0 THEN 0 - 1 ELSE IF y = 0 THEN 1
              ELSE CmpFrac(s, y, q, x)        \* x/q < y/s  <=>  s/y < q/x
RLe(a, b) == IF SmallQ(a) /\ SmallQ(b) THEN a.n * b.d <= b.n * a.d ELSE CmpFrac(a.n, a.d, b.n, b.d) <= 0
RLt(a, b) == IF SmallQ(a) /\ SmallQ(b) THEN a.n * b.d < b.n * a.d ELSE CmpFrac(a.n, a.d, b.n, b.d) < 0
RMin(a, b) == IF RLe(a, b) THEN a ELSE b
RMax(a, b) == IF RLe(a, b) THEN b ELSE a
IsInt(a) == a.d = 1
\* equality of values: tag first (TLC must never compare payloads of different kinds)
VEq(a, b) == a.k = b.k /\ a = b

RECURSIVE SeqSum(_)
SeqSum(s) == IF s = <<>> THEN ZERO ELSE RAdd(Head(s), SeqSum(Tail(s)))
=============================================================================
