------------------------------ MODULE UPValues ------------------------------
(***************************************************************************)
(* Values of the abstract model of unified-planning problems (UPJ):        *)
(*   [k |-> "b", b |-> BOOLEAN]            Boolean                         *)
(*   [k |-> "n", n |-> Int, d |-> Nat\{0}] rational n/d in lowest terms     *)
(*   [k |-> "o", o |-> STRING]             object (by name)                *)
(*   [k |-> "u"]                           undefined (no value)            *)
(* Payload fields have distinct names so that TLC never has to compare a   *)
(* Boolean with a string when it orders mixed sets of values.              *)
(* Exact rational arithmetic; everything three-valued (UNDEF propagates).  *)
(***************************************************************************)
EXTENDS Integers, Sequences, FiniteSets, TLC

UNDEF == [k |-> "u"]
BV(x) == [k |-> "b", b |-> x]
OV(x) == [k |-> "o", o |-> x]
NONE  == [k |-> "none"]

RECURSIVE Gcd(_,_)
Gcd(a, b) == IF b = 0 THEN a ELSE Gcd(b, a % b)
Abs(x) == IF x < 0 THEN 0 - x ELSE x
\* normalised rational
NV(n, d) == LET s  == IF d < 0 THEN 0 - 1 ELSE 1
                g  == Gcd(Abs(n), Abs(d))
                gg == IF g = 0 THEN 1 ELSE g
            IN [k |-> "n", n |-> (s * n) \div gg, d |-> (s * d) \div gg]
ZERO == NV(0, 1)
ONE  == NV(1, 1)
IsU(v) == v.k = "u"
AnyU(vs) == \E i \in DOMAIN vs : IsU(vs[i])
RAdd(a, b) == NV(a.n * b.d + b.n * a.d, a.d * b.d)
RSub(a, b) == NV(a.n * b.d - b.n * a.d, a.d * b.d)
RMul(a, b) == NV(a.n * b.n, a.d * b.d)
RDiv(a, b) == IF b.n = 0 THEN UNDEF ELSE NV(a.n * b.d, a.d * b.n)
RNeg(a) == NV(0 - a.n, a.d)
RLe(a, b) == a.n * b.d <= b.n * a.d
RLt(a, b) == a.n * b.d < b.n * a.d
RMin(a, b) == IF RLe(a, b) THEN a ELSE b
RMax(a, b) == IF RLe(a, b) THEN b ELSE a
IsInt(a) == a.d = 1
\* equality of values: tag first (TLC must never compare payloads of different kinds)
VEq(a, b) == a.k = b.k /\ a = b

RECURSIVE SeqSum(_)
SeqSum(s) == IF s = <<>> THEN ZERO ELSE RAdd(Head(s), SeqSum(Tail(s)))
=============================================================================
