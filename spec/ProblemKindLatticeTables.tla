--------------------- MODULE ProblemKindLatticeTables ---------------------
(***************************************************************************)
(* The version tables of unified_planning.model.problem_kind_versioning,   *)
(* read from the JSON file the driver writes (IOEnv.TABLES) after          *)
(* importing the real module: FEATURES_VERSIONS and                        *)
(* LATEST_PROBLEM_KIND_VERSION restricted to the feature universe, and the *)
(* upgrade functions of upgrade_functions_map tabulated on every subset of *)
(* the universe.  Feature sets travel as bit masks (bit i-1 = feature i).  *)
(*   {"nf":7,"latest":3,"added":[..],"depr":[..],                          *)
(*    "up":[[ [features of upgrade_v(mask)] : mask 0..2^nf-1 ] : v],       *)
(*    "upx":[[ #result features outside the universe : mask ] : v]}        *)
(***************************************************************************)
EXTENDS Integers, Sequences, FiniteSets, TLC, Json, IOUtils

Tab       == JsonDeserialize(IOEnv.TABLES)
TabNF     == Tab.nf
TabLatest == Tab.latest
TabFeat   == 1..TabNF
TabAdded  == TLCEval([f \in TabFeat |-> Tab.added[f]])
TabDepr   == TLCEval([f \in TabFeat |-> Tab.depr[f]])

Bit(m, i) == (m \div (2 ^ (i - 1))) % 2 = 1
NMask     == 2 ^ TabNF
SetOfMask == TLCEval([m \in 0..(NMask - 1) |-> {i \in TabFeat : Bit(m, i)}])
RECURSIVE MaskOf(_)
MaskOf(F) == IF F = {} THEN 0 ELSE LET i == CHOOSE i \in F : TRUE IN 2 ^ (i - 1) + MaskOf(F \ {i})
SeqSet(s) == {s[i] : i \in DOMAIN s}

TabUp    == TLCEval([v \in 1..(TabLatest - 1) |-> [F \in SUBSET TabFeat |-> SeqSet(Tab.up[v][MaskOf(F) + 1])]])
TabUpOut == TLCEval([v \in 1..(TabLatest - 1) |-> [F \in SUBSET TabFeat |-> Tab.upx[v][MaskOf(F) + 1]]])

\* shape of the file (a malformed file is a machinery failure, not a verdict)
ASSUME /\ TabNF \in 1..12 /\ TabLatest \in 1..8
       /\ Len(Tab.added) = TabNF /\ Len(Tab.depr) = TabNF
       /\ \A f \in TabFeat : TabAdded[f] \in 1..TabLatest /\ TabDepr[f] \in 0..(TabLatest + 1)
       /\ Len(Tab.up) = TabLatest - 1 /\ Len(Tab.upx) = TabLatest - 1
       /\ \A v \in 1..(TabLatest - 1) : Len(Tab.up[v]) = NMask /\ Len(Tab.upx[v]) = NMask
=============================================================================
