---------------------------- MODULE DagWalkerTrace ----------------------------
(* Judge for C14.  Every recorded call history of the real walkers (one shared  *)
(* Environment per history) is consumed call by call.  For every call the       *)
(* record holds                                                                 *)
(*    sh  the projected outcome on the shared Environment                       *)
(*    fr  the projected outcome of the same single call on a fresh Environment  *)
(*    st  <<len(stack), len(memoization)>> of every walker of DagWalkerMenu!Walkers *)
(*        after the call                                                        *)
(* and is judged with the definitions of DagWalker:                             *)
(*    HistoryIndependent   Agree(sh, fr)        (the property's own definition)  *)
(*    CleanBetweenCalls    Clean(stack, memo, oneShot) of every shared walker,  *)
(*                         reported at the call that leaves the walker unclean  *)
(* Verdicts are total: violations are collected in `bad` with the features that *)
(* make up their signature and printed when the history has been consumed.      *)
EXTENDS DagWalker, DagWalkerMenu, Json, IOUtils
Traces == ndJsonDeserialize(IOEnv.TRACES)
VARIABLES tid, l, bad
tvars == <<vars, tid, l, bad>>

\* the DagWalker machine itself is not stepped by the judge: trivial constants
NoKidsT(n) == <<>>
NodesT == {}
MapsT == {0}
BadT == {{}}

\* the walkers that are not Clean in an observed walker-state vector
Unclean(st) == {i \in DOMAIN Walkers : ~Clean(st[i][1], st[i][2], Walkers[i].oneShot)}
\* outcome kind for signatures: val, or exc:<class>@<phase> (build = while constructing the arguments
\* through the ExpressionManager, walk = inside the walker call); Agree ignores the phase
Kind(o) == IF o.k = "exc" THEN "exc:" \o o.cls \o "@" \o o.phase ELSE o.k

\* the call after which walker w, unclean after call i, has been unclean ever since
Origin(t, i, w) == CHOOSE j \in 1..i : /\ \A k \in j..i : w \in Unclean(t.steps[k].st)
                                       /\ (j = 1 \/ w \notin Unclean(t.steps[j - 1].st))

\* all violations of step i of trace t.  Features: pre = the state of the shared walkers before
\* the call: clean / unclean (every unclean walker was left so by a call that raised) /
\* unclean-by-val (some walker was left unclean by a call that returned normally)
StepBad(t, i) ==
   LET s   == t.steps[i]
       pre == IF i = 1 THEN {} ELSE Unclean(t.steps[i - 1].st)
       pf  == IF pre = {} THEN "pre=clean"
              ELSE IF \A w \in pre : t.steps[Origin(t, i - 1, w)].sh.k = "exc" THEN "pre=unclean"
              ELSE "pre=unclean-by-val"
       hi  == IF Agree(s.sh, s.fr) THEN <<>>
              ELSE << <<"HistoryIndependent", i, s.w, pf, "got=" \o Kind(s.sh), "want=" \o Kind(s.fr)>> >>
       new == Unclean(s.st) \ pre
       cl  == [j \in 1..Cardinality(new) |->
                 LET w == CHOOSE x \in new : Cardinality({y \in new : y < x}) = j - 1 IN
                 <<"CleanBetweenCalls", i, Walkers[w].name, "by=" \o s.w, Kind(s.sh), "">>]
   IN hi \o cl

TraceInit == /\ tid \in DOMAIN Traces /\ l = 1 /\ bad = <<>> /\ Init
TraceNext ==
   /\ l <= Len(Traces[tid].steps)
   /\ bad' = bad \o StepBad(Traces[tid], l)
   /\ l' = l + 1 /\ tid' = tid
   /\ UNCHANGED vars
TraceSpec == TraceInit /\ [][TraceNext]_tvars

Done == l > Len(Traces[tid].steps)
\* total verdict: never fails for machinery reasons, prints every violated clause with its features
\* (one string per history, so that TLC prints it on one line)
Verdict == (Done /\ bad # <<>>) => PrintT("C14FAIL|" \o ToString(Traces[tid].id) \o "|" \o ToString(bad))
=============================================================================
