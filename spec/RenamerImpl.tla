---------------------------- MODULE RenamerImpl ----------------------------
(* C38, implementation-shaped layer (T1).  The naming mechanisms as written: *)
(*  PDDL  pddl_writer.py: _get_pddl_name (lower, initial letter, substitute, *)
(*        keyword loop, '?' for parameters) and _get_mangled_name (otn / nto *)
(*        tables, has_name / nto freshness loop with _<count> suffixes); the *)
(*        writer's keyword set is the MODULE-LEVEL set GENERAL_PDDL_KEYWORDS *)
(*        (aliased, then extended in place by __init__): variable gkw.       *)
(*  ANML  anml_writer.py: pre-pass keeping the names _is_valid_anml_name     *)
(*        accepts, then _get_anml_name (_get_anml_valid_name + freshness     *)
(*        loop against names_mapping.values()); one call, no history.        *)
(* Two switches select the as-written behaviour or the proposed repair:      *)
(*  AliasKw  = TRUE : keyword set aliased (as written); FALSE: per-writer copy*)
(*  Anchored = FALSE: _is_valid_anml_name matches a PREFIX (re.match without *)
(*             '$', as written); TRUE: the whole name must match.            *)
(* kw / nm of Renamer are maintained as the refinement mapping, so that the  *)
(* SAME invariant clauses judge this model and the recorded real namings.    *)
(* The universe (adversarial names, kinds, features) comes from IOEnv.UNIV   *)
(* with the real keyword sets in IOEnv.KW, so that every counterexample is   *)
(* a concrete problem that the driver replays on the real writers.           *)
(* User types (kind "type"): the rule for PDDL's root type `object` is part   *)
(* of PddlStep; the feature "hier" of a problem (the types form a chain)     *)
(* changes the emitted (:types ...) text, not the names.                     *)
(* lower() is modelled on ASCII (the universe is ASCII plus symbols that     *)
(* lower() leaves alone).                                                    *)
(***************************************************************************)
EXTENDS Renamer, SequencesExt
CONSTANTS AliasKw, Anchored, MaxItems, MaxTouch, Lang

Univ == JsonDeserialize(IOEnv.UNIV)
UNames == Rng(Univ.names)
UKinds == Rng(Univ.kinds)
UFeats == {Rng(f) : f \in Rng(Univ.feats)}

ItemU == [kind : UKinds, orig : UNames]
GlobalNames(items) == {items[i].orig : i \in {j \in DOMAIN items : items[j].kind \notin VarKinds}}
\* what unified-planning accepts: model elements have pairwise different names (case-sensitive);
\* parameters with the same name and type are the same item
WellFormed(items) ==
   /\ \A i \in DOMAIN items : \A j \in DOMAIN items : i < j => items[i] # items[j]
   /\ \A i \in DOMAIN items : \A j \in DOMAIN items :
         (i < j /\ items[i].kind \notin VarKinds /\ items[j].kind \notin VarKinds) => items[i].orig # items[j].orig
ItemSeqs == UNION {{s \in [1..k -> ItemU] : WellFormed(s)} : k \in 1..MaxItems}
Problems == [lang : {Lang}, feats : UFeats, items : ItemSeqs]

(* ------------------------------ mechanisms ----------------------------- *)
Initial(kind) == CASE kind = "action" -> 97 [] kind = "fluent" -> 102 [] kind = "param" -> 112
                   [] kind = "object" -> 111 [] OTHER -> 120
RECURSIVE UntilNotKw(_, _)
UntilNotKw(n, K) == IF n \in K THEN UntilNotKw(n \o <<US>>, K) ELSE n
RECURSIVE Digits(_)
Digits(k) == IF k < 10 THEN <<48 + k>> ELSE Digits(k \div 10) \o <<48 + (k % 10)>>
RECURSIVE FreshName(_, _, _, _)
FreshName(tmp, cur, cnt, Taken) ==
   IF cur \in Taken THEN FreshName(tmp, tmp \o <<US>> \o Digits(cnt), cnt + 1, Taken) ELSE cur
Sub(lang, n) == [i \in 1..Len(n) |-> IF IdChar(lang, n[i]) THEN n[i] ELSE US]

\* _get_pddl_name(item, keywords)
PddlBase(it, K) ==
   LET low == Fold(it.orig)
       pre == IF Len(low) >= 1 /\ IsLetter(low[1]) THEN low ELSE <<Initial(it.kind), US>> \o low
       k == UntilNotKw(Sub("pddl", pre), K)
   IN IF it.kind \in VarKinds THEN <<QM>> \o k ELSE k
\* _get_mangled_name(item) for an item not yet in otn; returns the new [otn, nto]
PddlStep(items, K, i, otn, nto) ==
   LET it == items[i]
       base == PddlBase(it, K)
       \* user types: "object" is PDDL's root type, a user type whose LOWERED name is object keeps it only when
       \* it is the only user type (hierarchical typing implies a second type)
       ntypes == Cardinality({j \in DOMAIN items : items[j].kind = "type"})
       tmp == IF it.kind = "type" /\ base = OBJECT /\ ntypes > 1 THEN base \o <<US>> ELSE base
       new == IF tmp = it.orig /\ tmp \notin DOMAIN nto THEN tmp
              ELSE FreshName(tmp, tmp, 0, GlobalNames(items) \cup DOMAIN nto)
   IN [otn |-> otn @@ (i :> new), nto |-> nto @@ (new :> i)]
RECURSIVE PddlRun(_, _, _, _, _)
PddlRun(items, K, i, otn, nto) ==
   IF i > Len(items) THEN otn
   ELSE LET s == PddlStep(items, K, i, otn, nto) IN PddlRun(items, K, i + 1, s.otn, s.nto)

\* _is_valid_anml_name
AnmlAccepts(n) == /\ Len(n) >= 1 /\ IsLetter(n[1])
                  /\ (Anchored => \A i \in 2..Len(n) : IdChar("anml", n[i]))
                  /\ n \notin KW.anml
\* _get_anml_valid_name
AnmlBase(it) ==
   LET pre == IF Len(it.orig) >= 1 /\ IsLetter(it.orig[1]) THEN it.orig ELSE <<Initial(it.kind), US>> \o it.orig
   IN UntilNotKw(Sub("anml", pre), KW.anml)
AnmlBuiltin == {<<98, 111, 111, 108, 101, 97, 110>>, <<105, 110, 116, 101, 103, 101, 114>>, <<102, 108, 111, 97, 116>>}
RECURSIVE AnmlPass(_, _, _)
AnmlPass(items, i, m) ==
   IF i > Len(items) THEN m
   ELSE IF i \in DOMAIN m THEN AnmlPass(items, i + 1, m)
   ELSE LET b == AnmlBase(items[i])
        IN AnmlPass(items, i + 1, m @@ (i :> FreshName(b, b, 0, Rng(m) \cup AnmlBuiltin)))
AnmlRun(items) ==
   LET keep == {j \in DOMAIN items : items[j].kind \notin VarKinds /\ AnmlAccepts(items[j].orig)}
   IN AnmlPass(items, 1, [i \in keep |-> items[i].orig])

(* ------------------------------ the machine ---------------------------- *)
VARIABLES gkw, wr, touched, fl
\* fl: the clauses violated by the current naming (computed once per step)
ivars == <<gkw, wr, touched, fl, kw, nm>>
NoWriter == [p |-> [lang |-> "none", feats |-> {}, items |-> <<>>], own |-> {}, otn |-> <<>>, nto |-> <<>>, next |-> 0]

\* the names the same problem gets from a first writer in a fresh process
FreshRun(p) == IF p.lang = "pddl" THEN PddlRun(p.items, KW.general \cup Ext(p.feats), 1, <<>>, <<>>) ELSE AnmlRun(p.items)

\* refinement mapping: the naming the writer exposes
Back(w, i) == IF w.p.lang = "pddl" THEN (IF w.otn[i] \in DOMAIN w.nto THEN w.nto[w.otn[i]] ELSE 0) ELSE i
NamingOf(w) ==
   LET items == w.p.items
       fr == FreshRun(w.p)
       G == {j \in DOMAIN items : items[j].kind \notin VarKinds}
       V == DOMAIN items \ G
       AsSeq(S) == SetToSeq(S)
   IN [lang |-> w.p.lang, feats |-> w.p.feats, done |-> w.next > Len(items), hasfresh |-> TRUE,
       items |-> [i \in DOMAIN items |->
                    IF i \in DOMAIN w.otn
                    THEN [kind |-> items[i].kind, orig |-> items[i].orig, named |-> TRUE,
                          name |-> w.otn[i], back |-> Back(w, i), fresh |-> fr[i]]
                    ELSE [kind |-> items[i].kind, orig |-> items[i].orig, named |-> FALSE,
                          name |-> <<>>, back |-> 0, fresh |-> fr[i]]],
       \* one namespace for the model elements, one for the variables (stronger than the property asks)
       spaces |-> << [sec |-> "global", items |-> AsSeq(G)],
                     [sec |-> "vars", items |-> AsSeq(V)] >>,
       text |-> <<>>, tback |-> <<>>]

IInit == /\ gkw = KW.general /\ wr = NoWriter /\ touched = 0 /\ fl = {} /\ DInit

\* PDDLWriter.__init__ of some other problem (before, or while, the observed writer works)
ITouch(f) ==
   /\ Lang = "pddl" /\ touched < MaxTouch /\ f # {}
   /\ touched' = touched + 1
   /\ gkw' = IF AliasKw THEN gkw \cup Ext(f) ELSE gkw
   /\ UNCHANGED <<wr, fl, kw, nm>>

INew(p) ==
   /\ wr.next = 0
   /\ gkw' = IF AliasKw /\ p.lang = "pddl" THEN gkw \cup Ext(p.feats) ELSE gkw
   /\ wr' = IF p.lang = "pddl"
            THEN [p |-> p, own |-> KW.general \cup Ext(p.feats), otn |-> <<>>, nto |-> <<>>, next |-> 1]
            ELSE [p |-> p, own |-> KW.anml, otn |-> AnmlRun(p.items), nto |-> <<>>, next |-> Len(p.items) + 1]
   /\ Write(p.lang, p.feats, NamingOf(wr'))
   /\ fl' = ClausesOf(Failures(kw', nm'))
   /\ UNCHANGED touched

IName ==
   /\ wr.next >= 1 /\ wr.next <= Len(wr.p.items) /\ wr.p.lang = "pddl"
   /\ LET K == IF AliasKw THEN gkw ELSE wr.own
          s == PddlStep(wr.p.items, K, wr.next, wr.otn, wr.nto)
      IN wr' = [wr EXCEPT !.otn = s.otn, !.nto = s.nto, !.next = wr.next + 1]
   /\ Write(wr.p.lang, wr.p.feats, NamingOf(wr'))
   /\ fl' = ClausesOf(Failures(kw', nm'))
   /\ UNCHANGED <<gkw, touched>>

INext == (\E f \in UFeats : ITouch(f)) \/ (\E p \in Problems : INew(p)) \/ IName
ISpec == IInit /\ [][INext]_ivars

NamedOK == "Named" \notin fl
ValidOK == "Valid" \notin fl
NotKeywordOK == "NotKeyword" \notin fl
DistinctOK == "Distinct" \notin fl
InverseOK == "Inverse" \notin fl
HistoryIndependentOK == "HistoryIndependent" \notin fl
\* the observed writer's keyword set always contains its language fragment's keywords
KwCovers == wr.next >= 1 /\ wr.p.lang = "pddl" => KwFor("pddl", wr.p.feats) \subseteq (IF AliasKw THEN gkw ELSE wr.own)
=============================================================================
