--------------------------- MODULE HTNOrderTrace ---------------------------
(* Judge for C34: every recorded construction history of a real            *)
(* TaskNetwork / Method is replayed through HTNOrder's own actions         *)
(* (AddSubtask, AddConstraint); wherever the driver recorded what          *)
(* partial_order() / total_order() returned, the observation is judged by  *)
(* HTNOrder!ClauseA against the state reached by the specification.        *)
(* Verdicts are total: the first violated clause is kept in `bad`          *)
(* (<<clause, call number, observation number>>) and printed when the      *)
(* history has been consumed; observations inside the unspecified zone     *)
(* are counted in `zone` and printed as well.                              *)
(* op records:  [op |-> "task", t]  [op |-> "prec", a, b]  [op |-> "cons", c] *)
(*              [op |-> "look"]  (no call, queries only)                   *)
(*              [op |-> "build", ts, calls]  (HTNOrder!Build: the calls     *)
(*              AddSubtask(ts[i]) then AddConstraint, calls[i] = [a, b] for *)
(*              Prec(a, b) or [a |-> 0, b |-> 0, c] for another constraint) *)
(* each with obs: a sequence of [cls, po |-> [k, v], to |-> [k, v]].       *)
(***************************************************************************)
EXTENDS HTNOrder, Json, IOUtils
Traces == ndJsonDeserialize(IOEnv.TRACES)
VARIABLES tid, l, bad, zone, an
tvars == <<vars, tid, l, bad, zone, an>>

\* constraints only mention subtasks of the network (the generators guarantee it; otherwise unjudged)
WellFormed(T, C) == \A c \in C : Mentions(c) \subseteq T
NoAnalysis == [qual |-> FALSE, P |-> {}, nlin |-> 0 - 1, s |-> <<>>, chain |-> {}]

FirstBad(obs, A) ==
   LET cl == [i \in DOMAIN obs |-> ClauseA(obs[i], A)]
       bs == {i \in DOMAIN obs : cl[i] # ""}
   IN IF bs = {} THEN <<>>
      ELSE LET i == CHOOSE i \in bs : \A j \in bs : i <= j IN <<cl[i], i>>

TraceInit == /\ tid \in DOMAIN Traces /\ l = 1 /\ bad = <<>> /\ zone = 0 /\ an = NoAnalysis /\ Init
\* `an` holds the analysis of the network after the call (nlin = -1: not analysed / not well-formed);
\* it is a variable only so that TLC computes it once per step
TraceNext ==
   /\ l <= Len(Traces[tid].ops)
   /\ LET o == Traces[tid].ops[l] IN
      /\ CASE o.op = "task" -> AddSubtask(o.t)
           [] o.op = "prec" -> AddConstraint(Prec(o.a, o.b))
           [] o.op = "cons" -> AddConstraint(o.c)
           [] o.op = "look" -> Query
           [] o.op = "build" -> Build(o.ts, [i \in DOMAIN o.calls |->
                                   IF o.calls[i].a # 0 THEN Prec(o.calls[i].a, o.calls[i].b) ELSE o.calls[i].c])
      /\ an' = IF o.obs = <<>> THEN NoAnalysis
               ELSE LET T == Range(subs')
                        C == {c \in Range(cons') : Temporal(c)}
                    IN IF WellFormed(T, C) THEN Analysis(T, C) ELSE NoAnalysis
      /\ IF o.obs = <<>> THEN UNCHANGED <<bad, zone>>
         ELSE IF an'.nlin < 0 THEN /\ zone' = zone + Len(o.obs) /\ bad' = bad
         ELSE LET fb == FirstBad(o.obs, an')
              IN /\ zone' = IF ZoneA(an') THEN zone + Len(o.obs) ELSE zone
                 /\ bad' = IF bad # <<>> \/ fb = <<>> THEN bad ELSE <<fb[1], l, fb[2]>>
   /\ l' = l + 1 /\ tid' = tid
TraceSpec == TraceInit /\ [][TraceNext]_tvars

Done == l > Len(Traces[tid].ops)
Verdict == Done =>
   /\ (bad # <<>> => PrintT(<<"FAIL", Traces[tid].id, bad[1], bad[2], bad[3]>>))
   /\ (zone > 0 => PrintT(<<"UNSPEC", Traces[tid].id, zone>>))
=============================================================================
