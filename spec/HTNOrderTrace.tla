--------------------------- MODULE HTNOrderTrace ---------------------------
(* Judge for C34: every recorded construction history of a real            *)
(* TaskNetwork / Method is replayed through HTNOrder's own actions         *)
(* (AddSubtask, AddConstraint); wherever the driver recorded what          *)
(* partial_order() / total_order() returned, the observation is judged by  *)
(* HTNOrder!ClauseA against the state reached by the specification.        *)
(* Verdicts are total: the first violated clause is kept in `bad`          *)
(* (<<clause, call number, observation number>>) and printed when the      *)
(* history has been consumed; observations inside the unspecified zone     *)
(* are counted in `zone` and printed as well.                              *)
(* op records:  [op |-> "task", t]  [op |-> "prec", a, b]  [op |-> "cons", c] *)
(*              [op |-> "look"]  (no call, queries only)                   *)
(* each with obs: a sequence of [cls, po |-> [k, v], to |-> [k, v]].       *)
(***************************************************************************)
EXTENDS HTNOrder, Json, IOUtils
Traces == ndJsonDeserialize(IOEnv.TRACES)
VARIABLES tid, l, bad, zone
tvars == <<vars, tid, l, bad, zone>>

\* constraints only mention subtasks of the network (the generators guarantee it; otherwise unjudged)
WellFormed(T, C) == \A c \in C : Mentions(c) \subseteq T

FirstBad(obs, A) ==
   LET bs == {i \in DOMAIN obs : ClauseA(obs[i], A) # ""} IN
   IF bs = {} THEN <<>>
   ELSE LET i == CHOOSE i \in bs : \A j \in bs : i <= j IN <<ClauseA(obs[i], A), i>>

TraceInit == /\ tid \in DOMAIN Traces /\ l = 1 /\ bad = <<>> /\ zone = 0 /\ Init
TraceNext ==
   /\ l <= Len(Traces[tid].ops)
   /\ LET o == Traces[tid].ops[l] IN
      /\ CASE o.op = "task" -> AddSubtask(o.t)
           [] o.op = "prec" -> AddConstraint(Prec(o.a, o.b))
           [] o.op = "cons" -> AddConstraint(o.c)
           [] o.op = "look" -> Query
      /\ IF o.obs = <<>> THEN UNCHANGED <<bad, zone>>
         ELSE LET T == Range(subs')
                  C == {c \in Range(cons') : Temporal(c)}
              IN IF ~WellFormed(T, C) THEN /\ zone' = zone + Len(o.obs) /\ bad' = bad
                 ELSE LET A == Analysis(T, C)
                          fb == FirstBad(o.obs, A)
                      IN /\ zone' = IF ZoneA(A) THEN zone + Len(o.obs) ELSE zone
                         /\ bad' = IF bad # <<>> \/ fb = <<>> THEN bad ELSE <<fb[1], l, fb[2]>>
   /\ l' = l + 1 /\ tid' = tid
TraceSpec == TraceInit /\ [][TraceNext]_tvars

Done == l > Len(Traces[tid].ops)
Verdict == Done =>
   /\ (bad # <<>> => PrintT(<<"FAIL", Traces[tid].id, bad[1], bad[2], bad[3]>>))
   /\ (zone > 0 => PrintT(<<"UNSPEC", Traces[tid].id, zone>>))
=============================================================================
