---------------------------- MODULE ModelCloneEnum ----------------------------
(* G1 generator for C22: edit histories  pre-edits ; Clone ; post-edits with a  *)
(* target (both / original only / clone only), written as ndjson.  Only         *)
(* *connected* histories are emitted: every edit after the first touches a      *)
(* container (Locus / Locus2 of ModelClone) that an earlier edit of the history *)
(* touches -- edits on unrelated containers commute and do not influence each   *)
(* other's acceptance, so the connected histories are the ones in which the     *)
(* clone's copy of a container is exercised by a later edit.                    *)
(*   Plan = set of <<small, P, Q, tg>>: universe (SmallEdits or Edits), at most *)
(*   P pre-edits, between 1 and Q post-edits, targets: "all" = every target of  *)
(*   one post-edit / the vectors TgtVecs for two, "both" = both problems only.  *)
EXTENDS ModelClone, Json, IOUtils, SequencesExt
CONSTANTS Tier      \* "quick" | "thorough"
\* two families of histories: "std" (Problem / ContingentProblem / HierarchicalProblem share the edits
\* of class "plain") is written to IOEnv.OUT_STD, "ma" to IOEnv.OUT_MA
Tgts == {"both", "o", "c"}
\* target vectors for two post-edits: the second edit probes what the first did to the other problem
TgtVecs == {<<"o", "c">>, <<"c", "o">>, <<"o", "both">>, <<"c", "both">>, <<"both", "both">>, <<"both", "o">>}
Plan == IF Tier = "quick" THEN {<<FALSE, 1, 1, "all">>, <<TRUE, 1, 2, "all">>, <<TRUE, 2, 1, "all">>}
        ELSE {<<FALSE, 1, 1, "all">>, <<TRUE, 1, 2, "all">>, <<TRUE, 2, 1, "all">>, <<FALSE, 0, 2, "all">>,
              <<TRUE, 3, 1, "both">>}

Loci(e) == {Locus(e), Locus2(e)}
Univ(k, small) == IF small THEN SmallEdits(k) ELSE Edits(k)
\* connected edit sequences of length n over the universe
RECURSIVE Chains(_, _, _)
Chains(k, small, n) ==
   IF n = 1 THEN {<<e>> : e \in Univ(k, small)}
   ELSE LET prev == Chains(k, small, n - 1) IN
        UNION {{Append(s, e) : e \in {x \in Univ(k, small) : \E i \in DOMAIN s : Loci(x) \cap Loci(s[i]) # {}}} : s \in prev}
TgtV(n, tg) == IF tg = "both" \/ n > 2 THEN {[i \in 1..n |-> "both"]}
              ELSE IF n = 1 THEN {<<t>> : t \in Tgts} ELSE TgtVecs
HistOf(k, small, P, Q, tg) ==
   UNION {UNION {{[pre |-> SubSeq(s, 1, i),
                   post |-> [j \in 1..(Len(s) - i) |-> [e |-> s[i + j], tgt |-> tv[j]]]]
                  : tv \in TgtV(Len(s) - i, tg)}
                 : i \in {i \in 0..P : Len(s) - i >= 1 /\ Len(s) - i <= Q}}
          : s \in UNION {Chains(k, small, n) : n \in 1..(P + Q)}}
Histories(k) == UNION {HistOf(k, pl[1], pl[2], pl[3], pl[4]) : pl \in Plan}
\* small = every edit of the history is one of the representatives (the driver replays all of those)
Tag(SmallU, h) == [pre |-> h.pre, post |-> h.post,
                   small |-> (\A i \in DOMAIN h.pre : h.pre[i] \in SmallU) /\ (\A i \in DOMAIN h.post : h.post[i].e \in SmallU)]
SmallStd == SmallEdits("plain")
SmallMa == SmallEdits("ma")
HStd == Histories("plain")
HMa == Histories("ma")
ASSUME ndJsonSerialize(IOEnv.OUT_STD, SetToSeq({Tag(SmallStd, h) : h \in HStd}))
ASSUME ndJsonSerialize(IOEnv.OUT_MA, SetToSeq({Tag(SmallMa, h) : h \in HMa}))
ASSUME PrintT(<<"EMITTED", Cardinality(HStd), Cardinality(HMa)>>)
VARIABLE dummy
Init == dummy = 0
Next == UNCHANGED dummy
=============================================================================
