---------------------------- MODULE RenamerJudge ---------------------------
(* Judge for C38.  Every recorded history of writer uses (one ndjson line:   *)
(* [id, lang, ops]) is replayed through Renamer's own actions: op "touch"    *)
(* (a writer was constructed for a problem with features feats) takes        *)
(* Touch, op "write" takes Write with the recorded naming.  After every step *)
(* the clauses of Renamer!Failures are evaluated on (kw', nm'); verdicts are *)
(* total: per step the smallest index of every violated clause is kept in    *)
(* `bad` (<<clause, step, index>>) and printed when the history is consumed. *)
(***************************************************************************)
EXTENDS Renamer
Traces == ndJsonDeserialize(IOEnv.TRACES)
VARIABLES tid, l, bad
tvars == <<dvars, tid, l, bad>>

NamingOfRec(lang, o) ==
   [lang |-> lang, feats |-> Rng(o.feats), done |-> TRUE, hasfresh |-> o.hasfresh, items |-> o.items,
    spaces |-> o.spaces, text |-> o.text, tback |-> o.tback]

Clauses(F) == {f[1] : f \in F}
MinOf(S) == CHOOSE x \in S : \A y \in S : x <= y
Summary(F, step) == {<<c, step, MinOf({f[2] : f \in {g \in F : g[1] = c}})>> : c \in Clauses(F)}

TraceInit == tid \in DOMAIN Traces /\ l = 1 /\ bad = {} /\ DInit
TraceNext ==
   /\ l <= Len(Traces[tid].ops)
   /\ LET o == Traces[tid].ops[l]
          lang == Traces[tid].lang
      IN /\ IF o.op = "touch" THEN Touch(lang, Rng(o.feats)) ELSE Write(lang, Rng(o.feats), NamingOfRec(lang, o))
         /\ bad' = bad \cup Summary(Failures(kw', nm'), l)
   /\ l' = l + 1 /\ tid' = tid
TraceSpec == TraceInit /\ [][TraceNext]_tvars

Done == l > Len(Traces[tid].ops)
Verdict == Done => \A b \in bad : PrintT(<<"FAIL", Traces[tid].id, b[1], b[2], b[3]>>)
=============================================================================
