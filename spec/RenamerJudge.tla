---------------------------- MODULE RenamerJudge ---------------------------
(* Judge for C38.  Every recorded history of writer uses (one ndjson line:   *)
(* [id, lang, ops]) is replayed through Renamer's own actions: op "touch"    *)
(* (a writer was constructed for a problem with features feats) takes        *)
(* Touch, op "write" takes Write with the recorded naming.  After every step *)
(* the clauses of Renamer!Failures are evaluated on (kw', nm'); verdicts are *)
(* total: per step the smallest index of every violated clause is kept in    *)
(* `bad` (<<clause, step, index, detail>>), printed when the history is      *)
(* consumed.  The ops of a trace are ALL writer constructions of one process  *)
(* in order (a fresh process per trace).                                     *)
(***************************************************************************)
EXTENDS Renamer
Traces == ndJsonDeserialize(IOEnv.TRACES)
VARIABLES tid, l, bad
tvars == <<dvars, tid, l, bad>>

NamingOfRec(lang, o) ==
   [lang |-> lang, feats |-> Rng(o.feats), done |-> TRUE, hasfresh |-> o.hasfresh, items |-> o.items,
    spaces |-> o.spaces, text |-> o.text, tback |-> o.tback]

\* the keyword-set history: features of the problems earlier writers of this process were constructed for
\* that are outside the current problem's own language fragment
MinOf(S) == CHOOSE x \in S : \A y \in S : x <= y
Groups(F) == {<<f[1], f[3]>> : f \in {g \in F : g[1] # "HistoryIndependent"}}
Before(t, step) == UNION {Rng(Traces[t].ops[j].feats) : j \in 1..(step - 1)}
\* history dependence is summarised by its first item (types, objects, fluents, actions, parameters, variables
\* in this order) and by what differs: only the assignment of the same names (permuted), or the names, after a
\* writer for another language fragment (kw-extended) or not (same-kw)
HistStatus(t, step, o, N) == IF Permuted(N) THEN "permuted"
                             ELSE IF Before(t, step) \ Rng(o.feats) # {} THEN "kw-extended" ELSE "same-kw"
Summary(F, t, step, o, N) ==
   {<<g[1], step, MinOf({f[2] : f \in {h \in F : h[1] = g[1] /\ h[3] = g[2]}}), g[2]>> : g \in Groups(F)}
   \cup (LET H == {f[2] : f \in {g \in F : g[1] = "HistoryIndependent"}}
         IN IF H = {} THEN {}
            ELSE {<<"HistoryIndependent", step, MinOf(H), <<HistStatus(t, step, o, N), N.items[MinOf(H)].kind>> >>})

TraceInit == tid \in DOMAIN Traces /\ l = 1 /\ bad = {} /\ DInit
TraceNext ==
   /\ l <= Len(Traces[tid].ops)
   /\ LET o == Traces[tid].ops[l]
          lang == Traces[tid].lang
      IN /\ IF o.op = "touch" THEN Touch(lang, Rng(o.feats)) ELSE Write(lang, Rng(o.feats), NamingOfRec(lang, o))
         /\ bad' = bad \cup (IF o.op = "touch" THEN {} ELSE Summary(Failures(kw', nm'), tid, l, o, nm'))
   /\ l' = l + 1 /\ tid' = tid
TraceSpec == TraceInit /\ [][TraceNext]_tvars

Done == l > Len(Traces[tid].ops)
Verdict == Done => \A b \in bad : PrintT(<<"FAIL", Traces[tid].id, b[1], b[2], b[3], b[4]>>)
=============================================================================
