------------------------------ MODULE UPTimeSem ------------------------------
(***************************************************************************)
(* Reference temporal semantics of time-triggered plans (C04, C05, C26,    *)
(* C28, C29).                                                              *)
(*                                                                         *)
(* A plan is a sequence of steps [a, args, t, d] (start time t, duration d;*)
(* d is ignored for instantaneous actions).  Events are the effects of the *)
(* plan steps at their absolute times plus the problem's timed effects.    *)
(* H is the increasing sequence of distinct event times; S[1] is the       *)
(* initial state and S[j+1] the state after applying ALL effects scheduled *)
(* at H[j] together (UPSeqSem!Combine: all read in S[j]).                  *)
(* Dense-time reading of conditions: the state observable at time t is the *)
(* one produced by all happenings strictly before t; a condition over an   *)
(* interval holds iff it holds in every state observable at some point of  *)
(* the interval.  So a condition at an instant is evaluated BEFORE that    *)
(* instant's effects; [a,b] includes the state before a; (a,b] does not    *)
(* but, when a < b, includes the state that persists just after a; the     *)
(* right end never adds a state.                                           *)
(***************************************************************************)
EXTENDS UPSeqSem

TV(x) == NV(x.n, x.d)

\* absolute time of a timing [from, delay] for a step starting at st with duration d;
\* "gstart" timings are absolute, "gend" are relative to the end of the plan (pend)
AbsT(tm, st, d, pend) ==
   IF tm.from = "start" THEN RAdd(st, TV(tm.delay))
   ELSE IF tm.from = "end" THEN RAdd(RAdd(st, d), TV(tm.delay))
   ELSE IF tm.from = "gstart" THEN TV(tm.delay)
   ELSE RAdd(pend, TV(tm.delay))

StepDur(P, stp) == IF Act(P, stp.a).kind = "dur" THEN TV(stp.d) ELSE ZERO
StepEnd(P, stp) == RAdd(TV(stp.t), StepDur(P, stp))
PlanEnd(P, plan) ==
   LET ends == {StepEnd(P, plan[i]) : i \in DOMAIN plan} \cup {ZERO} IN
   IF \E e \in ends : IsU(e) THEN UNDEF ELSE CHOOSE m \in ends : \A e \in ends : RLe(e, m)

\* events: [t, who, ef, env]   (who = step index, 0 for the problem's timed effects)
StepEvents(P, i, stp, pend) ==
   LET a   == Act(P, stp.a)
       env == ParEnv(a, stp)
   IN IF a.kind = "inst"
      THEN {[t |-> TV(stp.t), who |-> i, ef |-> a.effects[j], env |-> env, j |-> j] : j \in DOMAIN a.effects}
      ELSE {[t |-> AbsT(a.effects[j].t, TV(stp.t), TV(stp.d), pend), who |-> i, ef |-> a.effects[j].e,
             env |-> env, j |-> j] : j \in DOMAIN a.effects}
Events(P, plan) ==
   LET pend == PlanEnd(P, plan) IN
   UNION {StepEvents(P, i, plan[i], pend) : i \in DOMAIN plan}
   \cup {[t |-> AbsT(P.timed_effects[j].t, ZERO, ZERO, pend), who |-> 0, ef |-> P.timed_effects[j].e,
          env |-> <<>>, j |-> j] : j \in DOMAIN P.timed_effects}

RECURSIVE SortT(_)
SortT(S) == IF S = {} THEN <<>>
            ELSE LET m == CHOOSE x \in S : \A y \in S : RLe(x, y) IN <<m>> \o SortT(S \ {m})

\* apply all events of one instant
ApplyAll(R, Es, s) ==
   Combine(R, UNION {ExpandEff(R, e.ef, e.env, e.who, e.j, s) : e \in Es}, s)

\* S[1..n+1] or failure
RECURSIVE RunFrom(_,_,_,_,_)
RunFrom(R, Ev, H, j, acc) ==
   IF j > Len(H) THEN [ok |-> TRUE, unspec |-> FALSE, S |-> acc, why |-> "ok"]
   ELSE LET r == ApplyAll(R, {e \in Ev : e.t = H[j]}, acc[Len(acc)]) IN
        IF ~r.ok THEN [ok |-> FALSE, unspec |-> r.unspec, S |-> acc, why |-> r.why]
        ELSE IF r.unspec THEN [ok |-> FALSE, unspec |-> TRUE, S |-> acc, why |-> "static-zone"]
        ELSE RunFrom(R, Ev, H, j + 1, Append(acc, r.s))

\* index (0-based count of happenings) of the state observable AT t / just AFTER t
Idx(H, t)      == Cardinality({j \in DOMAIN H : RLt(H[j], t)})
IdxAfter(H, t) == Cardinality({j \in DOMAIN H : RLe(H[j], t)})
StatesIn(H, a, b, lopen) ==
   IF a = b THEN (IF lopen THEN {} ELSE {Idx(H, a)})
   ELSE (IF lopen THEN IdxAfter(H, a) ELSE Idx(H, a)) .. Idx(H, b)

IvCheck(R, H, S, a, b, lopen, ropen, c, env) ==
   IF RLt(b, a) THEN "?"
   ELSE IF a = b /\ (lopen \/ ropen) THEN "T"       \* empty interval
   ELSE All3({Cond3(R, c, S[j + 1], env) : j \in StatesIn(H, a, b, lopen)})

DurCheck(R, H, S, stp, a, env) ==
   LET s  == S[Idx(H, TV(stp.t)) + 1]
       lo == Eval(R, a.dur.lo, s, env)
       hi == Eval(R, a.dur.hi, s, env)
       d  == TV(stp.d)
   IN IF IsU(lo) \/ IsU(hi) THEN "?"
      ELSE IF (IF a.dur.lopen THEN RLt(lo, d) ELSE RLe(lo, d))
              /\ (IF a.dur.ropen THEN RLt(d, hi) ELSE RLe(d, hi)) THEN "T" ELSE "F"

StepCheck(R, H, S, stp, pend) ==
   LET P   == R.P
       a   == Act(P, stp.a)
       env == ParEnv(a, stp)
       st  == TV(stp.t)
   IN IF a.kind = "inst"
      THEN All3({Cond3(R, a.pre[i], S[Idx(H, st) + 1], env) : i \in DOMAIN a.pre})
      ELSE All3({DurCheck(R, H, S, stp, a, env)} \cup
                {IvCheck(R, H, S, AbsT(a.conds[i].iv.lo, st, TV(stp.d), pend),
                         AbsT(a.conds[i].iv.hi, st, TV(stp.d), pend),
                         a.conds[i].iv.lopen, a.conds[i].iv.ropen, a.conds[i].c, env) : i \in DOMAIN a.conds})

\* verdict [v, why]:  "VALID" | "INVALID" | "unspec"
TimeVerdict(R, plan) ==
   LET P    == R.P
       pend == PlanEnd(P, plan)
       Ev   == Events(P, plan)
       H    == SortT({e.t : e \in Ev})
       s0   == InitSt(R)
       i3   == InitOK3(R, s0)
   IN IF \E i \in DOMAIN plan : RLt(TV(plan[i].t), ZERO)
            \/ (Act(P, plan[i].a).kind = "dur" /\ RLe(TV(plan[i].d), ZERO))
      THEN [v |-> "unspec", why |-> "nonpositive-duration-or-negative-start"]
      ELSE IF IsU(pend) \/ \E e \in Ev : IsU(e.t) THEN [v |-> "unspec", why |-> "number-beyond-model-range"]
      ELSE IF \E e \in Ev : RLt(e.t, ZERO) THEN [v |-> "unspec", why |-> "effect-before-zero"]
      ELSE IF i3 = "?" THEN [v |-> "unspec", why |-> "init?"]
      ELSE IF i3 = "F" THEN [v |-> "INVALID", why |-> "init"]
      ELSE LET run == RunFrom(R, Ev, H, 1, <<s0>>) IN
      IF ~run.ok THEN (IF run.unspec THEN [v |-> "unspec", why |-> run.why]
                       ELSE [v |-> "INVALID", why |-> "conflict"])
      ELSE LET S      == run.S
               steps  == All3({StepCheck(R, H, S, plan[i], pend) : i \in DOMAIN plan})
               tgoals == All3({IvCheck(R, H, S, AbsT(P.timed_goals[i].iv.lo, ZERO, ZERO, pend),
                                       AbsT(P.timed_goals[i].iv.hi, ZERO, ZERO, pend),
                                       P.timed_goals[i].iv.lopen, P.timed_goals[i].iv.ropen,
                                       P.timed_goals[i].g, <<>>) : i \in DOMAIN P.timed_goals})
               invs   == All3({Inv3(R, S[j]) : j \in DOMAIN S})
               bnds   == IF \E j \in DOMAIN S : BoundsUndef(R, S[j]) THEN "?"
                         ELSE IF \A j \in DOMAIN S : InBounds(R, S[j]) THEN "T" ELSE "F"
               goals  == Goal3(R, S[Len(S)])
               parts  == <<steps, tgoals, invs, bnds, goals>>
               names  == <<"steps", "tgoals", "invs", "bnds", "goals">>
               bad    == {i \in 1..5 : parts[i] = "F"}
           IN IF bad # {} THEN [v |-> "INVALID", why |-> names[CHOOSE i \in bad : \A j \in bad : i <= j]]
              ELSE IF \E i \in 1..5 : parts[i] = "?" THEN [v |-> "unspec", why |-> "cond?"]
              ELSE [v |-> "VALID", why |-> "ok"]

\* the sequential plan denoted by an instantaneous time-triggered plan with distinct start times
RECURSIVE SortSteps(_)
SortSteps(S) == IF S = {} THEN <<>>
                ELSE LET m == CHOOSE x \in S : \A y \in S : RLe(TV(x.t), TV(y.t)) IN <<m>> \o SortSteps(S \ {m})
DistinctStarts(plan) == \A i, j \in DOMAIN plan : i # j => plan[i].t # plan[j].t
AsSequential(plan) == LET ss == SortSteps({plan[i] : i \in DOMAIN plan}) IN
                      [i \in DOMAIN ss |-> [a |-> ss[i].a, args |-> ss[i].args]]
=============================================================================
