----------------------------- MODULE MCBigArith -----------------------------
(***************************************************************************)
(* T1 design check of BigArith (the oracle of C11's "big" family).         *)
(*   mode "native": for all pairs of small signed integers / rationals the *)
(*        limb algorithms agree with TLC's native arithmetic (all native   *)
(*        intermediate values stay below 2^31);                            *)
(*   mode "big": on operands far above 2^53 the ring / order laws hold     *)
(*        (commutativity, distributivity, (a+b)-b = a, a < a+1, cancelling *)
(*        a common factor preserves the order, (a/b)*b = a) and some       *)
(*        constants computed two ways coincide.                            *)
(***************************************************************************)
EXTENDS BigArith, TLC

CONSTANT Tier
Small == IF Tier = "quick" THEN {0, 1, 2, 9, 9999, 10000, 10001, 46340}
         ELSE {0, 1, 2, 3, 7, 9, 10, 99, 100, 9999, 10000, 10001, 12345, 19999, 20000, 32768, 46340}
Dens == {1, 2, 3, 7}
Signed == Small \cup {0 - x : x \in Small}

P2(k) == NPow(<<2>>, k)
P10(k) == NPow(<<10>>, k)
\* nullary definitions: TLC evaluates them once
P2x53 == P2(53)
P2x60 == P2(60)
P10x30 == P10(30)
BigN == IF Tier = "quick"
        THEN {NAdd(P2x53, <<1>>), NAdd(P2x60, <<2>>), P10x30, P10(20), <<3>>, <<9999, 9999, 9999>>, <<0, 0, 1>>, <<>>}
        ELSE {P2x53, NAdd(P2x53, <<1>>), NSub(P2x53, <<1>>), NAdd(P2x60, <<2>>), NAdd(P2(59), <<1>>),
              P10x30, P10(20), P2(64), <<2>>, <<3>>, <<9999, 9999, 9999>>, <<0, 0, 1>>, <<1>>, <<>>}
BigC == IF Tier = "quick" THEN {P2x53, <<3>>, <<>>} ELSE {P2x53, <<3>>, P10x30, <<>>}

VARIABLES mode, a, b, c
vars == <<mode, a, b, c>>
Init == \/ mode = "native" /\ a \in Signed /\ b \in Signed /\ c \in Dens
        \/ mode = "big" /\ a \in BigN /\ b \in BigN /\ c \in BigC
Next == UNCHANGED vars

Sgn(x) == IF x < 0 THEN 0 - 1 ELSE IF x = 0 THEN 0 ELSE 1
AbsN(x) == IF x < 0 THEN 0 - x ELSE x

NativeOK ==
   mode = "native" =>
      LET ua == AbsN(a) ub == AbsN(b)
          qa == QMk(ZInt(a), NatL(c))          \* a / c
          qb == QMk(ZInt(b), NatL(8 - c))      \* b / (8 - c)   (8 - c \in {7, 6, 5, 1})
      IN /\ IsNat(NatL(ua))
         /\ NAdd(NatL(ua), NatL(ub)) = NatL(ua + ub)
         /\ NMul(NatL(ua), NatL(ub)) = NatL(ua * ub)
         /\ NCmp(NatL(ua), NatL(ub)) = Sgn(ua - ub)
         /\ (ua >= ub => NSub(NatL(ua), NatL(ub)) = NatL(ua - ub))
         /\ ZAdd(ZInt(a), ZInt(b)) = ZInt(a + b)
         /\ ZSub(ZInt(a), ZInt(b)) = ZInt(a - b)
         /\ ZMul(ZInt(a), ZInt(b)) = ZInt(a * b)
         /\ ZCmp(ZInt(a), ZInt(b)) = Sgn(a - b)
         /\ IsZ(ZAdd(ZInt(a), ZInt(b))) /\ IsZ(ZMul(ZInt(a), ZInt(b)))
         \* rationals against native cross-multiplication (|a|,|b| <= 46340, denominators <= 7)
         /\ QCmp(qa, qb) = Sgn(a * (8 - c) - b * c)
         /\ QEq(QAdd(qa, qb), QMk(ZInt(a * (8 - c) + b * c), NatL(c * (8 - c))))
         /\ QEq(QSub(qa, qb), QMk(ZInt(a * (8 - c) - b * c), NatL(c * (8 - c))))
         /\ (AbsN(a) <= 6000 /\ AbsN(b) <= 6000 =>
               /\ QEq(QMul(qa, qb), QMk(ZInt(a * b), NatL(c * (8 - c))))
               /\ (b # 0 => QEq(QDiv(qa, qb), QMk(ZInt(Sgn(b) * a * (8 - c)), NatL(c * AbsN(b))))))
         /\ IsQ(QAdd(qa, qb)) /\ IsQ(QMul(qa, qb))

BigOK ==
   mode = "big" =>
      /\ IsNat(a) /\ IsNat(b) /\ IsNat(c)
      /\ IsNat(NAdd(a, b)) /\ IsNat(NMul(a, b))
      /\ NAdd(a, b) = NAdd(b, a)
      /\ NMul(a, b) = NMul(b, a)
      /\ NMul(a, NAdd(b, c)) = NAdd(NMul(a, b), NMul(a, c))
      /\ NMul(NMul(a, b), c) = NMul(a, NMul(b, c))
      /\ NSub(NAdd(a, b), b) = a
      /\ NCmp(NAdd(a, <<1>>), a) = 1 /\ NCmp(a, NAdd(a, <<1>>)) = 0 - 1 /\ NCmp(a, a) = 0
      /\ NCmp(a, b) = 0 - NCmp(b, a)
      /\ (c # <<>> => NCmp(NMul(a, c), NMul(b, c)) = NCmp(a, b))
      /\ NMul(a, <<1>>) = a /\ NMul(a, <<>>) = <<>> /\ NAdd(a, <<>>) = a
      \* signed / rational layer on big operands
      /\ ZSub(ZNat(a), ZNat(b)) = ZNeg(ZSub(ZNat(b), ZNat(a)))
      /\ ZAdd(ZSub(ZNat(a), ZNat(b)), ZNat(b)) = ZNat(a)
      /\ ZMul(ZNeg(ZNat(a)), ZNeg(ZNat(b))) = ZNat(NMul(a, b))
      /\ (b # <<>> => /\ QEq(QMul(QDiv(QZ(ZNat(a)), QZ(ZNat(b))), QZ(ZNat(b))), QZ(ZNat(a)))
                      /\ QEq(QMk(ZNat(NMul(a, b)), b), QZ(ZNat(a)))
                      /\ (c # <<>> => QEq(QAdd(QMk(ZNat(a), b), QMk(ZNat(a), c)),
                                         QMk(ZNat(NMul(a, NAdd(b, c))), NMul(b, c)))))

\* constants computed two ways / known decimal expansions
ASSUME P2(30) = NatL(1073741824)
ASSUME P2(60) = NMul(P2(30), P2(30))
ASSUME P2(53) = NMul(P2(23), P2(30))
ASSUME P10(30) = <<0, 0, 0, 0, 0, 0, 0, 100>>
ASSUME P10(20) = NMul(P10(10), P10(10))
ASSUME NAdd(P2(60), <<2>>) = NMul(<<2>>, NAdd(P2(59), <<1>>))
\* 2^53 = 9007199254740992
ASSUME P2(53) = <<992, 5474, 1992, 9007>>
=============================================================================
