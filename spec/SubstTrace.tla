----------------------------- MODULE SubstTrace -----------------------------
(***************************************************************************)
(* Judge for C13: every recorded call of FNode.substitute /                *)
(* Substituter.substitute on the real library is judged by Subst!Fails.    *)
(*                                                                         *)
(* IOEnv.TAB     ndjson, line i = the expression record with number i      *)
(*               (the driver numbers the distinct expression records it    *)
(*               reads from the generator or projects from real FNodes;    *)
(*               equal numbers <=> equal records)                          *)
(* IOEnv.TRACES  ndjson of observations                                    *)
(*    id            case number                                            *)
(*    e, mk, mv     the case as emitted by SubstEnum (expression, keys,    *)
(*                  values), as numbers into TAB                           *)
(*    eb, kb, vb    projections of the FNodes built from them (before the  *)
(*                  call); ea, ka, va the same FNodes projected again      *)
(*                  after the call                                         *)
(*    kind, exc, res  "val" + number of the projected result, or "exc" +   *)
(*                  exception class, or "bad" (not an expression)          *)
(*    n0, n1        len(expression_manager.expressions) before / after     *)
(* One behaviour per observation: call -> done; the verdict is total: the  *)
(* failed clauses are kept in `bad` and printed by an invariant that is    *)
(* always TRUE.  BuildFaithful (the FNodes built from the case project     *)
(* back to the case) is a machinery clause, not a verdict on the library.  *)
(***************************************************************************)
EXTENDS Subst, Json, IOUtils
Tab == ndJsonDeserialize(IOEnv.TAB)
Obs == ndJsonDeserialize(IOEnv.TRACES)
VARIABLES tid, pc, bad
tvars == <<tid, pc, bad>>

CaseOf(o) ==
   [e |-> Tab[o.e],
    m |-> [i \in DOMAIN o.mk |-> [k |-> Tab[o.mk[i]], v |-> Tab[o.mv[i]]]],
    kind |-> o.kind, exc |-> o.exc,
    res |-> IF o.kind = "val" THEN Tab[o.res] ELSE Tab[o.e],
    n0 |-> o.n0, n1 |-> o.n1,
    untouched |-> o.ea = o.eb /\ o.ka = o.kb /\ o.va = o.vb]
Faithful(o) == o.eb = o.e /\ o.kb = o.mk /\ o.vb = o.mv

TraceInit == tid \in DOMAIN Obs /\ pc = "call" /\ bad = {}
TraceNext ==
   /\ pc = "call" /\ pc' = "done" /\ tid' = tid
   /\ LET o == Obs[tid] c == CaseOf(o) IN
      bad' = Fails(c) \cup (IF Faithful(o) THEN {} ELSE {"BuildFaithful"})
                      \cup (IF o.kind \notin {"val", "exc"} THEN {"ReturnsExpression"} ELSE {})
TraceSpec == TraceInit /\ [][TraceNext]_tvars

\* total verdict: prints the failed clauses with the features of the case
Verdict == (pc = "done" /\ bad # {}) =>
              LET f == Feature(CaseOf(Obs[tid])) IN
              \A cl \in bad : PrintT(<<"FAIL", Obs[tid].id, cl, f[1], f[2]>>)
=============================================================================
