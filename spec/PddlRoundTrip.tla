--------------------------- MODULE PddlRoundTrip ---------------------------
(***************************************************************************)
(* C18 judge for everything spec/Bisim.tla does not cover.                 *)
(*                                                                         *)
(* One record = one (problem A, reader) pair of the PDDL round trip:       *)
(*   A, akeys   the original problem (UPJ) and its ground fluents          *)
(*   wexc       exception class raised by PDDLWriter ("none")              *)
(*   reader     "up" | "ai";  rexc / stage  exception class raised while   *)
(*              reading ("none") and where: "parse" (up), "parse-domain" / *)
(*              "parse-problem" (the third-party parser reading the domain *)
(*              / problem text) or "convert" (unified_planning's converter *)
(*              of the third-party parse result)                           *)
(*   hasB, B, bkeys  the re-read problem projected to UPJ and renamed back *)
(*              to A's identifiers with the writer's get_item_named        *)
(*              (B = A as a placeholder when hasB is FALSE)                *)
(*   nmiss      number of identifiers of the re-read problem unknown to    *)
(*              get_item_named                                             *)
(*   temporal   TRUE for the temporal sub-corpus                           *)
(*   plans      <<[kind, steps, wexc, bexc, bkind, back, vexc, vkind, via]>>*)
(*              a plan over A, written with get_plan and parsed back       *)
(*              (back: against the re-read problem, renamed back; via:     *)
(*              against A through get_item_named)                          *)
(*                                                                         *)
(* pi = 0 judges the record itself:                                        *)
(*   (W)   the writer may REJECT a problem (documented exception classes:  *)
(*         the problem is outside the PDDL fragment, tallied); any other   *)
(*         exception is a violation;                                       *)
(*   (iii) unified_planning's own reader failing on the writer's output is *)
(*         a violation;                                                    *)
(*   (ii)  the third-party reader failing is tallied, and a violation only *)
(*         when it reports a missing :requirements flag while reading the  *)
(*         DOMAIN text (the writer should have declared it; the third-     *)
(*         party problem parser ignores every declared requirement, so its *)
(*         complaints about goals are outside the common fragment) or when *)
(*         unified_planning's converter raises anything but its documented *)
(*         rejection;                                                      *)
(*   SameTemporalStructure(A, B) for the temporal sub-corpus: same         *)
(*         objects / initial state / actions (name, kind, parameter        *)
(*         types); per durative action and ground instance the same        *)
(*         duration bounds and openness, and slot by slot (PDDL has the    *)
(*         slots at-start, over-all, at-end) the same condition verdict    *)
(*         and the same combined effect; the same timed initial literals   *)
(*         instant by instant; the same goal verdict -- conditions,        *)
(*         durations and effects are compared by VALUE on sample states    *)
(*         (the initial state and every state of the runs of the record's  *)
(*         plans), because the writer simplifies and re-associates         *)
(*         expressions.  Rule (i): an action absent from B is acceptable   *)
(*         iff its conditions are false on every sample.                   *)
(* pi > 0 judges plan pi: the parsed plan equals the original one (both    *)
(*   ways of parsing), has the same kind, and A and B give it the same     *)
(*   verdict (UPSeqSem!SeqVerdict / UPTimeSem!TimeVerdict) and the same    *)
(*   metric value (UPSeqSem!MetricValue).                                  *)
(* Total verdicts, one short tuple each:                                   *)
(*   <<"FAIL", cid, pi, clause, detail>>  <<"T", cid, tally>>                *)
(*   <<"V", cid, pi>> (plan valid in A, confirmed here)  <<"U", cid, pi>>    *)
(***************************************************************************)
EXTENDS UPTimeSem, Json, IOUtils

Batch == ndJsonDeserialize(IOEnv.BATCH)
VARIABLES cid, pi
vars == <<cid, pi>>
Init == cid \in DOMAIN Batch /\ pi \in 0..Len(Batch[cid].plans)
Next == UNCHANGED vars
Spec == Init /\ [][Next]_vars

RA(c) == [P |-> Batch[c].A, keys |-> Batch[c].akeys]
RB(c) == [P |-> Batch[c].B, keys |-> Batch[c].bkeys]
KeySetA(c) == {Batch[c].akeys[i] : i \in DOMAIN Batch[c].akeys}
KeySetB(c) == {Batch[c].bkeys[i] : i \in DOMAIN Batch[c].bkeys}
SameKeys(c) == KeySetA(c) = KeySetB(c)
ToB(c, st) == [i \in DOMAIN Batch[c].bkeys |->
                 st[CHOOSE j \in DOMAIN Batch[c].akeys : Batch[c].akeys[j] = Batch[c].bkeys[i]]]
ToA(c, st) == [i \in DOMAIN Batch[c].akeys |->
                 st[CHOOSE j \in DOMAIN Batch[c].bkeys : Batch[c].bkeys[j] = Batch[c].akeys[i]]]
ObjSet(P) == {<<P.objects[i].name, P.objects[i].type>> : i \in DOMAIN P.objects}
ActNames(P) == {P.actions[i].name : i \in DOMAIN P.actions}
SameVal(x, y) == x.k = y.k /\ x = y

Fail(c, p, clause, detail) == PrintT(<<"FAIL", Batch[c].cid, p, clause, detail>>)
Tally(c, what) == PrintT(<<"T", Batch[c].cid, what>>)

\* ---------------------------------------------------------------------------
\* the three judging rules for exceptions
\* ---------------------------------------------------------------------------
WriterRejections == {"UPProblemDefinitionError", "UPTypeError", "UPUnreachableCodeError",
                     "UPUnsupportedProblemTypeError", "NotImplementedError"}
ConverterRejections == {"UPUnsupportedProblemTypeError"}

ExceptionRules(c) ==
   LET r == Batch[c] IN
   IF r.wexc # "none"
   THEN (IF r.wexc \in WriterRejections THEN Tally(c, "writer-rejects-" \o r.wexc)
         ELSE Fail(c, 0, "writer-raises-" \o r.wexc, ""))
   ELSE IF r.rexc = "none" THEN TRUE
   ELSE IF r.reader = "up" THEN Fail(c, 0, "up-reader-raises-" \o r.rexc, "")
   ELSE IF r.rexc = "PDDLMissingRequirementError" /\ r.stage = "parse-domain"
        THEN Fail(c, 0, "ai-reader-missing-requirement", "")
   ELSE IF r.stage = "convert" /\ r.rexc \notin ConverterRejections
        THEN Fail(c, 0, "ai-converter-raises-" \o r.rexc, "")
   ELSE Tally(c, "ai-reader-outside-common-fragment-" \o r.stage)

\* ---------------------------------------------------------------------------
\* SameTemporalStructure
\* ---------------------------------------------------------------------------
TTPlans(c) == {i \in DOMAIN Batch[c].plans : Batch[c].plans[i].kind = "tt"}
RunStates(R, plan) ==
   LET Ev  == Events(R.P, plan)
       H   == SortT({e.t : e \in Ev})
       run == RunFrom(R, Ev, H, 1, <<InitSt(R)>>)
   IN {run.S[j] : j \in DOMAIN run.S}
\* sample states of A (aligned with A's keys)
Samples(c) == {InitSt(RA(c))} \cup UNION {RunStates(RA(c), Batch[c].plans[i].steps) : i \in TTPlans(c)}

Zero(tm) == tm.delay.n = 0
\* the PDDL slots an interval covers; Shape = the interval is expressible at all
Shape(iv) == Zero(iv.lo) /\ Zero(iv.hi) /\ iv.lo.from \in {"start", "end"} /\ iv.hi.from \in {"start", "end"}
             /\ ~(iv.lo.from = "end" /\ iv.hi.from = "start")
Slots(iv) ==
   IF iv.lo.from = iv.hi.from THEN (IF iv.lopen \/ iv.ropen THEN {} ELSE {iv.lo.from})
   ELSE {"over"} \cup (IF iv.lopen THEN {} ELSE {"start"}) \cup (IF iv.ropen THEN {} ELSE {"end"})
SlotCond3(R, a, slot, s, env) ==
   All3({Cond3(R, a.conds[i].c, s, env) : i \in {j \in DOMAIN a.conds : slot \in Slots(a.conds[j].iv)}})
AllCond3(R, a, s, env) == All3({Cond3(R, a.conds[i].c, s, env) : i \in DOMAIN a.conds})

TKey(tm) == <<tm.from, TV(tm.delay)>>
EffTimings(a) == {TKey(a.effects[j].t) : j \in DOMAIN a.effects}
EffAt(R, a, tk, env, s) ==
   Combine(R, UNION {ExpandEff(R, a.effects[j].e, env, 1, j, s) :
                        j \in {i \in DOMAIN a.effects : TKey(a.effects[i].t) = tk}}, s)
\* timed effects of a problem: "start" and "gstart" both denote the absolute instant delay (UPTimeSem!AbsT)
TilAbs(tm) == tm.from \in {"start", "gstart"}
TilTimings(P) == {TV(P.timed_effects[j].t.delay) : j \in DOMAIN P.timed_effects}
TilAt(R, tk, s) ==
   Combine(R, UNION {ExpandEff(R, R.P.timed_effects[j].e, <<>>, 0, j, s) :
                        j \in {i \in DOMAIN R.P.timed_effects : TV(R.P.timed_effects[i].t.delay) = tk}}, s)
\* two Combine results (ca on A's keys, cb on B's keys) describe the same effect
SameCombine(c, ca, cb) == ca.unspec \/ cb.unspec \/ (ca.ok = cb.ok /\ (ca.ok => ToA(c, cb.s) = ca.s))

ParamTypes(a) == [i \in DOMAIN a.params |-> a.params[i].type]
Instances(P, a) == {[a |-> a.name, args |-> t] : t \in Tuples(P, a.params)}

DurativeSame(c, a, b, S) ==
   LET ra == RA(c)
       rb == RB(c)
   IN /\ ((a.dur.lopen = b.dur.lopen /\ a.dur.ropen = b.dur.ropen) \/ Fail(c, 0, "duration-openness-differs", a.name))
      /\ ((\A i \in DOMAIN b.conds : Shape(b.conds[i].iv)) \/ Fail(c, 0, "condition-interval-not-pddl-shaped", a.name))
      /\ ((EffTimings(b) \subseteq {<<"start", ZERO>>, <<"end", ZERO>>}) \/ Fail(c, 0, "effect-timing-not-pddl-shaped", a.name))
      /\ \A ga \in Instances(ra.P, a) : \A s \in S :
            LET ea == ParEnv(a, ga)
                eb == ParEnv(b, ga)
                sb == ToB(c, s)
            IN /\ (SameVal(Eval(ra, a.dur.lo, s, ea), Eval(rb, b.dur.lo, sb, eb)) \/ Fail(c, 0, "duration-lower-differs", a.name))
               /\ (SameVal(Eval(ra, a.dur.hi, s, ea), Eval(rb, b.dur.hi, sb, eb)) \/ Fail(c, 0, "duration-upper-differs", a.name))
               /\ \A slot \in {"start", "over", "end"} :
                     LET va == SlotCond3(ra, a, slot, s, ea)
                         vb == SlotCond3(rb, b, slot, sb, eb)
                     IN va = "?" \/ vb = "?" \/ va = vb
                        \/ Fail(c, 0, "condition-" \o slot \o "-A-" \o va \o "-B-" \o vb, a.name)
               /\ \A tk \in EffTimings(a) \cup EffTimings(b) :
                     SameCombine(c, EffAt(ra, a, tk, ea, s), EffAt(rb, b, tk, eb, sb))
                     \/ Fail(c, 0, "effects-at-" \o tk[1] \o "-differ", a.name)

InstantSame(c, a, S) ==
   \A ga \in Instances(RA(c).P, a) : \A s \in S :
      LET x == Step(RA(c), ga, s)
          y == Step(RB(c), ga, ToB(c, s))
      IN x.unspec \/ y.unspec
         \/ (x.ok = y.ok /\ (x.ok => ToA(c, y.s) = x.s))
         \/ Fail(c, 0, "instantaneous-step-A-" \o x.why \o "-B-" \o y.why, a.name)

\* rule (i): an action of A that B lacks must have a false condition on every sample
AbsentOK(c, a, S) ==
   \A ga \in Instances(RA(c).P, a) : \A s \in S :
      (IF a.kind = "dur" THEN AllCond3(RA(c), a, s, ParEnv(a, ga))
       ELSE All3({Cond3(RA(c), a.pre[i], s, ParEnv(a, ga)) : i \in DOMAIN a.pre})) = "F"

SameTemporalStructure(c) ==
   LET A == Batch[c].A
       B == Batch[c].B
   IN IF ~SameKeys(c) THEN Fail(c, 0, "ground-fluents-differ", "")
      ELSE IF ObjSet(A) # ObjSet(B) THEN Fail(c, 0, "objects-differ", "")
      ELSE
      LET S == Samples(c) IN
      /\ (ToA(c, InitSt(RB(c))) = InitSt(RA(c)) \/ Fail(c, 0, "initial-state-differs", ""))
      /\ (ActNames(B) \subseteq ActNames(A) \/ Fail(c, 0, "action-invented", ""))
      /\ \A i \in DOMAIN A.actions :
            LET a == A.actions[i] IN
            IF a.name \notin ActNames(B)
            THEN (AbsentOK(c, a, S) \/ Fail(c, 0, "action-lost", a.name))
            ELSE LET b == Act(B, a.name) IN
                 IF a.kind # b.kind \/ ParamTypes(a) # ParamTypes(b)
                 THEN Fail(c, 0, "action-signature-differs", a.name)
                 ELSE IF a.kind = "dur" THEN DurativeSame(c, a, b, S) ELSE InstantSame(c, a, S)
      /\ ((\A j \in DOMAIN B.timed_effects : TilAbs(B.timed_effects[j].t)) \/ Fail(c, 0, "til-timing-not-absolute", ""))
      /\ \A tk \in TilTimings(A) \cup TilTimings(B) : \A s \in S :
            SameCombine(c, TilAt(RA(c), tk, s), TilAt(RB(c), tk, ToB(c, s)))
            \/ Fail(c, 0, "timed-initial-literals-differ", ToString(tk.n) \o "/" \o ToString(tk.d))
      /\ (Len(B.timed_goals) = Len(A.timed_goals) \/ Fail(c, 0, "timed-goals-differ", ""))
      /\ (A.metric.kind = B.metric.kind \/ Fail(c, 0, "metric-kind-differs", A.metric.kind))
      /\ \A s \in S :
            LET g1 == Goal3(RA(c), s)
                g2 == Goal3(RB(c), ToB(c, s))
            IN g1 = "?" \/ g2 = "?" \/ g1 = g2 \/ Fail(c, 0, "goal-verdict-A-" \o g1 \o "-B-" \o g2, "")

JudgeRecord(c) ==
   /\ ExceptionRules(c)
   /\ (Batch[c].nmiss = 0 \/ Fail(c, 0, "reread-name-unknown-to-get_item_named", ""))
   /\ (Batch[c].hasB /\ Batch[c].temporal) => SameTemporalStructure(c)

\* ---------------------------------------------------------------------------
\* plan round trip
\* ---------------------------------------------------------------------------
Comparable(c) == SameKeys(c) /\ ObjSet(Batch[c].A) = ObjSet(Batch[c].B)
MKindOf(P) == IF P.metric.kind = "length" THEN "costs" ELSE P.metric.kind
\* metric value of a sequential plan; "length" is compared through its increments (PDDL renders it as unit costs)
MetricOf(R, plan, S) ==
   IF R.P.metric.kind = "length" THEN NV(Len(plan), 1) ELSE MetricValue(R.P.metric, R, plan, S)

JudgePlan(c, p) ==
   LET pr == Batch[c].plans[p]
       A  == Batch[c].A
       B  == Batch[c].B
       usesAbsent == \E i \in DOMAIN pr.steps : pr.steps[i].a \notin ActNames(B)
       va == IF pr.kind = "seq" THEN SeqVerdict(RA(c), pr.steps) ELSE TimeVerdict(RA(c), pr.steps)
   IN /\ (va.v # "VALID" \/ PrintT(<<"V", Batch[c].cid, p>>))
      /\ IF pr.wexc # "none" THEN Fail(c, p, "plan-writer-raises-" \o pr.wexc, pr.kind)
         ELSE IF usesAbsent
         THEN \* rule (i) for plans: the action is not in B, so the plan cannot be parsed against B; it must not be valid
              (va.v # "VALID" \/ Fail(c, p, "valid-plan-uses-action-absent-from-reread-problem", pr.kind))
              /\ (pr.vexc = "none" \/ Fail(c, p, "plan-parse-via-lookup-raises-" \o pr.vexc, pr.kind))
              /\ (pr.vexc # "none" \/ pr.via = pr.steps \/ Fail(c, p, "parsed-plan-via-lookup-differs", pr.kind))
         ELSE
         /\ (pr.bexc = "none" \/ Fail(c, p, "plan-parse-raises-" \o pr.bexc, pr.kind))
         /\ (pr.vexc = "none" \/ Fail(c, p, "plan-parse-via-lookup-raises-" \o pr.vexc, pr.kind))
         /\ (pr.bexc # "none" \/ pr.bkind = pr.kind \/ Fail(c, p, "parsed-plan-kind-" \o pr.bkind, pr.kind))
         /\ (pr.vexc # "none" \/ pr.vkind = pr.kind \/ Fail(c, p, "parsed-plan-via-lookup-kind-" \o pr.vkind, pr.kind))
         /\ (pr.bexc # "none" \/ pr.bkind # pr.kind \/ pr.back = pr.steps \/ Fail(c, p, "parsed-plan-differs", pr.kind))
         /\ (pr.vexc # "none" \/ pr.vkind # pr.kind \/ pr.via = pr.steps \/ Fail(c, p, "parsed-plan-via-lookup-differs", pr.kind))
         /\ IF pr.bexc # "none" \/ pr.bkind # pr.kind \/ pr.back # pr.steps \/ ~Comparable(c) THEN TRUE
            ELSE LET vb == IF pr.kind = "seq" THEN SeqVerdict(RB(c), pr.back) ELSE TimeVerdict(RB(c), pr.back) IN
                 IF va.v = "unspec" \/ vb.v = "unspec" THEN PrintT(<<"U", Batch[c].cid, p>>)
                 ELSE IF va.v # vb.v THEN Fail(c, p, "plan-validity-A-" \o va.v \o "-" \o va.why \o "-B-" \o vb.v \o "-" \o vb.why, pr.kind)
                 ELSE IF va.v = "VALID" /\ pr.kind = "seq" /\ MKindOf(A) = MKindOf(B) /\ MKindOf(A) # "none"
                 THEN LET ma == MetricOf(RA(c), pr.steps, va.S)
                          mb == MetricOf(RB(c), pr.back, vb.S)
                      IN ma.k = "u" \/ mb.k = "u" \/ SameVal(ma, mb) \/ Fail(c, p, "plan-metric-value-differs", A.metric.kind)
                 ELSE IF va.v = "VALID" /\ MKindOf(A) # MKindOf(B) THEN Fail(c, p, "metric-kind-differs", A.metric.kind)
                 ELSE TRUE

Judge == IF pi = 0 THEN JudgeRecord(cid)
         ELSE IF ~Batch[cid].hasB THEN TRUE
         ELSE JudgePlan(cid, pi)
=============================================================================
