----------------------------- MODULE SeqPlanObs -----------------------------
(***************************************************************************)
(* C03 judge: sequential plan validation decides validity and metric       *)
(* values exactly.  Every recorded (problem, plan, status, metric) of the  *)
(* real SequentialPlanValidator is one initial state; the verdict is       *)
(* UPSeqSem!SeqVerdict (fold of Step from the initial state, then Goal)    *)
(* and UPSeqSem!MetricValue.  Total verdicts:                              *)
(*    <<"FAIL", pid, plan index, clause>>   <<"U", pid, plan index>>         *)
(***************************************************************************)
EXTENDS UPSeqSem, Json, IOUtils

Batch == ndJsonDeserialize(IOEnv.BATCH)
VARIABLES pid, pi
vars == <<pid, pi>>
R(p) == [P |-> Batch[p].P, keys |-> Batch[p].keys]

Init == pid \in DOMAIN Batch /\ pi \in DOMAIN Batch[pid].plans
Next == UNCHANGED vars
Spec == Init /\ [][Next]_vars

\* the metric cannot be evaluated because it reads a fluent without a value (DESIGN.md 7.1-5: whether
\* such a plan is reported VALID without a value or INVALID is left open by the documentation)
MetricUndef(p, rec, S) ==
   LET m == Batch[p].P.metric
       last == S[Len(S)]
   IN CASE m.kind = "oversub" -> \E i \in DOMAIN m.goals : IsU(Eval(R(p), m.goals[i].g, last, <<>>))
        [] m.kind \in {"minfinal", "maxfinal"} -> IsU(Eval(R(p), m.expr, last, <<>>))
        [] m.kind = "costs" -> IsU(MetricValue(m, R(p), rec.steps, S))
        [] OTHER -> FALSE

Clause(p, rec) ==
   LET v == SeqVerdict(R(p), rec.steps) IN
   IF v.v = "unspec" THEN "U"
   ELSE IF v.v = "VALID" /\ MetricUndef(p, rec, v.S) THEN "U"
   ELSE IF rec.status \notin {"VALID", "INVALID"} THEN "raises-" \o rec.status \o "-spec-" \o v.v \o "-" \o v.why
   ELSE IF rec.status # v.v THEN "status-spec-" \o v.v \o "-" \o v.why \o "-impl-" \o rec.status
   ELSE IF v.v = "VALID" /\ Batch[p].P.metric.kind # "none"
        THEN LET mv == MetricValue(Batch[p].P.metric, R(p), rec.steps, v.S) IN
             IF mv.k = "u" THEN "U"
             ELSE IF rec.metric.k # "n" THEN "metric-missing-" \o Batch[p].P.metric.kind
             ELSE IF rec.metric # mv THEN "metric-" \o Batch[p].P.metric.kind
             ELSE ""
   ELSE ""

Judge == LET c == Clause(pid, Batch[pid].plans[pi]) IN
         IF c = "" THEN TRUE
         ELSE IF c = "U" THEN PrintT(<<"U", Batch[pid].pid, pi>>)
         ELSE PrintT(<<"FAIL", Batch[pid].pid, pi, c>>)
=============================================================================
