----------------------------- MODULE UPKindsEnum -----------------------------
(***************************************************************************)
(* G1 generator of C10: the table of (problem class, feature, syntactic    *)
(* position, variant) cases.  Every case is instantiated by the driver as  *)
(* one minimal problem built through the public API (harness/drivers/      *)
(* c10.py, instantiate()); the judge then checks that the projected        *)
(* problem exhibits the demand <<feat, pos>> of UPKinds (HIT / LOST) and   *)
(* that the computed kind honours it.                                      *)
(* A case is [grp, cls, feat, pos, var] (strings): feat is the label of    *)
(* the demand (a feature name, or "A+" for a two-way demand), pos its      *)
(* position name in UPKinds, var a '-' separated list of variant flags.    *)
(***************************************************************************)
EXTENDS UPKinds, Json, IOUtils, SequencesExt

Case(g, c, f, p, v) == [grp |-> g, cls |-> c, feat |-> f, pos |-> p, var |-> v]

\* ---------- conditions: feature x position x (top-level | nested) ----------
CondFeats == {"NEGATIVE_CONDITIONS", "DISJUNCTIVE_CONDITIONS", "EQUALITIES", "EXISTENTIAL_CONDITIONS", "UNIVERSAL_CONDITIONS"}
CondPos ==
   [classical |-> {"precondition", "durative-condition", "event-precondition", "process-precondition",
                   "action-effect-condition", "durative-action-effect-condition", "event-effect-condition",
                   "timed-effect-condition", "goal", "timed-goal", "state-invariant", "trajectory-constraint",
                   "oversubscription-goal", "temporal-oversubscription-goal"},
    htn |-> {"precondition", "goal", "method-precondition", "method-constraint", "task-network-constraint"},
    ma |-> {"precondition", "action-effect-condition", "durative-condition", "goal"},
    scheduling |-> {"durative-condition", "timed-goal", "durative-action-effect-condition", "timed-effect-condition"},
    contingent |-> {"precondition", "action-effect-condition", "goal"}]
Classes == DOMAIN CondPos
CondCases ==
   UNION {{Case("cond", c, f, p, v) : f \in CondFeats, p \in CondPos[c], v \in {"top", "nested"}} : c \in Classes}
   \cup {Case("cond", "ma", f, "agent-goal", v) : f \in CondFeats, v \in {"top-public", "nested-public", "top-private", "nested-private"}}
   \cup {Case("cond", "scheduling", f, "scheduling-constraint", v) : f \in CondFeats, v \in {"top-base", "nested-base", "top-activity", "nested-activity"}}

\* ---------- effects ----------
EffPos ==
   [classical |-> {"action-effect", "durative-action-effect", "event-effect", "timed-effect"},
    htn |-> {"action-effect"},
    ma |-> {"action-effect"},
    scheduling |-> {"durative-action-effect", "timed-effect"},
    contingent |-> {"action-effect"}]
EffCases ==
   UNION {{Case("effect", c, f, p, "") : f \in {"CONDITIONAL_EFFECTS", "FORALL_EFFECTS", "INCREASE_EFFECTS", "DECREASE_EFFECTS"}, p \in EffPos[c]} : c \in Classes}
   \cup {Case("effect", "classical", f, p, "") : f \in {"INCREASE_CONTINUOUS_EFFECTS", "DECREASE_CONTINUOUS_EFFECTS"}, p \in {"process-effect", "continuous-effect"}}
   \cup {Case("nonlinear", "classical", "NON_LINEAR_CONTINUOUS_EFFECTS", p, "same") : p \in {"process-effect", "continuous-effect"}}
   \cup {Case("nonlinear", "classical", "NON_LINEAR_CONTINUOUS_EFFECTS", p \o "-other-container", "cross") : p \in {"process-effect", "continuous-effect"}}

\* assignments whose value reads a fluent: X x (fluent changed somewhere | fluent never changed) x effect position x form
AssignCases ==
   UNION {{Case("assign", c, IF st = "dynamic" THEN "FLUENTS_IN_" \o X \o "_ASSIGNMENTS"
                             ELSE "STATIC_FLUENTS_IN_" \o X \o "_ASSIGNMENTS+",
                p \o "-value", "assign-" \o st)
           : X \in {"BOOLEAN", "NUMERIC", "OBJECT"}, st \in {"dynamic", "static"}, p \in EffPos[c]} : c \in Classes}
   \cup UNION {{Case("assign", c, IF st = "dynamic" THEN "FLUENTS_IN_NUMERIC_ASSIGNMENTS"
                                  ELSE "STATIC_FLUENTS_IN_NUMERIC_ASSIGNMENTS+",
                     p \o "-amount", k \o "-" \o st)
                : k \in {"inc", "dec"}, st \in {"dynamic", "static"}, p \in EffPos[c]} : c \in Classes}

\* ---------- class, typing, fluent types, parameters ----------
ClassCases ==
   {Case("class", "classical", "ACTION_BASED", "problem-class", ""), Case("class", "htn", "HIERARCHICAL", "problem-class", ""),
    Case("class", "contingent", "CONTINGENT", "problem-class", ""), Case("class", "contingent", "CONTINGENT", "problem-class", "sensing"), Case("class", "ma", "ACTION_BASED_MULTI_AGENT", "problem-class", ""),
    Case("class", "scheduling", "SCHEDULING", "problem-class", ""),
    Case("class", "classical", "CONTINGENT", "sensing-action", "")}
\* var = where the (only) use of the user type is
TypingFeats == {"FLAT_TYPING", "HIERARCHICAL_TYPING"}
TypingCases ==
   {Case("typing", c, f, "types:" \o u[2], u[1]) : c \in {"classical", "ma", "scheduling"}, f \in TypingFeats,
          u \in {<<"object", "o">>, <<"fluent-type", "f">>, <<"fluent-parameter", "p">>, <<"action-parameter", "a">>}}
   \cup {Case("typing", "htn", f, "types:" \o u[2], u[1]) : f \in TypingFeats, u \in {<<"object", "o">>, <<"task-parameter", "-">>, <<"method-parameter", "-">>}}
   \cup {Case("typing", "classical", f, "types:a", v) : f \in TypingFeats, v \in {"event-parameter", "process-parameter", "durative-action-parameter"}}
FluentCases ==
   UNION {{Case("fluent", c, f, "fluent-type", v) : f \in {"INT_FLUENTS", "REAL_FLUENTS", "OBJECT_FLUENTS"}, v \in {"used", "unused"}}
          \cup {Case("fluent", c, "BOUNDED_TYPES", "fluent-type", v) : v \in {"int-lo", "int-hi", "int-both", "real-both", "real-lo", "int-both-unused"}}
          \cup {Case("fluent", c, f, "fluent-parameter", "") : f \in {"BOOL_FLUENT_PARAMETERS", "BOUNDED_INT_FLUENT_PARAMETERS"}}
          : c \in {"classical", "ma", "scheduling"}}
ParamFeats == {"BOOL_ACTION_PARAMETERS", "BOUNDED_INT_ACTION_PARAMETERS", "UNBOUNDED_INT_ACTION_PARAMETERS", "REAL_ACTION_PARAMETERS"}
ParamCases ==
   {Case("param", "classical", f, p, v) : f \in ParamFeats, p \in {"action-parameter"}, v \in {"instantaneous", "durative"}}
   \cup {Case("param", "classical", f, p, "") : f \in ParamFeats, p \in {"event-parameter", "process-parameter"}}
   \cup {Case("param", c, f, "action-parameter", "instantaneous") : f \in ParamFeats, c \in {"ma", "htn", "contingent"}}
   \cup {Case("param", "scheduling", f, "action-parameter", "activity") : f \in ParamFeats}

\* ---------- time ----------
TimeModel == {"CONTINUOUS_TIME", "DISCRETE_TIME"}
TimeCases ==
   {Case("time", "classical", f, p, "") : f \in TimeModel, p \in {"durative-action", "timed-effect", "timed-goal"}}
   \cup {Case("time", "scheduling", f, "problem-class", "") : f \in TimeModel}
   \cup {Case("time", "ma", "CONTINUOUS_TIME", "durative-action", "")}
   \cup {Case("time", "classical", "TIMED_EFFECTS", "timed-effect", ""), Case("time", "classical", "TIMED_GOALS", "timed-goal", ""),
         Case("time", "scheduling", "TIMED_EFFECTS", "timed-effect", ""), Case("time", "scheduling", "TIMED_GOALS", "timed-goal", "")}
   \cup {Case("time", c, "SELF_OVERLAPPING", "time-model", v) : c \in {"classical"}, v \in {"durative-action", "timed-effect", "timed-goal"}}
   \cup {Case("time", c, "INTERMEDIATE_CONDITIONS_AND_EFFECTS", p, v) : c \in {"classical", "scheduling"},
             p \in {"durative-condition-interval", "durative-action-effect-timing"}, v \in {"start-plus", "end-minus"}}
   \cup {Case("time", "classical", "INTERMEDIATE_CONDITIONS_AND_EFFECTS", "durative-condition-interval", v) : v \in {"start-plus-upper", "end-minus-lower", "start-plus-point"}}
   \cup {Case("time", "classical", "INTERMEDIATE_CONDITIONS_AND_EFFECTS", "continuous-effect-interval", v) : v \in {"start-plus", "end-minus"}}
   \cup {Case("time", c, "EXTERNAL_CONDITIONS_AND_EFFECTS", p, v) : c \in {"classical", "scheduling"},
             p \in {"durative-condition-interval", "durative-action-effect-timing"}, v \in {"start-minus", "end-plus"}}
   \cup {Case("time", c, "DURATION_INEQUALITIES", "duration", v) : c \in {"classical", "scheduling"}, v \in {"constants", "fluent-upper", "open"}}
   \cup {Case("time", "classical", "PROCESSES", "process", ""), Case("time", "classical", "EVENTS", "event", "")}
DurationCases ==
   UNION {{Case("duration", c, "FLUENTS_IN_DURATIONS", "duration-" \o s \o "-bound", v) : s \in {"lower", "upper"}, v \in {"plain", "nested"}}
          \cup {Case("duration", c, "STATIC_FLUENTS_IN_DURATIONS+", "duration-" \o s \o "-bound", v) : s \in {"lower", "upper"}, v \in {"plain", "nested"}}
          \cup {Case("duration", c, f, "duration-" \o s \o "-bound", v) : f \in {"INT_TYPE_DURATIONS", "REAL_TYPE_DURATIONS"}, s \in {"lower", "upper"}, v \in {"constant", "fluent"}}
          \cup {Case("duration", c, "INT_TYPE_DURATIONS+", "duration-" \o s \o "-bound", "division") : s \in {"lower", "upper"}}
          : c \in {"classical", "scheduling"}}

\* ---------- metrics, constraints, initial state ----------
MetricCases ==
   {Case("metric", "classical", f, "metric", v) : f \in {"ACTIONS_COST", "PLAN_LENGTH", "MAKESPAN", "OVERSUBSCRIPTION", "TEMPORAL_OVERSUBSCRIPTION"}, v \in {"only", "second"}}
   \cup {Case("metric", "classical", "FINAL_VALUE", "metric", v) : v \in {"minimize", "maximize", "minimize-second"}}
   \cup {Case("metric", "htn", f, "metric", "only") : f \in {"ACTIONS_COST", "PLAN_LENGTH"}}
   \cup {Case("metric", "scheduling", "MAKESPAN", "metric", "only")}
   \cup {Case("metric", "classical", f, p, v) : f \in {"INT_NUMBERS_IN_ACTIONS_COST", "REAL_NUMBERS_IN_ACTIONS_COST"},
             p \in {"action-cost", "default-action-cost"}, v \in {"constant", "fluent"}}
   \cup {Case("metric", "classical", "INT_NUMBERS_IN_ACTIONS_COST+", p, "division") : p \in {"action-cost", "default-action-cost"}}
   \cup {Case("metric", "classical", f, p, "") : f \in {"FLUENTS_IN_ACTIONS_COST", "STATIC_FLUENTS_IN_ACTIONS_COST+"},
             p \in {"action-cost", "default-action-cost"}}
   \cup {Case("metric", "classical", f, p, "") : f \in {"INT_NUMBERS_IN_OVERSUBSCRIPTION", "REAL_NUMBERS_IN_OVERSUBSCRIPTION"},
             p \in {"oversubscription-gain", "temporal-oversubscription-gain"}}
ConstraintCases ==
   {Case("constraint", c, "STATE_INVARIANTS", "state-invariant", "plain") : c \in {"classical", "htn"}}
   \cup {Case("constraint", "classical", "STATE_INVARIANTS", "state-invariant-" \o v, v) : v \in {"in-and", "in-forall"}}
   \cup {Case("constraint", "classical", "TRAJECTORY_CONSTRAINTS", "trajectory-constraint", v) : v \in {"sometime", "amo", "sbefore", "safter", "in-and", "in-forall"}}
InitCases ==
   {Case("init", c, "UNDEFINED_INITIAL_NUMERIC", "initial-state", t \o "-" \o v) : c \in {"classical", "ma", "scheduling"}, t \in {"int", "real"}, v \in {"none", "partial"}}
   \cup {Case("init", c, "UNDEFINED_INITIAL_SYMBOLIC", "initial-state", t \o "-" \o v) : c \in {"classical", "ma", "scheduling"}, t \in {"bool", "object"}, v \in {"none", "partial"}}

\* ---------- class-specific features ----------
HtnCases ==
   {Case("htn", "htn", "METHOD_PRECONDITIONS", "method-precondition", ""),
    Case("htn", "htn", "TASK_NETWORK_CONSTRAINTS", "method-constraint", ""),
    Case("htn", "htn", "TASK_NETWORK_CONSTRAINTS", "task-network-constraint", ""),
    Case("htn", "htn", "INITIAL_TASK_NETWORK_VARIABLES", "task-network-variable", "")}
   \cup {Case("htn", "htn", "TASK_ORDER_TEMPORAL", "task-order", w \o "-" \o v) : w \in {"net", "method"}, v \in {"delay", "start-start", "le"}}
   \cup {Case("htn", "htn", "TASK_ORDER_PARTIAL+", "task-order", w \o "-" \o v) : w \in {"net", "method"}, v \in {"unordered", "fork", "cycle"}}
   \cup {Case("htn", "htn", "TASK_ORDER_TOTAL+", "task-order", v) : v \in {"chain", "single", "empty", "redundant"}}
AgentCases ==
   {Case("ma", "ma", "AGENT_SPECIFIC_PUBLIC_GOAL", "agent-goal", ""), Case("ma", "ma", "AGENT_SPECIFIC_PRIVATE_GOAL", "agent-goal", "")}
SchedCases ==
   {Case("sched", "scheduling", "OPTIONAL_ACTIVITIES", "activity", ""),
    Case("sched", "scheduling", "SCOPED_CONSTRAINTS", "scheduling-constraint", "base"),
    Case("sched", "scheduling", "SCOPED_CONSTRAINTS", "scheduling-constraint", "activity")}
SimCases ==
   {Case("sim", "classical", "SIMULATED_EFFECTS", "action", v) : v \in {"instantaneous", "durative"}}
   \cup {Case("sim", "classical", "SIMULATED_EFFECTS", "event", "")}
IfunCases ==
   {Case("ifun", "classical", "INTERPRETED_FUNCTIONS_IN_CONDITIONS", p, "") : p \in {"precondition", "goal", "durative-condition", "action-effect-condition"}}
   \cup {Case("ifun", "classical", "INTERPRETED_FUNCTIONS_IN_DURATIONS", "duration-" \o s \o "-bound", "") : s \in {"lower", "upper"}}
   \cup {Case("ifun", "classical", "INTERPRETED_FUNCTIONS_IN_" \o X \o "_ASSIGNMENTS", p \o "-value", "") :
             X \in {"BOOLEAN", "NUMERIC"}, p \in {"action-effect", "durative-action-effect"}}

Cases == CondCases \cup EffCases \cup AssignCases \cup ClassCases \cup TypingCases \cup FluentCases \cup ParamCases
         \cup TimeCases \cup DurationCases \cup MetricCases \cup ConstraintCases \cup InitCases \cup HtnCases
         \cup AgentCases \cup SchedCases \cup SimCases \cup IfunCases

\* every singleton feature and every choice label of the extractor has a case, and no case names anything else
\* (INTERPRETED_FUNCTIONS_IN_OBJECT_ASSIGNMENTS cannot be built: interpreted functions return bool / int / real)
Labels == {c.feat : c \in Cases}
ASSUME Labels \subseteq SpecFeatures \cup SpecChoices
ASSUME PrintT(<<"UNCOVERED", (SpecFeatures \cup SpecChoices) \ Labels>>)
ASSUME (SpecFeatures \cup SpecChoices) \ Labels \subseteq {"INTERPRETED_FUNCTIONS_IN_OBJECT_ASSIGNMENTS"}
ASSUME ndJsonSerialize(IOEnv.OUT, SetToSeq(Cases))
ASSUME PrintT(<<"EMITTED", Cardinality(Cases)>>)
VARIABLE dummy
Init == dummy = 0
Next == UNCHANGED dummy
=============================================================================
