------------------- MODULE ProblemKindLatticeUpgradeTables -------------------
(***************************************************************************)
(* The version tables of problem_kind_versioning for the cover stage       *)
(* (ProblemKindLatticeUpgrade), read from IOEnv.TABLES.  Same content as   *)
(* ProblemKindLatticeTables, for a universe of up to 16 features:          *)
(*   {"nf":15,"latest":3,"added":[..],"depr":[..],                         *)
(*    "upm":[[ mask of upgrade_v(mask) : mask 0..2^nf-1 ] : v],            *)
(*    "upx":[[ #result features outside the universe : mask ] : v],        *)
(*    "cover":[[ features the enumerated kinds of version v are made of ]  *)
(*             : v],                                                       *)
(*    "hasobs":0/1, "obs":[[[ [status, results..] : g in cover[v] ]        *)
(*             : subset of cover[v], numbered as a mask over cover[v] ]:v]}*)
(* Feature sets travel as bit masks (bit i-1 = feature i).  The upgrade    *)
(* functions are NOT tabulated as TLA+ functions over all subsets (2^16    *)
(* records): Up[v][F] decodes the row of F when it is applied.             *)
(* This module must be EXTENDed before ProblemKindLattice: TLC evaluates   *)
(* the constant definitions in that order, and a definition that is not    *)
(* evaluated yet is re-evaluated (here: the file re-read) on every use.    *)
(***************************************************************************)
EXTENDS Integers, Sequences, FiniteSets, TLC, Json, IOUtils

CTab       == JsonDeserialize(IOEnv.TABLES)
CTabNF     == CTab.nf
CTabLatest == CTab.latest
CTabFeat   == 1..CTabNF
CTabAdded  == TLCEval([f \in CTabFeat |-> CTab.added[f]])
CTabDepr   == TLCEval([f \in CTabFeat |-> CTab.depr[f]])
CTabSteps  == 1..(CTabLatest - 1)

CPow2     == TLCEval([i \in 0..CTabNF |-> 2 ^ i])
CBit(m, i) == (m \div CPow2[i - 1]) % 2 = 1
CSetOfMask(m) == {i \in CTabFeat : CBit(m, i)}
RECURSIVE CMaskOf(_)
CMaskOf(F) == IF F = {} THEN 0 ELSE LET i == CHOOSE i \in F : TRUE IN CPow2[i - 1] + CMaskOf(F \ {i})
CSeqSet(s) == {s[i] : i \in DOMAIN s}

CTabUpM   == TLCEval([v \in CTabSteps |-> CTab.upm[v]])
CTabUpX   == TLCEval([v \in CTabSteps |-> CTab.upx[v]])
\* applied lazily (function constructors without TLCEval): one row is decoded per application
CTabUp    == [v \in CTabSteps |-> [F \in SUBSET CTabFeat |-> CSetOfMask(CTabUpM[v][CMaskOf(F) + 1])]]
CTabUpOut == [v \in CTabSteps |-> [F \in SUBSET CTabFeat |-> CTabUpX[v][CMaskOf(F) + 1]]]
CTabCoverSeq == TLCEval([v \in CTabSteps |-> CTab.cover[v]])
CTabCover == TLCEval([v \in CTabSteps |-> CSeqSet(CTabCoverSeq[v])])
\* results recorded on real objects for every covering pair (hasobs = 1), see ProblemKindLatticeUpgrade
CTabHasObs == CTab.hasobs = 1
CTabObs    == CTab.obs

\* shape of the file (a malformed file is a machinery failure, not a verdict)
ASSUME /\ CTabNF \in 1..16 /\ CTabLatest \in 2..8
       /\ Len(CTab.added) = CTabNF /\ Len(CTab.depr) = CTabNF
       /\ \A f \in CTabFeat : CTabAdded[f] \in 1..CTabLatest /\ CTabDepr[f] \in 0..(CTabLatest + 1)
       /\ Len(CTab.upm) = CTabLatest - 1 /\ Len(CTab.upx) = CTabLatest - 1 /\ Len(CTab.cover) = CTabLatest - 1
       /\ \A v \in CTabSteps : /\ Len(CTabUpM[v]) = 2 ^ CTabNF /\ Len(CTabUpX[v]) = 2 ^ CTabNF
                               /\ CTabCover[v] \subseteq {f \in CTabFeat : CTabAdded[f] <= v}
                               /\ Cardinality(CTabCover[v]) = Len(CTabCoverSeq[v])
       /\ CTab.hasobs \in {0, 1}
       /\ CTabHasObs => /\ Len(CTabObs) = CTabLatest - 1
                        /\ \A v \in CTabSteps : /\ Len(CTabObs[v]) = 2 ^ Len(CTabCoverSeq[v])
                                                 /\ \A k \in DOMAIN CTabObs[v] : Len(CTabObs[v][k]) = Len(CTabCoverSeq[v])
=============================================================================
