---------------------------- MODULE TypeInferEnum ----------------------------
(***************************************************************************)
(* G1 generator for C15.  TLC enumerates, as ndjson files:                 *)
(*   OUT_DECL  the declarations (TypeInfer!Decl) the driver builds in every *)
(*             fresh Environment                                            *)
(*   OUT_NUM   numeric expressions: leaves, every binary + - * / over the   *)
(*             leaf menu L1 (g = "d1"), depth 2 as op(d1, leaf) and         *)
(*             op(leaf, d1) over L2 (g = "d2"), op(d1, d1) over L3          *)
(*             (g = "d2b"), ternary Plus / Times over L2 (g = "n3").        *)
(*             A divisor whose reference type is the point 0 is excluded    *)
(*             (the property speaks of division by non-zero constants).     *)
(*   OUT_EXACT Boolean and user-typed expressions                           *)
(*   OUT_EQ    ALL ordered pairs <<i, j>> of the operand menu EqOps         *)
(*   OUT_BIG   numeric expressions with constants beyond 2^53 / 10^30 /     *)
(*             the float range (BigArith limb form)                         *)
(***************************************************************************)
EXTENDS TypeInfer, Json, IOUtils

CONSTANTS L1F, L1C, L2F, L2C, L3F, L3C

Consts == << Z(0), Z(1), Z(2), Z(3), Z(0 - 1), Z(0 - 2),
             NV(1, 3), NV(2, 3), NV(0 - 1, 3), NV(3, 2), NV(0 - 5, 2) >>

Mk(op, args, name, v, vars) == [op |-> op, args |-> args, name |-> name, v |-> v, vars |-> vars]
FlE(n) == Mk("fluent", <<>>, n, UNDEF, <<>>)
CE(v) == Mk("const", <<>>, "", v, <<>>)
ObjE(n) == Mk("obj", <<>>, n, UNDEF, <<>>)
ParE(n) == Mk("param", <<>>, n, UNDEF, <<>>)
VarE(n) == Mk("var", <<>>, n, UNDEF, <<>>)
TimE == Mk("timing", <<>>, "start", UNDEF, <<>>)
FlA(n, as) == Mk("fluent", as, n, UNDEF, <<>>)
Un(op, a) == Mk(op, <<a>>, "", UNDEF, <<>>)
Bin(op, a, b) == Mk(op, <<a, b>>, "", UNDEF, <<>>)
Nary(op, as) == Mk(op, as, "", UNDEF, <<>>)
Quant(op, vs, body) == Mk(op, <<body>>, "", UNDEF, vs)

Lv(F, C) == {FlE(n) : n \in F} \cup {CE(Consts[i]) : i \in C}
BinOps == {"plus", "minus", "times", "div"}
ZeroPoint(t) == t.lo.k = "n" /\ t.hi.k = "n" /\ t.lo.n = 0 /\ t.hi.n = 0
DivOK(e) == e.op = "div" => ~ZeroPoint(TypeRef(Decl, e.args[2], <<>>))

D1(L) == {e \in {Bin(op, a, b) : op \in BinOps, a \in L, b \in L} : DivOK(e)}
D2a(S, L) == {e \in {Bin(op, a, l) : op \in BinOps, a \in S, l \in L}
                    \cup {Bin(op, l, a) : op \in BinOps, a \in S, l \in L} : DivOK(e)}
D2b(S) == {e \in {Bin(op, a, b) : op \in BinOps, a \in S, b \in S} : DivOK(e)}
N3(L) == {Nary(op, <<a, b, c>>) : op \in {"plus", "times"}, a \in L, b \in L, c \in L}

Tag(g, S) == {[g |-> g, e |-> e] : e \in S}
NumCases ==
   LET L1 == Lv(L1F, L1C)  L2 == Lv(L2F, L2C)  L3 == Lv(L3F, L3C) IN
   Tag("leaf", L1) \cup Tag("d1", D1(L1)) \cup Tag("d2", D2a(D1(L2), L2))
   \cup Tag("d2b", D2b(D1(L3))) \cup Tag("n3", N3(L2))

\* ---------- Boolean and user-typed expressions ----------
BoolLeaves == {FlE("b"), FlE("c"), CE(BV(TRUE)), CE(BV(FALSE)), ParE("pb")}
NumSmall == {FlE("ib"), FlE("ru"), FlE("rl"), CE(Z(3)), CE(NV(1, 3)), ParE("pi"), Bin("plus", FlE("iu"), CE(Z(1)))}
UserLeaves == {FlE("fT"), FlE("f1"), FlE("f2"), FlE("f11"), FlE("fU"),
               ObjE("oT"), ObjE("o1"), ObjE("o2"), ObjE("o11"), ObjE("oU"), ParE("pT"), ParE("pU")}
Rels == {Bin(op, a, b) : op \in {"le", "lt", "eq"}, a \in NumSmall, b \in NumSmall}
EqU == {e \in {Bin("eq", a, b) : a \in UserLeaves, b \in UserLeaves} : TypeRef(Decl, e, <<>>).k = "bool"}
BSmall == {FlE("b"), CE(BV(TRUE)), ParE("pb"), Bin("le", FlE("ib"), CE(Z(3))),
           Bin("eq", FlE("fT"), ObjE("o1")), Un("not", FlE("c"))}
Conn == {Un("not", a) : a \in BSmall}
        \cup {Bin(op, a, b) : op \in {"and", "or", "implies", "iff"}, a \in BSmall, b \in BSmall}
        \cup {Nary(op, <<a, FlE("c"), b>>) : op \in {"and", "or"}, a \in BSmall, b \in BSmall}
Quants == {Quant(q, << [name |-> "v", type |-> TUser("T1")] >>, Bin("eq", FlE("fT"), VarE("v"))) : q \in {"exists", "forall"}}
          \cup {Quant(q, << [name |-> "v", type |-> TI(Z(0), Z(3))] >>, Bin("le", VarE("v"), FlE("ib"))) : q \in {"exists", "forall"}}
          \cup {Quant("forall", << [name |-> "v", type |-> TUser("T")], [name |-> "w", type |-> TUser("T2")] >>,
                      Bin("or", Bin("eq", VarE("v"), VarE("w")), FlE("b")))}
\* fluent applications: the argument may be of a sub-type of the parameter's type
Apps == {FlA("gT", <<a>>) : a \in {ObjE("oT"), ObjE("o1"), ObjE("o2"), ObjE("o11"), FlE("fT"), FlE("f2"), FlE("f11"), ParE("pT")}}
        \cup {FlA("hI", <<a>>) : a \in {CE(Z(3)), CE(Z(0)), ParE("pi"), FlE("iz"), FlE("ibp")}}
        \cup {Bin("eq", FlA("gT", <<ObjE("o11")>>), ObjE("o2")), Un("not", FlA("hI", <<CE(Z(5))>>)),
               FlA("gT", <<FlA("gT", <<ObjE("o1")>>)>>)}
ExactCases == Tag("app", Apps) \cup Tag("leaf", UserLeaves \cup BoolLeaves) \cup Tag("rel", Rels \cup EqU) \cup Tag("conn", Conn \cup Quants)

\* ---------- operands of the equality pairs ----------
EqOps == << FlE("b"), CE(BV(TRUE)), Un("not", FlE("c")), Bin("le", FlE("ib"), CE(Z(3))), ParE("pb"),
            FlE("iu"), FlE("il"), FlE("ih"), FlE("ib"), CE(Z(3)), CE(Z(0 - 2)), CE(Z(0)),
            Bin("plus", FlE("ib"), CE(Z(1))), ParE("pi"),
            FlE("ru"), FlE("rl"), FlE("rh"), FlE("rb"), CE(NV(1, 3)), CE(NV(0 - 5, 2)),
            Bin("times", FlE("rb"), CE(Z(2))), Bin("div", FlE("ib"), CE(Z(2))),
            FlE("fT"), FlE("f1"), FlE("f2"), FlE("f11"), FlE("fU"),
            ObjE("oT"), ObjE("o1"), ObjE("o2"), ObjE("o11"), ObjE("oU"), ParE("pT"), ParE("pU"),
            TimE >>
EqCases == {[i |-> i, j |-> j, e |-> Bin("eq", EqOps[i], EqOps[j])] : i \in DOMAIN EqOps, j \in DOMAIN EqOps}

\* ---------- constants of any magnitude ----------
BN(s, n, d) == [k |-> "N", s |-> s, n |-> n, d |-> d]
P10(k) == B!NPow(<<10>>, k)
BigC == { BN(1, B!NAdd(B!NPow(<<2>>, 53), <<1>>), <<1>>),        \* 2^53 + 1
          BN(0 - 1, B!NAdd(P10(18), <<1>>), <<1>>),              \* -(10^18 + 1)
          BN(1, P10(30), <<1>>),                                 \* 10^30
          BN(1, B!NAdd(P10(20), <<1>>), <<3>>),                  \* (10^20 + 1) / 3
          BN(0 - 1, <<1>>, P10(20)) }                            \* -10^-20
Huge == BN(1, [i \in 1..80 |-> 0] \o <<1>>, <<1>>)                 \* 10^320 (Base = 10^4): beyond the float range
BigL == {FlE("ib"), FlE("iu"), FlE("il"), FlE("rb"), FlE("rh"), CE(Z(3)), CE(Z(1)), CE(NV(1, 3)), CE(Z(0 - 2))}
IsConstE(e) == e.op = "const"
BigCases ==
   Tag("const", {CE(c) : c \in BigC \cup {Huge}})
   \cup Tag("big1", {e \in {Bin(op, CE(c), l) : op \in BinOps, c \in BigC, l \in BigL} :
                        e.op # "div" \/ IsConstE(e.args[2])})
   \cup Tag("big1", {Bin(op, l, CE(c)) : op \in BinOps, c \in BigC, l \in BigL})
   \cup Tag("big2", {Bin(op, CE(c), CE(d)) : op \in BinOps, c \in BigC, d \in BigC})
   \cup Tag("huge", {Bin(op, CE(Huge), l) : op \in BinOps, l \in {CE(Z(3)), CE(NV(1, 3))}})
   \cup Tag("huge", {Bin(op, CE(Huge), FlE(f)) : op \in {"plus", "minus", "times"}, f \in {"iu", "iz"}})
   \cup Tag("huge", {Bin(op, FlE(f), CE(Huge)) : op \in {"plus", "minus", "times"}, f \in {"iu", "iz"}})
   \cup Tag("huge", {Bin("times", FlE("rb"), CE(Huge)), Bin("times", CE(Huge), FlE("rb"))})

ASSUME ndJsonSerialize(IOEnv.OUT_DECL, <<Decl>>)
ASSUME ndJsonSerialize(IOEnv.OUT_NUM, SX!SetToSeq(NumCases))
ASSUME ndJsonSerialize(IOEnv.OUT_EXACT, SX!SetToSeq(ExactCases))
ASSUME ndJsonSerialize(IOEnv.OUT_EQ, SX!SetToSeq(EqCases))
ASSUME ndJsonSerialize(IOEnv.OUT_BIG, SX!SetToSeq(BigCases))
ASSUME PrintT(<<"EMITTED", Cardinality(NumCases), Cardinality(ExactCases), Cardinality(EqCases), Cardinality(BigCases)>>)

VARIABLE dummy
Init == dummy = 0
Next == UNCHANGED dummy
=============================================================================
