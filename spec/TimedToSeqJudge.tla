--------------------------- MODULE TimedToSeqJudge ---------------------------
(***************************************************************************)
(* C28: every sequential plan that is valid for the compiled              *)
(* (timed-to-sequential) problem Q converts back into a time-triggered     *)
(* plan that is valid for the original durative problem P.                 *)
(* One record = (P, Q, compiled plan pi, converted-back plan tau or the    *)
(* exception class).  Verdicts by the two reference semantics:             *)
(*    SeqVerdict(Q, pi) = VALID  =>  conversion does not raise and         *)
(*                                   TimeVerdict(P, tau) = VALID           *)
(* with a finer clause that tells a duration outside its (possibly open)   *)
(* interval from a violated condition.                                     *)
(***************************************************************************)
EXTENDS UPTimeSem, Json, IOUtils

Batch == ndJsonDeserialize(IOEnv.BATCH)
VARIABLES cid, pi
vars == <<cid, pi>>
RP(c) == [P |-> Batch[c].P, keys |-> Batch[c].pkeys]
RQ(c) == [P |-> Batch[c].Q, keys |-> Batch[c].qkeys]
Init == cid \in DOMAIN Batch /\ pi \in DOMAIN Batch[cid].plans
Next == UNCHANGED vars
Spec == Init /\ [][Next]_vars

\* duration clause alone, evaluated in the state observable at the step's start
DurationsOK(R, plan) ==
   LET P  == R.P
       Ev == Events(P, plan)
       H  == SortT({e.t : e \in Ev})
       run == RunFrom(R, Ev, H, 1, <<InitSt(R)>>)
   IN IF ~run.ok THEN "?"
      ELSE All3({IF Act(P, plan[i].a).kind = "dur"
                 THEN DurCheck(R, H, run.S, plan[i], Act(P, plan[i].a), ParEnv(Act(P, plan[i].a), plan[i]))
                 ELSE "T" : i \in DOMAIN plan})

\* some durative step whose duration interval, evaluated in the state in which it starts, is empty
\* (lo > hi, or lo = hi with an open side): no duration can be valid for it
EmptyInterval(R, plan) ==
   LET P  == R.P
       Ev == Events(P, plan)
       H  == SortT({e.t : e \in Ev})
       run == RunFrom(R, Ev, H, 1, <<InitSt(R)>>)
   IN run.ok /\ \E i \in DOMAIN plan :
        LET a == Act(P, plan[i].a) IN
        a.kind = "dur" /\
        LET env == ParEnv(a, plan[i])
            s  == run.S[Idx(H, TV(plan[i].t)) + 1]
            lo == Eval(R, a.dur.lo, s, env)
            hi == Eval(R, a.dur.hi, s, env)
        IN ~IsU(lo) /\ ~IsU(hi) /\ (RLt(hi, lo) \/ (lo = hi /\ (a.dur.lopen \/ a.dur.ropen)))

Clause(c, rec) ==
   LET sv == SeqVerdict(RQ(c), rec.pi) IN
   IF sv.v = "unspec" THEN "U"
   ELSE IF sv.v # "VALID" THEN "-"                     \* not a valid compiled plan: nothing to show
   ELSE IF rec.exc # "none" THEN "back-conversion-raises-" \o rec.exc
   ELSE LET tv == TimeVerdict(RP(c), rec.tau) IN
        IF tv.v = "unspec" THEN "U"
        ELSE IF tv.v = "VALID" THEN ""
        ELSE IF tv.why = "steps" /\ DurationsOK(RP(c), rec.tau) = "F"
             THEN (IF EmptyInterval(RP(c), rec.tau) THEN "converted-plan-duration-interval-empty"
                   ELSE "converted-plan-duration-outside-interval")
        ELSE "converted-plan-INVALID-" \o tv.why

Judge == LET x == Clause(cid, Batch[cid].plans[pi]) IN
         IF x = "" THEN TRUE
         ELSE IF x = "-" THEN PrintT(<<"N", Batch[cid].cid, pi>>)
         ELSE IF x = "U" THEN PrintT(<<"U", Batch[cid].cid, pi>>)
         ELSE PrintT(<<"FAIL", Batch[cid].cid, pi, x>>)
=============================================================================
