----------------------------- MODULE TypeInferObs -----------------------------
(***************************************************************************)
(* C15 judge.  Every record of IOEnv.OBS is one construction performed on  *)
(* a FRESH Environment of the real library, projected to JSON:             *)
(*   fam   "num" | "exact" | "eq" | "big"                                  *)
(*   id    case number;  i, j  operand indices (family "eq", else 0);       *)
(*         m  position in OBS of the record of Equals(b, a) (family "eq")   *)
(*   e     the expression (projected from the FNode that was built; the     *)
(*         enumerated description when the construction was rejected)       *)
(*   ok    the construction returned;  exc  exception class ("" if ok)      *)
(*   t     FNode.type   t2  env.type_checker.get_type(node)                 *)
(*   ts    the .type of every sub-term in preorder (ts[1] = t)              *)
(* With MODE = "self" the recorded types are ignored and replaced by the    *)
(* reference TypeRef: the reference itself must pass the judge (T1).        *)
(*                                                                         *)
(* Verdicts are total: Verdict is always TRUE and prints                    *)
(*   <<"FAIL", id, clause, feature, qualifier, witness n, witness d>>       *)
(*   <<"INFO", id, relation to TypeRef>>   (numeric roots, when not exact)  *)
(*   <<"U", id>>                           (reference silent: time operands)*)
(* The states form a tree root -> blocks -> cases so that the cases are     *)
(* judged by all workers.                                                   *)
(***************************************************************************)
EXTENDS TypeInfer, Json, IOUtils

Obs == ndJsonDeserialize(IOEnv.OBS)
Mode == IOEnv.MODE
N == Len(Obs)
BS == 32
NB == (N + BS - 1) \div BS

VARIABLES lvl, k
vars == <<lvl, k>>
Init == lvl = 0 /\ k = 0
Next == \/ lvl = 0 /\ lvl' = 1 /\ k' \in 1..NB
        \/ lvl = 1 /\ lvl' = 2 /\ k' \in {x \in ((k - 1) * BS + 1)..(k * BS) : x <= N}
Spec == Init /\ [][Next]_vars

Fail(o, clause, feat, qual, w) == PrintT(<<"FAIL", o.id, clause, feat, qual, w.n, w.d>>)

\* the recorded types (or, in self mode, the reference types) of all sub-terms in preorder
RECURSIVE RefTsV(_,_)
RefTsV(e, vt) ==
   LET vt2 == IF e.op \in {"exists", "forall"}
              THEN [n \in {e.vars[i].name : i \in DOMAIN e.vars} |->
                      e.vars[CHOOSE i \in DOMAIN e.vars : e.vars[i].name = n].type] @@ vt
              ELSE vt
       RECURSIVE C(_) C(i) == IF i > Len(e.args) THEN <<>> ELSE RefTsV(e.args[i], vt2) \o C(i + 1)
   IN <<TypeRef(Decl, e, vt)>> \o C(1)
RefTs(e) == RefTsV(e, <<>>)
TsOf(o) == IF Mode = "self" THEN RefTs(o.e) ELSE o.ts

Accepted(o) == o.ok \/ Fail(o, "Accept", Feature(o.e, RefTs(o.e)), o.exc, ZERO)

\* ---------- numeric expressions: soundness on the grid ----------
JudgeNum(o) ==
   IF ~o.ok /\ Mode # "self" THEN Accepted(o)
   ELSE LET ts == TsOf(o)
            t == ts[1]
            bl == Blame(Decl, o.e, ts)
            hv == HullViol(Decl, o.e, t)
            rel == RefRel(t, TypeRef(Decl, o.e, <<>>))
        IN /\ \A b \in bl : Fail(o, b[1], b[2], b[3], b[4])
           /\ \A h \in hv : Fail(o, h, Feature(o.e, ts), "-", ZERO)
           /\ (Len(ts) = Size(o.e) \/ Fail(o, "Shape", o.e.op, "-", ZERO))
           /\ (Mode = "self" \/ o.t2 = t \/ Fail(o, "EntryPoints", o.e.op, "-", ZERO))
           /\ (rel = "exact" \/ PrintT(<<"INFO", o.id, rel>>))

\* ---------- Boolean and user-typed expressions get exactly their type ----------
JudgeExact(o) ==
   IF ~o.ok THEN Accepted(o)
   ELSE LET r == TypeRef(Decl, o.e, <<>>) IN
        /\ ((o.t.k = r.k /\ o.t.name = r.name) \/ Fail(o, "Exact", r.k, o.t.k, ZERO))
        /\ (o.t2 = o.t \/ Fail(o, "EntryPoints", o.e.op, "-", ZERO))

\* ---------- equality: accepted iff the mirrored equality is accepted ----------
PairFeat(ta, tb) == ta.k \o "," \o tb.k \o
   (IF ta.k = "user" /\ tb.k = "user"
    THEN (IF Related(Decl, ta.name, tb.name) THEN ":related" ELSE ":unrelated") ELSE "")
JudgeEq(o) ==
   LET ta == TypeRef(Decl, o.e.args[1], <<>>)
       tb == TypeRef(Decl, o.e.args[2], <<>>)
       m == Obs[o.m]      \* the record of the mirrored construction (position given by the driver, checked here)
       wf == EqWellFormed(Decl, ta, tb)
   IN /\ ((m.fam = "eq" /\ m.i = o.j /\ m.j = o.i) \/ Fail(o, "Mirror", "-", "-", ZERO))
      \* reported once per unordered pair, on the accepted orientation
      /\ (~(o.ok /\ ~m.ok) \/ Fail(o, "EqSym", PairFeat(ta, tb), m.exc, ZERO))
      /\ (IF ~EqSpecified(ta, tb) THEN PrintT(<<"U", o.id>>)
          ELSE o.ok = wf \/ Fail(o, "EqRef", PairFeat(ta, tb), IF o.ok THEN "accepted" ELSE "rejected", ZERO))
      /\ (~o.ok \/ o.t.k = "bool" \/ Fail(o, "Exact", "bool", o.t.k, ZERO))

\* ---------- constants of any magnitude ----------
JudgeBig(o) ==
   IF ~o.ok THEN Accepted(o)
   ELSE LET bv == BigViol(Decl, o.e, o.t) IN
        \A b \in bv : Fail(o, b[1], Feature(o.e, o.ts), b[2], ZERO)

Judge(o) == CASE o.fam = "num" -> JudgeNum(o)
              [] o.fam = "exact" -> JudgeExact(o)
              [] o.fam = "eq" -> JudgeEq(o)
              [] o.fam = "big" -> JudgeBig(o)

Verdict == lvl = 2 => Judge(Obs[k])
=============================================================================
